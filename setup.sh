#!/bin/sh
# setup_cmd: builds everything the checks need, offline, from files on disk only.
set -e
cd "$(dirname "$0")"
export CARGO_NET_OFFLINE=true
python3 -m vlib.srcgen
python3 vlib/build.py all
