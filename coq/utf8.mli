
val negb : bool -> bool

val fst : ('a1 * 'a2) -> 'a1

val snd : ('a1 * 'a2) -> 'a2

val app : 'a1 list -> 'a1 list -> 'a1 list

type comparison =
| Eq
| Lt
| Gt

type positive =
| XI of positive
| XO of positive
| XH

type n =
| N0
| Npos of positive

module Pos :
 sig
  val compare_cont : comparison -> positive -> positive -> comparison

  val compare : positive -> positive -> comparison

  val eqb : positive -> positive -> bool
 end

module N :
 sig
  val compare : n -> n -> comparison

  val eqb : n -> n -> bool

  val leb : n -> n -> bool

  val ltb : n -> n -> bool
 end

type bytes = n list

val cont : n -> bool

val inr : n -> n -> n -> bool

val ok3 : n -> n -> bool

val ok4 : n -> n -> bool

val width : n -> n

val fFFD : bytes

val lossy : bytes -> bytes * bool

val from_utf8_lossy : bytes -> bytes

val utf8_valid : bytes -> bool
