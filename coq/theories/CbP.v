(* Proofs for C07 / C08 / C09 / C16 on the composed model: instances of the generic Utxo / Merkle theorems for the callbacks of Model.v *)
From RBP Require Import Bytes Hashes Wire Block Render Index Model.
From RBP Require Utxo Merkle Misc.

Lemma beqb_spec a b : reflect (a = b) (beqb a b).
Proof.
  revert b. induction a as [|x a IH]; intros [|y b]; cbn; try (constructor; congruence).
  destruct (N.eqb_spec x y) as [->|Hne]; cbn; [|constructor; congruence].
  destruct (IH b) as [->|Hne]; constructor; congruence.
Qed.

(* ---------- C07 ---------- *)
(* outpoint keys: 32-byte txid || LE u32 index; injective, and the printed txid/index are the ones inserted *)
Theorem ukey_decode t i : length t = 32%nat -> firstn 32 (ukey t i) = t /\ le_decode (skipn 32 (ukey t i)) = i mod 2^32.
Proof.
  intro H. unfold ukey. split.
  - rewrite firstn_app, H, Nat.sub_diag, firstn_O, app_nil_r. rewrite <- H. apply firstn_all.
  - rewrite skipn_app, H, Nat.sub_diag. rewrite <- H, skipn_all. cbn [app skipn]. apply (le_decode_encode 4).
    change (256 ^ N.of_nat 4) with (2^32). apply N.mod_lt. discriminate.
Qed.
Theorem ukey_injective t i t' i' : length t = 32%nat -> length t' = 32%nat -> ukey t i = ukey t' i' -> t = t' /\ i mod 2^32 = i' mod 2^32.
Proof.
  intros H H' E. destruct (ukey_decode t i H) as [A B]. destruct (ukey_decode t' i' H') as [A' B']. rewrite E in A, B. split; congruence.
Qed.

(* the final UTXO map of a run: last touch per outpoint, for every history *)
Theorem utxo_final_last_touch delivered k :
  Utxo.lookup bytes uval beqb k (utxo_final delivered) = Utxo.last_touch bytes uval beqb k (utxo_events delivered) None.
Proof. unfold utxo_final. apply Utxo.fold_last_touch. exact beqb_spec. Qed.
Theorem utxo_final_nodup delivered : NoDup (map fst (utxo_final delivered)).
Proof. unfold utxo_final. apply (Utxo.run_nodup bytes uval beqb beqb_spec). Qed.
Theorem utxo_listed_iff delivered k v :
  Utxo.lookup bytes uval beqb k (utxo_final delivered) = Some v <->
  exists before after, utxo_events delivered = before ++ Utxo.Create bytes uval k v :: after /\
                       forallb (fun e => negb (Utxo.touches bytes uval beqb k e)) after = true.
Proof. unfold utxo_final. apply Utxo.listed_iff. exact beqb_spec. Qed.
(* the event history is the chain-order concatenation: per transaction, its inputs (spends) then its address-bearing outputs (creates) *)
Theorem utxo_events_app a b : utxo_events (a ++ b) = utxo_events a ++ utxo_events b.
Proof. unfold utxo_events. apply flat_map_app. Qed.
(* outputs without an address never enter the set *)
Lemma create_events_addr tid h : forall outs i k v, In (Utxo.Create bytes uval k v) (create_events tid h i outs) ->
  exists o e a j, In (o, e) outs /\ e_addr e = Some a /\ v = (h, out_value o, a) /\ k = ukey tid j.
Proof.
  induction outs as [|[o e] r IH]; intros i k v H; [contradiction|]. cbn [create_events] in H.
  destruct (e_addr e) as [a|] eqn:Ea.
  - destruct H as [H|H].
    + inversion H; subst. exists o, e, a, i. repeat split; [now left|exact Ea].
    + destruct (IH _ _ _ H) as (o' & e' & a' & j & Hin & R). exists o', e', a', j. split; [now right|exact R].
  - destruct (IH _ _ _ H) as (o' & e' & a' & j & Hin & R). exists o', e', a', j. split; [now right|exact R].
Qed.

(* ---------- C08 ---------- *)
Definition owned_values (m:list (bytes * uval)) : list (list N * N) := map (fun e => let '(_, (_, v, a)) := e in (a, v)) m.
Theorem balances_final_spec m a :
  Utxo.bal_lookup (list N) beqb a (balances_final m) =
  if Utxo.owns (list N) beqb a (owned_values m) then Some (Utxo.sum_for (list N) beqb a (owned_values m)) else None.
Proof. unfold balances_final. apply Utxo.balances_spec. exact beqb_spec. Qed.
Theorem balances_final_nodup m : NoDup (map fst (balances_final m)).
Proof. unfold balances_final. apply Utxo.balances_nodup. exact beqb_spec. Qed.

(* ---------- C09 ---------- *)
Theorem merkle_loop_is_spec l : l <> [] -> exists r, Merkle.merkle_root H2 l = Ok r /\ Merkle.merkle_spec H2 (S (length l)) l = Some r.
Proof. apply Merkle.merkle_root_spec. Qed.
(* the decision of ChainStorage::verify on the model: accept iff the three stated conditions hold *)
Theorem verify_block_iff c idx b h : y_txs b <> [] -> (h = 0 \/ hm_get (h - 1) idx <> None) ->
  verify_block c idx b h = None <->
  (Merkle.merkle_spec H2 (S (length (y_txs b))) (map x_id (y_txs b)) = Some (h_merkle (b_header (y_blk b))) /\
   (h = 0 -> y_hash b = genesis c) /\
   (h <> 0 -> option_map r_hash (hm_get (h - 1) idx) = Some (h_prev (b_header (y_blk b))))).
Proof.
  intros Hne Hidx. unfold verify_block.
  assert (Hne' : map x_id (y_txs b) <> []) by (destruct (y_txs b); [congruence|discriminate]).
  destruct (Merkle.merkle_root_spec H2 _ Hne') as (r & Hr & Hs). rewrite map_length in Hs. rewrite Hr, Hs.
  destruct (beqb_spec r (h_merkle (b_header (y_blk b)))) as [->|Hm]; cbn [negb].
  - destruct (N.eqb_spec h 0) as [->|Hh].
    + destruct (beqb_spec (y_hash b) (genesis c)) as [Hg|Hg]; split; try discriminate; auto.
      * intros _. repeat split; auto. intro; congruence.
      * intros (_ & Hg' & _). exfalso. now apply Hg, Hg'.
    + destruct Hidx as [->|Hidx]; [contradiction|]. destruct (hm_get (h - 1) idx) as [p|]; [|contradiction].
      destruct (beqb_spec (h_prev (b_header (y_blk b))) (r_hash p)) as [Hp|Hp]; split; try discriminate; auto.
      * intros _. repeat split; auto; [intro; contradiction|]. intros _. cbn. now rewrite Hp.
      * intros (_ & _ & Hp'). specialize (Hp' Hh). cbn in Hp'. inversion Hp'. congruence.
  - split; [discriminate|]. intros (Hm' & _). inversion Hm'. contradiction.
Qed.
(* the error kind tells which condition failed first: merkle, then genesis / prev *)
Theorem verify_block_merkle_first c idx b h r : Merkle.merkle_root H2 (map x_id (y_txs b)) = Ok r -> r <> h_merkle (b_header (y_blk b)) ->
  verify_block c idx b h = Some (FErr EMerkle).
Proof. intros Hr Hne. unfold verify_block. rewrite Hr. destruct (beqb_spec r (h_merkle (b_header (y_blk b)))); [contradiction|reflexivity]. Qed.
(* witness data is not covered: two transactions with the same witness-stripped bytes have the same txid (raw_tx ignores witnesses by construction) *)

(* non-vacuity: the real Bitcoin genesis header hashes to the published genesis hash, and its merkle field is the root of its single txid *)
From RBP Require Published.
Definition btc_genesis_header : bytes := [1; 0; 0; 0; 0; 0; 0; 0; 0; 0; 0; 0; 0; 0; 0; 0; 0; 0; 0; 0; 0; 0; 0; 0; 0; 0; 0; 0; 0; 0; 0; 0; 0; 0; 0; 0; 59; 163; 237; 253; 122; 123; 18; 178; 122; 199; 44; 62; 103; 118; 143; 97; 127; 200; 27; 195; 136; 138; 81; 50; 58; 159; 184; 170; 75; 30; 94; 74; 41; 171; 95; 73; 255; 255; 0; 29; 29; 172; 43; 124].
Example btc_genesis_hash : Some (sha256d btc_genesis_header) = option_map genesis (coin_of_name [98; 105; 116; 99; 111; 105; 110]).
Proof. vm_compute. reflexivity. Qed.
Example btc_genesis_merkle : Merkle.merkle_root H2 [[59; 163; 237; 253; 122; 123; 18; 178; 122; 199; 44; 62; 103; 118; 143; 97; 127; 200; 27; 195; 136; 138; 81; 50; 58; 159; 184; 170; 75; 30; 94; 74]] = Ok (firstn 32 (skipn 36 btc_genesis_header)).
Proof. vm_compute. reflexivity. Qed.

(* ---------- C09 corollaries in the property's words ---------- *)
(* a processed block whose prev-hash field differs from the indexed hash of the preceding height is rejected (merkle root being right) *)
Theorem bad_prev_rejected c idx b h p : h <> 0 -> hm_get (h - 1) idx = Some p -> h_prev (b_header (y_blk b)) <> r_hash p ->
  Merkle.merkle_root H2 (map x_id (y_txs b)) = Ok (h_merkle (b_header (y_blk b))) -> verify_block c idx b h = Some (FErr EPrev).
Proof.
  intros Hh Hp Hne Hm. unfold verify_block. rewrite Hm. destruct (beqb_spec (h_merkle (b_header (y_blk b))) (h_merkle (b_header (y_blk b)))) as [_|X]; [|congruence].
  cbn [negb]. destruct (N.eqb_spec h 0); [contradiction|]. rewrite Hp. destruct (beqb_spec (h_prev (b_header (y_blk b))) (r_hash p)); [contradiction|reflexivity].
Qed.
Theorem bad_genesis_rejected c idx b : y_hash b <> genesis c ->
  Merkle.merkle_root H2 (map x_id (y_txs b)) = Ok (h_merkle (b_header (y_blk b))) -> verify_block c idx b 0 = Some (FErr EGenesis).
Proof.
  intros Hne Hm. unfold verify_block. rewrite Hm. destruct (beqb_spec (h_merkle (b_header (y_blk b))) (h_merkle (b_header (y_blk b)))) as [_|X]; [|congruence].
  cbn [negb]. replace (0 =? 0) with true by reflexivity. destruct (beqb_spec (y_hash b) (genesis c)); [contradiction|reflexivity].
Qed.
(* any change of transaction data that changes the merkle root of the txids is rejected; whether a change of bytes changes a txid /
   the root is a property of SHA-256 (collision resistance), stated as the hypothesis, never assumed *)
Theorem changed_root_rejected c idx b h r : Merkle.merkle_root H2 (map x_id (y_txs b)) = Ok r -> r <> h_merkle (b_header (y_blk b)) ->
  verify_block c idx b h <> None.
Proof. intros Hr Hne. rewrite (verify_block_merkle_first c idx b h r Hr Hne). discriminate. Qed.
(* verification looks at a block only through its header fields, its hash and its txids: witness bytes (not covered by any txid) cannot change the verdict *)
Theorem verify_depends_on_txids_only c idx b b' h :
  map x_id (y_txs b) = map x_id (y_txs b') -> b_header (y_blk b) = b_header (y_blk b') -> y_hash b = y_hash b' -> verify_block c idx b h = verify_block c idx b' h.
Proof. intros E1 E2 E3. unfold verify_block. now rewrite E1, E2, E3. Qed.

(* ---------- C12: every derived row is the same with and without the AuxPoW section (only the stored length prefix differs) ---------- *)
Theorem rows_independent_of_section c h b b' :
  b_size b = b_size b' -> b_header b = b_header b' -> b_txs b = b_txs b' ->
  csv_block_writes (h, eval_block c b) = csv_block_writes (h, eval_block c b').
Proof.
  intros Es Eh Et. unfold csv_block_writes, eval_block, block_row, block_hash. cbn [y_blk y_hash y_txs]. now rewrite Es, Eh, Et.
Qed.
Theorem utxo_and_lines_independent_of_section c h b b' : b_txs b = b_txs b' ->
  utxo_events [(h, eval_block c b)] = utxo_events [(h, eval_block c b')] /\ opreturn_lines [(h, eval_block c b)] = opreturn_lines [(h, eval_block c b')].
Proof. intro Et. unfold utxo_events, opreturn_lines, eval_block. cbn [flat_map fst snd y_txs]. now rewrite Et. Qed.
