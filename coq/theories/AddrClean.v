(* C01 / C07 / C08: an address never contains the CSV separator or a newline, for every script on every coin, so a tx_out / unspent / balances row
   always splits back into exactly its fields (the last column cannot smuggle in a separator). *)
From RBP Require Import Bytes Hashes Codec Base58 Bech32 Segwit Utf8 Render ScriptCustom CustomTop ScriptBtc Wire Block Index Model CsvP OpReturnP MultisigP ScriptBtcSpec ScriptBtcComplete ScriptCustomP.
From RBP Require Published.

Lemma nth_in_or_default_N (l:list N) (n:nat) (d:N) : In (nth n l d) (d :: l).
Proof. destruct (nth_in_or_default n l d) as [H|H]; [now right|left; now symmetry]. Qed.

Lemma mapped_clean (table:list N) (ds:list N) :
  ~ In SEMI (0 :: table) -> ~ In NL (0 :: table) -> clean (map (fun d => nth (N.to_nat d) table 0) ds).
Proof.
  intros Hs Hn. split; intro Hin; apply in_map_iff in Hin; destruct Hin as (d & E & _);
    pose proof (nth_in_or_default_N table (N.to_nat d) 0) as Hd; rewrite E in Hd; [apply Hs|apply Hn]; exact Hd.
Qed.
Lemma alphabet_clean : ~ In SEMI (0 :: ALPHABET) /\ ~ In NL (0 :: ALPHABET).
Proof. split; intro H; cbn in H; repeat (destruct H as [H|H]; [discriminate H|]); exact H. Qed.
Lemma charset_clean : ~ In SEMI (0 :: CHARSET) /\ ~ In NL (0 :: CHARSET).
Proof. split; intro H; cbn in H; repeat (destruct H as [H|H]; [discriminate H|]); exact H. Qed.

Theorem b58_encode_clean bs : clean (b58_encode bs).
Proof. unfold b58_encode. apply mapped_clean; apply alphabet_clean. Qed.
Theorem hash160_to_address_clean v h : clean (hash160_to_address v h).
Proof. apply b58_encode_clean. Qed.
Theorem public_key_to_addr_clean v k : clean (public_key_to_addr v k).
Proof. apply b58_encode_clean. Qed.
Lemma clean_app a b : clean a -> clean b -> clean (a ++ b).
Proof. unfold clean. intros [A1 A2] [B1 B2]. split; intro H; apply in_app_or in H; tauto. Qed.
Theorem segwit_addr_clean hrp v prog : clean hrp -> clean (segwit_addr hrp v prog).
Proof.
  intro Hh. unfold segwit_addr. apply clean_app; [exact Hh|]. apply clean_app.
  - split; intro H; cbn in H; destruct H as [H|H]; try discriminate H; exact H.
  - apply mapped_clean; apply charset_clean.
Qed.
Lemma hrps_clean : clean (hrp mainnet) /\ clean (hrp testnet).
Proof. split; split; intro H; cbn in H; repeat (destruct H as [H|H]; [discriminate H|]); exact H. Qed.

(* whatever the script: the address column of the Bitcoin evaluator ... *)
Theorem btc_address_clean n l a : n = mainnet \/ n = testnet -> snd (eval_btc n l) = Some a -> clean a.
Proof.
  intros Hn H. assert (Hh : clean (hrp n)) by (destruct Hn as [->| ->]; apply hrps_clean).
  assert (Haddr : forall x, address_from_script n l = Some x -> clean x).
  { unfold address_from_script. intros x Hx. destruct (is_p2pkh l); [inversion Hx; apply hash160_to_address_clean|].
    destruct (is_p2sh l); [inversion Hx; apply hash160_to_address_clean|].
    destruct (witness_version l) as [v|]; [|discriminate].
    destruct ((v =? 0) && negb ((ScriptBtc.len (skipn 2 l) =? 20)%nat || (ScriptBtc.len (skipn 2 l) =? 32)%nat)); [discriminate|]. inversion Hx. now apply segwit_addr_clean. }
  destruct l as [|c r]; [discriminate|].
  destruct (N.eq_dec c 0x6a) as [->|Hne]; [discriminate|].
  rewrite (ScriptBtcComplete.eval_btc_unfold n c r Hne) in H. cbv zeta in H.
  destruct (return_or_illegal c); [discriminate|].
  destruct (p2pk_key (c :: r)); [cbn [snd] in H; inversion H; apply public_key_to_addr_clean|].
  destruct (is_p2pkh (c :: r)); [now apply Haddr|]. destruct (is_p2sh (c :: r)); [now apply Haddr|].
  destruct (is_p2wpkh (c :: r)); [now apply Haddr|]. destruct (is_p2wsh (c :: r)); [now apply Haddr|].
  destruct (is_p2tr (c :: r)); [now apply Haddr|]. destruct (witness_version (c :: r)); [now apply Haddr|].
  destruct (is_multisig (c :: r)); now apply Haddr.
Qed.
(* ... and of the fork-coin evaluator *)
Theorem fork_address_clean bs v a : snd (eval_custom bs v) = Some a -> clean a.
Proof.
  unfold eval_custom. destruct (eval bs) as [ts| | |]; try discriminate. unfold classify.
  destruct Published.addr_slots as [[s1 s2] s3].
  destruct (first_match ts Published.templates) as [tag|]; [|discriminate].
  destruct tag as [|p]; [destruct (data_at ts 1); discriminate|].
  repeat (destruct p as [p|p|]; try discriminate);
    try (destruct (data_at ts _); [cbn [snd]; intro H; inversion H; try apply hash160_to_address_clean; try apply public_key_to_addr_clean|discriminate]);
    try (destruct (data_at ts 1); discriminate).
Qed.
Theorem address_clean c script a : e_addr (eval_script c script) = Some a -> clean a.
Proof.
  unfold eval_script. destruct (is_btc c) eqn:Eb.
  - destruct (eval_btc _ script) as [p ad] eqn:E. intro H.
    assert (ad = Some a) by (destruct p; exact H). subst ad.
    apply (btc_address_clean (if version_id c =? 0 then mainnet else testnet) script a); [destruct (version_id c =? 0); auto|now rewrite E].
  - destruct (eval_custom script (version_id c)) as [p ad] eqn:E. intro H.
    assert (ad = Some a) by (destruct p; exact H). subst ad. apply (fork_address_clean script (version_id c) a). now rewrite E.
Qed.

(* the tx_out row of csvdump always splits back into its five fields, whatever the script *)
Theorem out_row_fields c tid i o : wfb (out_script o) = true -> clean tid ->
  fields_of_row (out_row tid i (o, eval_script c (out_script o))) =
    [tid; dec i; dec (out_value o); hex (out_script o); match e_addr (eval_script c (out_script o)) with Some s => s | None => [] end].
Proof.
  intros Hw Ht. unfold out_row. cbn [fst snd]. apply fields_of_row_row; [discriminate|].
  assert (Ha : clean (match e_addr (eval_script c (out_script o)) with Some s => s | None => [] end)).
  { destruct (e_addr (eval_script c (out_script o))) as [a|] eqn:E; [now apply (address_clean c (out_script o))|]. split; intro H; exact H. }
  constructor; [exact Ht|]. constructor; [apply dec_clean|]. constructor; [apply dec_clean|]. constructor; [now apply hex_clean|]. constructor; [exact Ha|constructor].
Qed.
