(* Prototype: mirror of varuint.rs + reader.rs (header, tx incl. segwit) and the round-trip theorem *)
From RBP Require Import Bytes.

(* ---------- CompactSize (varuint.rs:23-66): value and re-encoded raw bytes ---------- *)
Record varuint := { vval : N; vraw : bytes }.
Definition read_cs : reader varuint :=
  first <- read_u8 ;;
  if first <? 0xfd then ret {| vval := first; vraw := [first] |}
  else if first =? 0xfd then v <- read_u16 ;; ret {| vval := v; vraw := 0xfd :: le_encode 2 v |}
  else if first =? 0xfe then v <- read_u32 ;; ret {| vval := v; vraw := 0xfe :: le_encode 4 v |}
  else v <- read_u64 ;; ret {| vval := v; vraw := 0xff :: le_encode 8 v |}.

(* spec side: any of the four encodings of a value *)
Inductive cs_width := W1 | W3 | W5 | W9.
Definition cs_enc (w:cs_width) (n:N) : bytes :=
  match w with W1 => [n] | W3 => 0xfd :: le_encode 2 n | W5 => 0xfe :: le_encode 4 n | W9 => 0xff :: le_encode 8 n end.
Definition cs_fits (w:cs_width) (n:N) : bool :=
  match w with W1 => n <? 0xfd | W3 => n <? 2^16 | W5 => n <? 2^32 | W9 => n <? 2^64 end.
Definition cs_canon_width (n:N) : cs_width := if n <? 0xfd then W1 else if n <? 2^16 then W3 else if n <? 2^32 then W5 else W9.

Lemma read_cs_enc w n r : cs_fits w n = true ->
  read_cs (cs_enc w n ++ r) = Ok ({| vval := n; vraw := cs_enc w n |}, r).
Proof.
  intro H. unfold read_cs. destruct w; cbn [cs_enc cs_fits app] in *.
  - rewrite (bind_ok _ _ _ _ _ (read_u8_app n r)). replace (n <? 253) with true by lia. reflexivity.
  - rewrite (bind_ok _ _ _ _ _ (read_u8_app _ _)). cbn beta.
    replace (253 <? 253) with false by reflexivity. replace (253 =? 253) with true by reflexivity.
    unfold read_u16. change 2 with (N.of_nat 2). erewrite bind_ok by (apply read_le_app; change (256 ^ N.of_nat 2) with (2^16); lia).
    reflexivity.
  - rewrite (bind_ok _ _ _ _ _ (read_u8_app _ _)). cbn beta.
    replace (254 <? 253) with false by reflexivity. replace (254 =? 253) with false by reflexivity.
    replace (254 =? 254) with true by reflexivity.
    unfold read_u32. change 4 with (N.of_nat 4). erewrite bind_ok by (apply read_le_app; change (256 ^ N.of_nat 4) with (2^32); lia).
    reflexivity.
  - rewrite (bind_ok _ _ _ _ _ (read_u8_app _ _)). cbn beta.
    replace (255 <? 253) with false by reflexivity. replace (255 =? 253) with false by reflexivity.
    replace (255 =? 254) with false by reflexivity.
    unfold read_u64. change 8 with (N.of_nat 8). erewrite bind_ok by (apply read_le_app; change (256 ^ N.of_nat 8) with (2^64); lia).
    reflexivity.
Qed.

(* ---------- repeated reads: `for _ in 0..count` with a u64 count; fuel = bytes left ---------- *)
Fixpoint read_many {A} (fuel:nat) (r:reader A) (count:N) : reader (list A) := fun s =>
  if count =? 0 then Ok ([], s) else
  match fuel with
  | O => Eof
  | S f => match r s with
           | Ok (a, s') => match read_many f r (count - 1) s' with
                           | Ok (l, s'') => Ok (a :: l, s'') | Eof => Eof | Panic => Panic | Overflow => Overflow end
           | Eof => Eof | Panic => Panic | Overflow => Overflow end
  end.
Definition read_n {A} (r:reader A) (count:N) : reader (list A) := fun s => read_many (S (length s)) r count s.

(* ---------- transaction (reader.rs:68-145, tx.rs) ---------- *)
Record outpoint := { op_txid : bytes; op_index : N }.
Record txin := { in_prev : outpoint; in_slen : varuint; in_script : bytes; in_seq : N }.
Record txout := { out_value : N; out_slen : varuint; out_script : bytes }.
Record rawtx := { tx_version : N; tx_incount : varuint; tx_inputs : list txin;
                  tx_outcount : varuint; tx_outputs : list txout; tx_locktime : N }.

Definition u32_trunc (n:N) : N := n mod 2^32.   (* `script_len.value as u32` *)

Definition read_txin : reader txin :=
  txid <- read_hash ;; idx <- read_u32 ;;
  slen <- read_cs ;; script <- read_bytes (u32_trunc (vval slen)) ;; seq <- read_u32 ;;
  ret {| in_prev := {| op_txid := txid; op_index := idx |}; in_slen := slen; in_script := script; in_seq := seq |}.
Definition read_txout : reader txout :=
  v <- read_u64 ;; slen <- read_cs ;; script <- read_bytes (u32_trunc (vval slen)) ;;
  ret {| out_value := v; out_slen := slen; out_script := script |}.
Definition read_witness_item : reader bytes := len <- read_cs ;; read_bytes (u32_trunc (vval len)).
Definition read_witness_stack : reader (list bytes) := cnt <- read_cs ;; read_n read_witness_item (vval cnt).

Definition read_tx : reader rawtx :=
  version <- read_u32 ;;
  in_count0 <- read_cs ;;
  '(flags, in_count) <- (if vval in_count0 =? 0
                         then f <- read_u8 ;; c <- read_cs ;; ret (f, c)
                         else ret (0, in_count0)) ;;
  inputs <- read_n read_txin (vval in_count) ;;
  out_count <- read_cs ;;
  outputs <- read_n read_txout (vval out_count) ;;
  _ <- (if N.testbit flags 0 then read_n read_witness_stack (vval in_count) else ret []) ;;
  locktime <- read_u32 ;;
  ret {| tx_version := version; tx_incount := in_count; tx_inputs := inputs;
         tx_outcount := out_count; tx_outputs := outputs; tx_locktime := locktime |}.

(* ToRaw (tx.rs:92-208): witness-free re-serialisation replaying the raw CompactSize bytes *)
Definition raw_in (i:txin) : bytes :=
  op_txid (in_prev i) ++ le_encode 4 (op_index (in_prev i)) ++ vraw (in_slen i) ++ in_script i ++ le_encode 4 (in_seq i).
Definition raw_out (o:txout) : bytes := le_encode 8 (out_value o) ++ vraw (out_slen o) ++ out_script o.
Definition raw_tx (t:rawtx) : bytes :=
  le_encode 4 (tx_version t) ++ vraw (tx_incount t) ++ flat_map raw_in (tx_inputs t)
  ++ vraw (tx_outcount t) ++ flat_map raw_out (tx_outputs t) ++ le_encode 4 (tx_locktime t).

(* ---------- spec: abstract transactions and their two serialisations ---------- *)
Record ain := { a_txid : bytes; a_index : N; a_sw : cs_width; a_script : bytes; a_seq : N }.
Record aout := { a_value : N; a_ow : cs_width; a_oscript : bytes }.
Record atx := { a_version : N; a_iw : cs_width; a_ins : list ain; a_outw : cs_width; a_outs : list aout;
                a_witness : option (list (cs_width * list (cs_width * bytes))); (* per input: count width, items *)
                a_locktime : N }.
Definition len (l:bytes) : N := N.of_nat (length l).
Definition ser_in (i:ain) : bytes :=
  a_txid i ++ le_encode 4 (a_index i) ++ cs_enc (a_sw i) (len (a_script i)) ++ a_script i ++ le_encode 4 (a_seq i).
Definition ser_out (o:aout) : bytes := le_encode 8 (a_value o) ++ cs_enc (a_ow o) (len (a_oscript o)) ++ a_oscript o.
Definition ser_item (it:cs_width * bytes) : bytes := cs_enc (fst it) (len (snd it)) ++ snd it.
Definition ser_stack (st:cs_width * list (cs_width * bytes)) : bytes :=
  cs_enc (fst st) (N.of_nat (length (snd st))) ++ flat_map ser_item (snd st).
Definition ser_body (t:atx) : bytes :=
  cs_enc (a_iw t) (N.of_nat (length (a_ins t))) ++ flat_map ser_in (a_ins t)
  ++ cs_enc (a_outw t) (N.of_nat (length (a_outs t))) ++ flat_map ser_out (a_outs t).
Definition ser_tx_stripped (t:atx) : bytes := le_encode 4 (a_version t) ++ ser_body t ++ le_encode 4 (a_locktime t).
Definition ser_tx_disk (t:atx) : bytes :=
  match a_witness t with
  | None => ser_tx_stripped t
  | Some w => le_encode 4 (a_version t) ++ [0; 1] ++ ser_body t ++ flat_map ser_stack w ++ le_encode 4 (a_locktime t)
  end.

Definition wf_in (i:ain) : bool :=
  (length (a_txid i) =? 32)%nat && (a_index i <? 2^32) && cs_fits (a_sw i) (len (a_script i)) && (len (a_script i) <? 2^32) && (a_seq i <? 2^32).
Definition wf_out (o:aout) : bool := (a_value o <? 2^64) && cs_fits (a_ow o) (len (a_oscript o)) && (len (a_oscript o) <? 2^32).
Definition wf_item (it:cs_width * bytes) : bool := cs_fits (fst it) (len (snd it)) && (len (snd it) <? 2^32).
Definition wf_stack (st:cs_width * list (cs_width * bytes)) : bool :=
  cs_fits (fst st) (N.of_nat (length (snd st))) && forallb wf_item (snd st).
Definition wf_tx (t:atx) : bool :=
  (a_version t <? 2^32) && (a_locktime t <? 2^32) && (1 <=? length (a_ins t))%nat
  && cs_fits (a_iw t) (N.of_nat (length (a_ins t))) && forallb wf_in (a_ins t)
  && cs_fits (a_outw t) (N.of_nat (length (a_outs t))) && forallb wf_out (a_outs t)
  && match a_witness t with None => true | Some w => (length w =? length (a_ins t))%nat && forallb wf_stack w end.

Definition parsed_in (i:ain) : txin :=
  {| in_prev := {| op_txid := a_txid i; op_index := a_index i |};
     in_slen := {| vval := len (a_script i); vraw := cs_enc (a_sw i) (len (a_script i)) |};
     in_script := a_script i; in_seq := a_seq i |}.
Definition parsed_out (o:aout) : txout :=
  {| out_value := a_value o; out_slen := {| vval := len (a_oscript o); vraw := cs_enc (a_ow o) (len (a_oscript o)) |};
     out_script := a_oscript o |}.
Definition parsed_tx (t:atx) : rawtx :=
  {| tx_version := a_version t;
     tx_incount := {| vval := N.of_nat (length (a_ins t)); vraw := cs_enc (a_iw t) (N.of_nat (length (a_ins t))) |};
     tx_inputs := map parsed_in (a_ins t);
     tx_outcount := {| vval := N.of_nat (length (a_outs t)); vraw := cs_enc (a_outw t) (N.of_nat (length (a_outs t))) |};
     tx_outputs := map parsed_out (a_outs t);
     tx_locktime := a_locktime t |}.

(* ---------- round trip ---------- *)
Lemma read_many_ser {X A} (r:reader A) (ser:X -> bytes) (parsed:X -> A) (wf:X -> bool) :
  (forall x rest, wf x = true -> r (ser x ++ rest) = Ok (parsed x, rest)) ->
  forall xs fuel rest, forallb wf xs = true -> (length xs <= fuel)%nat ->
  read_many fuel r (N.of_nat (length xs)) (flat_map ser xs ++ rest) = Ok (map parsed xs, rest).
Proof.
  intros Hr xs. induction xs as [|x xs IH]; intros fuel rest Hwf Hf.
  - destruct fuel; reflexivity.
  - cbn in Hwf. apply andb_true_iff in Hwf as [Hx Hxs].
    destruct fuel as [|f]; [cbn in Hf; lia|].
    cbn [read_many length]. replace (N.of_nat (S (length xs)) =? 0) with false by lia.
    cbn [flat_map]. rewrite <- app_assoc, Hr by assumption.
    replace (N.of_nat (S (length xs)) - 1) with (N.of_nat (length xs)) by lia.
    rewrite IH by (try assumption; cbn in Hf; lia). reflexivity.
Qed.

Lemma flat_map_length_ge {X} (ser:X -> bytes) (wf:X -> bool) xs :
  (forall x, wf x = true -> (1 <= length (ser x))%nat) -> forallb wf xs = true -> (length xs <= length (flat_map ser xs))%nat.
Proof.
  intros H Hwf. induction xs as [|x xs IH]; cbn; [lia|]. cbn in Hwf. apply andb_true_iff in Hwf as [Hx Hxs].
  rewrite app_length. specialize (H x Hx). specialize (IH Hxs). lia.
Qed.

Lemma read_n_ser {X A} (r:reader A) (ser:X -> bytes) (parsed:X -> A) (wf:X -> bool) :
  (forall x rest, wf x = true -> r (ser x ++ rest) = Ok (parsed x, rest)) ->
  (forall x, wf x = true -> (1 <= length (ser x))%nat) ->
  forall xs rest, forallb wf xs = true ->
  read_n r (N.of_nat (length xs)) (flat_map ser xs ++ rest) = Ok (map parsed xs, rest).
Proof.
  intros Hr Hlen xs rest Hwf. unfold read_n. eapply read_many_ser; eauto.
  rewrite app_length. pose proof (flat_map_length_ge ser wf xs Hlen Hwf). lia.
Qed.

Ltac split_wf H := repeat (apply andb_true_iff in H; let H' := fresh "W" in destruct H as [H H']).

Lemma u32_trunc_small n : n <? 2^32 = true -> u32_trunc n = n.
Proof. unfold u32_trunc. intro. apply N.mod_small. lia. Qed.

Lemma read_txin_ser i rest : wf_in i = true -> read_txin (ser_in i ++ rest) = Ok (parsed_in i, rest).
Proof.
  intro W. unfold wf_in in W. split_wf W. apply Nat.eqb_eq in W.
  unfold read_txin, ser_in. rewrite <- !app_assoc.
  erewrite bind_ok by (unfold read_hash; apply read_bytes_app'; rewrite W; reflexivity).
  unfold read_u32. change 4 with (N.of_nat 4).
  erewrite bind_ok by (apply read_le_app; change (256 ^ N.of_nat 4) with (2^32); lia).
  erewrite bind_ok by (apply read_cs_enc; assumption). cbn [vval].
  rewrite u32_trunc_small by assumption.
  erewrite bind_ok by (apply read_bytes_app'; reflexivity).
  erewrite bind_ok by (apply read_le_app; change (256 ^ N.of_nat 4) with (2^32); lia).
  reflexivity.
Qed.

Lemma read_txout_ser o rest : wf_out o = true -> read_txout (ser_out o ++ rest) = Ok (parsed_out o, rest).
Proof.
  intro W. unfold wf_out in W. split_wf W.
  unfold read_txout, ser_out. rewrite <- !app_assoc.
  unfold read_u64. change 8 with (N.of_nat 8).
  erewrite bind_ok by (apply read_le_app; change (256 ^ N.of_nat 8) with (2^64); lia).
  erewrite bind_ok by (apply read_cs_enc; assumption). cbn [vval].
  rewrite u32_trunc_small by assumption.
  erewrite bind_ok by (apply read_bytes_app'; reflexivity).
  reflexivity.
Qed.

Lemma read_item_ser it rest : wf_item it = true -> read_witness_item (ser_item it ++ rest) = Ok (snd it, rest).
Proof.
  intro W. unfold wf_item in W. split_wf W. unfold read_witness_item, ser_item. rewrite <- app_assoc.
  erewrite bind_ok by (apply read_cs_enc; assumption). cbn [vval].
  rewrite u32_trunc_small by assumption. apply read_bytes_app'. reflexivity.
Qed.

Lemma cs_enc_nonempty w n : (1 <= length (cs_enc w n))%nat.
Proof. destruct w; cbn; lia. Qed.

Lemma read_stack_ser st rest : wf_stack st = true ->
  read_witness_stack (ser_stack st ++ rest) = Ok (map snd (snd st), rest).
Proof.
  intro W. unfold wf_stack in W. split_wf W. unfold read_witness_stack, ser_stack. rewrite <- app_assoc.
  erewrite bind_ok by (apply read_cs_enc; assumption). cbn [vval].
  apply (read_n_ser read_witness_item ser_item snd wf_item).
  - intros; now apply read_item_ser.
  - intros x _. unfold ser_item. rewrite app_length. pose proof (cs_enc_nonempty (fst x) (len (snd x))). lia.
  - assumption.
Qed.

Lemma ser_in_nonempty i : wf_in i = true -> (1 <= length (ser_in i))%nat.
Proof. intros _. unfold ser_in. rewrite !app_length, !le_encode_length. lia. Qed.
Lemma ser_out_nonempty o : wf_out o = true -> (1 <= length (ser_out o))%nat.
Proof. intros _. unfold ser_out. rewrite !app_length, !le_encode_length. lia. Qed.
Lemma ser_stack_nonempty st : wf_stack st = true -> (1 <= length (ser_stack st))%nat.
Proof. intros _. unfold ser_stack. rewrite app_length. pose proof (cs_enc_nonempty (fst st) (N.of_nat (length (snd st)))). lia. Qed.

(* C01 core: every well-formed transaction, legacy or segwit, parses back to itself, leaving the rest untouched *)
Lemma wf_tx_elim t : wf_tx t = true ->
  a_version t < 2^32 /\ a_locktime t < 2^32 /\ (1 <= length (a_ins t))%nat /\
  cs_fits (a_iw t) (N.of_nat (length (a_ins t))) = true /\ forallb wf_in (a_ins t) = true /\
  cs_fits (a_outw t) (N.of_nat (length (a_outs t))) = true /\ forallb wf_out (a_outs t) = true /\
  match a_witness t with None => True | Some w => length w = length (a_ins t) /\ forallb wf_stack w = true end.
Proof.
  unfold wf_tx. rewrite !andb_true_iff. intros [[[[[[[H1 H2] H3] H4] H5] H6] H7] H8].
  apply Nat.leb_le in H3.
  repeat (split; [first [assumption | lia]|]).
  destruct (a_witness t); [|exact I]. apply andb_true_iff in H8 as [Ha Hb]. split; [now apply Nat.eqb_eq|assumption].
Qed.

Lemma ser_tx_nonempty t : wf_tx t = true -> (1 <= length (ser_tx_disk t))%nat.
Proof.
  intros _. unfold ser_tx_disk, ser_tx_stripped. destruct (a_witness t); rewrite !app_length, !le_encode_length; lia.
Qed.

Theorem read_tx_ser t rest : wf_tx t = true -> read_tx (ser_tx_disk t ++ rest) = Ok (parsed_tx t, rest).
Proof.
  intro W. apply wf_tx_elim in W. destruct W as (Hv & Hl & Hne & Hiw & Hins & How & Houts & Hwit).
  assert (Hin : forall r, read_n read_txin (N.of_nat (length (a_ins t))) (flat_map ser_in (a_ins t) ++ r)
                        = Ok (map parsed_in (a_ins t), r)).
  { intro r. apply (read_n_ser read_txin ser_in parsed_in wf_in); auto using read_txin_ser, ser_in_nonempty. }
  assert (Hout : forall r, read_n read_txout (N.of_nat (length (a_outs t))) (flat_map ser_out (a_outs t) ++ r)
                        = Ok (map parsed_out (a_outs t), r)).
  { intro r. apply (read_n_ser read_txout ser_out parsed_out wf_out); auto using read_txout_ser, ser_out_nonempty. }
  unfold read_tx, ser_tx_disk, ser_tx_stripped, ser_body.
  destruct (a_witness t) as [w|] eqn:Ew.
  - (* segwit: marker 0x00 is read as in_count = 0, then the flag, then the real in_count *)
    destruct Hwit as [Wl Ww].
    rewrite <- !app_assoc. unfold read_u32. change 4 with (N.of_nat 4).
    erewrite bind_ok by (apply read_le_app; change (256 ^ N.of_nat 4) with (2^32); lia).
    cbn [app].
    erewrite bind_ok by (apply (read_cs_enc W1 0); reflexivity). cbn [vval].
    replace (0 =? 0) with true by reflexivity.
    erewrite bind_ok.
    2:{ erewrite bind_ok by apply read_u8_app. erewrite bind_ok by (apply read_cs_enc; assumption). reflexivity. }
    cbn [vval]. erewrite bind_ok by apply Hin.
    erewrite bind_ok by (apply read_cs_enc; assumption). cbn [vval].
    erewrite bind_ok by apply Hout.
    replace (N.testbit 1 0) with true by reflexivity.
    erewrite bind_ok.
    2:{ rewrite <- Wl. apply (read_n_ser read_witness_stack ser_stack (fun st => map snd (snd st)) wf_stack);
        auto using read_stack_ser, ser_stack_nonempty. }
    erewrite bind_ok by (apply read_le_app; change (256 ^ N.of_nat 4) with (2^32); lia).
    reflexivity.
  - rewrite <- !app_assoc. unfold read_u32. change 4 with (N.of_nat 4).
    erewrite bind_ok by (apply read_le_app; change (256 ^ N.of_nat 4) with (2^32); lia).
    erewrite bind_ok by (apply read_cs_enc; assumption). cbn [vval].
    replace (N.of_nat (length (a_ins t)) =? 0) with false by lia.
    erewrite bind_ok by reflexivity. cbn [vval].
    erewrite bind_ok by apply Hin.
    erewrite bind_ok by (apply read_cs_enc; assumption). cbn [vval].
    erewrite bind_ok by apply Hout.
    replace (N.testbit 0 0) with false by reflexivity.
    erewrite bind_ok by reflexivity.
    erewrite bind_ok by (apply read_le_app; change (256 ^ N.of_nat 4) with (2^32); lia).
    reflexivity.
Qed.

(* the bytes that are hashed into the txid are the witness-stripped serialisation *)
Theorem raw_tx_stripped t : raw_tx (parsed_tx t) = ser_tx_stripped t.
Proof.
  unfold raw_tx, parsed_tx, ser_tx_stripped, ser_body. cbn [tx_version tx_incount tx_inputs tx_outcount tx_outputs tx_locktime vraw].
  rewrite !flat_map_concat_map, !map_map, <- !flat_map_concat_map, <- !app_assoc. reflexivity.
Qed.
Print Assumptions read_tx_ser.
Print Assumptions raw_tx_stripped.
