(* Prototype: bytes, results, reader monad, little-endian codecs *)
From Coq Require Export List NArith Lia ZArith ZifyN ZifyNat ZifyBool Bool Arith.
Export ListNotations.
Open Scope N_scope.
Ltac Zify.zify_post_hook ::= Z.div_mod_to_equations.
Arguments N.add : simpl never. Arguments N.sub : simpl never. Arguments N.mul : simpl never.
Arguments N.eqb : simpl never. Arguments N.ltb : simpl never. Arguments N.leb : simpl never.
Arguments N.div : simpl never. Arguments N.modulo : simpl never. Arguments N.pow : simpl never.

Definition bytes := list N.
Definition wfb (l:bytes) : bool := forallb (fun b => b <? 256) l.

Inductive res (A:Type) := Ok (a:A) | Eof | Panic | Overflow.
Arguments Ok {A}. Arguments Eof {A}. Arguments Panic {A}. Arguments Overflow {A}.

Definition reader (A:Type) := bytes -> res (A * bytes).
Definition ret {A} (a:A) : reader A := fun s => Ok (a, s).
Definition bind {A B} (r:reader A) (f:A -> reader B) : reader B :=
  fun s => match r s with Ok (a, s') => f a s' | Eof => Eof | Panic => Panic | Overflow => Overflow end.
Notation "x <- r ;; k" := (bind r (fun x => k)) (at level 61, r at next level, right associativity).
Notation "' p <- r ;; k" := (bind r (fun p => k)) (at level 61, p pattern, r at next level, right associativity).

Lemma bind_ok {A B} (r:reader A) (f:A -> reader B) s a s' : r s = Ok (a, s') -> bind r f s = f a s'.
Proof. intro H. unfold bind. now rewrite H. Qed.

(* ---- primitive reads (byteorder::ReadBytesExt over read_exact) ---- *)
Definition read_u8 : reader N := fun s => match s with [] => Eof | b :: r => Ok (b, r) end.
(* read_exact of n bytes; n is an N so that absurd lengths never become a nat *)
(* `has_at_least s n`: the input holds at least n bytes; walks at most n cells, so the test costs O(min(n, |s|)) whatever is left of the input *)
Fixpoint has_at_least (s:bytes) (n:N) : bool :=
  match s with [] => n =? 0 | _ :: r => if n =? 0 then true else has_at_least r (n - 1) end.
Definition read_bytes (n:N) : reader bytes := fun s =>
  if has_at_least s n then Ok (firstn (N.to_nat n) s, skipn (N.to_nat n) s) else Eof.

Fixpoint le_decode (l:bytes) : N := match l with [] => 0 | b :: r => b + 256 * le_decode r end.
Fixpoint le_encode (k:nat) (n:N) : bytes := match k with O => [] | S k' => n mod 256 :: le_encode k' (n / 256) end.

Definition read_le (k:N) : reader N := l <- read_bytes k ;; ret (le_decode l).
Definition read_u16 := read_le 2. Definition read_u32 := read_le 4. Definition read_u64 := read_le 8.
Definition read_hash := read_bytes 32.

Lemma le_encode_length k n : length (le_encode k n) = k.
Proof. revert n; induction k; intro n; cbn; [reflexivity|now rewrite IHk]. Qed.

Lemma le_decode_encode k n : n < 256 ^ N.of_nat k -> le_decode (le_encode k n) = n.
Proof.
  revert n; induction k as [|k IH]; intros n H.
  - cbn in *. change (256 ^ 0) with 1 in H. lia.
  - cbn [le_encode le_decode]. rewrite IH.
    + lia.
    + rewrite Nnat.Nat2N.inj_succ, N.pow_succ_r' in H. lia.
Qed.

Lemma le_encode_decode l : wfb l = true -> le_encode (length l) (le_decode l) = l.
Proof.
  induction l as [|b r IH]; intro H; [reflexivity|].
  cbn in H. apply andb_true_iff in H as [Hb Hr].
  cbn [length le_encode le_decode]. f_equal; [lia|].
  replace ((b + 256 * le_decode r) / 256) with (le_decode r) by lia. now apply IH.
Qed.

Lemma le_decode_bound l : wfb l = true -> le_decode l < 256 ^ N.of_nat (length l).
Proof.
  induction l as [|b r IH]; intro H.
  - cbn. change (256 ^ 0) with 1. lia.
  - cbn in H. apply andb_true_iff in H as [Hb Hr]. specialize (IH Hr).
    cbn [length le_decode]. rewrite Nnat.Nat2N.inj_succ, N.pow_succ_r'. lia.
Qed.

Lemma le_encode_wf k n : wfb (le_encode k n) = true.
Proof. revert n; induction k; intro n; cbn; [reflexivity|]. rewrite IHk. replace (n mod 256 <? 256) with true by lia. reflexivity. Qed.

Lemma has_at_least_spec s : forall n, has_at_least s n = (n <=? N.of_nat (length s)).
Proof.
  induction s as [|b r IH]; intro n; cbn [has_at_least length].
  - destruct (N.eqb_spec n 0); lia.
  - destruct (N.eqb_spec n 0) as [->|Hne]; [lia|]. rewrite IH. lia.
Qed.
Lemma read_bytes_app l r : read_bytes (N.of_nat (length l)) (l ++ r) = Ok (l, r).
Proof.
  unfold read_bytes. rewrite has_at_least_spec, app_length.
  replace (N.of_nat (length l) <=? N.of_nat (length l + length r)) with true by lia.
  rewrite Nnat.Nat2N.id, firstn_app, Nat.sub_diag, firstn_all, skipn_app, Nat.sub_diag, skipn_all. cbn.
  now rewrite app_nil_r.
Qed.

Lemma read_bytes_app' n l r : n = N.of_nat (length l) -> read_bytes n (l ++ r) = Ok (l, r).
Proof. intros ->. apply read_bytes_app. Qed.

Lemma read_le_app k n r : n < 256 ^ N.of_nat k -> read_le (N.of_nat k) (le_encode k n ++ r) = Ok (n, r).
Proof.
  intro H. unfold read_le. erewrite bind_ok by (apply read_bytes_app'; now rewrite le_encode_length).
  unfold ret. now rewrite le_decode_encode.
Qed.

Lemma read_u8_app b r : read_u8 (b :: r) = Ok (b, r). Proof. reflexivity. Qed.

Lemma wfb_app a b : wfb (a ++ b) = wfb a && wfb b. Proof. apply forallb_app. Qed.
