(* Prototype: mirror of core::str::lossy::Utf8Chunks (String::from_utf8_lossy) and strict validity (String::from_utf8) *)
From RBP Require Import Bytes.
Definition cont (c:N) : bool := (0x80 <=? c) && (c <=? 0xbf).
Definition in_rng (lo hi c:N) : bool := (lo <=? c) && (c <=? hi).
Definition ok3 (b c:N) : bool :=
  ((b =? 0xe0) && in_rng 0xa0 0xbf c) || (in_rng 0xe1 0xec b && in_rng 0x80 0xbf c) || ((b =? 0xed) && in_rng 0x80 0x9f c) || (in_rng 0xee 0xef b && in_rng 0x80 0xbf c).
Definition ok4 (b c:N) : bool :=
  ((b =? 0xf0) && in_rng 0x90 0xbf c) || (in_rng 0xf1 0xf3 b && in_rng 0x80 0xbf c) || ((b =? 0xf4) && in_rng 0x80 0x8f c).
Definition width (b:N) : N := if in_rng 0xc2 0xdf b then 2 else if in_rng 0xe0 0xef b then 3 else if in_rng 0xf0 0xf4 b then 4 else 0.
Definition FFFD : bytes := [0xef; 0xbf; 0xbd].

(* returns the lossy text and whether any replacement happened *)
Fixpoint lossy (l:bytes) : bytes * bool :=
  let bad (rest:bytes) := let '(t, _) := lossy rest in (FFFD ++ t, true) in
  let good (pre:bytes) (rest:bytes) := let '(t, e) := lossy rest in (pre ++ t, e) in
  match l with
  | [] => ([], false)
  | b :: r =>
    if b <? 128 then good [b] r else
    let w := width b in
    if w =? 2 then
      match r with c1 :: r1 => if cont c1 then good [b; c1] r1 else bad r | [] => (FFFD, true) end
    else if w =? 3 then
      match r with
      | c1 :: r1 => if ok3 b c1 then
                      match r1 with c2 :: r2 => if cont c2 then good [b; c1; c2] r2 else bad r1 | [] => (FFFD, true) end
                    else bad r
      | [] => (FFFD, true) end
    else if w =? 4 then
      match r with
      | c1 :: r1 => if ok4 b c1 then
                      match r1 with
                      | c2 :: r2 => if cont c2 then
                                      match r2 with c3 :: r3 => if cont c3 then good [b; c1; c2; c3] r3 else bad r2 | [] => (FFFD, true) end
                                    else bad r1
                      | [] => (FFFD, true) end
                    else bad r
      | [] => (FFFD, true) end
    else bad r
  end.
Definition from_utf8_lossy (l:bytes) : bytes := fst (lossy l).
Definition utf8_valid (l:bytes) : bool := negb (snd (lossy l)).
