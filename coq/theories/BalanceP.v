(* C08 / C13: the balances dump as an aggregation of the unspent set.  Beyond the per-address sum (Utxo.balances_spec) and the one-row-per-address statement
   (Utxo.balances_nodup): (1) conservation - the balances add up to the total of the unspent values, nothing is lost or counted twice; (2) the order in which the
   unspent set is iterated (a HashMap in the implementation) is irrelevant for every address; (3) the addresses listed are exactly the addresses owning an unspent
   output; (4) there are never more balance rows than unspent rows. *)
From Coq Require Import List NArith Arith Lia Permutation Bool.
Import ListNotations.
From RBP Require Import Bytes Hashes Wire Block Render Index Model CbP.
From RBP Require Utxo.

Section B.
Variable A : Type.
Variable aeqb : A -> A -> bool.
Hypothesis aeqb_spec : forall a b, reflect (a = b) (aeqb a b).
Notation add_bal := (Utxo.add_bal A aeqb).
Notation balances := (Utxo.balances A aeqb).
Notation bal_lookup := (Utxo.bal_lookup A aeqb).
Notation sum_for := (Utxo.sum_for A aeqb).
Notation owns := (Utxo.owns A aeqb).

Definition total (l : list (A * N)) : N := fold_right (fun e acc => snd e + acc) 0 l.

Lemma total_cons e l : total (e :: l) = snd e + total l.
Proof. reflexivity. Qed.

Lemma add_bal_total a v b : total (add_bal a v b) = total b + v.
Proof.
  induction b as [|[a' s] r IH]; cbn [Utxo.add_bal]; [rewrite total_cons; cbn; lia|].
  destruct (aeqb a a'); rewrite !total_cons; cbn [snd]; [|rewrite IH]; lia.
Qed.

Lemma balances_total_gen vals : forall b, total (fold_left (fun b e => add_bal (fst e) (snd e) b) vals b) = total b + total vals.
Proof.
  induction vals as [|[a v] r IH]; intro b; cbn [fold_left fst snd]; [cbn; lia|].
  rewrite IH, add_bal_total, total_cons. cbn [snd]. lia.
Qed.

Theorem balances_total vals : total (balances vals) = total vals.
Proof. unfold Utxo.balances. rewrite balances_total_gen. reflexivity. Qed.

Lemma add_bal_length a v b : (length (add_bal a v b) <= S (length b))%nat.
Proof. induction b as [|[a' s] r IH]; cbn [Utxo.add_bal length]; [lia|]. destruct (aeqb a a'); cbn [length]; lia. Qed.

Lemma balances_length_gen vals : forall b, (length (fold_left (fun b e => add_bal (fst e) (snd e) b) vals b) <= length b + length vals)%nat.
Proof.
  induction vals as [|e r IH]; intro b; cbn [fold_left length]; [lia|].
  specialize (IH (add_bal (fst e) (snd e) b)). pose proof (add_bal_length (fst e) (snd e) b). lia.
Qed.

Theorem balances_rows_le vals : (length (balances vals) <= length vals)%nat.
Proof. unfold Utxo.balances. pose proof (balances_length_gen vals []). cbn [length] in *. lia. Qed.

Lemma sum_for_perm a l l' : Permutation l l' -> sum_for a l = sum_for a l'.
Proof.
  induction 1 as [|x l l' _ IH|x y l|l l' l'' _ IH1 _ IH2]; cbn [Utxo.sum_for fold_right]; try reflexivity.
  - fold (sum_for a l). fold (sum_for a l'). rewrite IH. reflexivity.
  - fold (sum_for a l). destruct (aeqb a (fst x)), (aeqb a (fst y)); lia.
  - congruence.
Qed.

Lemma owns_perm a l l' : Permutation l l' -> owns a l = owns a l'.
Proof.
  induction 1 as [|x l l' _ IH|x y l|l l' l'' _ IH1 _ IH2]; cbn [Utxo.owns existsb]; try reflexivity.
  - fold (owns a l). fold (owns a l'). rewrite IH. reflexivity.
  - fold (owns a l). destruct (aeqb a (fst x)), (aeqb a (fst y)); reflexivity.
  - congruence.
Qed.

Theorem balances_order_irrelevant vals vals' a : Permutation vals vals' -> bal_lookup a (balances vals) = bal_lookup a (balances vals').
Proof. intro P. rewrite !(Utxo.balances_spec A aeqb aeqb_spec). rewrite (owns_perm a _ _ P), (sum_for_perm a _ _ P). reflexivity. Qed.

Lemma bal_lookup_in a b : bal_lookup a b <> None <-> In a (map fst b).
Proof.
  induction b as [|[a' s] r IH]; cbn [Utxo.bal_lookup map fst In]; [tauto|].
  destruct (aeqb_spec a a') as [->|Hne]; [split; [auto|discriminate]|]. rewrite IH. split; [auto|intros [E|H]; [congruence|exact H]].
Qed.

Lemma owns_in a l : owns a l = true <-> In a (map fst l).
Proof.
  unfold Utxo.owns. rewrite existsb_exists. split.
  - intros (e & Hin & He). destruct (aeqb_spec a (fst e)) as [->|]; [apply in_map; exact Hin|discriminate].
  - intro H. apply in_map_iff in H. destruct H as (e & <- & Hin). exists e. split; [exact Hin|]. destruct (aeqb_spec (fst e) (fst e)); congruence.
Qed.

Theorem balances_addresses vals a : In a (map fst (balances vals)) <-> In a (map fst vals).
Proof.
  rewrite <- bal_lookup_in, <- owns_in, (Utxo.balances_spec A aeqb aeqb_spec). destruct (owns a vals); split; congruence.
Qed.
End B.

(* the instances for the composed model *)
Definition unspent_total (m : list (bytes * uval)) : N := fold_right (fun e acc => (let '(_, (_, v, _)) := e in v) + acc) 0 m.

Lemma total_owned m : total (list N) (owned_values m) = unspent_total m.
Proof.
  induction m as [|[k [[h v] a]] r IH]; [reflexivity|].
  change (owned_values ((k, (h, v, a)) :: r)) with ((a, v) :: owned_values r). rewrite total_cons, IH. reflexivity.
Qed.

Theorem balances_conserve_value m : total (list N) (balances_final m) = unspent_total m.
Proof. unfold balances_final. rewrite (balances_total (list N) beqb); [exact (total_owned m)|exact beqb_spec]. Qed.

Theorem balances_any_iteration_order m m' a : Permutation m m' ->
  Utxo.bal_lookup (list N) beqb a (balances_final m) = Utxo.bal_lookup (list N) beqb a (balances_final m').
Proof. intro P. unfold balances_final. apply balances_order_irrelevant; [exact beqb_spec|]. apply Permutation_map. exact P. Qed.

Theorem balances_addresses_are_owners m a : In a (map fst (balances_final m)) <-> exists k h v, In (k, (h, v, a)) m.
Proof.
  unfold balances_final. rewrite (balances_addresses (list N) beqb beqb_spec). rewrite map_map. rewrite in_map_iff. split.
  - intros ([k [[h v] a']] & E & Hin). cbn in E. subst a'. exists k, h, v. exact Hin.
  - intros (k & h & v & Hin). exists (k, (h, v, a)). split; [reflexivity|exact Hin].
Qed.

Theorem balances_rows_le_unspent_rows m : (length (balances_final m) <= length m)%nat.
Proof. unfold balances_final. pose proof (balances_rows_le (list N) beqb beqb_spec (map (fun e : bytes * uval => let '(_, (_, v, a)) := e in (a, v)) m)) as H. rewrite map_length in H. exact H. Qed.
