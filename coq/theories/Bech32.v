(* Prototype: bech32/bech32m checksum validity for all inputs *)
From Coq Require Import List NArith Lia ZArith ZifyN ZifyBool Bool.
Import ListNotations.
Open Scope N_scope.

Definition GEN : list N := [0x3b6a57b2; 0x26508e6d; 0x1ea119fa; 0x3d4233dd; 0x2a1462b3].
Definition gsel (b:N) : N :=
  N.lxor (N.lxor (N.lxor (N.lxor
   (if N.testbit b 0 then 0x3b6a57b2 else 0) (if N.testbit b 1 then 0x26508e6d else 0))
   (if N.testbit b 2 then 0x1ea119fa else 0)) (if N.testbit b 3 then 0x3d4233dd else 0))
   (if N.testbit b 4 then 0x2a1462b3 else 0).
Definition step (c v:N) : N :=
  N.lxor (N.lxor (N.shiftl (N.land c 0x1ffffff) 5) v) (gsel (N.shiftr c 25)).
Definition polymod (vs:list N) : N := fold_left step vs 1.

(* the six checksum symbols from a 30-bit value *)
Definition syms (p:N) : list N := map (fun i => N.land (N.shiftr p (5 * (5 - i))) 31) [0;1;2;3;4;5].
Definition checksum (const:N) (vs:list N) : list N :=
  syms (N.lxor (fold_left step [0;0;0;0;0;0] (polymod vs)) const).

Eval vm_compute in polymod ([3;3;0;2;3] ++ [0] ++ checksum 1 ([3;3;0;2;3]++[0])).

Require Import Btauto.
(* land distributes over lxor *)
Lemma land_lxor_l a b m : N.land (N.lxor a b) m = N.lxor (N.land a m) (N.land b m).
Proof. apply N.bits_inj; intro n. rewrite !N.lxor_spec, !N.land_spec, !N.lxor_spec. btauto. Qed.

Lemma small_land y : N.shiftr y 25 = 0 -> N.land y 0x1ffffff = y.
Proof.
  intro H. change 0x1ffffff with (N.ones 25). rewrite N.land_ones.
  rewrite N.shiftr_div_pow2 in H. apply N.mod_small.
  apply N.div_small_iff in H; [exact H|discriminate].
Qed.

Lemma xor_swap a b c : N.lxor (N.lxor a b) c = N.lxor (N.lxor a c) b.
Proof. rewrite !N.lxor_assoc. f_equal. apply N.lxor_comm. Qed.

(* L1: low bits injected into the state ride along, shifted by 5, without touching the generator selection *)
Lemma step_inject c y v : N.shiftr y 25 = 0 ->
  step (N.lxor c y) v = N.lxor (step c 0) (N.lxor (N.shiftl y 5) v).
Proof.
  intro Hy. unfold step.
  rewrite N.shiftr_lxor, Hy, N.lxor_0_r.
  rewrite land_lxor_l, (small_land y Hy), N.shiftl_lxor, N.lxor_0_r.
  set (A := N.shiftl (N.land c 33554431) 5). set (G := gsel (N.shiftr c 25)). set (Y := N.shiftl y 5).
  apply N.bits_inj; intro n. rewrite !N.lxor_spec. btauto.
Qed.

Definition inj (acc x:N) : N := N.lxor (N.shiftl acc 5) x.

Lemma shiftr_inj k acc x : N.shiftr acc (5 * k) = 0 -> N.shiftr x 5 = 0 -> N.shiftr (inj acc x) (5 * (k + 1)) = 0.
Proof.
  intros Ha Hx. unfold inj. rewrite N.shiftr_lxor.
  replace (5 * (k + 1)) with (5 + 5 * k) by lia.
  rewrite <- (N.shiftr_shiftr x 5 (5*k)), Hx, N.shiftr_0_l, N.lxor_0_r.
  rewrite <- N.shiftr_shiftr. rewrite N.shiftr_shiftl_l by lia. rewrite N.sub_diag, N.shiftl_0_r. exact Ha.
Qed.

(* six symbols: fold step xs c = fold step zeros c xor pack xs *)
Theorem six_symbols c x0 x1 x2 x3 x4 x5 :
  N.shiftr x0 5 = 0 -> N.shiftr x1 5 = 0 -> N.shiftr x2 5 = 0 ->
  N.shiftr x3 5 = 0 -> N.shiftr x4 5 = 0 -> N.shiftr x5 5 = 0 ->
  fold_left step [x0;x1;x2;x3;x4;x5] c =
  N.lxor (fold_left step [0;0;0;0;0;0] c) (inj (inj (inj (inj (inj (inj 0 x0) x1) x2) x3) x4) x5).
Proof.
  intros H0 H1 H2 H3 H4 H5. cbn [fold_left].
  assert (Y1 : N.shiftr (inj 0 x0) (5*1) = 0) by (apply (shiftr_inj 0); [reflexivity|assumption]).
  assert (Y2 : N.shiftr (inj (inj 0 x0) x1) (5*2) = 0) by (apply (shiftr_inj 1); assumption).
  assert (Y3 : N.shiftr (inj (inj (inj 0 x0) x1) x2) (5*3) = 0) by (apply (shiftr_inj 2); assumption).
  assert (Y4 : N.shiftr (inj (inj (inj (inj 0 x0) x1) x2) x3) (5*4) = 0) by (apply (shiftr_inj 3); assumption).
  assert (Y5 : N.shiftr (inj (inj (inj (inj (inj 0 x0) x1) x2) x3) x4) (5*5) = 0) by (apply (shiftr_inj 4); assumption).
  assert (up : forall y k, (5*k <= 25) -> N.shiftr y (5*k) = 0 -> N.shiftr y 25 = 0).
  { intros y k Hk Hy. replace 25 with (5*k + (25 - 5*k)) by lia. rewrite <- N.shiftr_shiftr, Hy. apply N.shiftr_0_l. }
  (* step 1 *)
  replace (step c x0) with (N.lxor (step c 0) (inj 0 x0)).
  2:{ rewrite <- (N.lxor_0_r c) at 2. rewrite step_inject by reflexivity. reflexivity. }
  rewrite (step_inject _ (inj 0 x0) x1) by (apply (up _ 1); [lia|exact Y1]). fold (inj (inj 0 x0) x1).
  rewrite (step_inject _ _ x2) by (apply (up _ 2); [lia|exact Y2]). fold (inj (inj (inj 0 x0) x1) x2).
  rewrite (step_inject _ _ x3) by (apply (up _ 3); [lia|exact Y3]). fold (inj (inj (inj (inj 0 x0) x1) x2) x3).
  rewrite (step_inject _ _ x4) by (apply (up _ 4); [lia|exact Y4]). fold (inj (inj (inj (inj (inj 0 x0) x1) x2) x3) x4).
  rewrite (step_inject _ _ x5) by (apply (up _ 5); [lia|exact Y5]).
  reflexivity.
Qed.
Print Assumptions six_symbols.

Lemma split5 q : inj (N.shiftr q 5) (N.land q 31) = q.
Proof.
  unfold inj. apply N.bits_inj; intro n. rewrite N.lxor_spec, N.land_spec.
  change 31 with (N.ones 5).
  destruct (N.ltb_spec n 5) as [Hlt|Hge].
  - rewrite N.shiftl_spec_low by assumption. rewrite N.ones_spec_low by assumption.
    destruct (N.testbit q n); reflexivity.
  - rewrite N.shiftl_spec_high' by assumption. rewrite N.shiftr_spec' , N.ones_spec_high by assumption.
    replace (n - 5 + 5) with n by lia. destruct (N.testbit q n); reflexivity.
Qed.

Definition pack (l:list N) : N := fold_left inj l 0.

Lemma pack_syms p : N.shiftr p 30 = 0 -> pack (syms p) = p.
Proof.
  intro Hp. unfold pack, syms. cbn [map fold_left].
  change (5 * (5 - 0)) with 25. change (5 * (5 - 1)) with 20. change (5 * (5 - 2)) with 15.
  change (5 * (5 - 3)) with 10. change (5 * (5 - 4)) with 5. change (5 * (5 - 5)) with 0.
  assert (E0 : inj 0 (N.land (N.shiftr p 25) 31) = N.shiftr p 25).
  { rewrite <- (split5 (N.shiftr p 25)) at 2. f_equal. rewrite N.shiftr_shiftr. exact (eq_sym Hp). }
  rewrite E0.
  replace (N.shiftr p 25) with (N.shiftr (N.shiftr p 20) 5) by (rewrite N.shiftr_shiftr; reflexivity).
  rewrite split5.
  replace (N.shiftr p 20) with (N.shiftr (N.shiftr p 15) 5) by (rewrite N.shiftr_shiftr; reflexivity).
  rewrite split5.
  replace (N.shiftr p 15) with (N.shiftr (N.shiftr p 10) 5) by (rewrite N.shiftr_shiftr; reflexivity).
  rewrite split5.
  replace (N.shiftr p 10) with (N.shiftr (N.shiftr p 5) 5) by (rewrite N.shiftr_shiftr; reflexivity).
  rewrite split5.
  rewrite N.shiftr_0_r. apply split5.
Qed.

Lemma syms_small p : Forall (fun x => N.shiftr x 5 = 0) (syms p).
Proof.
  unfold syms. cbn [map]. repeat constructor;
  (change 31 with (N.ones 5); rewrite N.land_ones, N.shiftr_div_pow2; apply N.div_small, N.mod_lt; discriminate).
Qed.

(* state stays below 2^30 *)
Lemma gsel_small b : N.shiftr (gsel b) 30 = 0.
Proof.
  unfold gsel. rewrite !N.shiftr_lxor.
  destruct (N.testbit b 0), (N.testbit b 1), (N.testbit b 2), (N.testbit b 3), (N.testbit b 4); reflexivity.
Qed.

Lemma step_small c v : N.shiftr v 5 = 0 -> N.shiftr (step c v) 30 = 0.
Proof.
  intro Hv. unfold step. rewrite !N.shiftr_lxor, gsel_small, N.lxor_0_r.
  replace 30 with (5 + 25) at 2 by reflexivity. rewrite <- (N.shiftr_shiftr v 5 25), Hv, N.shiftr_0_l, N.lxor_0_r.
  replace 30 with (5 + 25) by reflexivity. rewrite <- N.shiftr_shiftr.
  rewrite N.shiftr_shiftl_l by lia. rewrite N.sub_diag, N.shiftl_0_r.
  change 33554431 with (N.ones 25). rewrite N.land_ones, N.shiftr_div_pow2.
  apply N.div_small, N.mod_lt. discriminate.
Qed.

(* checksum validity: for every data-symbol list and every 30-bit constant (1 for bech32, 0x2bc830a3 for bech32m) *)
Lemma sym_small p k : N.shiftr (N.land (N.shiftr p k) 31) 5 = 0.
Proof.
  change 31 with (N.ones 5). rewrite N.land_ones, N.shiftr_div_pow2. apply N.div_small, N.mod_lt. discriminate.
Qed.

Opaque step.
Theorem checksum_valid const vs : N.shiftr const 30 = 0 ->
  polymod (vs ++ checksum const vs) = const.
Proof.
  intro Hc. unfold polymod at 1. rewrite fold_left_app. fold (polymod vs).
  unfold checksum. remember (fold_left step [0;0;0;0;0;0] (polymod vs)) as P eqn:EP.
  assert (HP : N.shiftr P 30 = 0) by (rewrite EP; cbn [fold_left]; apply step_small; reflexivity).
  assert (HPc : N.shiftr (N.lxor P const) 30 = 0) by (rewrite N.shiftr_lxor, HP, Hc; reflexivity).
  pose proof (pack_syms _ HPc) as Hpk.
  unfold syms in *. cbn [map] in *.
  rewrite six_symbols by apply sym_small. rewrite <- EP.
  unfold pack in Hpk. cbn [fold_left] in Hpk. rewrite Hpk.
  rewrite <- N.lxor_assoc, N.lxor_nilpotent. apply N.lxor_0_l.
Qed.
Print Assumptions checksum_valid.
