(* Dump-folder histories: what a successful run leaves under its final names does not depend on anything earlier runs - successful, failed or killed, of this or of another
   range, coin or data directory - have done to the folder.  Corollaries of OutProto.success_content, stated for sequences of runs. *)
From Coq Require Import List NArith Lia.
Import ListNotations.
From RBP Require Import Bytes OutProto.

(* the folder after an arbitrary history of earlier traces (each the os-level trace of some earlier run, complete or cut off anywhere) *)
Definition after_history (s : fs) (hist : list (list osop)) : fs := fold_left apply_trace hist s.

Theorem success_after_any_history cap L ws rows trace (hist : list (list osop)) s :
  (0 < cap)%nat -> run cap L ws rows = (trace, 0) -> NoDup (tmps ws ++ finals ws) -> fresh_writers ws -> (forall r, In r rows -> (fst r < length ws)%nat) ->
  forall j, (j < length ws)%nat ->
    fs_get (nth j (finals ws) 0) (apply_trace (after_history s hist) trace) = Some (data_for j rows) /\
    fs_get (nth j (tmps ws) 0) (apply_trace (after_history s hist) trace) = None.
Proof. intros Hc Hr Hn Hf Hb j Hj. exact (success_content cap L ws rows trace (after_history s hist) Hc Hr Hn Hf Hb j Hj). Qed.

(* the same run started in two different folders leaves the same bytes under each of its final names *)
Theorem same_result_in_any_two_folders cap L ws rows trace s1 s2 :
  (0 < cap)%nat -> run cap L ws rows = (trace, 0) -> NoDup (tmps ws ++ finals ws) -> fresh_writers ws -> (forall r, In r rows -> (fst r < length ws)%nat) ->
  forall j, (j < length ws)%nat ->
    fs_get (nth j (finals ws) 0) (apply_trace s1 trace) = fs_get (nth j (finals ws) 0) (apply_trace s2 trace).
Proof.
  intros Hc Hr Hn Hf Hb j Hj.
  rewrite (proj1 (success_content cap L ws rows trace s1 Hc Hr Hn Hf Hb j Hj)).
  rewrite (proj1 (success_content cap L ws rows trace s2 Hc Hr Hn Hf Hb j Hj)). reflexivity.
Qed.

(* in particular: an earlier run of the SAME final names (same range, another coin or data directory: other rows) is overwritten, whatever it wrote *)
Corollary later_run_wins cap L ws rows1 rows2 tr1 e1 tr2 s :
  (0 < cap)%nat -> run cap L ws rows1 = (tr1, e1) -> run cap L ws rows2 = (tr2, 0) ->
  NoDup (tmps ws ++ finals ws) -> fresh_writers ws -> (forall r, In r rows2 -> (fst r < length ws)%nat) ->
  forall j, (j < length ws)%nat ->
    fs_get (nth j (finals ws) 0) (apply_trace (apply_trace s tr1) tr2) = Some (data_for j rows2).
Proof.
  intros Hc _ Hr Hn Hf Hb j Hj. exact (proj1 (success_content cap L ws rows2 tr2 (apply_trace s tr1) Hc Hr Hn Hf Hb j Hj)).
Qed.
