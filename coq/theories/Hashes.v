(* Prototype: executable SHA-256 and RIPEMD-160 over byte lists (list N), hash160, sha256d. No theorems depend on internals. *)
From Coq Require Import List NArith.
Import ListNotations.
Open Scope N_scope.

Definition M32 : N := 4294967295.
Definition w32 (x:N) : N := N.land x M32.
Definition add32 (a b:N) := w32 (a + b).
Definition rotl (x n:N) := w32 (N.lor (N.shiftl x n) (N.shiftr x (32 - n))).
Definition rotr (x n:N) := w32 (N.lor (N.shiftr x n) (N.shiftl x (32 - n))).
Definition not32 (x:N) := N.lxor x M32.

(* ---------- padding shared by both (Merkle–Damgård, 64-byte blocks, 64-bit bit length) ---------- *)
Definition pad (big_endian:bool) (msg:list N) : list N :=
  let len := N.of_nat (length msg) in
  let k := N.to_nat ((119 - (len mod 64)) mod 64) in
  let bits := len * 8 in
  let lenbytes := map (fun i => N.land (N.shiftr bits (8 * i)) 255) [0;1;2;3;4;5;6;7] in
  msg ++ [128] ++ repeat 0 k ++ (if big_endian then rev lenbytes else lenbytes).
Fixpoint words (be:bool) (l:list N) : list N :=
  match l with
  | a :: b :: c :: d :: r => (if be then a*16777216 + b*65536 + c*256 + d else d*16777216 + c*65536 + b*256 + a) :: words be r
  | _ => [] end.
Fixpoint chunks16 (fuel:nat) (l:list N) : list (list N) :=
  match fuel with O => [] | S f => match l with [] => [] | _ => firstn 16 l :: chunks16 f (skipn 16 l) end end.
Definition word_bytes (be:bool) (w:N) : list N :=
  let bs := [N.land w 255; N.land (N.shiftr w 8) 255; N.land (N.shiftr w 16) 255; N.shiftr w 24] in
  if be then rev bs else bs.

(* ---------- SHA-256 ---------- *)
Definition Ch x y z := N.lxor (N.land x y) (N.land (not32 x) z).
Definition Maj x y z := N.lxor (N.lxor (N.land x y) (N.land x z)) (N.land y z).
Definition S0 x := N.lxor (N.lxor (rotr x 2) (rotr x 13)) (rotr x 22).
Definition S1 x := N.lxor (N.lxor (rotr x 6) (rotr x 11)) (rotr x 25).
Definition s0 x := N.lxor (N.lxor (rotr x 7) (rotr x 18)) (N.shiftr x 3).
Definition s1 x := N.lxor (N.lxor (rotr x 17) (rotr x 19)) (N.shiftr x 10).
Definition K256 : list N := [
0x428a2f98;0x71374491;0xb5c0fbcf;0xe9b5dba5;0x3956c25b;0x59f111f1;0x923f82a4;0xab1c5ed5;
0xd807aa98;0x12835b01;0x243185be;0x550c7dc3;0x72be5d74;0x80deb1fe;0x9bdc06a7;0xc19bf174;
0xe49b69c1;0xefbe4786;0x0fc19dc6;0x240ca1cc;0x2de92c6f;0x4a7484aa;0x5cb0a9dc;0x76f988da;
0x983e5152;0xa831c66d;0xb00327c8;0xbf597fc7;0xc6e00bf3;0xd5a79147;0x06ca6351;0x14292967;
0x27b70a85;0x2e1b2138;0x4d2c6dfc;0x53380d13;0x650a7354;0x766a0abb;0x81c2c92e;0x92722c85;
0xa2bfe8a1;0xa81a664b;0xc24b8b70;0xc76c51a3;0xd192e819;0xd6990624;0xf40e3585;0x106aa070;
0x19a4c116;0x1e376c08;0x2748774c;0x34b0bcb5;0x391c0cb3;0x4ed8aa4a;0x5b9cca4f;0x682e6ff3;
0x748f82ee;0x78a5636f;0x84c87814;0x8cc70208;0x90befffa;0xa4506ceb;0xbef9a3f7;0xc67178f2].
Definition H256 : list N := [0x6a09e667;0xbb67ae85;0x3c6ef372;0xa54ff53a;0x510e527f;0x9b05688c;0x1f83d9ab;0x5be0cd19].
Fixpoint sched (n:nat) (w:list N) (acc:list N) : list N :=   (* w: last 16 words, newest first *)
  match n with O => rev acc | S n' =>
    let x := add32 (add32 (s1 (nth 1 w 0)) (nth 6 w 0)) (add32 (s0 (nth 14 w 0)) (nth 15 w 0)) in
    sched n' (x :: firstn 15 w) (x :: acc) end.
Definition round256 (st:list N) (kw:N*N) : list N :=
  match st with [a;b;c;d;e;f;g;h] =>
    let t1 := add32 (add32 (add32 h (S1 e)) (add32 (Ch e f g) (fst kw))) (snd kw) in
    let t2 := add32 (S0 a) (Maj a b c) in
    [add32 t1 t2; a; b; c; add32 d t1; e; f; g]
  | _ => st end.
Definition compress256 (h:list N) (blk:list N) : list N :=
  let w := blk ++ sched 48 (rev blk) [] in
  map (fun p => add32 (fst p) (snd p)) (combine h (fold_left round256 (combine K256 w) h)).
Definition sha256 (msg:list N) : list N :=
  let ws := words true (pad true msg) in
  flat_map (word_bytes true) (fold_left compress256 (chunks16 (length ws) ws) H256).
Definition sha256d (m:list N) : list N := sha256 (sha256 m).

(* ---------- RIPEMD-160 ---------- *)
Definition rf (j:nat) (x y z:N) : N :=
  match Nat.div j 16 with
  | 0%nat => N.lxor (N.lxor x y) z
  | 1%nat => N.lor (N.land x y) (N.land (not32 x) z)
  | 2%nat => N.lxor (N.lor x (not32 y)) z
  | 3%nat => N.lor (N.land x z) (N.land y (not32 z))
  | _ => N.lxor x (N.lor y (not32 z)) end.
Definition KL (j:nat) : N := nth (Nat.div j 16) [0; 0x5a827999; 0x6ed9eba1; 0x8f1bbcdc; 0xa953fd4e] 0.
Definition KR (j:nat) : N := nth (Nat.div j 16) [0x50a28be6; 0x5c4dd124; 0x6d703ef3; 0x7a6d76e9; 0] 0.
Definition RL : list nat := [0;1;2;3;4;5;6;7;8;9;10;11;12;13;14;15; 7;4;13;1;10;6;15;3;12;0;9;5;2;14;11;8;
  3;10;14;4;9;15;8;1;2;7;0;6;13;11;5;12; 1;9;11;10;0;8;12;4;13;3;7;15;14;5;6;2; 4;0;5;9;7;12;2;10;14;1;3;8;11;6;15;13]%nat.
Definition RR : list nat := [5;14;7;0;9;2;11;4;13;6;15;8;1;10;3;12; 6;11;3;7;0;13;5;10;14;15;8;12;4;9;1;2;
  15;5;1;3;7;14;6;9;11;8;12;2;10;0;4;13; 8;6;4;1;3;11;15;0;5;12;2;13;9;7;10;14; 12;15;10;4;1;5;8;7;6;2;13;14;0;3;9;11]%nat.
Definition SL : list N := [11;14;15;12;5;8;7;9;11;13;14;15;6;7;9;8; 7;6;8;13;11;9;7;15;7;12;15;9;11;7;13;12;
  11;13;6;7;14;9;13;15;14;8;13;6;5;12;7;5; 11;12;14;15;14;15;9;8;9;14;5;6;8;6;5;12; 9;15;5;11;6;8;13;12;5;12;13;14;11;8;5;6].
Definition SR : list N := [8;9;9;11;13;15;15;5;7;7;8;11;14;14;12;6; 9;13;15;7;12;8;9;11;7;7;12;7;6;15;13;11;
  9;7;15;11;8;6;6;14;12;13;5;14;13;13;7;5; 15;5;8;11;14;14;6;14;6;9;12;9;12;5;15;8; 8;5;12;9;12;5;14;6;8;13;6;5;15;13;11;11].
Definition rstep (left:bool) (x:list N) (st:list N) (j:nat) : list N :=
  match st with [a;b;c;d;e] =>
    let f := if left then rf j b c d else rf (79 - j) b c d in
    let r := nth j (if left then RL else RR) 0%nat in
    let s := nth j (if left then SL else SR) 0 in
    let k := if left then KL j else KR j in
    let t := add32 (rotl (add32 (add32 a f) (add32 (nth r x 0) k)) s) e in
    [e; t; b; rotl c 10; d]
  | _ => st end.
Definition compress160 (h:list N) (x:list N) : list N :=
  let l := fold_left (rstep true x) (seq 0 80) h in
  let r := fold_left (rstep false x) (seq 0 80) h in
  match h, l, r with
  | [h0;h1;h2;h3;h4], [al;bl;cl;dl;el], [ar;br;cr;dr;er] =>
      [add32 (add32 h1 cl) dr; add32 (add32 h2 dl) er; add32 (add32 h3 el) ar; add32 (add32 h4 al) br; add32 (add32 h0 bl) cr]
  | _, _, _ => h end.
Definition H160 : list N := [0x67452301; 0xefcdab89; 0x98badcfe; 0x10325476; 0xc3d2e1f0].
Definition ripemd160 (msg:list N) : list N :=
  let ws := words false (pad false msg) in
  flat_map (word_bytes false) (fold_left compress160 (chunks16 (length ws) ws) H160).
Definition hash160 (m:list N) : list N := ripemd160 (sha256 m).

(* known answers *)
Definition hexs (l:list N) : list N := l.
Example sha256_abc : sha256 [97;98;99] =
  [0xba;0x78;0x16;0xbf;0x8f;0x01;0xcf;0xea;0x41;0x41;0x40;0xde;0x5d;0xae;0x22;0x23;0xb0;0x03;0x61;0xa3;0x96;0x17;0x7a;0x9c;0xb4;0x10;0xff;0x61;0xf2;0x00;0x15;0xad].
Proof. vm_compute. reflexivity. Qed.
Example ripemd160_abc : ripemd160 [97;98;99] =
  [0x8e;0xb2;0x08;0xf7;0xe0;0x5d;0x98;0x7a;0x9b;0x04;0x4a;0x8e;0x98;0xc6;0xb0;0x87;0xf1;0x5a;0x0b;0xfc].
Proof. vm_compute. reflexivity. Qed.
Example ripemd160_empty : ripemd160 [] =
  [0x9c;0x11;0x85;0xa5;0xc5;0xe9;0xfc;0x54;0x61;0x28;0x08;0x97;0x7e;0xe8;0xf5;0x48;0xb2;0x25;0x8d;0x31].
Proof. vm_compute. reflexivity. Qed.
