(* Prototype: mirror of custom.rs ScriptEvaluator::eval / maybe_push_data / read_uint (with the PUSHDATA fix: length read
   from the bytes after the opcode) = structural push-rule tokenizer; never panics.  C06 / C14 *)
From RBP Require Import Bytes.

Inductive tok := TOp (c:N) | TData (d:bytes).
Definition is_noop (c:N) : bool := (c =? 0x61) || ((0xb0 <=? c) && (c <=? 0xb9)).

(* Rust slices: &bytes[a..] and &bytes[a..b] panic when out of range *)
Definition slice_from (l:bytes) (a:nat) : res bytes := if (a <=? length l)%nat then Ok (skipn a l) else Panic.
Definition slice (l:bytes) (a b:nat) : res bytes :=
  if ((a <=? b) && (b <=? length l))%nat then Ok (firstn (b - a) (skipn a l)) else Panic.

(* custom.rs:226 read_uint *)
Definition read_uint (data:bytes) (size:nat) : res N :=
  if (length data <? size)%nat then Eof else Ok (le_decode (firstn size data)).

(* custom.rs:118 maybe_push_data, returns (data_len, new ip) *)
Definition maybe_push_data (bs:bytes) (ip:nat) (opcode:N) : res (N * nat) :=
  let n := length bs in
  if opcode <=? 0x4b then Ok (opcode, ip)
  else
    let sized (k:nat) :=
      if (n <? ip + k)%nat then Eof else
      match slice_from bs (ip + 1) with
      | Ok d => match read_uint d k with Ok v => Ok (v, (ip + k)%nat) | Eof => Eof | Panic => Panic | Overflow => Overflow end
      | Eof => Eof | Panic => Panic | Overflow => Overflow end in
    if opcode =? 0x4c then sized 1%nat
    else if opcode =? 0x4d then sized 2%nat
    else if opcode =? 0x4e then sized 4%nat
    else Ok (0, ip).

(* custom.rs:86 eval loop; fuel = number of iterations allowed *)
Fixpoint eval_loop (fuel:nat) (bs:bytes) (ip:nat) (acc:list tok) : res (list tok) :=
  match fuel with
  | O => if (ip <? length bs)%nat then Panic else Ok acc
  | S f =>
    if (ip <? length bs)%nat then
      match nth_error bs ip with
      | None => Panic
      | Some opcode =>
        match maybe_push_data bs ip opcode with
        | Ok (data_len, ip1) =>
          let ip2 := (ip1 + 1)%nat in
          if 0 <? data_len then
            if N.of_nat (length bs) <? N.of_nat ip2 + data_len then Eof   (* usize arithmetic; data_len < 2^32 *)
            else match slice bs ip2 (ip2 + N.to_nat data_len) with
                 | Ok d => eval_loop f bs (ip2 + N.to_nat data_len) (acc ++ [TData d])
                 | Eof => Eof | Panic => Panic | Overflow => Overflow end
          else if is_noop opcode then eval_loop f bs ip2 acc
          else eval_loop f bs ip2 (acc ++ [TOp opcode])
        | Eof => Eof | Panic => Panic | Overflow => Overflow
        end
      end
    else Ok acc
  end.
Definition eval (bs:bytes) : res (list tok) := eval_loop (length bs) bs 0 [].

(* ---------- spec: Bitcoin push rules, structurally on the remaining bytes ---------- *)
Definition push (op:N) (n:N) (rest:bytes) (k:bytes -> option (list tok)) : option (list tok) :=
  if n =? 0 then (if is_noop op then k rest else option_map (cons (TOp op)) (k rest))
  else if N.of_nat (length rest) <? n then None
  else option_map (cons (TData (firstn (N.to_nat n) rest))) (k (skipn (N.to_nat n) rest)).
Fixpoint toks (fuel:nat) (l:bytes) : option (list tok) :=
  match fuel with
  | O => match l with [] => Some [] | _ => None end
  | S f =>
    match l with
    | [] => Some []
    | c :: r =>
      if c <=? 0x4b then push c c r (toks f)
      else if c =? 0x4c then (if (length r <? 1)%nat then None else push c (le_decode (firstn 1 r)) (skipn 1 r) (toks f))
      else if c =? 0x4d then (if (length r <? 2)%nat then None else push c (le_decode (firstn 2 r)) (skipn 2 r) (toks f))
      else if c =? 0x4e then (if (length r <? 4)%nat then None else push c (le_decode (firstn 4 r)) (skipn 4 r) (toks f))
      else push c 0 r (toks f)
    end
  end.

Definition res_of_opt (acc:list tok) (o:option (list tok)) : res (list tok) :=
  match o with Some l => Ok (acc ++ l) | None => Eof end.

Lemma skipn_nth_cons {A} (l:list A) i x : nth_error l i = Some x -> skipn i l = x :: skipn (S i) l.
Proof.
  revert i; induction l as [|a l IH]; intros [|i] H; cbn in *; try discriminate.
  - now inversion H.
  - now apply IH.
Qed.

Lemma skipn_skipn' {A} : forall (a b:nat) (l:list A), skipn a (skipn b l) = skipn (b + a) l.
Proof. intros a b; revert a; induction b as [|b IH]; intros a l; [reflexivity|]. destruct l; [now rewrite !skipn_nil|]. cbn. apply IH. Qed.

Lemma push_loop f bs (IHf : forall ip acc, (ip <= length bs)%nat -> (length bs - ip <= f)%nat -> eval_loop f bs ip acc = res_of_opt acc (toks f (skipn ip bs)))
  op n ip2 acc :
  (ip2 <= length bs)%nat -> (length bs - ip2 <= f)%nat ->
  (if 0 <? n then
     if N.of_nat (length bs) <? N.of_nat ip2 + n then Eof
     else match slice bs ip2 (ip2 + N.to_nat n) with
          | Ok d => eval_loop f bs (ip2 + N.to_nat n) (acc ++ [TData d]) | Eof => Eof | Panic => Panic | Overflow => Overflow end
   else if is_noop op then eval_loop f bs ip2 acc else eval_loop f bs ip2 (acc ++ [TOp op]))
  = res_of_opt acc (push op n (skipn ip2 bs) (toks f)).
Proof.
  intros Hip Hfu. unfold push. destruct (N.eqb_spec n 0) as [->|Hn].
  - replace (0 <? 0) with false by reflexivity. destruct (is_noop op).
    + now apply IHf.
    + rewrite IHf by assumption. destruct (toks f (skipn ip2 bs)); cbn; [now rewrite <- app_assoc|reflexivity].
  - replace (0 <? n) with true by lia.
    rewrite skipn_length.
    destruct (N.ltb_spec (N.of_nat (length bs)) (N.of_nat ip2 + n)) as [Hlt|Hge].
    + replace (N.of_nat (length bs - ip2) <? n) with true by lia. reflexivity.
    + replace (N.of_nat (length bs - ip2) <? n) with false by lia.
      unfold slice. replace ((ip2 <=? ip2 + N.to_nat n) && (ip2 + N.to_nat n <=? length bs))%nat with true
        by (symmetry; apply andb_true_iff; split; apply Nat.leb_le; lia).
      rewrite IHf by lia. replace (ip2 + N.to_nat n - ip2)%nat with (N.to_nat n) by lia.
      rewrite skipn_skipn'. destruct (toks f (skipn (ip2 + N.to_nat n) bs)); cbn; [now rewrite <- app_assoc|reflexivity].
Qed.

(* the instruction-pointer machine equals the structural tokenizer, for every byte string and every fuel *)
Theorem eval_loop_toks : forall f bs ip acc, (ip <= length bs)%nat -> (length bs - ip <= f)%nat ->
  eval_loop f bs ip acc = res_of_opt acc (toks f (skipn ip bs)).
Proof.
  induction f as [|f IH]; intros bs ip acc Hip Hfu.
  - cbn [eval_loop toks]. destruct (Nat.ltb_spec ip (length bs)) as [Hlt|Hge]; [lia|].
    rewrite skipn_all2 by lia. cbn. now rewrite app_nil_r.
  - cbn [eval_loop toks]. destruct (Nat.ltb_spec ip (length bs)) as [Hlt|Hge].
    2:{ rewrite skipn_all2 by lia. cbn. now rewrite app_nil_r. }
    destruct (nth_error bs ip) as [c|] eqn:En; [|apply nth_error_None in En; lia].
    rewrite (skipn_nth_cons _ _ _ En). replace (S ip) with (ip + 1)%nat by lia.
    assert (Hlen : length (skipn (ip + 1) bs) = (length bs - (ip + 1))%nat) by apply skipn_length.
    unfold maybe_push_data.
    destruct (c <=? 0x4b) eqn:E1.
    { apply (push_loop f bs (IH bs)); lia. }
    unfold slice_from. replace (ip + 1 <=? length bs)%nat with true by (symmetry; apply Nat.leb_le; lia).
    unfold read_uint. rewrite Hlen.
    destruct (c =? 0x4c) eqn:E2; [|destruct (c =? 0x4d) eqn:E3; [|destruct (c =? 0x4e) eqn:E4]].
    + destruct (Nat.ltb_spec (length bs) (ip + 1)) as [H1|H1]; [lia|].
      destruct (Nat.ltb_spec (length bs - (ip + 1)) 1) as [H2|H2]; [reflexivity|].
      rewrite (skipn_skipn' 1 (ip + 1)).
      apply (push_loop f bs (IH bs)); lia.
    + destruct (Nat.ltb_spec (length bs) (ip + 2)) as [H1|H1].
      { replace (length bs - (ip + 1) <? 2)%nat with true by (symmetry; apply Nat.ltb_lt; lia). reflexivity. }
      destruct (Nat.ltb_spec (length bs - (ip + 1)) 2) as [H2|H2]; [reflexivity|].
      rewrite (skipn_skipn' 2 (ip + 1)). replace (ip + 1 + 2)%nat with (ip + 2 + 1)%nat by lia.
      apply (push_loop f bs (IH bs)); lia.
    + destruct (Nat.ltb_spec (length bs) (ip + 4)) as [H1|H1].
      { replace (length bs - (ip + 1) <? 4)%nat with true by (symmetry; apply Nat.ltb_lt; lia). reflexivity. }
      destruct (Nat.ltb_spec (length bs - (ip + 1)) 4) as [H2|H2]; [reflexivity|].
      rewrite (skipn_skipn' 4 (ip + 1)). replace (ip + 1 + 4)%nat with (ip + 4 + 1)%nat by lia.
      apply (push_loop f bs (IH bs)); lia.
    + pose proof (push_loop f bs (IH bs) c 0 (ip + 1)%nat acc ltac:(lia) ltac:(lia)) as P.
      replace (0 <? 0) with false in P by reflexivity. exact P.
Qed.

(* C06 / C14: evaluation of any byte string ends in a token list or in "unexpected EOF" — never a panic or overflow *)
Corollary eval_total bs : eval bs = res_of_opt [] (toks (length bs) bs).
Proof. unfold eval. rewrite eval_loop_toks by lia. reflexivity. Qed.
Corollary eval_never_panics bs : eval bs <> Panic /\ eval bs <> Overflow.
Proof. rewrite eval_total. destruct (toks (length bs) bs); cbn; split; discriminate. Qed.
Print Assumptions eval_never_panics.
