(* Proofs about the composed model (Model.v): the driver delivers exactly the requested range (C02), range results are
   slices of whole-chain results, trimming is invisible inside the range. *)
From RBP Require Import Bytes Hashes Wire Block Render Index Model.
From RBP Require Drive Published.
From Coq Require FinFun.

(* ---------- the height map ---------- *)
Lemma hm_get_filter_key (p:N -> bool) h idx :
  p h = true -> hm_get h (filter (fun e : N * irec => p (fst e)) idx) = hm_get h idx.
Proof.
  intro Hp. induction idx as [|[k v] r IH]; [reflexivity|]. cbn [filter fst].
  destruct (p k) eqn:Ek; cbn [hm_get]; destruct (N.eqb_spec k h) as [->|Hne]; try reflexivity; try exact IH.
  congruence.
Qed.
Lemma hm_get_In h idx rec : hm_get h idx = Some rec -> In h (map fst idx).
Proof.
  induction idx as [|[k v] r IH]; [discriminate|]. cbn [hm_get map fst]. destruct (N.eqb_spec k h) as [->|]; [now left|]. intro H. right. now apply IH.
Qed.

Definition in_range (s maxh:N) (h:N) : bool := (s - 1 <=? h) && (h <=? maxh).

(* what ChainIndex::new computes *)
Lemma new_index_spec kvs o ci : new_index kvs o = Ok ci ->
  exists idx, load_index (sort_kv kvs) [] = Ok idx /\ idx <> [] /\ ci_full ci = idx /\
    ci_max ci = (match o_end o with Some e => N.min e (hm_max idx) | None => hm_max idx end) /\
    ci_idx ci = (if is_default o then idx else filter (fun e => in_range (o_start o) (ci_max ci) (fst e)) idx).
Proof.
  unfold new_index. destruct (load_index (sort_kv kvs) []) as [idx| | |]; try discriminate.
  remember (hm_max idx) as M eqn:EM. cbv zeta.
  destruct idx as [|e0 r]; [discriminate|]. intro H. injection H as <-. cbn [ci_max ci_idx ci_full].
  exists (e0 :: r). rewrite <- EM. repeat split; try discriminate.
  destruct (o_end o) as [e|]; [|reflexivity]. destruct (N.ltb_spec e M); lia.
Qed.

(* trimming is invisible for every height the run looks at: s-1 .. max *)
Lemma trimmed_get kvs o ci h : new_index kvs o = Ok ci -> o_start o - 1 <= h <= ci_max ci -> hm_get h (ci_idx ci) = hm_get h (ci_full ci).
Proof.
  intros H Hh. destruct (new_index_spec _ _ _ H) as (idx & _ & _ & Hf & _ & Hi). rewrite Hi, Hf.
  destruct (is_default o); [reflexivity|].
  apply (hm_get_filter_key (in_range (o_start o) (ci_max ci))). unfold in_range. lia.
Qed.

(* ---------- C02: exactly the heights s..min(e,T), ascending, once ---------- *)
Definition dflt_block : eblock :=
  {| y_blk := {| b_size := 0; b_header := {| h_version := 0; h_prev := []; h_merkle := []; h_time := 0; h_bits := 0; h_nonce := 0 |};
                 b_aux := false; b_txcount := {| vval := 0; vraw := [] |}; b_txs := [] |}; y_hash := []; y_txs := [] |}.

Lemma heights_nodup s n : NoDup (Drive.heights s n).
Proof.
  unfold Drive.heights. apply FinFun.Injective_map_NoDup; [|apply seq_NoDup]. intros a b Hab. lia.
Qed.

Lemma contiguous_fuel (idx:hmap) s maxh : s <= maxh + 1 ->
  (forall h, s <= h <= maxh -> hm_get h idx <> None) -> (N.to_nat (maxh + 1 - s) <= length idx)%nat.
Proof.
  intros Hs H. rewrite <- (Drive.heights_length s (N.to_nat (maxh + 1 - s))), <- (map_length fst idx).
  apply NoDup_incl_length; [apply heights_nodup|]. intros h Hh. apply Drive.heights_In in Hh.
  specialize (H h ltac:(lia)). destruct (hm_get h idx) eqn:E; [|contradiction]. eapply hm_get_In; eauto.
Qed.

Theorem run_delivers_range c d o ci :
  range_ok (o_range o) = true -> d_files d <> [] -> new_index (d_index d) (o_range o) = Ok ci ->
  let s := o_start (o_range o) in
  s <= ci_max ci + 1 ->
  (forall h, s <= h <= ci_max ci -> exists b, get_block c d (o_verify o) ci h = Some (inl b)) ->
  exists r, run_case c d o = Run r /\ r_ci r = ci /\ r_fail r = None /\ r_cur r = ci_max ci + 1 /\
    map fst (r_delivered r) = Drive.heights s (N.to_nat (ci_max ci + 1 - s)) /\
    (forall h b, In (h, b) (r_delivered r) -> get_block c d (o_verify o) ci h = Some (inl b)).
Proof.
  intros Hrange Hfiles Hci s Hs Hget. unfold run_case. rewrite Hrange. cbn [negb]. destruct (d_files d) as [|f0 fr] eqn:Ef; [contradiction|]. rewrite Hci. cbv beta iota.
  set (get := get_block c d (o_verify o) ci).
  set (blk := fun h => match get h with Some (inl b) => b | _ => dflt_block end).
  assert (Hblk : forall h, s <= h <= ci_max ci -> get h = Some (inl (blk h))).
  { intros h Hh. destruct (Hget h Hh) as [b Hb]. unfold blk. fold get in Hb. now rewrite Hb. }
  assert (Hfuel : (N.to_nat (ci_max ci + 1 - s) < S (length (ci_idx ci)))%nat).
  { apply Nat.lt_succ_r. apply contiguous_fuel; [exact Hs|]. intros h Hh. specialize (Hblk h Hh). unfold get, get_block in Hblk.
    destruct (hm_get h (ci_idx ci)); [discriminate|discriminate Hblk]. }
  fold s. rewrite (Drive.drive_inclusive eblock failure get blk _ s (ci_max ci) [] Hblk Hs Hfuel).
  eexists. split; [reflexivity|]. cbn [r_ci r_fail r_cur r_delivered app]. repeat split.
  - rewrite map_map. cbn [fst]. apply map_id.
  - intros h b Hin. apply in_map_iff in Hin as (h' & Heq & Hh'). inversion Heq; subst. apply Hblk. apply Drive.heights_In in Hh'. lia.
Qed.

Corollary last_height_is_max c d o ci r :
  run_case c d o = Run r -> r_ci r = ci -> r_cur r = ci_max ci + 1 -> last_height r = ci_max ci.
Proof. intros _ _ H. unfold last_height. rewrite H. lia. Qed.

(* the run never looks at a height outside s-1 .. max: the result is the same for any two block sources agreeing there *)
Theorem outside_never_read c d1 d2 o ci :
  (forall h, o_start (o_range o) <= h <= ci_max ci -> get_block c d1 (o_verify o) ci h = get_block c d2 (o_verify o) ci h) ->
  forall fuel acc, Drive.drive eblock failure (get_block c d1 (o_verify o) ci) fuel true (ci_max ci) (o_start (o_range o)) acc
                 = Drive.drive eblock failure (get_block c d2 (o_verify o) ci) fuel true (ci_max ci) (o_start (o_range o)) acc.
Proof. intros H fuel acc. apply Drive.drive_ext. exact H. Qed.

(* ---------- a range sees the same blocks as the whole-chain run ---------- *)
Lemma get_block_range_same c d v kvs o o0 ci ci0 h :
  new_index kvs o = Ok ci -> new_index kvs o0 = Ok ci0 -> is_default o0 = true ->
  o_start o <= h <= ci_max ci -> get_block c d v ci h = get_block c d v ci0 h.
Proof.
  intros H H0 Hd Hh.
  destruct (new_index_spec _ _ _ H) as (idx & Hl & _ & Hf & _ & _).
  destruct (new_index_spec _ _ _ H0) as (idx0 & Hl0 & _ & Hf0 & _ & Hi0). rewrite Hd in Hi0.
  assert (E : idx0 = idx) by congruence.
  assert (A : forall k, o_start o - 1 <= k <= ci_max ci -> hm_get k (ci_idx ci) = hm_get k (ci_idx ci0)).
  { intros k Hk. rewrite (trimmed_get _ _ _ k H Hk), Hf, Hi0, E. reflexivity. }
  unfold get_block. rewrite (A h) by lia.
  destruct (hm_get h (ci_idx ci0)) as [rec|]; [|reflexivity].
  destruct (fetch_block c d rec) as [b|f]; [|reflexivity]. destruct v; [|reflexivity].
  unfold verify_block. destruct (Merkle.merkle_root H2 (map x_id (y_txs (eval_block c b)))); try reflexivity.
  destruct (negb _); [reflexivity|]. destruct (N.eqb_spec h 0); [reflexivity|].
  rewrite (A (h - 1)) by lia. reflexivity.
Qed.

(* per-block outputs: the rows / lines of a set of delivered blocks are the concatenation of each block's own rows, so the
   result for a range is the corresponding slice of the result for the whole chain *)
Theorem csv_writes_slice (p:N * eblock -> bool) delivered :
  csv_writes (filter p delivered) = flat_map (fun hb => if p hb then csv_block_writes hb else []) delivered.
Proof.
  unfold csv_writes. induction delivered as [|hb r IH]; [reflexivity|]. cbn [filter flat_map].
  destruct (p hb); cbn [flat_map]; now rewrite IH.
Qed.
Theorem csv_writes_app a b : csv_writes (a ++ b) = csv_writes a ++ csv_writes b.
Proof. unfold csv_writes. apply flat_map_app. Qed.
Theorem opreturn_lines_app a b : opreturn_lines (a ++ b) = opreturn_lines a ++ opreturn_lines b.
Proof. unfold opreturn_lines. apply flat_map_app. Qed.
Theorem opreturn_lines_slice (p:N * eblock -> bool) delivered :
  opreturn_lines (filter p delivered) =
  flat_map (fun hb => if p hb then opreturn_lines [hb] else []) delivered.
Proof.
  unfold opreturn_lines. induction delivered as [|hb r IH]; [reflexivity|]. cbn [filter flat_map].
  destruct (p hb); cbn [flat_map]; rewrite ?app_nil_r, IH; reflexivity.
Qed.

(* ---------- C17: the model's open-file trace is the iterated `visit` of Drive.Fds ---------- *)
Lemma last_nonempty_indep {A} (l:list A) a b : l <> [] -> last l a = last l b.
Proof. induction l as [|x r IH]; [congruence|]. intros _. destruct r; [reflexivity|]. cbn [last]. apply IH. discriminate. Qed.
Lemma open_trace_last ci : forall n s o,
  last (map snd (open_trace ci o (Drive.heights s n))) o = Drive.visits (file_of_height ci) (maxh_of_file ci) o s n.
Proof.
  induction n as [|n IH]; intros s o; [reflexivity|]. rewrite Drive.heights_S. cbn [open_trace map Drive.visits].
  set (o' := Drive.visit (file_of_height ci) (maxh_of_file ci) o s).
  rewrite <- (IH (s + 1) o'). destruct (map snd (open_trace ci o' (Drive.heights (s + 1) n))) as [|x r] eqn:E; [reflexivity|].
  cbn [last]. destruct r as [|y r']; [reflexivity|]. apply last_nonempty_indep. discriminate.
Qed.
Lemma open_trace_heights ci : forall hs o, map fst (open_trace ci o hs) = hs.
Proof. induction hs as [|h r IH]; intro o; [reflexivity|]. cbn. now rewrite IH. Qed.

(* ---------- C17 on the composed model: the hypotheses of Drive.Fds hold for every index the loader can produce ---------- *)
Lemma hm_get_In_pair h idx rec : hm_get h idx = Some rec -> In (h, rec) idx.
Proof.
  induction idx as [|[k v] r IH]; [discriminate|]. cbn [hm_get]. destruct (N.eqb_spec k h) as [->|]; [intro H; inversion H; now left|]. intro H. right. now apply IH.
Qed.
Lemma hm_get_of_In h rec idx : NoDup (map fst idx) -> In (h, rec) idx -> hm_get h idx = Some rec.
Proof.
  induction idx as [|[k v] r IH]; intros Hnd Hin; [contradiction|]. cbn [map fst] in Hnd. inversion Hnd as [|? ? Hn Hr]; subst. cbn [hm_get].
  destruct Hin as [E|Hin]; [inversion E; subst; now rewrite N.eqb_refl|].
  destruct (N.eqb_spec k h) as [->|Hne]; [exfalso; apply Hn; apply in_map_iff; exists (h, rec); split; [reflexivity|exact Hin]|now apply IH].
Qed.
Lemma hm_put_keys h v m x : In x (map fst (hm_put h v m)) -> x = h \/ (In x (map fst m) /\ x <> h).
Proof.
  unfold hm_put. cbn [map fst]. intros [<-|Hin]; [now left|]. right. apply in_map_iff in Hin as ((k, w) & <- & Hf). apply filter_In in Hf as [Hin Hk]. cbn in *.
  split; [apply in_map_iff; exists (k, w); split; [reflexivity|exact Hin]|]. destruct (N.eqb_spec k h); [discriminate|assumption].
Qed.
Lemma hm_put_nodup h v m : NoDup (map fst m) -> NoDup (map fst (hm_put h v m)).
Proof.
  intro H. unfold hm_put. cbn [map fst]. constructor.
  - intro Hin. apply in_map_iff in Hin as ((k, w) & E & Hf). apply filter_In in Hf as [_ Hk]. cbn in *. subst. now rewrite N.eqb_refl in Hk.
  - induction m as [|[k w] r IH]; [constructor|]. cbn [map fst] in H. inversion H as [|? ? Hn Hr]; subst. cbn [filter fst].
    destruct (negb (k =? h)); [|now apply IH]. cbn [map fst]. constructor; [|now apply IH].
    intro Hin. apply Hn. apply in_map_iff in Hin as ((k', w') & E & Hf). apply filter_In in Hf as [Hin' _]. cbn in E. subst. apply in_map_iff. exists (k, w'). split; [reflexivity|exact Hin'].
Qed.
Lemma load_index_nodup : forall kvs m m', NoDup (map fst m) -> load_index kvs m = Ok m' -> NoDup (map fst m').
Proof.
  induction kvs as [|[k v] r IH]; intros m m' Hm H; cbn [load_index] in H; [inversion H; now subst|].
  destruct k as [|b key]; [discriminate|]. destruct (N.eq_dec b 98) as [->|Hb].
  - destruct (decode_record key v) as [rec| | |]; try discriminate. destruct (admitted rec); [|now apply (IH m)]. apply (IH _ _ (hm_put_nodup _ _ _ Hm) H).
  - assert (Hskip : forall A (x y:A), match b with 98 => x | _ => y end = y).
    { intros A x y. destruct b as [|p]; [reflexivity|]. repeat (destruct p as [p|p|]; try reflexivity). exfalso; apply Hb; reflexivity. }
    rewrite Hskip in H. now apply (IH m).
Qed.

Definition mbf_step (f:N) (acc:option N) (e:N * irec) : option N :=
  if r_file (snd e) =? f then Some (match acc with Some a => N.max a (fst e) | None => fst e end) else acc.
Lemma maxh_by_file_fold f idx : maxh_by_file idx f = fold_left (mbf_step f) idx None.
Proof. reflexivity. Qed.
Lemma mbf_ge f : forall idx acc a, acc = Some a -> exists m, fold_left (mbf_step f) idx acc = Some m /\ a <= m.
Proof.
  induction idx as [|e r IH]; intros acc a ->; [exists a; split; [reflexivity|lia]|]. cbn [fold_left]. unfold mbf_step at 2.
  destruct (r_file (snd e) =? f); [|now apply IH]. destruct (IH _ (N.max a (fst e)) eq_refl) as (m & Hm & Hle). exists m. split; [exact Hm|lia].
Qed.
Lemma mbf_bounds_entry f : forall idx acc h rec, In (h, rec) idx -> r_file rec = f -> exists m, fold_left (mbf_step f) idx acc = Some m /\ h <= m.
Proof.
  induction idx as [|e r IH]; intros acc h rec Hin Hf; [contradiction|]. cbn [fold_left]. destruct Hin as [->|Hin].
  - unfold mbf_step at 2. cbn [snd fst]. rewrite Hf, N.eqb_refl.
    destruct (mbf_ge f r _ (match acc with Some a => N.max a h | None => h end) eq_refl) as (m & Hm & Hle). exists m. split; [exact Hm|].
    destruct acc; lia.
  - now apply (IH _ h rec).
Qed.
Lemma mbf_attained f : forall idx acc m, fold_left (mbf_step f) idx acc = Some m -> acc = Some m \/ (exists rec, In (m, rec) idx /\ r_file rec = f).
Proof.
  induction idx as [|[k rec] r IH]; intros acc m H; [left; exact H|]. cbn [fold_left] in H. unfold mbf_step at 2 in H. cbn [snd fst] in H.
  destruct (N.eqb_spec (r_file rec) f) as [Hf|Hf].
  - destruct (IH _ _ H) as [E|(rec' & Hin & Hf')].
    + destruct acc as [a|].
      * injection E as E'. subst m. destruct (N.max_spec a k) as [[_ Hm]|[_ Hm]]; rewrite Hm.
        -- right. exists rec. split; [now left|exact Hf].
        -- now left.
      * injection E as E'. subst m. right. exists rec. split; [now left|exact Hf].
    + right. exists rec'. split; [now right|exact Hf'].
  - destruct (IH _ _ H) as [E|(rec' & Hin & Hf')]; [now left|right; exists rec'; split; [now right|exact Hf']].
Qed.

Section ModelFds.
Variables (kvs:list (bytes * bytes)) (o:range) (ci:chain_index).
Hypothesis Hci : new_index kvs o = Ok ci.
Definition in_run (h:N) : Prop := o_start o <= h <= ci_max ci /\ hm_get h (ci_idx ci) <> None.

Lemma full_nodup : NoDup (map fst (ci_full ci)).
Proof. destruct (new_index_spec _ _ _ Hci) as (idx & Hl & _ & Hf & _). rewrite Hf. apply (load_index_nodup _ [] idx (NoDup_nil _) Hl). Qed.
Lemma in_run_record h : in_run h -> exists rec, hm_get h (ci_idx ci) = Some rec /\ In (h, rec) (ci_full ci) /\ file_of_height ci h = r_file rec.
Proof.
  intros [Hr Hg]. destruct (hm_get h (ci_idx ci)) as [rec|] eqn:E; [|congruence]. exists rec. split; [reflexivity|]. split.
  - apply hm_get_In_pair. rewrite <- (trimmed_get kvs o ci h Hci) by lia. exact E.
  - unfold file_of_height. now rewrite E.
Qed.
Theorem model_maxh_ok h : in_run h -> h <= maxh_of_file ci (file_of_height ci h).
Proof.
  intro Hd. destruct (in_run_record h Hd) as (rec & _ & Hin & ->). unfold maxh_of_file. rewrite maxh_by_file_fold.
  destruct (mbf_bounds_entry (r_file rec) (ci_full ci) None h rec Hin eq_refl) as (m & -> & Hle). exact Hle.
Qed.
Theorem model_maxh_attained h' h : in_run h' -> in_run h -> maxh_of_file ci (file_of_height ci h') = h -> file_of_height ci h = file_of_height ci h'.
Proof.
  intros Hd' Hd E. destruct (in_run_record h' Hd') as (rec' & _ & Hin' & Hf'). destruct (in_run_record h Hd) as (rec & Hget & Hin & Hf).
  unfold maxh_of_file in E. rewrite maxh_by_file_fold in E.
  destruct (mbf_bounds_entry (file_of_height ci h') (ci_full ci) None h' rec' Hin' (eq_sym Hf')) as (m & Hm & _). rewrite Hm in E. subst m.
  destruct (mbf_attained _ _ _ _ Hm) as [X|(rec2 & Hin2 & Hf2)]; [discriminate|].
  pose proof (hm_get_of_In h rec2 _ full_nodup Hin2) as G2. pose proof (hm_get_of_In h rec _ full_nodup Hin) as G. rewrite G in G2. inversion G2; subst. now rewrite Hf.
Qed.
(* C17 for the model: after delivering s..s+n-1 (all inside the run) every open file still stores a block of a later height *)
Theorem model_open_invariant n s : (forall i, (i < n)%nat -> in_run (s + N.of_nat i)) ->
  forall f, In f (Drive.visits (file_of_height ci) (maxh_of_file ci) [] s n) -> s + N.of_nat n <= maxh_of_file ci f.
Proof.
  intros Hd f Hin. destruct (Drive.open_span (file_of_height ci) (maxh_of_file ci) in_run model_maxh_ok model_maxh_attained n s f Hd Hin) as [_ H]. exact H.
Qed.
End ModelFds.
