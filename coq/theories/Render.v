(* Model: text rendering used by the callbacks — arr_to_hex (utils.rs:34), Display of sha256d::Hash (byte-reversed hex),
   Rust `{}` of unsigned integers, `;`-joined rows — and their inverses (C01: fields can be read back exactly). *)
From RBP Require Import Bytes.

Definition hexdigit (d:N) : N := if d <? 10 then 48 + d else 87 + d.
Definition hex (l:bytes) : list N := flat_map (fun b => [hexdigit (b / 16); hexdigit (b mod 16)]) l.
Definition hash_str (h:bytes) : list N := hex (rev h).
Fixpoint dec_rev (fuel:nat) (n:N) : list N :=
  match fuel with O => [] | S f => if n <? 10 then [48 + n] else (48 + n mod 10) :: dec_rev f (n / 10) end.
Definition dec (n:N) : list N := rev (dec_rev 25 n).
Definition SEMI : N := 59. Definition NL : N := 10.
Fixpoint join (sep:N) (fields:list (list N)) : list N :=
  match fields with [] => [] | [f] => f | f :: r => f ++ sep :: join sep r end.
Definition row (fields:list (list N)) : list N := join SEMI fields ++ [NL].

(* inverses *)
Definition unhexdigit (c:N) : N := if c <? 58 then c - 48 else c - 87.
Fixpoint unhex (l:list N) : bytes := match l with a :: b :: r => (16 * unhexdigit a + unhexdigit b) :: unhex r | _ => [] end.
Definition undec (l:list N) : N := fold_left (fun acc c => 10 * acc + (c - 48)) l 0.

Lemma unhexdigit_hexdigit d : d < 16 -> unhexdigit (hexdigit d) = d.
Proof. intro H. unfold hexdigit, unhexdigit. destruct (d <? 10) eqn:E; [replace (48 + d <? 58) with true by lia|replace (87 + d <? 58) with false by lia]; lia. Qed.

Theorem hex_inv l : wfb l = true -> unhex (hex l) = l.
Proof.
  induction l as [|b r IH]; intro H; [reflexivity|]. cbn in H. apply andb_true_iff in H as [Hb Hr].
  cbn [hex flat_map app unhex]. fold (hex r). rewrite IH by assumption.
  rewrite !unhexdigit_hexdigit by lia. f_equal. lia.
Qed.
Lemma hex_length l : length (hex l) = (2 * length l)%nat.
Proof. induction l as [|b r IH]; cbn [hex flat_map app length]; [reflexivity|]. fold (hex r). rewrite IH. lia. Qed.
(* lowercase alphabet: every character is 0-9 or a-f *)
Lemma hexdigit_lower d : d < 16 -> (48 <= hexdigit d <= 57) \/ (97 <= hexdigit d <= 102).
Proof. intro H. unfold hexdigit. destruct (d <? 10) eqn:E; lia. Qed.
Theorem hex_lowercase l : wfb l = true -> Forall (fun c => (48 <= c <= 57) \/ (97 <= c <= 102)) (hex l).
Proof.
  induction l as [|b r IH]; intro H; [constructor|]. cbn in H. apply andb_true_iff in H as [Hb Hr].
  cbn [hex flat_map app]. fold (hex r). constructor; [apply hexdigit_lower; lia|]. constructor; [apply hexdigit_lower; lia|]. now apply IH.
Qed.

Lemma undec_app a b : undec (a ++ b) = fold_left (fun acc c => 10 * acc + (c - 48)) b (undec a).
Proof. unfold undec. apply fold_left_app. Qed.
Lemma dec_rev_inv : forall fuel n, n < 10 ^ N.of_nat fuel -> undec (rev (dec_rev fuel n)) = n.
Proof.
  induction fuel as [|f IH]; intros n H.
  - change (10 ^ N.of_nat 0) with 1 in H. cbn. lia.
  - cbn [dec_rev]. destruct (n <? 10) eqn:E.
    + cbn. lia.
    + cbn [rev]. rewrite undec_app, IH.
      * cbn [fold_left]. lia.
      * rewrite Nnat.Nat2N.inj_succ, N.pow_succ_r' in H. lia.
Qed.
Theorem dec_inv n : n < 2^64 -> undec (dec n) = n.
Proof. intro H. unfold dec. apply dec_rev_inv. change (N.of_nat 25) with 25. assert (2^64 < 10^25) by reflexivity. lia. Qed.

Lemma dec_rev_nonempty fuel n : (0 < fuel)%nat -> (1 <= length (dec_rev fuel n))%nat.
Proof. destruct fuel as [|f]; [lia|]. intros _. cbn [dec_rev]. destruct (n <? 10); cbn; lia. Qed.
Lemma dec_rev_all_digits : forall fuel n, Forall (fun c => 48 <= c <= 57) (dec_rev fuel n).
Proof.
  induction fuel as [|f IH]; intro n; cbn [dec_rev]; [constructor|]. destruct (n <? 10) eqn:E; constructor; try lia; [constructor|apply IH].
Qed.
