(* Proofs for C16 (and the push-form half of C05/C06): OP_RETURN followed by exactly one data push, in any of the four push
   forms, yields exactly the pushed payload on both evaluation paths; what the opreturn callback prints. *)
From RBP Require Import Bytes Hashes Base58 Bech32 Utf8 ScriptCustom CustomTop ScriptCustomP ScriptBtc Wire Block Index Model.
From RBP Require Published.

Inductive pform := Direct | PD1 | PD2 | PD4.
Definition plen (d:bytes) : N := N.of_nat (length d).
Definition enc_push (f:pform) (d:bytes) : bytes :=
  match f with
  | Direct => plen d :: d
  | PD1 => 0x4c :: plen d :: d
  | PD2 => 0x4d :: le_encode 2 (plen d) ++ d
  | PD4 => 0x4e :: le_encode 4 (plen d) ++ d end.
Definition pfits (f:pform) (d:bytes) : Prop :=
  match f with Direct => plen d <= 75 | PD1 => plen d < 256 | PD2 => plen d < 65536 | PD4 => plen d < 2^32 end.

Lemma take_app d rest : take (plen d) (d ++ rest) = ISome (IPush d) rest.
Proof.
  unfold take, plen. rewrite app_length. replace (N.of_nat (length d + length rest) <? N.of_nat (length d)) with false by lia.
  rewrite Nnat.Nat2N.id, firstn_app, Nat.sub_diag, firstn_all, skipn_app, Nat.sub_diag, skipn_all. cbn. now rewrite app_nil_r.
Qed.
Lemma le_decode_firstn k n rest : n < 256 ^ N.of_nat k -> le_decode (firstn k (le_encode k n ++ rest)) = n.
Proof. intro H. rewrite firstn_app, le_encode_length, Nat.sub_diag, firstn_O, app_nil_r, <- (le_encode_length k n) at 1. rewrite firstn_all. now apply le_decode_encode. Qed.
Lemma skipn_le_encode k n rest : skipn k (le_encode k n ++ rest) = rest.
Proof. rewrite skipn_app, le_encode_length, Nat.sub_diag. rewrite <- (le_encode_length k n) at 1. rewrite skipn_all. reflexivity. Qed.

(* rust-bitcoin's instruction iterator on a push in any form *)
Lemma inext_push f d rest : pfits f d -> inext_of (enc_push f d ++ rest) = ISome (IPush d) rest.
Proof.
  intro H. destruct f; cbn [enc_push app inext_of pfits] in *.
  - replace (plen d <=? 75) with true by lia. apply take_app.
  - replace (76 <=? 75) with false by reflexivity. replace (76 =? 76) with true by reflexivity.
    cbn [length]. replace (Nat.ltb (S (length (d ++ rest))) 1) with false by reflexivity.
    cbn [firstn skipn le_decode]. replace (plen d + 256 * 0) with (plen d) by lia. apply take_app.
  - replace (77 <=? 75) with false by reflexivity. replace (77 =? 76) with false by reflexivity. replace (77 =? 77) with true by reflexivity.
    assert (L : (2 <= length (le_encode 2 (plen d) ++ d ++ rest))%nat) by (rewrite app_length, le_encode_length; lia).
    rewrite <- app_assoc. destruct (Nat.ltb_spec (length (le_encode 2 (plen d) ++ d ++ rest)) 2); [lia|].
    rewrite (le_decode_firstn 2) by (change (256 ^ N.of_nat 2) with 65536; exact H). rewrite skipn_le_encode. apply take_app.
  - replace (78 <=? 75) with false by reflexivity. replace (78 =? 76) with false by reflexivity. replace (78 =? 77) with false by reflexivity.
    replace (78 =? 78) with true by reflexivity.
    assert (L : (4 <= length (le_encode 4 (plen d) ++ d ++ rest))%nat) by (rewrite app_length, le_encode_length; lia).
    rewrite <- app_assoc. destruct (Nat.ltb_spec (length (le_encode 4 (plen d) ++ d ++ rest)) 4); [lia|].
    rewrite (le_decode_firstn 4) by (change (256 ^ N.of_nat 4) with (2^32); exact H). rewrite skipn_le_encode. apply take_app.
Qed.

(* Bitcoin / testnet3: the payload of OP_RETURN <one push> is exactly the pushed bytes, never the length bytes (finding F3 repaired) *)
Theorem opreturn_payload_single_push f d : pfits f d -> opreturn_payload (0x6a :: enc_push f d) = d.
Proof.
  intro H. unfold opreturn_payload. cbn [skipn]. rewrite <- (app_nil_r (enc_push f d)), (inext_push f d [] H). reflexivity.
Qed.
Theorem eval_btc_opreturn n f d : pfits f d ->
  eval_btc n (0x6a :: enc_push f d) = (BOpReturn (if utf8_valid d then d else []), None).
Proof. intro H. unfold eval_btc. now rewrite (opreturn_payload_single_push f d H). Qed.
(* every script starting with OP_RETURN is typed OpReturn and has no address; every other first byte is not *)
Theorem eval_btc_opreturn_iff n l : (exists d, fst (eval_btc n l) = BOpReturn d) <-> exists r, l = 0x6a :: r.
Proof.
  split.
  - intros [d H]. destruct l as [|c r]; [discriminate|]. destruct (N.eq_dec c 0x6a) as [->|Hne]; [eauto|]. exfalso.
    unfold eval_btc in H.
    assert (E : forall A (x y:A), match c with 0x6a => x | _ => y end = y).
    { intros A x y. destruct c as [|p]; [reflexivity|]. repeat (destruct p as [p|p|]; try reflexivity). exfalso; apply Hne; reflexivity. }
    rewrite E in H. destruct (return_or_illegal c); [discriminate|]. destruct (p2pk_key (c :: r)); [discriminate|].
    repeat match type of H with context [if ?b then _ else _] => destruct b; try discriminate end.
    all: try (destruct (witness_version (c :: r)); [discriminate|]; destruct (is_multisig (c :: r)); discriminate).
  - intros [r ->]. eexists. reflexivity.
Qed.

(* fork coins: the same scripts tokenise to [OP_RETURN; data] and print the lossy text; an empty push is an opcode token, not data *)
Lemma toks_cons f c r : toks (S f) (c :: r) =
  if c <=? 0x4b then push c c r (toks f)
  else if c =? 0x4c then (if (length r <? 1)%nat then None else push c (le_decode (firstn 1 r)) (skipn 1 r) (toks f))
  else if c =? 0x4d then (if (length r <? 2)%nat then None else push c (le_decode (firstn 2 r)) (skipn 2 r) (toks f))
  else if c =? 0x4e then (if (length r <? 4)%nat then None else push c (le_decode (firstn 4 r)) (skipn 4 r) (toks f))
  else push c 0 r (toks f).
Proof. reflexivity. Qed.
Lemma toks_opreturn_push f d : pfits f d -> d <> [] -> toks (length (0x6a :: enc_push f d)) (0x6a :: enc_push f d) = Some [TOp 0x6a; TData d].
Proof.
  intros H Hne. assert (Hl : 0 < plen d) by (unfold plen; destruct d; [congruence|cbn; lia]).
  assert (P : forall fuel op, push op (plen d) d (toks fuel) = Some [TData d]).
  { intros fuel op. unfold push, plen. replace (N.of_nat (length d) =? 0) with false by (unfold plen in Hl; lia).
    replace (N.of_nat (length d) <? N.of_nat (length d)) with false by lia.
    rewrite Nnat.Nat2N.id, firstn_all, skipn_all. destruct fuel; reflexivity. }
  assert (Hk : exists k, length (enc_push f d) = S k) by (destruct f; cbn; eauto). destruct Hk as [k Hk].
  cbn [length]. rewrite Hk, toks_cons.
  replace (0x6a <=? 75) with false by reflexivity. replace (0x6a =? 76) with false by reflexivity.
  replace (0x6a =? 77) with false by reflexivity. replace (0x6a =? 78) with false by reflexivity.
  unfold push at 1. replace (0 =? 0) with true by reflexivity. replace (is_noop 0x6a) with false by reflexivity.
  destruct f; cbn [enc_push pfits] in *.
  - destruct k as [|k]; [cbn in Hk; destruct d; [congruence|discriminate]|].
    rewrite toks_cons. replace (plen d <=? 75) with true by lia. now rewrite P.
  - destruct k as [|k]; [discriminate|]. rewrite toks_cons.
    replace (76 <=? 75) with false by reflexivity. replace (76 =? 76) with true by reflexivity.
    cbn [length]. replace (Nat.ltb (S (length d)) 1) with false by reflexivity.
    cbn [firstn skipn le_decode]. replace (plen d + 256 * 0) with (plen d) by lia. now rewrite P.
  - destruct k as [|k]; [discriminate|]. rewrite toks_cons.
    replace (77 <=? 75) with false by reflexivity. replace (77 =? 76) with false by reflexivity. replace (77 =? 77) with true by reflexivity.
    destruct (Nat.ltb_spec (length (le_encode 2 (plen d) ++ d)) 2) as [Hlt|_]; [rewrite app_length, le_encode_length in Hlt; lia|].
    rewrite (le_decode_firstn 2) by (change (256 ^ N.of_nat 2) with 65536; exact H). rewrite skipn_le_encode. now rewrite P.
  - destruct k as [|k]; [discriminate|]. rewrite toks_cons.
    replace (78 <=? 75) with false by reflexivity. replace (78 =? 76) with false by reflexivity. replace (78 =? 77) with false by reflexivity.
    replace (78 =? 78) with true by reflexivity.
    destruct (Nat.ltb_spec (length (le_encode 4 (plen d) ++ d)) 4) as [Hlt|_]; [rewrite app_length, le_encode_length in Hlt; lia|].
    rewrite (le_decode_firstn 4) by (change (256 ^ N.of_nat 4) with (2^32); exact H). rewrite skipn_le_encode. now rewrite P.
Qed.
Theorem eval_custom_opreturn f d v : pfits f d -> d <> [] ->
  eval_custom (0x6a :: enc_push f d) v = (POpReturn (from_utf8_lossy d), None).
Proof.
  intros H Hne. rewrite (eval_custom_is_classify_of_tokens _ v _ (toks_opreturn_push f d H Hne)). reflexivity.
Qed.

(* ---------- what the callback prints ---------- *)
Definition output_lines (h:N) (tid:bytes) (oe:txout * escript) : list (N * bytes * bytes) :=
  if (e_tag (snd oe) =? 0) && negb (match e_text (snd oe) with [] => true | _ => false end) then [(h, tid, e_text (snd oe))] else [].
(* one line per OP_RETURN output with a non-empty text, in chain order: blocks, then transactions, then outputs *)
Theorem opreturn_lines_def delivered :
  opreturn_lines delivered = flat_map (fun hb => flat_map (fun t => flat_map (output_lines (fst hb) (x_id t)) (x_outs t)) (y_txs (snd hb))) delivered.
Proof. reflexivity. Qed.
Theorem non_opreturn_silent h tid oe : e_tag (snd oe) <> 0 -> output_lines h tid oe = [].
Proof. intro H. unfold output_lines. destruct (N.eqb_spec (e_tag (snd oe)) 0); [contradiction|reflexivity]. Qed.
Theorem empty_text_silent h tid oe : e_text (snd oe) = [] -> output_lines h tid oe = [].
Proof. intro H. unfold output_lines. rewrite H. now rewrite andb_false_r. Qed.
Theorem opreturn_prints_text h tid oe : e_tag (snd oe) = 0 -> e_text (snd oe) <> [] -> output_lines h tid oe = [(h, tid, e_text (snd oe))].
Proof. intros H Hne. unfold output_lines. rewrite H. destruct (e_text (snd oe)); [congruence|reflexivity]. Qed.
(* the evaluated script of an output on Bitcoin: tag 0 exactly for OP_RETURN scripts, text = payload if valid UTF-8 else empty *)
Theorem eval_script_btc_opreturn c f d : is_btc c = true -> pfits f d ->
  eval_script c (0x6a :: enc_push f d) = {| e_tag := 0; e_addr := None; e_text := if utf8_valid d then d else [] |}.
Proof. intros Hb H. unfold eval_script. rewrite Hb, (eval_btc_opreturn _ f d H). reflexivity. Qed.
Theorem eval_script_fork_opreturn c f d : is_btc c = false -> pfits f d -> d <> [] ->
  eval_script c (0x6a :: enc_push f d) = {| e_tag := 0; e_addr := None; e_text := from_utf8_lossy d |}.
Proof. intros Hb H Hne. unfold eval_script. rewrite Hb, (eval_custom_opreturn f d _ H Hne). reflexivity. Qed.
