(* Model: coin parameters, block header, AuxPoW section, block (reader.rs:31-61,149-175; header.rs; block.rs) *)
From RBP Require Import Bytes Hashes Wire.

Record coin := { version_id : N; auxpow_version : option N; genesis : bytes }.

Record header := { h_version : N; h_prev : bytes; h_merkle : bytes; h_time : N; h_bits : N; h_nonce : N }.
Definition read_header : reader header :=
  v <- read_u32 ;; p <- read_hash ;; m <- read_hash ;; t <- read_u32 ;; b <- read_u32 ;; n <- read_u32 ;;
  ret {| h_version := v; h_prev := p; h_merkle := m; h_time := t; h_bits := b; h_nonce := n |}.
(* header.rs:17 ToRaw *)
Definition raw_header (h:header) : bytes :=
  le_encode 4 (h_version h) ++ h_prev h ++ h_merkle h ++ le_encode 4 (h_time h) ++ le_encode 4 (h_bits h) ++ le_encode 4 (h_nonce h).
Definition read_merkle_branch : reader unit :=
  n <- read_cs ;; _ <- read_n read_hash (vval n) ;; _ <- read_u32 ;; ret tt.
Definition read_auxpow : reader unit :=
  _ <- read_tx ;; _ <- read_hash ;; _ <- read_merkle_branch ;; _ <- read_merkle_branch ;; _ <- read_header ;; ret tt.
Record block := { b_size : N; b_header : header; b_aux : bool; b_txcount : varuint; b_txs : list rawtx }.
Definition aux_expected (c:coin) (h:header) : bool := match auxpow_version c with Some v => v <=? h_version h | None => false end.
Definition read_block (c:coin) (size:N) : reader block :=
  h <- read_header ;;
  _ <- (if aux_expected c h then read_auxpow else ret tt) ;;
  cnt <- read_cs ;;
  txs <- read_n read_tx (vval cnt) ;;
  ret {| b_size := size; b_header := h; b_aux := aux_expected c h; b_txcount := cnt; b_txs := txs |}.

(* Hashed::double_sha256 (proto/mod.rs:21) over ToRaw *)
Definition block_hash (b:block) : bytes := sha256d (raw_header (b_header b)).
Definition txid (t:rawtx) : bytes := sha256d (raw_tx t).
