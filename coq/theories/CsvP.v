(* Proofs for C01 on the composed model: rows can be parsed back into their fields, one row per block / tx / input / output,
   totals equal row counts, hashes are over the 80 header bytes and the witness-stripped transaction. *)
From RBP Require Import Bytes Hashes Wire Block BlockP Render Index Model.

(* ---------- a row splits back into its fields ---------- *)
Fixpoint split_on (sep:N) (l:list N) (cur:list N) : list (list N) :=
  match l with [] => [rev cur] | c :: r => if c =? sep then rev cur :: split_on sep r [] else split_on sep r (c :: cur) end.
Definition clean (f:list N) : Prop := ~ In SEMI f /\ ~ In NL f.
Lemma split_on_app_clean sep f rest cur : ~ In sep f -> split_on sep (f ++ rest) cur = split_on sep rest (rev f ++ cur).
Proof.
  revert cur. induction f as [|c f IH]; intros cur H; [reflexivity|]. cbn [app split_on].
  destruct (N.eqb_spec c sep) as [->|Hne]; [exfalso; apply H; now left|].
  rewrite IH by (intro; apply H; now right). cbn [rev]. now rewrite <- app_assoc.
Qed.
Lemma split_join fs : fs <> [] -> Forall clean fs -> split_on SEMI (join SEMI fs) [] = fs.
Proof.
  induction fs as [|f r IH]; intros Hne Hc; [congruence|]. inversion Hc as [|? ? Hf Hr]; subst.
  destruct r as [|g r'].
  - cbn [join]. rewrite <- (app_nil_r f) at 1. rewrite split_on_app_clean by apply Hf. cbn. now rewrite app_nil_r, rev_involutive.
  - cbn [join]. fold (join SEMI (g :: r')). rewrite split_on_app_clean by apply Hf.
    cbn [split_on]. replace (SEMI =? SEMI) with true by reflexivity. rewrite app_nil_r, rev_involutive. f_equal.
    apply IH; [discriminate|assumption].
Qed.
(* the fields of a row, recovered from the text of the row *)
Definition fields_of_row (r:list N) : list (list N) := split_on SEMI (removelast r) [].
Theorem fields_of_row_row fs : fs <> [] -> Forall clean fs -> fields_of_row (row fs) = fs.
Proof. intros. unfold fields_of_row, row. rewrite removelast_last. now apply split_join. Qed.

Lemma hexdigit_clean d : d < 16 -> hexdigit d <> SEMI /\ hexdigit d <> NL.
Proof. intro H. destruct (hexdigit_lower d H); unfold SEMI, NL; lia. Qed.
Lemma hex_clean l : wfb l = true -> clean (hex l).
Proof.
  intro H. pose proof (hex_lowercase l H) as F. unfold clean. split; intro Hin; rewrite Forall_forall in F; specialize (F _ Hin); unfold SEMI, NL in *; lia.
Qed.
Lemma dec_rev_digits : forall fuel n, Forall (fun c => 48 <= c <= 57) (dec_rev fuel n).
Proof.
  induction fuel as [|f IH]; intro n; cbn [dec_rev]; [constructor|]. destruct (n <? 10) eqn:E; constructor; try lia; [constructor|apply IH].
Qed.
Lemma dec_clean n : clean (dec n).
Proof.
  unfold clean, dec. pose proof (dec_rev_digits 25 n) as F. rewrite Forall_forall in F.
  split; intro Hin; apply in_rev in Hin; specialize (F _ Hin); unfold SEMI, NL in *; lia.
Qed.

(* ---------- one row per block, transaction, input, output; totals = rows written ---------- *)
Definition rows_of (i:nat) (ws:list (nat * bytes)) : list bytes := map snd (filter (fun w => Nat.eqb (fst w) i) ws).
Lemma rows_of_app i a b : rows_of i (a ++ b) = rows_of i a ++ rows_of i b.
Proof. unfold rows_of. now rewrite filter_app, map_app. Qed.
Lemma rows_of_map_other i j (l:list bytes) : i <> j -> rows_of i (map (fun r => (j, r)) l) = [].
Proof. intro H. unfold rows_of. induction l as [|x r IH]; [reflexivity|]. cbn. destruct (Nat.eqb_spec j i); [congruence|exact IH]. Qed.
Lemma rows_of_map_same i (l:list bytes) : rows_of i (map (fun r => (i, r)) l) = l.
Proof. unfold rows_of. induction l as [|x r IH]; [reflexivity|]. cbn. rewrite Nat.eqb_refl. cbn. now rewrite IH. Qed.
Lemma out_rows_length tid outs : forall i, length (out_rows tid i outs) = length outs.
Proof. induction outs as [|o r IH]; intro i; [reflexivity|]. cbn. now rewrite IH. Qed.

Definition n_inputs (t:etx) : nat := length (tx_inputs (x_raw t)).
Definition n_outputs (t:etx) : nat := length (x_outs t).
Definition sum_nat {A} (f:A -> nat) (l:list A) : nat := fold_right (fun x s => (f x + s)%nat) 0%nat l.

Lemma csv_tx_rows bh t :
  length (rows_of 0 (csv_tx_writes bh t)) = 0%nat /\ length (rows_of 1 (csv_tx_writes bh t)) = 1%nat /\
  length (rows_of 2 (csv_tx_writes bh t)) = n_inputs t /\ length (rows_of 3 (csv_tx_writes bh t)) = n_outputs t.
Proof.
  unfold csv_tx_writes. set (tid := hash_str (x_id t)).
  change ((1%nat, tx_row bh t) :: ?x) with ([(1%nat, tx_row bh t)] ++ x).
  rewrite !rows_of_app.
  rewrite (map_map (fun i => in_row tid i) (fun r => (2%nat, r))) || idtac.
  replace (map (fun i : txin => (2%nat, in_row tid i)) (tx_inputs (x_raw t))) with (map (fun r => (2%nat, r)) (map (in_row tid) (tx_inputs (x_raw t)))) by (now rewrite map_map).
  rewrite !rows_of_map_same. rewrite !rows_of_map_other by lia. rewrite !app_length, !map_length, out_rows_length.
  unfold rows_of, n_inputs, n_outputs. cbn. repeat split; lia.
Qed.

Lemma csv_block_rows h b :
  length (rows_of 0 (csv_block_writes (h, b))) = 1%nat /\ length (rows_of 1 (csv_block_writes (h, b))) = length (y_txs b) /\
  length (rows_of 2 (csv_block_writes (h, b))) = sum_nat n_inputs (y_txs b) /\ length (rows_of 3 (csv_block_writes (h, b))) = sum_nat n_outputs (y_txs b).
Proof.
  unfold csv_block_writes. set (bh := hash_str (y_hash b)).
  change ((0%nat, block_row b h) :: ?x) with ([(0%nat, block_row b h)] ++ x). rewrite !rows_of_app.
  assert (G : forall txs, length (rows_of 0 (flat_map (csv_tx_writes bh) txs)) = 0%nat /\ length (rows_of 1 (flat_map (csv_tx_writes bh) txs)) = length txs /\
                        length (rows_of 2 (flat_map (csv_tx_writes bh) txs)) = sum_nat n_inputs txs /\ length (rows_of 3 (flat_map (csv_tx_writes bh) txs)) = sum_nat n_outputs txs).
  { induction txs as [|t r IH]; [repeat split|]. cbn [flat_map sum_nat fold_right length]. rewrite !rows_of_app, !app_length.
    destruct (csv_tx_rows bh t) as (A0 & A1 & A2 & A3). destruct IH as (B0 & B1 & B2 & B3). fold (sum_nat n_inputs r) (sum_nat n_outputs r). lia. }
  destruct (G (y_txs b)) as (B0 & B1 & B2 & B3). rewrite !app_length, B0, B1, B2, B3. unfold rows_of. cbn. repeat split; lia.
Qed.

(* exactly one row per processed block / transaction / input / output *)
Theorem csv_row_counts delivered :
  length (rows_of 0 (csv_writes delivered)) = length delivered /\
  length (rows_of 1 (csv_writes delivered)) = sum_nat (fun hb => length (y_txs (snd hb))) delivered /\
  length (rows_of 2 (csv_writes delivered)) = sum_nat (fun hb => sum_nat n_inputs (y_txs (snd hb))) delivered /\
  length (rows_of 3 (csv_writes delivered)) = sum_nat (fun hb => sum_nat n_outputs (y_txs (snd hb))) delivered.
Proof.
  unfold csv_writes. induction delivered as [|[h b] r IH]; [repeat split|].
  cbn [flat_map sum_nat fold_right length snd]. rewrite !rows_of_app, !app_length.
  destruct (csv_block_rows h b) as (A0 & A1 & A2 & A3). destruct IH as (B0 & B1 & B2 & B3).
  rewrite A0, A1, A2, A3, B0, B1, B2, B3. repeat split; reflexivity.
Qed.

(* rows appear in chain order: the rows of a later block follow all rows of the earlier blocks, file by file *)
Theorem csv_rows_chain_order i a b : rows_of i (csv_writes (a ++ b)) = rows_of i (csv_writes a) ++ rows_of i (csv_writes b).
Proof. unfold csv_writes. now rewrite flat_map_app, rows_of_app. Qed.

(* the totals printed on completion: sums of the CompactSize counts; for blocks whose counts equal the number of parsed
   elements (every block that read_block returns from a well-formed serialisation) these are the numbers of rows written *)
Definition counts_consistent (b:eblock) : Prop :=
  vval (b_txcount (y_blk b)) = N.of_nat (length (y_txs b)) /\
  Forall (fun t => vval (tx_incount (x_raw t)) = N.of_nat (n_inputs t) /\ vval (tx_outcount (x_raw t)) = N.of_nat (n_outputs t)) (y_txs b).
Lemma sumN_fold {A} (f:A -> N) l a : fold_left (fun a x => a + f x) l a = a + sumN f l.
Proof. unfold sumN. revert a. induction l as [|x r IH]; intro a; cbn [fold_left]; [lia|]. rewrite IH, (IH (0 + f x)). lia. Qed.
Lemma sumN_cons {A} (f:A -> N) x l : sumN f (x :: l) = f x + sumN f l.
Proof. unfold sumN at 1. cbn [fold_left]. rewrite sumN_fold. lia. Qed.
Lemma csv_totals_sums delivered : Forall (fun hb => counts_consistent (snd hb)) delivered ->
  csv_totals delivered = (N.of_nat (sum_nat (fun hb => length (y_txs (snd hb))) delivered),
                          N.of_nat (sum_nat (fun hb => sum_nat n_inputs (y_txs (snd hb))) delivered),
                          N.of_nat (sum_nat (fun hb => sum_nat n_outputs (y_txs (snd hb))) delivered)).
Proof.
  intro Hc. unfold csv_totals.
  assert (Gtx : forall txs, Forall (fun t => vval (tx_incount (x_raw t)) = N.of_nat (n_inputs t) /\ vval (tx_outcount (x_raw t)) = N.of_nat (n_outputs t)) txs ->
            sumN (fun t => vval (tx_incount (x_raw t))) txs = N.of_nat (sum_nat n_inputs txs) /\ sumN (fun t => vval (tx_outcount (x_raw t))) txs = N.of_nat (sum_nat n_outputs txs)).
  { induction txs as [|t r IH]; intro F; [split; reflexivity|]. inversion F as [|? ? [Ha Hb] Fr]; subst. destruct (IH Fr) as [I1 I2].
    rewrite !sumN_cons, I1, I2, Ha, Hb. cbn [sum_nat fold_right]. fold (sum_nat n_inputs r) (sum_nat n_outputs r). split; lia. }
  induction delivered as [|[h b] r IH]; [reflexivity|]. inversion Hc as [|? ? [Hb Ft] Hr]; subst. cbn [snd] in *.
  specialize (IH Hr). injection IH as I1 I2 I3. destruct (Gtx _ Ft) as [G1 G2].
  rewrite !sumN_cons. cbn [snd sum_nat fold_right]. rewrite I1, I2, I3, Hb, G1, G2.
  fold (sum_nat (fun hb => length (y_txs (snd hb))) r) (sum_nat (fun hb => sum_nat n_inputs (y_txs (snd hb))) r) (sum_nat (fun hb => sum_nat n_outputs (y_txs (snd hb))) r).
  f_equal; [f_equal|]; lia.
Qed.
Theorem csv_totals_are_row_counts delivered : Forall (fun hb => counts_consistent (snd hb)) delivered ->
  csv_totals delivered = (N.of_nat (length (rows_of 1 (csv_writes delivered))), N.of_nat (length (rows_of 2 (csv_writes delivered))),
                          N.of_nat (length (rows_of 3 (csv_writes delivered)))).
Proof.
  intro Hc. destruct (csv_row_counts delivered) as (_ & R1 & R2 & R3). rewrite R1, R2, R3. now apply csv_totals_sums.
Qed.

(* ---------- hashes ---------- *)
Lemma raw_header_length h : wf_header h = true -> length (raw_header h) = 80%nat.
Proof.
  unfold wf_header. rewrite !andb_true_iff. intros [[[[[_ H2] H3] _] _] _]. apply Nat.eqb_eq in H2, H3.
  unfold raw_header. rewrite !app_length, !le_encode_length, H2, H3. reflexivity.
Qed.
(* the block hash is the double SHA-256 of the first 80 bytes of the serialised block *)
Theorem block_hash_is_header_hash c size b : wf_block c b = true ->
  block_hash (parsed_block size b) = sha256d (firstn 80 (ser_block b)).
Proof.
  intro W. unfold wf_block in W. rewrite !andb_true_iff in W. destruct W as [[[Hh _] _] _].
  unfold block_hash, parsed_block, ser_block. cbn [b_header]. f_equal.
  rewrite firstn_app, (raw_header_length _ Hh), Nat.sub_diag, firstn_O, app_nil_r.
  symmetry. apply firstn_all2. rewrite (raw_header_length _ Hh). lia.
Qed.
(* the txid is the double SHA-256 of the witness-stripped serialisation *)
Theorem txid_is_stripped_hash t : txid (parsed_tx t) = sha256d (ser_tx_stripped t).
Proof. unfold txid. now rewrite raw_tx_stripped. Qed.

(* the bytes of CSV file i are the concatenation of its rows (OutProto.data_for is what success_content puts under the final name) *)
From RBP Require OutProto.
Lemma data_for_rows i ws : OutProto.data_for i ws = concat (rows_of i ws).
Proof. reflexivity. Qed.
