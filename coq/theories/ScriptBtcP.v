(* Prototype: the nth-based rust-bitcoin predicates mirrored in ScriptBtc.v are exactly the declarative byte templates,
   and the templates are mutually exclusive (so the order of the cascade in eval_from_bytes_bitcoin is irrelevant).  C05 *)
From RBP Require Import Bytes Utf8 ScriptBtc.

Lemma skipn_two {A} (d:A) : forall n (r:list A), length r = S (S n) -> skipn n r = [nth n r d; nth (S n) r d].
Proof.
  induction n as [|n IH]; intros r H.
  - destruct r as [|a [|b [|c r']]]; cbn in H; try lia. reflexivity.
  - destruct r as [|a r']; cbn in H; [lia|]. cbn [skipn nth]. apply IH. lia.
Qed.
Lemma skipn_one {A} (d:A) : forall n (r:list A), length r = S n -> skipn n r = [nth n r d].
Proof.
  induction n as [|n IH]; intros r H.
  - destruct r as [|a [|b r']]; cbn in H; try lia. reflexivity.
  - destruct r as [|a r']; cbn in H; [lia|]. cbn [skipn nth]. apply IH. lia.
Qed.
Lemma split_tail2 (r:bytes) n : length r = S (S n) -> r = firstn n r ++ [nth n r 0; nth (S n) r 0].
Proof. intro H. rewrite <- (skipn_two 0 n r H). symmetry. apply firstn_skipn. Qed.
Lemma split_tail1 (r:bytes) n : length r = S n -> r = firstn n r ++ [nth n r 0].
Proof. intro H. rewrite <- (skipn_one 0 n r H). symmetry. apply firstn_skipn. Qed.

Ltac beq := repeat match goal with H : (_ =? _) = true |- _ => apply N.eqb_eq in H | H : (_ =? _)%nat = true |- _ => apply Nat.eqb_eq in H end.

Theorem is_p2pkh_shape l : is_p2pkh l = true <-> exists h, length h = 20%nat /\ l = [0x76; 0xa9; 0x14] ++ h ++ [0x88; 0xac].
Proof.
  unfold is_p2pkh, len, nthb. split.
  - rewrite !andb_true_iff. intros [[[[[H0 H1] H2] H3] H4] H5]. beq.
    destruct l as [|a [|b [|c r]]]; cbn in H0; try lia. cbn in H1, H2, H3, H4, H5. subst a b c.
    exists (firstn 20 r). split; [rewrite firstn_length; lia|].
    cbn [app]. do 3 f_equal. rewrite <- H4, <- H5. apply split_tail2. lia.
  - intros (h & Hh & ->). cbn [app length]. rewrite app_length, Hh. cbn [length Nat.add Nat.eqb nth andb N.eqb].
    change (nth 20 (h ++ [136; 172]) 0) with (nth 20 (h ++ [136; 172]) 0).
    rewrite !app_nth2 by lia. rewrite Hh. reflexivity.
Qed.

Theorem is_p2sh_shape l : is_p2sh l = true <-> exists h, length h = 20%nat /\ l = [0xa9; 0x14] ++ h ++ [0x87].
Proof.
  unfold is_p2sh, len, nthb. split.
  - rewrite !andb_true_iff. intros [[[H0 H1] H2] H3]. beq.
    destruct l as [|a [|b r]]; cbn in H0; try lia. cbn in H1, H2, H3. subst a b.
    exists (firstn 20 r). split; [rewrite firstn_length; lia|].
    cbn [app]. do 2 f_equal. rewrite <- H3. apply split_tail1. lia.
  - intros (h & Hh & ->). cbn [app length]. rewrite app_length, Hh. cbn [length Nat.add Nat.eqb nth andb N.eqb].
    rewrite !app_nth2 by lia. rewrite Hh. reflexivity.
Qed.

Lemma p2pk_case (l:bytes) (n:nat) : length l = S (S n) -> nth 0 l 0 = N.of_nat n -> nth (S n) l 0 = 0xac ->
  length (firstn n (skipn 1 l)) = n /\ l = [N.of_nat n] ++ firstn n (skipn 1 l) ++ [0xac].
Proof.
  intros H0 H1 H2. destruct l as [|a r]; cbn in H0; [lia|]. cbn in H1, H2. subst a. cbn [skipn].
  split; [rewrite firstn_length; lia|]. cbn [app]. f_equal. rewrite <- H2. apply split_tail1. lia.
Qed.

Theorem p2pk_shape l k : p2pk_key l = Some k <-> (length k = 33%nat \/ length k = 65%nat) /\ l = [N.of_nat (length k)] ++ k ++ [0xac].
Proof.
  unfold p2pk_key, len, nthb. split.
  - destruct ((length l =? 67)%nat && (nth 0 l 0 =? 65) && (nth 66 l 0 =? 172)) eqn:E1.
    + apply andb_true_iff in E1 as [E1 H2]. apply andb_true_iff in E1 as [H0 H1]. beq. intro H. assert (Hk : k = firstn 65 (skipn 1 l)) by congruence. clear H. subst k.
      destruct (p2pk_case l 65 H0 H1 H2) as [Hl Hs]. rewrite Hl. split; [now right|exact Hs].
    + destruct ((length l =? 35)%nat && (nth 0 l 0 =? 33) && (nth 34 l 0 =? 172)) eqn:E2; [|discriminate].
      apply andb_true_iff in E2 as [E2 H2]. apply andb_true_iff in E2 as [H0 H1]. beq. intro H. assert (Hk : k = firstn 33 (skipn 1 l)) by congruence. clear H. subst k.
      destruct (p2pk_case l 33 H0 H1 H2) as [Hl Hs]. rewrite Hl. split; [now left|exact Hs].
  - intros (Hk & ->). set (L := [N.of_nat (length k)] ++ k ++ [172]).
    assert (HL : length L = S (S (length k))) by (unfold L; cbn [app length]; rewrite app_length; cbn; lia).
    assert (H0 : nth 0 L 0 = N.of_nat (length k)) by reflexivity.
    assert (Hlast : nth (S (length k)) L 0 = 172).
    { unfold L. cbn [app nth]. rewrite app_nth2 by lia. now rewrite Nat.sub_diag. }
    assert (Hmid : firstn (length k) (skipn 1 L) = k).
    { unfold L. cbn [app skipn]. rewrite firstn_app, Nat.sub_diag, firstn_all. cbn. apply app_nil_r. }
    destruct Hk as [Hk|Hk]; rewrite Hk in *; rewrite HL, H0.
    + replace ((35 =? 67)%nat) with false by reflexivity. cbn [andb]. rewrite Hlast.
      replace ((35 =? 35)%nat && (N.of_nat 33 =? 33) && (172 =? 172)) with true by reflexivity. now rewrite Hmid.
    + rewrite Hlast. replace ((67 =? 67)%nat && (N.of_nat 65 =? 65) && (172 =? 172)) with true by reflexivity. now rewrite Hmid.
Qed.

(* first-byte fingerprints make the templates exclusive *)
Lemma p2pkh_first l : is_p2pkh l = true -> nthb l 0 = 0x76.
Proof. intro H. apply is_p2pkh_shape in H as (h & _ & ->). reflexivity. Qed.
Lemma p2sh_first l : is_p2sh l = true -> nthb l 0 = 0xa9.
Proof. intro H. apply is_p2sh_shape in H as (h & _ & ->). reflexivity. Qed.
Lemma p2pk_first l k : p2pk_key l = Some k -> nthb l 0 = 33 \/ nthb l 0 = 65.
Proof. intro H. apply p2pk_shape in H as ([Hk|Hk] & ->); rewrite Hk; cbn; auto. Qed.
Lemma witness_first l v : witness_version l = Some v -> nthb l 0 = 0 \/ (0x51 <= nthb l 0 <= 0x60).
Proof.
  unfold witness_version. destruct ((4 <=? len l)%nat && (len l <=? 42)%nat); [|discriminate].
  destruct ((nthb l 1 <? 2) || (40 <? nthb l 1)); [discriminate|].
  destruct (negb (N.of_nat (len l - 2) =? nthb l 1)); [discriminate|].
  destruct (nthb l 0 =? 0) eqn:E0; [apply N.eqb_eq in E0; auto|]. unfold pushnum.
  destruct ((81 <=? nthb l 0) && (nthb l 0 <=? 96)) eqn:E; [|discriminate]. intros _. right. lia.
Qed.

Theorem templates_exclusive l :
  (is_p2pkh l = true -> is_p2sh l = false /\ p2pk_key l = None /\ witness_version l = None) /\
  (is_p2sh l = true -> p2pk_key l = None /\ witness_version l = None) /\
  (p2pk_key l <> None -> witness_version l = None).
Proof.
  split; [|split].
  - intro H. apply p2pkh_first in H. split; [|split].
    + destruct (is_p2sh l) eqn:E; [apply p2sh_first in E; congruence|reflexivity].
    + destruct (p2pk_key l) eqn:E; [apply p2pk_first in E; lia|reflexivity].
    + destruct (witness_version l) eqn:E; [apply witness_first in E; lia|reflexivity].
  - intro H. apply p2sh_first in H. split.
    + destruct (p2pk_key l) eqn:E; [apply p2pk_first in E; lia|reflexivity].
    + destruct (witness_version l) eqn:E; [apply witness_first in E; lia|reflexivity].
  - intro H. destruct (p2pk_key l) eqn:E; [|congruence]. apply p2pk_first in E.
    destruct (witness_version l) eqn:E2; [apply witness_first in E2; lia|reflexivity].
Qed.
Print Assumptions templates_exclusive.
