(* C04: the exact boundary of the known finding F-C04.
   LevelDB hands the records to the loader in strictly increasing bytewise key order.  The loader keeps, for every height, the admitted record with the
   GREATEST key (the last one read).  So the delivered chain is the active chain exactly when, at every height, no admitted competitor has a key greater
   than the active block's; one admitted competitor with a greater key at some height and the block delivered there is the competitor. *)
From RBP Require Import Bytes Index IndexP.
From RBP Require Published.
From Coq Require Import Sorted.

(* ---------- the key order ---------- *)
Lemma key_leb_refl a : key_leb a a = true.
Proof. induction a as [|x a IH]; [reflexivity|]. cbn [key_leb]. rewrite N.ltb_irrefl. exact IH. Qed.
Lemma key_leb_antisym : forall a b, key_leb a b = true -> key_leb b a = true -> a = b.
Proof.
  induction a as [|x a IH]; intros [|y b] H1 H2; try reflexivity; try discriminate.
  cbn [key_leb] in H1, H2.
  destruct (N.ltb_spec x y) as [L|L]; destruct (N.ltb_spec y x) as [L'|L']; try lia; try discriminate.
  assert (x = y) by lia. subst. f_equal. now apply IH.
Qed.
Definition key_lt (a b:bytes) : Prop := key_leb a b = true /\ a <> b.

(* ---------- scanning a list in which every block record decodes ---------- *)
Definition rec_of (kv:bytes * bytes) : option irec :=
  match kv with (98 :: key, v) => match decode_record key v with Ok r => Some r | _ => None end | _ => None end.
Definition decodes (kv:bytes * bytes) : Prop := match kv with (98 :: key, v) => exists r, decode_record key v = Ok r | _ => True end.
Definition admitted_at (h:N) (kv:bytes * bytes) : bool := match rec_of kv with Some r => admitted r && (r_height r =? h) | None => false end.

Lemma not_98 (b:N) : b <> 98 -> forall A (x y:A), match b with 98 => x | _ => y end = y.
Proof. intros Hb A x y. destruct b as [|p]; [reflexivity|]. repeat (destruct p as [p|p|]; try reflexivity). exfalso; apply Hb; reflexivity. Qed.

Lemma last_admitted_cons h kv r cur : decodes kv ->
  last_admitted h (kv :: r) cur = last_admitted h r (if admitted_at h kv then rec_of kv else cur).
Proof.
  destruct kv as [k v]. unfold decodes, admitted_at, rec_of. intro Hd.
  destruct k as [|b key]; [reflexivity|]. destruct (N.eq_dec b 98) as [->|Hb].
  - destruct Hd as [rec Hr]. cbn [last_admitted]. rewrite Hr. reflexivity.
  - cbn [last_admitted]. rewrite !(not_98 b Hb). reflexivity.
Qed.
Lemma last_admitted_app h : forall pre l cur, Forall decodes pre -> last_admitted h (pre ++ l) cur = last_admitted h l (last_admitted h pre cur).
Proof.
  induction pre as [|kv pre IH]; intros l cur HF; [reflexivity|]. inversion HF as [|? ? Hd Hp]; subst.
  cbn [app]. rewrite !(last_admitted_cons h kv _ _ Hd). now apply IH.
Qed.
Lemma last_admitted_none h : forall post cur, Forall decodes post -> (forall kv, In kv post -> admitted_at h kv = false) -> last_admitted h post cur = cur.
Proof.
  induction post as [|kv post IH]; intros cur HF Hn; [reflexivity|]. inversion HF as [|? ? Hd Hp]; subst.
  rewrite (last_admitted_cons h kv _ _ Hd), (Hn kv (or_introl eq_refl)). apply IH; [exact Hp|]. intros kv' Hin. apply Hn. now right.
Qed.
(* the record that is admitted at h and followed by no other admitted record of height h is the one kept *)
Lemma last_admitted_is_last h pre kv post cur : Forall decodes (pre ++ kv :: post) -> admitted_at h kv = true ->
  (forall kv', In kv' post -> admitted_at h kv' = false) -> last_admitted h (pre ++ kv :: post) cur = rec_of kv.
Proof.
  intros HF Ha Hn. apply Forall_app in HF. destruct HF as [Hpre HF]. inversion HF as [|? ? Hd Hpost]; subst.
  rewrite (last_admitted_app h pre _ _ Hpre), (last_admitted_cons h kv _ _ Hd), Ha. now apply last_admitted_none.
Qed.

(* a successful load means every block record decoded *)
Lemma load_ok_decodes : forall kvs m m', load_index kvs m = Ok m' -> Forall decodes kvs.
Proof.
  induction kvs as [|[k v] r IH]; intros m m' H; [constructor|]. cbn [load_index] in H.
  destruct k as [|b key]; [discriminate|]. destruct (N.eq_dec b 98) as [->|Hb].
  - destruct (decode_record key v) as [rec| | |] eqn:E; try discriminate. constructor; [cbn; eauto|].
    destruct (admitted rec); eapply IH; exact H.
  - rewrite (not_98 b Hb) in H. constructor; [cbn; now rewrite (not_98 b Hb)|]. eapply IH; exact H.
Qed.

(* ---------- in key order: the kept record of a height is the admitted one with the greatest key ---------- *)
Definition sorted_keys (kvs:list (bytes * bytes)) : Prop := StronglySorted (fun a b => key_lt (fst a) (fst b)) kvs.

Theorem greatest_key_wins kvs idx h kv :
  sorted_keys kvs -> load_index kvs [] = Ok idx -> In kv kvs -> admitted_at h kv = true ->
  (forall kv', In kv' kvs -> admitted_at h kv' = true -> key_leb (fst kv') (fst kv) = true) ->
  hm_get h idx = rec_of kv.
Proof.
  intros Hs Hl Hin Ha Hmax. rewrite (load_index_last kvs [] idx h Hl). cbn [hm_get].
  pose proof (load_ok_decodes _ _ _ Hl) as Hd.
  apply in_split in Hin. destruct Hin as (pre & post & ->).
  apply last_admitted_is_last; [exact Hd|exact Ha|].
  intros kv' Hin'. destruct (admitted_at h kv') eqn:E; [|reflexivity]. exfalso.
  assert (Hlt : key_lt (fst kv) (fst kv')).
  { unfold sorted_keys in Hs. clear - Hs Hin'. induction pre as [|p pre IH]; cbn [app] in Hs.
    - inversion Hs as [|? ? _ Hall]; subst. rewrite Forall_forall in Hall. now apply Hall.
    - inversion Hs as [|? ? Hs' _]; subst. now apply IH. }
  destruct Hlt as [Hle Hne]. apply Hne. apply key_leb_antisym; [exact Hle|]. apply Hmax; [|exact E]. apply in_or_app. right. now right.
Qed.

(* outside the known class: at every height the active record's key is the greatest among the admitted records of that height => the loader's map is the active chain *)
Theorem C04_outside_class kvs idx (active : N -> option (bytes * bytes)) :
  sorted_keys kvs -> load_index kvs [] = Ok idx ->
  (forall h kv, active h = Some kv -> In kv kvs /\ admitted_at h kv = true /\ forall kv', In kv' kvs -> admitted_at h kv' = true -> key_leb (fst kv') (fst kv) = true) ->
  (forall h, active h = None -> forall kv, In kv kvs -> admitted_at h kv = false) ->
  forall h, hm_get h idx = match active h with Some kv => rec_of kv | None => None end.
Proof.
  intros Hs Hl Hact Hnone h. destruct (active h) as [kv|] eqn:E.
  - destruct (Hact h kv E) as (Hin & Ha & Hmax). now apply (greatest_key_wins kvs idx h kv).
  - rewrite (load_index_last kvs [] idx h Hl). cbn [hm_get]. apply last_admitted_none; [exact (load_ok_decodes _ _ _ Hl)|]. intros kv Hin. now apply (Hnone h E).
Qed.

(* inside the known class: an admitted competitor whose key is the greatest of its height is what the map holds there, not the active record *)
Theorem C04_inside_class kvs idx h act comp :
  sorted_keys kvs -> load_index kvs [] = Ok idx -> In act kvs -> In comp kvs -> admitted_at h comp = true ->
  (forall kv', In kv' kvs -> admitted_at h kv' = true -> key_leb (fst kv') (fst comp) = true) ->
  rec_of comp <> rec_of act -> hm_get h idx <> rec_of act.
Proof.
  intros Hs Hl _ Hc Ha Hmax Hne. rewrite (greatest_key_wins kvs idx h comp Hs Hl Hc Ha Hmax). exact Hne.
Qed.

(* ---------- the order the model hands to the loader (sort_kv, standing for LevelDB's iteration order) is strictly increasing when keys are unique ---------- *)
Lemma key_leb_total : forall a b, key_leb a b = false -> key_leb b a = true.
Proof.
  induction a as [|x a IH]; intros [|y b] H; try discriminate; try reflexivity. cbn [key_leb] in *.
  destruct (N.ltb_spec x y) as [L|L]; [discriminate|]. destruct (N.ltb_spec y x) as [L'|L']; [reflexivity|]. now apply IH.
Qed.
Lemma key_leb_trans : forall a b c, key_leb a b = true -> key_leb b c = true -> key_leb a c = true.
Proof.
  induction a as [|x a IH]; intros [|y b] [|z c] H1 H2; try reflexivity; try discriminate. cbn [key_leb] in *.
  destruct (N.ltb_spec x y) as [L1|L1].
  - destruct (N.ltb_spec y z) as [L2|L2]; [replace (x <? z) with true by lia; reflexivity|].
    destruct (N.ltb_spec z y) as [L3|L3]; [discriminate|]. assert (y = z) by lia. subst. replace (x <? z) with true by lia. reflexivity.
  - destruct (N.ltb_spec y x) as [L1'|L1']; [discriminate|]. assert (x = y) by lia. subst.
    destruct (N.ltb_spec y z) as [L2|L2]; [reflexivity|]. destruct (N.ltb_spec z y) as [L3|L3]; [discriminate|]. now apply (IH b c).
Qed.
Lemma insert_sorted_in kv l x : In x (insert_sorted kv l) <-> x = kv \/ In x l.
Proof.
  induction l as [|h t IH]; cbn [insert_sorted]; [cbn; intuition congruence|].
  destruct (key_leb (fst kv) (fst h)); cbn [In]; [intuition congruence|]. rewrite IH. intuition congruence.
Qed.
Lemma insert_sorted_keeps kv l : sorted_keys l -> ~ In (fst kv) (map fst l) -> sorted_keys (insert_sorted kv l).
Proof.
  unfold sorted_keys. induction l as [|h t IH]; intros Hs Hn; cbn [insert_sorted].
  - constructor; constructor.
  - inversion Hs as [|? ? Hst Hall]; subst. destruct (key_leb (fst kv) (fst h)) eqn:E.
    + assert (Hlt : key_lt (fst kv) (fst h)) by (split; [exact E|intro Eq; apply Hn; left; now symmetry]).
      constructor; [exact Hs|]. constructor; [exact Hlt|]. rewrite Forall_forall in Hall |- *. intros x Hx. destruct (Hall x Hx) as [L N'].
      split; [now apply (key_leb_trans _ (fst h))|]. intro Eq. apply Hn. right. rewrite Eq. now apply in_map.
    + constructor.
      * apply IH; [exact Hst|]. intro Hin. apply Hn. now right.
      * rewrite Forall_forall in Hall |- *. intros x Hx. apply insert_sorted_in in Hx. destruct Hx as [->|Hx]; [|now apply Hall].
        split; [now apply key_leb_total|]. intro Eq. apply Hn. left. exact Eq.
Qed.
Lemma sort_kv_keys l x : In x (sort_kv l) <-> In x l.
Proof. induction l as [|kv l IH]; cbn [sort_kv fold_right]; [tauto|]. fold (sort_kv l). rewrite insert_sorted_in, IH. cbn. intuition congruence. Qed.
Theorem sort_kv_sorted l : NoDup (map fst l) -> sorted_keys (sort_kv l).
Proof.
  induction l as [|kv l IH]; intro Hn; [constructor|]. cbn [sort_kv fold_right]. fold (sort_kv l). cbn [map] in Hn. inversion Hn as [|? ? Hx Hn']; subst.
  apply insert_sorted_keeps; [now apply IH|]. intro Hin. apply Hx. apply in_map_iff in Hin. destruct Hin as (y & Ey & Hy). apply (proj1 (sort_kv_keys l y)) in Hy. rewrite <- Ey. apply (in_map fst l y Hy).
Qed.
