(* C07 / C08: every row of the unspent and balances dumps splits back into exactly its fields (no field can contain the separator or a line break), for every entry
   the callbacks can list: txid;index;height;value;address and address;balance.  The listed txid is the txid of the creating transaction, the index its output
   number mod 2^32, the address the one the evaluator reported for that output's script. *)
From Coq Require Import List NArith Arith Lia Bool.
Import ListNotations.
From RBP Require Import Bytes Hashes Codec Wire Block Render Index Model CsvP CbP AddrClean.
From RBP Require Utxo BalanceP.

Lemma wfb_rev l : wfb (rev l) = wfb l.
Proof. induction l as [|x r IH]; [reflexivity|]. cbn [rev]. rewrite wfb_app, IH. cbn [wfb forallb]. destruct (x <? 256); rewrite ?andb_true_r, ?andb_false_r; reflexivity. Qed.

Lemma hash_str_clean h : wfb h = true -> clean (hash_str h).
Proof. intro H. unfold hash_str. apply hex_clean. rewrite wfb_rev. exact H. Qed.

Lemma clean_nil : clean [].
Proof. split; intro H; exact H. Qed.

Theorem unspent_row_fields k h v a : wfb (firstn 32 k) = true -> clean a ->
  fields_of_row (unspent_row (k, (h, v, a))) = [hash_str (firstn 32 k); dec (le_decode (skipn 32 k)); dec h; dec v; a].
Proof.
  intros Hk Ha. unfold unspent_row. apply fields_of_row_row; [discriminate|].
  repeat constructor; try apply dec_clean; try apply Ha; try apply (proj1 Ha); try apply (proj2 Ha); try (apply hash_str_clean; exact Hk).
Qed.

Theorem balance_row_fields a v : clean a -> fields_of_row (balance_row (a, v)) = [a; dec v].
Proof.
  intro Ha. unfold balance_row. cbn [fst snd]. apply fields_of_row_row; [discriminate|].
  repeat constructor; try apply dec_clean; try apply (proj1 Ha); try apply (proj2 Ha).
Qed.

(* every Create event of an evaluated chain: key = txid of an evaluated transaction ++ index, address clean *)
Lemma evaluated_create c (blocks : list (N * block)) k v :
  In (Utxo.Create bytes uval k v) (utxo_events (map (fun hb => (fst hb, eval_block c (snd hb))) blocks)) ->
  exists t j h val a, k = ukey (txid t) j /\ v = (h, val, a) /\ clean a.
Proof.
  unfold utxo_events. rewrite in_flat_map. intros ([h b] & Hb & H). rewrite in_map_iff in Hb. destruct Hb as ([h0 b0] & E & _). cbn [fst snd] in E, H.
  inversion E; subst h b. clear E. unfold eval_block in H. cbn [y_txs] in H. rewrite in_flat_map in H. destruct H as (t & Ht & H).
  rewrite in_map_iff in Ht. destruct Ht as (rt & <- & _). unfold tx_events in H. apply in_app_or in H. destruct H as [H|H].
  - rewrite in_map_iff in H. destruct H as (i & Habs & _). discriminate.
  - cbn [eval_tx x_id x_outs] in H. apply create_events_addr in H. destruct H as (o & e & a & j & Hin & Ea & -> & ->).
    rewrite in_map_iff in Hin. destruct Hin as (o' & E & _). inversion E; subst o' e.
    exists rt, j, h0, (out_value o), a. repeat split; try apply (address_clean c (out_script o) a Ea).
Qed.

Lemma ukey_first32 t j : firstn 32 (ukey (txid t) j) = txid t.
Proof.
  unfold ukey. assert (L : length (txid t) = 32%nat) by (unfold txid, sha256d; apply sha256_length).
  rewrite firstn_app, L, Nat.sub_diag, firstn_O, app_nil_r. apply firstn_all2. lia.
Qed.

Theorem listed_row_fields c (blocks : list (N * block)) k h v a :
  Utxo.lookup bytes uval beqb k (utxo_final (map (fun hb => (fst hb, eval_block c (snd hb))) blocks)) = Some (h, v, a) ->
  fields_of_row (unspent_row (k, (h, v, a))) = [hash_str (firstn 32 k); dec (le_decode (skipn 32 k)); dec h; dec v; a]
  /\ exists t j, k = ukey (txid t) j /\ firstn 32 k = txid t.
Proof.
  intro H. apply utxo_listed_iff in H. destruct H as (before & after & E & _).
  assert (Hin : In (Utxo.Create bytes uval k (h, v, a)) (utxo_events (map (fun hb => (fst hb, eval_block c (snd hb))) blocks))) by (rewrite E; apply in_or_app; right; left; reflexivity).
  apply evaluated_create in Hin. destruct Hin as (t & j & h' & v' & a' & -> & Ev & Ca). inversion Ev; subst h' v' a'.
  split; [|exists t, j; split; [reflexivity|apply ukey_first32]].
  apply unspent_row_fields; [|exact Ca]. rewrite ukey_first32. unfold txid. apply sha256d_wfb.
Qed.

(* ... and every balances row: its address is owned by a listed entry, hence clean *)
Theorem listed_balance_row_fields c (blocks : list (N * block)) a s :
  In (a, s) (balances_final (utxo_final (map (fun hb => (fst hb, eval_block c (snd hb))) blocks))) ->
  fields_of_row (balance_row (a, s)) = [a; dec s].
Proof.
  intro H. apply balance_row_fields.
  assert (Ha : In a (map fst (balances_final (utxo_final (map (fun hb => (fst hb, eval_block c (snd hb))) blocks))))) by (apply in_map_iff; exists (a, s); split; [reflexivity|exact H]).
  apply BalanceP.balances_addresses_are_owners in Ha. destruct Ha as (k & h & v & Hin).
  assert (L : Utxo.lookup bytes uval beqb k (utxo_final (map (fun hb => (fst hb, eval_block c (snd hb))) blocks)) <> None -> True) by trivial.
  (* membership in the final set comes from a Create event *)
  unfold utxo_final in Hin.
  assert (G : forall evs m0 k0 v0, In (k0, v0) (fold_left (Utxo.apply bytes uval beqb) evs m0) -> In (k0, v0) m0 \/ In (Utxo.Create bytes uval k0 v0) evs).
  { induction evs as [|e r IH]; intros m0 k0 v0 Hi; [left; exact Hi|]. cbn [fold_left] in Hi. apply IH in Hi. destruct Hi as [Hi|Hi]; [|right; right; exact Hi].
    destruct e as [k1|k1 v1]; cbn [Utxo.apply] in Hi.
    - left. unfold Utxo.remove in Hi. apply filter_In in Hi. apply Hi.
    - unfold Utxo.insert in Hi. destruct Hi as [Hi|Hi]; [inversion Hi; subst; right; left; reflexivity|left; unfold Utxo.remove in Hi; apply filter_In in Hi; apply Hi]. }
  apply G in Hin. destruct Hin as [[]|Hin]. apply evaluated_create in Hin. destruct Hin as (t & j & h' & v' & a' & _ & Ev & Ca). inversion Ev; subst. exact Ca.
Qed.
