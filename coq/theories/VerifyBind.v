(* C09 on the composed model: what acceptance by --verify binds.  (1) Two accepted block bodies under one header with the same number of transactions but different
   txid lists exhibit an explicit SHA-256d collision (no assumption about the hash: the collision is constructed).  (2) The same-count condition is necessary: the
   duplicated-tail mutation of an accepted odd-count body is accepted as well - the acceptance condition is exactly the three stated conditions, nothing more. *)
From Coq Require Import List NArith Arith Lia.
Import ListNotations.
From RBP Require Import Bytes Hashes Wire Block Render Index Model CbP.
From RBP Require Merkle MerkleP.

Lemma verify_accept_root c idx b h : verify_block c idx b h = None ->
  Merkle.merkle_root H2 (map x_id (y_txs b)) = Ok (h_merkle (b_header (y_blk b))).
Proof.
  unfold verify_block. destruct (Merkle.merkle_root H2 (map x_id (y_txs b))) as [r| | |]; try discriminate.
  destruct (beqb_spec r (h_merkle (b_header (y_blk b)))) as [->|Hne]; cbn [negb]; [reflexivity|discriminate].
Qed.

Theorem accepted_bodies_collide c idx b b' h :
  b_header (y_blk b) = b_header (y_blk b') -> length (y_txs b) = length (y_txs b') -> map x_id (y_txs b) <> map x_id (y_txs b') ->
  verify_block c idx b h = None -> verify_block c idx b' h = None -> MerkleP.collision H2.
Proof.
  intros Hh Hl Hne V V'. apply verify_accept_root in V. apply verify_accept_root in V'. rewrite <- Hh in V'.
  eapply MerkleP.merkle_root_collision; [|exact Hne|exact V|exact V']. rewrite !map_length. exact Hl.
Qed.

(* contrapositive reading: without a collision the accepted txid list of a given length under a header is unique *)
Corollary accepted_body_unique c idx b b' h : ~ MerkleP.collision H2 ->
  b_header (y_blk b) = b_header (y_blk b') -> length (y_txs b) = length (y_txs b') ->
  verify_block c idx b h = None -> verify_block c idx b' h = None -> map x_id (y_txs b) = map x_id (y_txs b').
Proof.
  intros NC Hh Hl V V'. destruct (list_eq_dec MerkleP.bytes_eq_dec (map x_id (y_txs b)) (map x_id (y_txs b'))) as [E|NE]; [exact E|].
  exfalso. apply NC. eapply accepted_bodies_collide; eauto.
Qed.

Lemma merkle_spec_fuel_mono : forall f l r, Merkle.merkle_spec H2 f l = Some r -> forall f', (f <= f')%nat -> Merkle.merkle_spec H2 f' l = Some r.
Proof.
  induction f as [|f IH]; intros l r Hs f' Hf; [discriminate|].
  destruct f' as [|f']; [lia|]. destruct l as [|a [|b t]]; [discriminate|exact Hs|].
  cbn [Merkle.merkle_spec] in *. apply IH; [exact Hs|lia].
Qed.

Lemma merkle_root_dup_tail l x : l <> [] -> Nat.odd (length l) = false ->
  Merkle.merkle_root H2 (l ++ [x; x]) = Merkle.merkle_root H2 (l ++ [x]).
Proof.
  intros Hne Ho.
  assert (N1 : l ++ [x] <> []) by (destruct l; discriminate).
  assert (N2 : l ++ [x; x] <> []) by (destruct l; discriminate).
  destruct (Merkle.merkle_root_spec H2 _ N1) as (r1 & R1 & S1). destruct (Merkle.merkle_root_spec H2 _ N2) as (r2 & R2 & S2).
  rewrite R1, R2. f_equal.
  apply merkle_spec_fuel_mono with (f' := S (length (l ++ [x; x]))) in S1; [|rewrite !app_length; cbn; lia].
  rewrite (MerkleP.merkle_dup_tail_same_root H2 l x Hne Ho) in S1. congruence.
Qed.

Theorem mutated_body_accepted c idx b b' h l x :
  l <> [] -> Nat.odd (length l) = false ->
  map x_id (y_txs b) = l ++ [x] -> map x_id (y_txs b') = l ++ [x; x] ->
  b_header (y_blk b) = b_header (y_blk b') -> y_hash b = y_hash b' ->
  verify_block c idx b' h = verify_block c idx b h.
Proof.
  intros Hne Ho E E' Hh Hy. unfold verify_block. rewrite E, E', <- Hh, <- Hy, (merkle_root_dup_tail l x Hne Ho). reflexivity.
Qed.
