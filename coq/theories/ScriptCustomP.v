(* Proofs for C06: typing = template match over the published table (templates mutually exclusive, so cascade order is irrelevant),
   address formulas, evaluation never fails. *)
From RBP Require Import Bytes Hashes Base58 ScriptCustom Utf8 CustomTop.
From RBP Require Published.

(* ---------- a template match fixes the shape of the token list ---------- *)
Fixpoint fill (tpl:list (option N)) (ds:list bytes) : list tok :=
  match tpl with
  | [] => []
  | Some c :: r => TOp c :: fill r ds
  | None :: r => match ds with d :: ds' => TData d :: fill r ds' | [] => [] end
  end.
Definition slots (tpl:list (option N)) : nat := length (filter (fun s => match s with None => true | _ => false end) tpl).
Theorem match_template_shape tpl : forall ts, match_template ts tpl = true <-> exists ds, length ds = slots tpl /\ ts = fill tpl ds.
Proof.
  induction tpl as [|s r IH]; intro ts.
  - destruct ts; cbn; split; [intros _; exists []; split; reflexivity|reflexivity|discriminate|intros ([|d ds] & Hl & E); discriminate].
  - destruct ts as [|t ts']; cbn [match_template].
    + split; [discriminate|]. intros (ds & Hl & E). destruct s; [discriminate|]. destruct ds; [cbn in Hl; discriminate|discriminate].
    + rewrite andb_true_iff, IH. destruct s as [c|]; cbn [slots filter fill length].
      * fold (slots r). split.
        -- intros [Hs (ds & Hl & ->)]. destruct t as [c'|d]; [|discriminate]. cbn in Hs. apply N.eqb_eq in Hs. subst. exists ds. split; [exact Hl|reflexivity].
        -- intros (ds & Hl & E). inversion E; subst. split; [cbn; apply N.eqb_refl|]. exists ds. split; [exact Hl|reflexivity].
      * fold (slots r). split.
        -- intros [Hs (ds & Hl & ->)]. destruct t as [c'|d]; [discriminate|]. exists (d :: ds). split; [cbn; now rewrite Hl|reflexivity].
        -- intros ([|d ds] & Hl & E); [discriminate|]. cbn in E. inversion E; subst. split; [reflexivity|]. exists ds. split; [cbn in Hl; lia|reflexivity].
Qed.

(* ---------- exclusivity: no token list matches two different published templates ---------- *)
Fixpoint compatible (a b:list (option N)) : bool :=
  match a, b with
  | [], [] => true
  | Some x :: a', Some y :: b' => (x =? y) && compatible a' b'
  | None :: a', None :: b' => compatible a' b'
  | _, _ => false end.
Lemma match_two_compatible : forall ts a b, match_template ts a = true -> match_template ts b = true -> compatible a b = true.
Proof.
  induction ts as [|t ts IH]; intros [|sa a] [|sb b] Ha Hb; cbn in *; try discriminate; try reflexivity.
  apply andb_true_iff in Ha as [Ha1 Ha2]. apply andb_true_iff in Hb as [Hb1 Hb2].
  destruct t as [c|d]; destruct sa as [x|]; destruct sb as [y|]; cbn in *; try discriminate.
  - apply N.eqb_eq in Ha1, Hb1. subst. rewrite N.eqb_refl. cbn. now apply (IH a b).
  - now apply (IH a b).
Qed.
Lemma published_pairwise_incompatible :
  forallb (fun i => forallb (fun j => (i =? j)%nat || negb (compatible (snd (nth i Published.templates (0, []))) (snd (nth j Published.templates (0, [])))))
                     (seq 0 (length Published.templates))) (seq 0 (length Published.templates)) = true.
Proof. vm_compute. reflexivity. Qed.
Theorem templates_exclusive ts i j : (i < length Published.templates)%nat -> (j < length Published.templates)%nat ->
  match_template ts (snd (nth i Published.templates (0, []))) = true -> match_template ts (snd (nth j Published.templates (0, []))) = true -> i = j.
Proof.
  intros Hi Hj Mi Mj. pose proof (match_two_compatible _ _ _ Mi Mj) as C.
  pose proof published_pairwise_incompatible as P. rewrite forallb_forall in P. specialize (P i ltac:(apply in_seq; lia)).
  rewrite forallb_forall in P. specialize (P j ltac:(apply in_seq; lia)). rewrite C in P. cbn in P. rewrite orb_false_r in P. now apply Nat.eqb_eq.
Qed.
(* hence the cascade returns THE matching template's tag, whatever the order of the table *)
Lemma first_match_some ts tpls tag : first_match ts tpls = Some tag -> exists i, (i < length tpls)%nat /\ fst (nth i tpls (0, [])) = tag /\ match_template ts (snd (nth i tpls (0, []))) = true.
Proof.
  induction tpls as [|[t tpl] r IH]; [discriminate|]. cbn [first_match]. destruct (match_template ts tpl) eqn:E.
  - intro H. inversion H; subst. exists 0%nat. cbn. split; [lia|]. split; [reflexivity|exact E].
  - intro H. destruct (IH H) as (i & Hi & Ht & Hm). exists (S i). cbn. split; [lia|]. split; assumption.
Qed.
Theorem first_match_is_the_match ts i : (i < length Published.templates)%nat -> match_template ts (snd (nth i Published.templates (0, []))) = true ->
  first_match ts Published.templates = Some (fst (nth i Published.templates (0, []))).
Proof.
  intros Hi Mi. destruct (first_match ts Published.templates) as [tag|] eqn:E.
  - destruct (first_match_some _ _ _ E) as (j & Hj & Ht & Mj). rewrite (templates_exclusive ts i j Hi Hj Mi Mj). now rewrite Ht.
  - exfalso. revert i Hi Mi E. generalize Published.templates. induction l as [|[t tpl] r IH]; intros i Hi Mi E; [cbn in Hi; lia|].
    cbn [first_match] in E. destruct (match_template ts tpl) eqn:Em; [discriminate|]. destruct i as [|i]; [cbn in Mi; congruence|].
    apply (IH i); [cbn in Hi; lia|exact Mi|exact E].
Qed.
Theorem no_match_not_recognised ts v : first_match ts Published.templates = None -> classify ts v = (PNotRecognised, None).
Proof. intro H. unfold classify. rewrite H. reflexivity. Qed.

(* ---------- the five types, their shapes and addresses ---------- *)
Ltac split_idx i Ht n := match n with O => idtac | S ?m => destruct i as [|i]; [cbn in Ht; try discriminate Ht | split_idx i Ht m] end.
Ltac shape H :=
  let i := fresh "i" in let Hi := fresh "Hi" in let Ht := fresh "Ht" in let Hm := fresh "Hm" in let ds := fresh "ds" in let Hl := fresh "Hl" in
  apply first_match_some in H; destruct H as (i & Hi & Ht & Hm);
  split_idx i Ht 5%nat; try (cbn in Hi; lia);
  apply match_template_shape in Hm; destruct Hm as (ds & Hl & ->); cbn in Hl;
  repeat (destruct ds as [|? ds]; cbn in Hl; try discriminate Hl; try lia).

Theorem p2pkh_spec ts v : first_match ts Published.templates = Some 3 ->
  exists h, ts = [TOp 0x76; TOp 0xa9; TData h; TOp 0x88; TOp 0xac] /\ classify ts v = (PP2PKH, Some (hash160_to_address v h)).
Proof. intro H. pose proof H as H'. shape H. eexists. split; [reflexivity|]. unfold classify. rewrite H'. reflexivity. Qed.
Theorem p2pk_spec ts v : first_match ts Published.templates = Some 2 ->
  exists k, ts = [TData k; TOp 0xac] /\ classify ts v = (PP2PK, Some (hash160_to_address v (hash160 k))).
Proof. intro H. pose proof H as H'. shape H. eexists. split; [reflexivity|]. unfold classify. rewrite H'. reflexivity. Qed.
Theorem p2sh_spec ts v : first_match ts Published.templates = Some 4 ->
  exists h, ts = [TOp 0xa9; TData h; TOp 0x87] /\ classify ts v = (PP2SH, Some (hash160_to_address 5 h)).
Proof. intro H. pose proof H as H'. shape H. eexists. split; [reflexivity|]. unfold classify. rewrite H'. reflexivity. Qed.
Theorem opreturn_spec ts v : first_match ts Published.templates = Some 0 ->
  exists d, ts = [TOp 0x6a; TData d] /\ classify ts v = (POpReturn (from_utf8_lossy d), None).
Proof. intro H. pose proof H as H'. shape H. eexists. split; [reflexivity|]. unfold classify. rewrite H'. reflexivity. Qed.
Theorem multisig_spec ts v : first_match ts Published.templates = Some 1 ->
  exists a b c, ts = [TOp 0x52; TData a; TData b; TData c; TOp 0x53; TOp 0xae] /\ classify ts v = (PMultiSig, None).
Proof. intro H. pose proof H as H'. shape H. do 3 eexists. split; [reflexivity|]. unfold classify. rewrite H'. reflexivity. Qed.
Theorem tags_of_table ts tag : first_match ts Published.templates = Some tag -> tag = 0 \/ tag = 1 \/ tag = 2 \/ tag = 3 \/ tag = 4.
Proof.
  intro H. apply first_match_some in H. destruct H as (i & Hi & Ht & _).
  destruct i as [|[|[|[|[|i]]]]]; cbn in Ht; subst; try tauto. cbn in Hi. lia.
Qed.

(* ---------- a data slot accepts any NON-EMPTY push: zero-length pushes are opcode tokens ---------- *)
Lemma toks_data_nonempty : forall f l ts, toks f l = Some ts -> Forall (fun t => match t with TData d => d <> [] | _ => True end) ts.
Proof.
  assert (P : forall op n rest k ts, (forall r ts', k r = Some ts' -> Forall (fun t => match t with TData d => d <> [] | _ => True end) ts') ->
                push op n rest k = Some ts -> Forall (fun t => match t with TData d => d <> [] | _ => True end) ts).
  { intros op n rest k ts Hk H. unfold push in H. destruct (N.eqb_spec n 0) as [->|Hn].
    - destruct (is_noop op); [now apply (Hk rest)|]. destruct (k rest) as [l'|] eqn:E; [|discriminate]. inversion H; subst. constructor; [exact I|now apply (Hk rest)].
    - destruct (N.of_nat (length rest) <? n) eqn:El; [discriminate|]. destruct (k (skipn (N.to_nat n) rest)) as [l'|] eqn:E; [|discriminate]. inversion H; subst.
      constructor; [|now apply (Hk _ _ E)]. intro Hd. apply (f_equal (@length N)) in Hd. rewrite firstn_length in Hd. cbn in Hd. lia. }
  induction f as [|f IH]; intros l ts H.
  - destruct l; [inversion H; constructor|discriminate].
  - cbn [toks] in H. destruct l as [|c r]; [inversion H; constructor|].
    destruct (c <=? 75); [apply (P _ _ _ _ _ (IH) H)|].
    destruct (c =? 76); [destruct (length r <? 1)%nat; [discriminate|apply (P _ _ _ _ _ (IH) H)]|].
    destruct (c =? 77); [destruct (length r <? 2)%nat; [discriminate|apply (P _ _ _ _ _ (IH) H)]|].
    destruct (c =? 78); [destruct (length r <? 4)%nat; [discriminate|apply (P _ _ _ _ _ (IH) H)]|].
    apply (P _ _ _ _ _ (IH) H).
Qed.

(* ---------- no input can make evaluation fail ---------- *)
Theorem classify_never_error ts v : fst (classify ts v) <> PError.
Proof.
  unfold classify. destruct (first_match ts Published.templates) as [tag|] eqn:E; [|cbn; discriminate].
  destruct (tags_of_table _ _ E) as [->|[->|[->|[->| ->]]]].
  - destruct (opreturn_spec ts v E) as (d & -> & _). cbn. discriminate.
  - destruct (multisig_spec ts v E) as (a & b & c & -> & _). cbn. discriminate.
  - destruct (p2pk_spec ts v E) as (k & -> & _). cbn. discriminate.
  - destruct (p2pkh_spec ts v E) as (h & -> & _). cbn. discriminate.
  - destruct (p2sh_spec ts v E) as (h & -> & _). cbn. discriminate.
Qed.
Theorem eval_custom_total bs v : fst (eval_custom bs v) <> PError /\ (eval bs <> Panic /\ eval bs <> Overflow).
Proof.
  split; [|apply eval_never_panics]. unfold eval_custom. destruct (eval bs); try (cbn; discriminate). apply classify_never_error.
Qed.
(* a push running past the end of the script makes it unrecognised *)
Theorem truncated_push_not_recognised bs v : toks (length bs) bs = None -> eval_custom bs v = (PNotRecognised, None).
Proof. intro H. unfold eval_custom. rewrite eval_total, H. reflexivity. Qed.
(* otherwise the verdict is the template verdict of the structural token list *)
Theorem eval_custom_is_classify_of_tokens bs v ts : toks (length bs) bs = Some ts -> eval_custom bs v = classify ts v.
Proof. intro H. unfold eval_custom. rewrite eval_total, H. reflexivity. Qed.

(* "absent for every other script": only P2PKH, P2PK and P2SH carry an address *)
Theorem fork_address_only_for_address_types bs v a : snd (eval_custom bs v) = Some a -> In (fst (eval_custom bs v)) [PP2PKH; PP2PK; PP2SH].
Proof.
  unfold eval_custom. destruct (eval bs) as [ts| | |]; try discriminate. unfold classify.
  destruct Published.addr_slots as [[s_pkh s_pk] s_sh].
  destruct (first_match ts Published.templates) as [tag|]; [|discriminate].
  destruct (N.eq_dec tag 3) as [->|N3]; [destruct (data_at ts s_pkh); [intros _; cbn; tauto|discriminate]|].
  destruct (N.eq_dec tag 2) as [->|N2]; [destruct (data_at ts s_pk); [intros _; cbn; tauto|discriminate]|].
  destruct (N.eq_dec tag 4) as [->|N4]; [destruct (data_at ts s_sh); [intros _; cbn; tauto|discriminate]|].
  destruct (N.eq_dec tag 0) as [->|N0]; [destruct (data_at ts 1); discriminate|].
  destruct (N.eq_dec tag 1) as [->|N1]; [destruct (data_at ts 1); discriminate|].
  destruct tag as [|p]; [congruence|]. destruct p as [[p|p|]|[[p|p|]|[p|p|]|]|]; try congruence; discriminate.
Qed.
