(* C02 / C10 / C13: the final file names carry the start height and the last processed height, and can be read back:
   names of different (stem, start, last) never collide, and a final name is never a tmp name. *)
From RBP Require Import Bytes Render Model.
From RBP Require Published.

Definition no_dash (l:bytes) : Prop := ~ In 45 l.
Lemma split_at_first_dash a b x y : no_dash a -> no_dash b -> a ++ 45 :: x = b ++ 45 :: y -> a = b /\ x = y.
Proof.
  revert b. induction a as [|c a IH]; intros b Ha Hb E.
  - destruct b as [|d b]; [cbn in E; inversion E; auto|]. cbn in E. inversion E; subst. exfalso. apply Hb. now left.
  - destruct b as [|d b]; [cbn in E; inversion E; subst; exfalso; apply Ha; now left|].
    cbn in E. inversion E; subst. destruct (IH b) as [-> ->]; auto.
    + intro H. apply Ha. now right.
    + intro H. apply Hb. now right.
Qed.
Lemma dec_no_dash n : no_dash (dec n).
Proof.
  unfold no_dash, dec. intro H. apply in_rev in H. pose proof (dec_rev_all_digits 25 n) as D. rewrite Forall_forall in D. specialize (D _ H). lia.
Qed.
Lemma dec_inj a b : a < 2^64 -> b < 2^64 -> dec a = dec b -> a = b.
Proof. intros Ha Hb E. rewrite <- (dec_inv a Ha), <- (dec_inv b Hb). now rewrite E. Qed.

Theorem final_name_inj st s e st' s' e' : no_dash st -> no_dash st' -> s < 2^64 -> e < 2^64 -> s' < 2^64 -> e' < 2^64 ->
  final_name st s e = final_name st' s' e' -> st = st' /\ s = s' /\ e = e'.
Proof.
  intros N1 N2 Hs He Hs' He' E. unfold final_name in E. cbn [app] in E.
  destruct (split_at_first_dash _ _ _ _ N1 N2 E) as [-> E2].
  destruct (split_at_first_dash _ _ _ _ (dec_no_dash s) (dec_no_dash s') E2) as [Es E3].
  apply app_inv_tail in E3. split; [reflexivity|]. split; [now apply dec_inj|now apply dec_inj].
Qed.
Theorem final_name_not_tmp st s e st' : final_name st s e <> tmp_name st'.
Proof.
  unfold final_name, tmp_name. intro E. apply (f_equal (@rev N)) in E. rewrite !rev_app_distr in E. cbn in E.
  rewrite <- !app_assoc in E. cbn in E. inversion E.
Qed.
Lemma published_stems_no_dash : Forall no_dash (Published.unspent_stem :: Published.balances_stem :: Published.csv_stems).
Proof. repeat constructor; unfold no_dash; cbn; intro H; repeat (destruct H as [H|H]; [discriminate|]); exact H. Qed.
(* the names of one run are pairwise distinct and distinct from every tmp name: the side condition of the output-protocol theorems holds for the real names *)
Theorem csv_names_distinct s e : s < 2^64 -> e < 2^64 ->
  NoDup (map tmp_name Published.csv_stems ++ map (fun st => final_name st s e) Published.csv_stems).
Proof. intros Hs He. vm_compute map at 1. unfold Published.csv_stems. cbn [map].
  assert (D : forall a b, no_dash a -> no_dash b -> a <> b -> final_name a s e <> final_name b s e).
  { intros a b Na Nb Ne E. apply Ne. now destruct (final_name_inj a s e b s e Na Nb Hs He Hs He E). }
  pose proof published_stems_no_dash as P. unfold Published.csv_stems in P.
  inversion P as [|? ? _ P1]; subst. inversion P1 as [|? ? _ P2]; subst. inversion P2 as [|? ? Q1 P3]; subst. inversion P3 as [|? ? Q2 P4]; subst.
  inversion P4 as [|? ? Q3 P5]; subst. inversion P5 as [|? ? Q4 _]; subst.
  repeat constructor; cbn [In app]; intro H; repeat (destruct H as [H|H]; try discriminate H);
    try exact H; try (symmetry in H; revert H; apply (final_name_not_tmp _ s e)); try (revert H; apply (final_name_not_tmp _ s e));
    try (revert H; apply D; [assumption|assumption|discriminate]); try (symmetry in H; revert H; apply D; [assumption|assumption|discriminate]).
Qed.
Example names_example : final_name Published.unspent_stem 7 210000 = [117;110;115;112;101;110;116; 45; 55; 45; 50;49;48;48;48;48; 46;99;115;118].
Proof. vm_compute. reflexivity. Qed.
