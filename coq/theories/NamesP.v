(* C02 / C10 / C13: the final file names carry the start height and the last processed height, and can be read back:
   names of different (stem, start, last) never collide, and a final name is never a tmp name. *)
From RBP Require Import Bytes Render Model.
From RBP Require Published.
From Coq Require FinFun.
From RBPGen Require SrcGen.

Definition no_dash (l:bytes) : Prop := ~ In 45 l.
Lemma split_at_first_dash a b x y : no_dash a -> no_dash b -> a ++ 45 :: x = b ++ 45 :: y -> a = b /\ x = y.
Proof.
  revert b. induction a as [|c a IH]; intros b Ha Hb E.
  - destruct b as [|d b]; [cbn in E; inversion E; auto|]. cbn in E. inversion E; subst. exfalso. apply Hb. now left.
  - destruct b as [|d b]; [cbn in E; inversion E; subst; exfalso; apply Ha; now left|].
    cbn in E. inversion E; subst. destruct (IH b) as [-> ->]; auto.
    + intro H. apply Ha. now right.
    + intro H. apply Hb. now right.
Qed.
Lemma dec_no_dash n : no_dash (dec n).
Proof.
  unfold no_dash, dec. intro H. apply in_rev in H. pose proof (dec_rev_all_digits 25 n) as D. rewrite Forall_forall in D. specialize (D _ H). lia.
Qed.
Lemma dec_inj a b : a < 2^64 -> b < 2^64 -> dec a = dec b -> a = b.
Proof. intros Ha Hb E. rewrite <- (dec_inv a Ha), <- (dec_inv b Hb). now rewrite E. Qed.

Theorem final_name_inj st s e st' s' e' : no_dash st -> no_dash st' -> s < 2^64 -> e < 2^64 -> s' < 2^64 -> e' < 2^64 ->
  final_name st s e = final_name st' s' e' -> st = st' /\ s = s' /\ e = e'.
Proof.
  intros N1 N2 Hs He Hs' He' E. unfold final_name in E. cbn [app] in E.
  destruct (split_at_first_dash _ _ _ _ N1 N2 E) as [-> E2].
  destruct (split_at_first_dash _ _ _ _ (dec_no_dash s) (dec_no_dash s') E2) as [Es E3].
  apply app_inv_tail in E3. split; [reflexivity|]. split; [now apply dec_inj|now apply dec_inj].
Qed.
Theorem final_name_not_tmp st s e st' : final_name st s e <> tmp_name st'.
Proof.
  unfold final_name, tmp_name. intro E. apply (f_equal (@rev N)) in E. rewrite !rev_app_distr in E. cbn in E.
  rewrite <- !app_assoc in E. cbn in E. inversion E.
Qed.
(* the names of one run are pairwise distinct and distinct from every tmp name, for any list of distinct dash-free stems:
   the side condition of the output-protocol theorems holds for the real names *)
Lemma nodup_app_intro {A} (a b:list A) : NoDup a -> NoDup b -> (forall x, In x a -> ~ In x b) -> NoDup (a ++ b).
Proof.
  induction a as [|x a IH]; intros Ha Hb Hd; [exact Hb|]. inversion Ha as [|? ? Hx Ha']; subst. cbn. constructor.
  - intro H. apply in_app_or in H. destruct H as [H|H]; [contradiction|]. apply (Hd x); [now left|exact H].
  - apply IH; [exact Ha'|exact Hb|]. intros y Hy. apply Hd. now right.
Qed.
Lemma tmp_name_inj a b : tmp_name a = tmp_name b -> a = b.
Proof. unfold tmp_name. apply app_inv_tail. Qed.
Theorem names_distinct stems s e : NoDup stems -> Forall no_dash stems -> s < 2^64 -> e < 2^64 ->
  NoDup (map tmp_name stems ++ map (fun st => final_name st s e) stems).
Proof.
  intros Hnd Hdash Hs He. apply nodup_app_intro.
  - apply FinFun.Injective_map_NoDup; [intros a b; apply tmp_name_inj|exact Hnd].
  - assert (G : forall l, Forall no_dash l -> NoDup l -> NoDup (map (fun st => final_name st s e) l)).
    { induction l as [|a l IH]; intros HF Hn; [constructor|]. inversion HF as [|? ? Na HF']; subst. inversion Hn as [|? ? Hx Hn']; subst. cbn. constructor; [|now apply IH].
      intro Hin. apply in_map_iff in Hin. destruct Hin as (b & E & Hb). rewrite Forall_forall in HF'.
      destruct (final_name_inj b s e a s e (HF' b Hb) Na Hs He Hs He E) as [-> _]. contradiction. }
    now apply G.
  - intros x Hx Hx'. apply in_map_iff in Hx. destruct Hx as (a & <- & _). apply in_map_iff in Hx'. destruct Hx' as (b & E & _). exact (final_name_not_tmp b s e a E).
Qed.
Lemma source_stems_ok : NoDup SrcGen.csv_stems /\ Forall no_dash (SrcGen.unspent_stem :: SrcGen.balances_stem :: SrcGen.csv_stems).
Proof.
  split.
  - repeat constructor; cbn; intro H; repeat (destruct H as [H|H]; [discriminate|]); exact H.
  - repeat constructor; unfold no_dash; cbn; intro H; repeat (destruct H as [H|H]; [discriminate|]); exact H.
Qed.
Theorem csv_names_distinct s e : s < 2^64 -> e < 2^64 ->
  NoDup (map tmp_name SrcGen.csv_stems ++ map (fun st => final_name st s e) SrcGen.csv_stems).
Proof.
  intros Hs He. destruct source_stems_ok as [Hn Hd]. apply names_distinct; try assumption. inversion Hd as [|? ? _ H1]; subst. inversion H1 as [|? ? _ H2]; subst. exact H2.
Qed.
Example names_example : final_name Published.unspent_stem 7 210000 = [117;110;115;112;101;110;116; 45; 55; 45; 50;49;48;48;48;48; 46;99;115;118].
Proof. vm_compute. reflexivity. Qed.
