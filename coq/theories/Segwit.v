(* Model + proofs: BIP-173/350 segwit addresses as produced by rust-bitcoin's Address Display (bech32 crate): 8->5 bit regrouping with
   zero padding, version symbol, Bech32 (v0) / Bech32m (v1+) checksum, charset. The regrouping is modelled arithmetically (the program
   is a big-endian number, shifted left by the padding and written in base 32); decode o encode = id. *)
From RBP Require Import Bytes Codec Bech32.

Definition CHARSET : list N := (* qpzry9x8gf2tvdw0s3jn54khce6mua7l *)
  [113; 112; 122; 114; 121; 57; 120; 56; 103; 102; 50; 116; 118; 100; 119; 48; 115; 51; 106; 110; 53; 52; 107; 104; 99; 101; 54; 109; 117; 97; 55; 108].
Definition hrp_expand (h:list N) : list N := map (fun c => N.shiftr c 5) h ++ [0] ++ map (fun c => N.land c 31) h.

Definition nsyms (n:nat) : nat := Nat.div (8 * n + 4) 5.                   (* ceil(8n/5) *)
Definition padbits (n:nat) : N := 5 * N.of_nat (nsyms n) - 8 * N.of_nat n.   (* 0..4 zero bits appended *)
Definition regroup (prog:bytes) : list N :=
  rev (fenc 32 (nsyms (length prog)) (fdec 256 (rev prog) * 2 ^ padbits (length prog))).
Definition ungroup (syms:list N) : option bytes :=
  let k := length syms in let n := Nat.div (5 * k) 8 in let pad := 5 * N.of_nat k - 8 * N.of_nat n in
  let v := fdec 32 (rev syms) in
  if (5 <=? pad) || negb (v mod 2 ^ pad =? 0) then None else Some (rev (fenc 256 n (v / 2 ^ pad))).

Definition bconst (ver:N) : N := if ver =? 0 then 1 else 0x2bc830a3.
Definition segwit_addr (hrp:list N) (ver:N) (prog:bytes) : list N :=
  let data := ver :: regroup prog in
  hrp ++ [49] ++ map (fun d => nth (N.to_nat d) CHARSET 0) (data ++ checksum (bconst ver) (hrp_expand hrp ++ data)).

Fixpoint index_of (c:N) (l:list N) (i:N) : option N := match l with [] => None | x :: r => if x =? c then Some i else index_of c r (i + 1) end.
Definition uncharset (c:N) : option N := index_of c CHARSET 0.
Fixpoint traverse {A B} (f:A -> option B) (l:list A) : option (list B) :=
  match l with [] => Some [] | x :: r => match f x, traverse f r with Some y, Some ys => Some (y :: ys) | _, _ => None end end.
Fixpoint strip_prefix (p l:list N) : option (list N) :=
  match p, l with [], _ => Some l | x :: p', y :: l' => if x =? y then strip_prefix p' l' else None | _ :: _, [] => None end.
(* decoder for a known human-readable part: checks prefix, separator, charset, checksum constant for the version, padding *)
Definition segwit_decode (hrp:list N) (addr:list N) : option (N * bytes) :=
  match strip_prefix (hrp ++ [49]) addr with
  | None => None
  | Some body =>
    match traverse uncharset body with
    | None => None
    | Some syms =>
      if (length syms <? 7)%nat then None else
      let data := firstn (length syms - 6) syms in
      match data with
      | [] => None
      | ver :: rest =>
        if polymod (hrp_expand hrp ++ syms) =? bconst ver then option_map (fun p => (ver, p)) (ungroup rest) else None
      end
    end
  end.

(* ---------- regrouping round trip ---------- *)
Lemma nsyms_bounds n : (8 * n <= 5 * nsyms n < 8 * n + 5)%nat.
Proof. unfold nsyms. pose proof (Nat.div_mod (8 * n + 4) 5 ltac:(lia)). pose proof (Nat.mod_upper_bound (8 * n + 4) 5 ltac:(lia)). lia. Qed.
Lemma regroup_length prog : length (regroup prog) = nsyms (length prog).
Proof. unfold regroup. now rewrite rev_length, fenc_length. Qed.
Lemma regroup_small prog : Forall (fun d => d < 32) (regroup prog).
Proof. unfold regroup. apply Forall_rev. apply fenc_small. lia. Qed.
Lemma wfb_Forall l : wfb l = true -> Forall (fun d => d < 256) l.
Proof. unfold wfb. rewrite forallb_forall, Forall_forall. intros H x Hx. specialize (H x Hx). lia. Qed.
Lemma pow_split a b : 2 ^ (a + b) = 2 ^ a * 2 ^ b. Proof. apply N.pow_add_r. Qed.

Theorem ungroup_regroup prog : wfb prog = true -> ungroup (regroup prog) = Some prog.
Proof.
  intro Hw. unfold ungroup. rewrite regroup_length.
  set (n := length prog). pose proof (nsyms_bounds n) as Hb.
  assert (Hn : Nat.div (5 * nsyms n) 8 = n).
  { symmetry. apply Nat.div_unique with (r := (5 * nsyms n - 8 * n)%nat); lia. }
  rewrite Hn. fold (padbits n). unfold regroup. fold n. rewrite rev_involutive.
  assert (Hpad : padbits n < 5) by (unfold padbits; lia).
  set (Bv := fdec 256 (rev prog)).
  assert (HB : Bv < 256 ^ N.of_nat n).
  { unfold Bv. replace n with (length (rev prog)) by apply rev_length. apply fdec_bound; [lia|]. apply Forall_rev. now apply wfb_Forall. }
  assert (Hlt : Bv * 2 ^ padbits n < 32 ^ N.of_nat (nsyms n)).
  { replace (32 ^ N.of_nat (nsyms n)) with (2 ^ (8 * N.of_nat n) * 2 ^ padbits n).
    - apply N.mul_lt_mono_pos_r; [apply N.neq_0_lt_0, N.pow_nonzero; discriminate|]. replace (2 ^ (8 * N.of_nat n)) with (256 ^ N.of_nat n); [exact HB|].
      change 256 with (2 ^ 8). now rewrite <- N.pow_mul_r.
    - rewrite <- N.pow_add_r. change 32 with (2 ^ 5). rewrite <- N.pow_mul_r. f_equal. unfold padbits. lia. }
  rewrite fdec_fenc by (lia || exact Hlt).
  replace (5 <=? padbits n) with false by lia. cbn [orb].
  rewrite N.mod_mul by (apply N.pow_nonzero; discriminate). replace (0 =? 0) with true by reflexivity. cbn [negb].
  rewrite N.div_mul by (apply N.pow_nonzero; discriminate).
  f_equal. unfold Bv. replace n with (length (rev prog)) at 1 by apply rev_length.
  rewrite fenc_fdec; [apply rev_involutive|lia|]. apply Forall_rev. now apply wfb_Forall.
Qed.

(* ---------- charset ---------- *)
Lemma uncharset_charset : forallb (fun d => match uncharset (nth d CHARSET 0) with Some i => i =? N.of_nat d | None => false end) (seq 0 32) = true.
Proof. vm_compute. reflexivity. Qed.
Lemma uncharset_nth d : d < 32 -> uncharset (nth (N.to_nat d) CHARSET 0) = Some d.
Proof.
  intro H. pose proof uncharset_charset as A. rewrite forallb_forall in A. specialize (A (N.to_nat d) ltac:(apply in_seq; lia)).
  destruct (uncharset (nth (N.to_nat d) CHARSET 0)) as [i|]; [|discriminate]. apply N.eqb_eq in A. f_equal. lia.
Qed.
Lemma traverse_uncharset ds : Forall (fun d => d < 32) ds -> traverse uncharset (map (fun d => nth (N.to_nat d) CHARSET 0) ds) = Some ds.
Proof. induction 1 as [|d r Hd Hr IH]; [reflexivity|]. cbn [map traverse]. now rewrite (uncharset_nth d Hd), IH. Qed.
Lemma strip_prefix_app p l : strip_prefix p (p ++ l) = Some l.
Proof. induction p as [|x p IH]; [reflexivity|]. cbn. now rewrite N.eqb_refl. Qed.
Lemma shiftr5_small x : N.shiftr x 5 = 0 -> x < 32.
Proof. rewrite N.shiftr_div_pow2. intro H. apply N.div_small_iff in H; [exact H|discriminate]. Qed.
Lemma checksum_small const vs : Forall (fun d => d < 32) (checksum const vs).
Proof. unfold checksum. eapply Forall_impl; [|apply syms_small]. intros a Ha. now apply shiftr5_small. Qed.
Lemma checksum_length const vs : length (checksum const vs) = 6%nat.
Proof. reflexivity. Qed.
Lemma bconst_small ver : N.shiftr (bconst ver) 30 = 0.
Proof. unfold bconst. destruct (ver =? 0); reflexivity. Qed.

(* C05: a reported segwit address decodes, under the network's hrp and with the checksum constant of its version, to exactly (version, program) *)
Theorem segwit_roundtrip hrp ver prog : ver < 32 -> wfb prog = true -> segwit_decode hrp (segwit_addr hrp ver prog) = Some (ver, prog).
Proof.
  intros Hv Hw. unfold segwit_decode, segwit_addr. rewrite app_assoc, strip_prefix_app.
  set (data := ver :: regroup prog). set (chk := checksum (bconst ver) (hrp_expand hrp ++ data)).
  assert (Hd : Forall (fun d => d < 32) (data ++ chk)).
  { apply Forall_app. split; [constructor; [exact Hv|apply regroup_small]|apply checksum_small]. }
  rewrite (traverse_uncharset _ Hd). rewrite app_length. change (length chk) with 6%nat.
  replace (length data + 6 <? 7)%nat with false by (symmetry; apply Nat.ltb_ge; unfold data; cbn; lia).
  replace (length data + 6 - 6)%nat with (length data) by lia.
  rewrite firstn_app, Nat.sub_diag, firstn_O, app_nil_r, firstn_all. unfold data at 1.
  rewrite app_assoc. unfold chk. rewrite (checksum_valid (bconst ver) (hrp_expand hrp ++ data) (bconst_small ver)). rewrite N.eqb_refl.
  now rewrite (ungroup_regroup prog Hw).
Qed.
(* the checksum of every produced address verifies (for readers who only check validity) *)
Theorem segwit_checksum_valid hrp ver prog :
  polymod (hrp_expand hrp ++ (ver :: regroup prog) ++ checksum (bconst ver) (hrp_expand hrp ++ ver :: regroup prog)) = bconst ver.
Proof. rewrite app_assoc. apply checksum_valid. apply bconst_small. Qed.
