(* Prototype: C13 indexed collect under any completion order; C09 verify decision = the three stated conditions *)
From RBP Require Import Bytes Merkle.
Require Import Permutation.

(* ---------- C13: rayon's indexed collect, idealised: results are written into slot i in any completion order ---------- *)
Section Collect.
Variable A B : Type. Variable f : A -> B. Variable d : B. Variable da : A.
Fixpoint set_nth (i:nat) (v:B) (l:list B) : list B :=
  match l, i with [], _ => [] | _ :: r, O => v :: r | x :: r, S j => x :: set_nth j v r end.
Definition collect (order:list nat) (l:list A) : list B :=
  fold_left (fun slots i => set_nth i (f (nth i l da)) slots) order (repeat d (length l)).

Lemma set_nth_length i v l : length (set_nth i v l) = length l.
Proof. revert i; induction l as [|x r IH]; intros [|i]; cbn; auto. Qed.
Lemma nth_set_nth i j v l : (i < length l)%nat -> nth j (set_nth i v l) d = if Nat.eqb i j then v else nth j l d.
Proof.
  revert i j; induction l as [|x r IH]; intros [|i] [|j] H; cbn in *; try lia; try reflexivity.
  apply IH. lia.
Qed.

Lemma collect_nth order l : (forall i, In i order -> (i < length l)%nat) -> forall slots, length slots = length l ->
  forall j, nth j (fold_left (fun s i => set_nth i (f (nth i l da)) s) order slots) d =
            if existsb (Nat.eqb j) order then f (nth j l da) else nth j slots d.
Proof.
  induction order as [|i r IH]; intros Hb slots Hl j; [reflexivity|].
  cbn [fold_left existsb]. rewrite IH; [|intros k Hk; apply Hb; now right|now rewrite set_nth_length].
  destruct (existsb (Nat.eqb j) r) eqn:E; [now rewrite orb_true_r|]. rewrite orb_false_r.
  rewrite nth_set_nth by (rewrite Hl; apply Hb; now left).
  rewrite (Nat.eqb_sym j i). destruct (Nat.eqb_spec i j) as [->|]; reflexivity.
Qed.

(* every schedule (any permutation of the indices, even with repetitions) yields the sequential map *)
Theorem collect_any_order order l : (forall i, (i < length l)%nat <-> In i order) -> collect order l = map f l.
Proof.
  intro H. apply nth_ext with (d:=d) (d':=d).
  - unfold collect. assert (G : forall o s, length (fold_left (fun s i => set_nth i (f (nth i l da)) s) o s) = length s).
    { induction o as [|i r IH]; intro s; [reflexivity|]. cbn. rewrite IH. apply set_nth_length. }
    rewrite G, repeat_length, map_length. reflexivity.
  - intros j Hj. unfold collect in *.
    assert (Hlen : length (fold_left (fun s i => set_nth i (f (nth i l da)) s) order (repeat d (length l))) = length l).
    { assert (G : forall o s, length (fold_left (fun s i => set_nth i (f (nth i l da)) s) o s) = length s).
      { induction o as [|i r IH]; intro s; [reflexivity|]. cbn. rewrite IH. apply set_nth_length. }
      rewrite G. apply repeat_length. }
    rewrite Hlen in Hj.
    rewrite collect_nth; [|intros i Hi; now apply H|apply repeat_length].
    assert (E : existsb (Nat.eqb j) order = true).
    { apply existsb_exists. exists j. split; [now apply H|apply Nat.eqb_refl]. }
    rewrite E. rewrite (nth_indep _ d (f da)) by (rewrite map_length; exact Hj). apply eq_sym, map_nth.
Qed.
End Collect.

(* ---------- C09: ChainStorage::verify (chain.rs:53-87) ---------- *)
Section Verify.
Variable H2 : bytes -> bytes -> bytes.
Record vblock := { v_hash : bytes; v_prev : bytes; v_merkle : bytes; v_txids : list bytes }.
Variable beq : bytes -> bytes -> bool.
Hypothesis beq_spec : forall a b, reflect (a = b) (beq a b).
Inductive verdict := VOk | VBadMerkle | VBadGenesis | VBadPrev | VPanic.
Definition verify (genesis:bytes) (index_hash:N -> option bytes) (b:vblock) (height:N) : verdict :=
  match merkle_root H2 (v_txids b) with
  | Ok r => if negb (beq r (v_merkle b)) then VBadMerkle else
            if height =? 0 then (if beq (v_hash b) genesis then VOk else VBadGenesis)
            else match index_hash (height - 1) with
                 | Some p => if beq (v_prev b) p then VOk else VBadPrev
                 | None => VPanic end       (* .expect("unable to fetch prev block in chain index") *)
  | _ => VPanic end.

Theorem verify_iff genesis idx b h : v_txids b <> [] -> (h = 0 \/ idx (h - 1) <> None) ->
  verify genesis idx b h = VOk <->
  (merkle_spec H2 (S (length (v_txids b))) (v_txids b) = Some (v_merkle b) /\
   (h = 0 -> v_hash b = genesis) /\ (h <> 0 -> idx (h - 1) = Some (v_prev b))).
Proof.
  intros Hne Hidx. unfold verify.
  destruct (merkle_root_spec H2 (v_txids b) Hne) as (r & Hr & Hs). rewrite Hr, Hs.
  destruct (beq_spec r (v_merkle b)) as [->|Hm]; cbn [negb].
  - destruct (N.eqb_spec h 0) as [->|Hh].
    + destruct (beq_spec (v_hash b) genesis) as [->|Hg]; split; try discriminate; auto.
      * intros _. repeat split; auto. intro; congruence.
      * intros (_ & Hg' & _). exfalso. now apply Hg, Hg'.
    + destruct Hidx as [->|Hidx]; [contradiction|]. destruct (idx (h - 1)) as [p|]; [|contradiction].
      destruct (beq_spec (v_prev b) p) as [->|Hp]; split; try discriminate; auto.
      * intros _. repeat split; auto. intro; contradiction.
      * intros (_ & _ & Hp'). specialize (Hp' Hh). inversion Hp'. congruence.
  - split; [discriminate|]. intros (Hm' & _). inversion Hm'. contradiction.
Qed.
End Verify.
Print Assumptions collect_any_order. Print Assumptions verify_iff.
