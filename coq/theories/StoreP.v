(* Proofs for C03 / C11 on the composed model: the block delivered for an index record is the one whose bytes lie at
   (file, offset) in the plaintext view of the data directory — wherever that is, whatever surrounds it, whatever the XOR key. *)
From RBP Require Import Bytes Hashes Wire Block BlockP Index Model.
From RBP Require Drive Reader.

(* the plaintext view of a blk file from position p: what XorReader(BufReader(file)) yields from there (Reader.xor_reader_refines) *)
Definition plain_from (d:datadir) (f:blkfile) (p:N) : option bytes :=
  match find_extent (f_extents f) p with
  | None => None
  | Some raw => Some (match d_xor d with Some k => unxor k p raw | None => raw end) end.

Lemma le_encode_4_read size rest : size < 2^32 -> read_u32 (le_encode 4 size ++ rest) = Ok (size, rest).
Proof. intro H. unfold read_u32. change 4 with (N.of_nat 4). apply read_le_app. change (256 ^ N.of_nat 4) with (2^32). exact H. Qed.

(* C03 core: independent of everything but the bytes at the recorded position *)
Theorem fetch_block_placed c d rec f size b rest :
  find (fun f => f_num f =? r_file rec) (d_files d) = Some f -> 4 <= r_off rec -> d_xor d <> Some [] ->
  plain_from d f (r_off rec - 4) = Some (le_encode 4 size ++ ser_block b ++ rest) -> size < 2^32 -> wf_block c b = true ->
  fetch_block c d rec = inl (parsed_block size b).
Proof.
  intros Hf Ho Hk Hp Hs Hw. unfold fetch_block. rewrite Hf. replace (r_off rec <? 4) with false by lia.
  unfold plain_from in Hp. destruct (find_extent (f_extents f) (r_off rec - 4)) as [raw|]; [|discriminate].
  injection Hp as Hp.
  assert (G : forall plain, plain = le_encode 4 size ++ ser_block b ++ rest ->
              match (size0 <- read_u32 ;; read_block c size0) plain with Ok (b0, _) => inl b0 | Eof => inr (FErr ERead) | _ => inr FPanic end = inl (parsed_block size b)).
  { intros plain ->. erewrite bind_ok by (apply le_encode_4_read; exact Hs). rewrite read_block_ser by exact Hw. reflexivity. }
  destruct (d_xor d) as [[|k0 k]|] eqn:Ek; [exfalso; apply Hk; reflexivity| |]; apply G; exact Hp.
Qed.

(* xor obfuscation is an involution at equal positions: the plaintext view of an obfuscated file is the plaintext file *)
Lemma unxor_involutive k : forall p l, unxor k p (unxor k p l) = l.
Proof.
  intros p l. revert p. induction l as [|b r IH]; intro p; [reflexivity|]. cbn [unxor]. rewrite IH. f_equal.
  rewrite N.lxor_assoc, N.lxor_nilpotent. apply N.lxor_0_r.
Qed.
Lemma unxor_skipn k : forall n p l, skipn n (unxor k p l) = unxor k (p + N.of_nat n) (skipn n l).
Proof.
  induction n as [|n IH]; intros p l; [cbn; f_equal; lia|]. destruct l as [|b r]; [reflexivity|]. cbn [unxor skipn]. rewrite IH. f_equal. lia.
Qed.
Lemma unxor_length k : forall p l, length (unxor k p l) = length l.
Proof. intros p l. revert p. induction l as [|b r IH]; intro p; [reflexivity|]. cbn. now rewrite IH. Qed.

(* a directory obfuscated with key k (every extent XOR-ed with the key stream from its own offset) has the same plaintext view *)
Definition obfuscate_file (k:bytes) (f:blkfile) : blkfile :=
  {| f_num := f_num f; f_extents := map (fun e => (fst e, unxor k (fst e) (snd e))) (f_extents f) |}.
Lemma find_extent_obfuscated k exts p :
  find_extent (map (fun e : extent => (fst e, unxor k (fst e) (snd e))) exts) p = option_map (unxor k p) (find_extent exts p).
Proof.
  induction exts as [|[o dd] r IH]; [reflexivity|]. cbn [map find_extent fst snd]. rewrite unxor_length.
  destruct ((o <=? p) && (p <? o + N.of_nat (length dd))) eqn:E; [|exact IH].
  cbn [option_map]. f_equal. rewrite unxor_skipn. f_equal. apply andb_true_iff in E. lia.
Qed.
Theorem plain_from_obfuscated k files idx f p :
  plain_from {| d_files := map (obfuscate_file k) files; d_index := idx; d_xor := Some k |} (obfuscate_file k f) p
  = plain_from {| d_files := files; d_index := idx; d_xor := None |} f p.
Proof.
  unfold plain_from, obfuscate_file. cbn [f_extents d_xor]. rewrite find_extent_obfuscated.
  destruct (find_extent (f_extents f) p) as [raw|]; [|reflexivity]. cbn [option_map]. now rewrite unxor_involutive.
Qed.

(* C11 at the level of the whole run: the obfuscated directory fetches exactly the same blocks *)
Lemma find_obfuscated k files n :
  find (fun f => f_num f =? n) (map (obfuscate_file k) files) = option_map (obfuscate_file k) (find (fun f => f_num f =? n) files).
Proof. induction files as [|f r IH]; [reflexivity|]. cbn [map find obfuscate_file f_num]. destruct (f_num f =? n); [reflexivity|exact IH]. Qed.
Theorem fetch_block_obfuscated c k files idx rec : k <> [] ->
  fetch_block c {| d_files := map (obfuscate_file k) files; d_index := idx; d_xor := Some k |} rec
  = fetch_block c {| d_files := files; d_index := idx; d_xor := None |} rec.
Proof.
  intro Hk. unfold fetch_block. cbn [d_files d_xor]. rewrite find_obfuscated.
  destruct (find (fun f => f_num f =? r_file rec) files) as [f|]; [|reflexivity]. cbn [option_map].
  destruct (r_off rec <? 4); [reflexivity|]. unfold obfuscate_file at 1. cbn [f_extents]. rewrite find_extent_obfuscated.
  destruct (find_extent (f_extents f) (r_off rec - 4)) as [raw|]; [|reflexivity]. cbn [option_map].
  destruct k as [|k0 k']; [congruence|]. now rewrite unxor_involutive.
Qed.
Theorem get_block_obfuscated c k files idx v ci h : k <> [] ->
  get_block c {| d_files := map (obfuscate_file k) files; d_index := idx; d_xor := Some k |} v ci h
  = get_block c {| d_files := files; d_index := idx; d_xor := None |} v ci h.
Proof. intro Hk. unfold get_block. destruct (hm_get h (ci_idx ci)); [|reflexivity]. now rewrite fetch_block_obfuscated. Qed.
Theorem run_case_obfuscated c k files idx o : k <> [] ->
  run_case c {| d_files := map (obfuscate_file k) files; d_index := idx; d_xor := Some k |} o
  = run_case c {| d_files := files; d_index := idx; d_xor := None |} o.
Proof.
  intro Hk. unfold run_case. destruct (negb (range_ok (o_range o))); [reflexivity|]. cbn [d_files d_index]. destruct files as [|f0 fr]; [reflexivity|]. cbn [map].
  destruct (new_index idx (o_range o)) as [ci| | |]; try reflexivity.
  erewrite Drive.drive_ext; [reflexivity|]. intros h _. apply (get_block_obfuscated c k (f0 :: fr) idx (o_verify o) ci h Hk).
Qed.

(* C03, layout independence at the level of the whole run: two directories (any file numbering, offsets, padding, unindexed bytes)
   whose indexes agree on the range bounds and whose blocks agree height by height deliver the same blocks *)
Theorem layout_independent c d1 d2 v ci1 ci2 s : ci_max ci1 = ci_max ci2 ->
  (forall h, s <= h <= ci_max ci1 -> get_block c d1 v ci1 h = get_block c d2 v ci2 h) ->
  forall fuel, Drive.drive eblock failure (get_block c d1 v ci1) fuel true (ci_max ci1) s [] = Drive.drive eblock failure (get_block c d2 v ci2) fuel true (ci_max ci2) s [].
Proof. intros Hm H fuel. rewrite <- Hm. apply Drive.drive_ext. exact H. Qed.
