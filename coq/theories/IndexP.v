(* Prototype: C04 on the index mirror of Chain.v: the height map holds, per height, the LAST admitted record in key order *)
From RBP Require Import Bytes Chain.

Lemma hm_get_put h k v m : hm_get h (hm_put k v m) = if k =? h then Some v else hm_get h m.
Proof.
  unfold hm_put. cbn [hm_get fst]. destruct (N.eqb_spec k h) as [->|Hne]; [reflexivity|].
  induction m as [|[k' v'] r IH]; cbn [filter hm_get fst]; [reflexivity|].
  destruct (N.eqb_spec k' k) as [->|Hne2]; cbn [negb hm_get].
  - destruct (N.eqb_spec k h); [contradiction|exact IH].
  - destruct (k' =? h); [reflexivity|exact IH].
Qed.

Definition admitted (r:irec) : bool := 0 <? N.land (r_status r) 12.
(* what the last admitted record of height h is, scanning in key order *)
Fixpoint last_admitted (h:N) (kvs:list (bytes * bytes)) (cur:option irec) : option irec :=
  match kvs with
  | [] => cur
  | (98 :: key, v) :: r =>
      match decode_record key v with
      | Ok rec => last_admitted h r (if admitted rec && (r_height rec =? h) then Some rec else cur)
      | _ => cur end
  | _ :: r => last_admitted h r cur
  end.

Theorem load_index_last : forall kvs m m' h, load_index kvs m = Ok m' -> hm_get h m' = last_admitted h kvs (hm_get h m).
Proof.
  induction kvs as [|[k v] r IH]; intros m m' h H; cbn [load_index last_admitted] in *.
  - inversion H; subst. reflexivity.
  - destruct k as [|b key]; [discriminate|].
    destruct (N.eq_dec b 98) as [->|Hb].
    + destruct (decode_record key v) as [rec| | |] eqn:E; try discriminate.
      unfold admitted. destruct (0 <? N.land (r_status rec) 12) eqn:Ea; cbn [andb].
      * rewrite (IH _ _ h H), hm_get_put. reflexivity.
      * exact (IH _ _ h H).
    + assert (Hskip : forall A (x y:A), match b with 98 => x | _ => y end = y).
      { intros A x y. destruct b as [|p]; [reflexivity|]. repeat (destruct p as [p|p|]; try reflexivity). exfalso; apply Hb; reflexivity. }
      rewrite Hskip in H. rewrite Hskip. exact (IH _ _ h H).
Qed.

(* header-only records (validity below CHAIN, no HAVE_DATA) are never admitted, whatever else is set among the other bits *)
Lemma header_only_not_admitted r : N.land (r_status r) 12 = 0 -> admitted r = false.
Proof. unfold admitted. intros ->. reflexivity. Qed.
Print Assumptions load_index_last.

(* ---------- C03: Bitcoin Core VarInt and index records, on the Chain.v mirror ---------- *)
Definition MAX64 : N := 18446744073709551615.
Fixpoint enc_cont (fuel:nat) (m:N) : bytes :=
  match fuel with O => [] | S f => if m <=? 127 then [m + 128] else enc_cont f (m / 128 - 1) ++ [m mod 128 + 128] end.
Definition enc_varint (n:N) : bytes := if n <=? 127 then [n] else enc_cont 10 (n / 128 - 1) ++ [n mod 128].

Lemma MAX_div : MAX64 / 128 = 144115188075855871. Proof. reflexivity. Qed.

Lemma dec_cont : forall fuel m rest,
  m + 1 < 128 ^ (N.of_nat fuel) -> m < MAX64 ->
  read_varint_loop 0 (enc_cont fuel m ++ rest) = read_varint_loop (m + 1) rest.
Proof.
  induction fuel as [|f IH]; intros m rest Hm HM.
  - change (128 ^ N.of_nat 0) with 1 in Hm. lia.
  - cbn [enc_cont]. destruct (m <=? 127) eqn:E.
    + cbn [app read_varint_loop]. change (18446744073709551615 / 128) with 144115188075855871.
      replace (144115188075855871 <? 0) with false by reflexivity.
      replace (128 <=? m + 128) with true by lia.
      replace (0 * 128 + (m + 128) mod 128) with m by lia.
      replace (m =? 18446744073709551615) with false by (unfold MAX64 in HM; lia). reflexivity.
    + rewrite <- app_assoc. rewrite IH.
      * cbn [app read_varint_loop]. change (18446744073709551615 / 128) with 144115188075855871.
        replace (144115188075855871 <? m / 128 - 1 + 1) with false by (unfold MAX64 in HM; lia).
        replace (128 <=? m mod 128 + 128) with true by lia.
        replace ((m / 128 - 1 + 1) * 128 + (m mod 128 + 128) mod 128) with m by lia.
        replace (m =? 18446744073709551615) with false by (unfold MAX64 in HM; lia). reflexivity.
      * rewrite Nnat.Nat2N.inj_succ, N.pow_succ_r' in Hm. lia.
      * lia.
Qed.

Theorem read_varint_enc : forall n rest, n <= MAX64 -> read_varint (enc_varint n ++ rest) = Ok (n, rest).
Proof.
  intros n rest Hn. unfold read_varint, enc_varint. destruct (n <=? 127) eqn:E.
  - cbn [app read_varint_loop]. change (18446744073709551615 / 128) with 144115188075855871.
    replace (144115188075855871 <? 0) with false by reflexivity.
    replace (128 <=? n) with false by lia.
    replace (0 * 128 + n mod 128) with n by lia. reflexivity.
  - rewrite <- app_assoc, dec_cont.
    + cbn [app read_varint_loop]. change (18446744073709551615 / 128) with 144115188075855871.
      replace (144115188075855871 <? n / 128 - 1 + 1) with false by (unfold MAX64 in Hn; lia).
      replace (128 <=? n mod 128) with false by lia.
      replace ((n / 128 - 1 + 1) * 128 + (n mod 128) mod 128) with n by lia. reflexivity.
    + unfold MAX64 in Hn. change (N.of_nat 10) with 10.
      assert (128 ^ 10 = 1180591620717411303424) by reflexivity. lia.
    + unfold MAX64 in *. lia.
Qed.

(* CDiskBlockIndex as Bitcoin Core writes it, for records that carry data (the only ones the parser keeps) *)
Definition enc_record (version height status ntx file pos:N) (tail:bytes) : bytes :=
  enc_varint version ++ enc_varint height ++ enc_varint status ++ enc_varint ntx ++ enc_varint file ++ enc_varint pos ++ tail.

Theorem decode_record_enc key version height status ntx file pos tail :
  length key = 32%nat -> version <= MAX64 -> height <= MAX64 -> status <= MAX64 -> ntx <= MAX64 -> file <= MAX64 -> pos <= MAX64 ->
  decode_record key (enc_record version height status ntx file pos tail) =
    Ok {| r_hash := key; r_height := height; r_status := status; r_file := file; r_off := pos |}.
Proof.
  intros Hk Hv Hh Hs Hn Hf Hp. unfold decode_record, enc_record. rewrite Hk. cbn [Nat.eqb negb].
  erewrite bind_ok by (apply read_varint_enc; assumption).
  erewrite bind_ok by (apply read_varint_enc; assumption).
  erewrite bind_ok by (apply read_varint_enc; assumption).
  erewrite bind_ok by (apply read_varint_enc; assumption).
  erewrite bind_ok by (apply read_varint_enc; assumption).
  erewrite bind_ok by (apply read_varint_enc; assumption).
  reflexivity.
Qed.
Print Assumptions decode_record_enc.
