(* Prototype: C04 on the index mirror of Chain.v: the height map holds, per height, the LAST admitted record in key order *)
From RBP Require Import Bytes Index.
From RBP Require Published.

Lemma hm_get_put h k v m : hm_get h (hm_put k v m) = if k =? h then Some v else hm_get h m.
Proof.
  unfold hm_put. cbn [hm_get fst]. destruct (N.eqb_spec k h) as [->|Hne]; [reflexivity|].
  induction m as [|[k' v'] r IH]; cbn [filter hm_get fst]; [reflexivity|].
  destruct (N.eqb_spec k' k) as [->|Hne2]; cbn [negb hm_get].
  - destruct (N.eqb_spec k h); [contradiction|exact IH].
  - destruct (k' =? h); [reflexivity|exact IH].
Qed.

(* what the last admitted record of height h is, scanning in key order *)
Fixpoint last_admitted (h:N) (kvs:list (bytes * bytes)) (cur:option irec) : option irec :=
  match kvs with
  | [] => cur
  | (98 :: key, v) :: r =>
      match decode_record key v with
      | Ok rec => last_admitted h r (if admitted rec && (r_height rec =? h) then Some rec else cur)
      | _ => cur end
  | _ :: r => last_admitted h r cur
  end.

Theorem load_index_last : forall kvs m m' h, load_index kvs m = Ok m' -> hm_get h m' = last_admitted h kvs (hm_get h m).
Proof.
  induction kvs as [|[k v] r IH]; intros m m' h H; cbn [load_index last_admitted] in *.
  - inversion H; subst. reflexivity.
  - destruct k as [|b key]; [discriminate|].
    destruct (N.eq_dec b 98) as [->|Hb].
    + destruct (decode_record key v) as [rec| | |] eqn:E; try discriminate.
      destruct (admitted rec) eqn:Ea; cbn [andb].
      * rewrite (IH _ _ h H), hm_get_put. reflexivity.
      * exact (IH _ _ h H).
    + assert (Hskip : forall A (x y:A), match b with 98 => x | _ => y end = y).
      { intros A x y. destruct b as [|p]; [reflexivity|]. repeat (destruct p as [p|p|]; try reflexivity). exfalso; apply Hb; reflexivity. }
      rewrite Hskip in H. rewrite Hskip. exact (IH _ _ h H).
Qed.

(* header-only records (validity below CHAIN, no HAVE_DATA) are never admitted, whatever else is set among the other bits *)
Lemma header_only_not_admitted r : N.land (r_status r) Published.status_mask = 0 -> admitted r = false.
Proof. unfold admitted, has. intros ->. reflexivity. Qed.
(* exhaustively over the status byte: admitted exactly when bit 2 (validity >= CHAIN) or bit 3 (HAVE_DATA) is set *)
Lemma admitted_status_byte : forallb (fun s => Bool.eqb (has s Published.status_mask) (N.testbit s 2 || N.testbit s 3))
                                     (map N.of_nat (seq 0 256)) = true.
Proof. vm_compute. reflexivity. Qed.
Print Assumptions load_index_last.

(* ---------- C03: Bitcoin Core VarInt and index records, on the Chain.v mirror ---------- *)
Fixpoint enc_cont (fuel:nat) (m:N) : bytes :=
  match fuel with O => [] | S f => if m <=? 127 then [m + 128] else enc_cont f (m / 128 - 1) ++ [m mod 128 + 128] end.
Definition enc_varint (n:N) : bytes := if n <=? 127 then [n] else enc_cont 10 (n / 128 - 1) ++ [n mod 128].

Lemma MAX_div : MAX64 / 128 = 144115188075855871. Proof. reflexivity. Qed.

Lemma dec_cont : forall fuel m rest,
  m + 1 < 128 ^ (N.of_nat fuel) -> m < MAX64 ->
  read_varint_loop 0 (enc_cont fuel m ++ rest) = read_varint_loop (m + 1) rest.
Proof.
  induction fuel as [|f IH]; intros m rest Hm HM.
  - change (128 ^ N.of_nat 0) with 1 in Hm. lia.
  - cbn [enc_cont]. destruct (m <=? 127) eqn:E.
    + cbn [app read_varint_loop]. change (18446744073709551615 / 128) with 144115188075855871.
      replace (144115188075855871 <? 0) with false by reflexivity.
      replace (128 <=? m + 128) with true by lia.
      replace (0 * 128 + (m + 128) mod 128) with m by lia.
      replace (m =? 18446744073709551615) with false by (unfold MAX64 in HM; lia). reflexivity.
    + rewrite <- app_assoc. rewrite IH.
      * cbn [app read_varint_loop]. change (18446744073709551615 / 128) with 144115188075855871.
        replace (144115188075855871 <? m / 128 - 1 + 1) with false by (unfold MAX64 in HM; lia).
        replace (128 <=? m mod 128 + 128) with true by lia.
        replace ((m / 128 - 1 + 1) * 128 + (m mod 128 + 128) mod 128) with m by lia.
        replace (m =? 18446744073709551615) with false by (unfold MAX64 in HM; lia). reflexivity.
      * rewrite Nnat.Nat2N.inj_succ, N.pow_succ_r' in Hm. lia.
      * lia.
Qed.

Theorem read_varint_enc : forall n rest, n <= MAX64 -> read_varint (enc_varint n ++ rest) = Ok (n, rest).
Proof.
  intros n rest Hn. unfold read_varint, enc_varint. destruct (n <=? 127) eqn:E.
  - cbn [app read_varint_loop]. change (18446744073709551615 / 128) with 144115188075855871.
    replace (144115188075855871 <? 0) with false by reflexivity.
    replace (128 <=? n) with false by lia.
    replace (0 * 128 + n mod 128) with n by lia. reflexivity.
  - rewrite <- app_assoc, dec_cont.
    + cbn [app read_varint_loop]. change (18446744073709551615 / 128) with 144115188075855871.
      replace (144115188075855871 <? n / 128 - 1 + 1) with false by (unfold MAX64 in Hn; lia).
      replace (128 <=? n mod 128) with false by lia.
      replace ((n / 128 - 1 + 1) * 128 + (n mod 128) mod 128) with n by lia. reflexivity.
    + unfold MAX64 in Hn. change (N.of_nat 10) with 10.
      assert (128 ^ 10 = 1180591620717411303424) by reflexivity. lia.
    + unfold MAX64 in *. lia.
Qed.

(* CDiskBlockIndex as Bitcoin Core writes it: nFile only with HAVE_DATA|HAVE_UNDO, nDataPos only with HAVE_DATA, nUndoPos only with HAVE_UNDO *)
Definition enc_record (version height status ntx file pos undo:N) (tail:bytes) : bytes :=
  enc_varint version ++ enc_varint height ++ enc_varint status ++ enc_varint ntx
  ++ (if has status Published.file_mask then enc_varint file else [])
  ++ (if has status Published.pos_mask then enc_varint pos else [])
  ++ (if has status Published.BLOCK_HAVE_UNDO then enc_varint undo else []) ++ tail.

Theorem decode_record_enc key version height status ntx file pos undo tail :
  length key = 32%nat -> version <= MAX64 -> height <= MAX64 -> status <= MAX64 -> ntx <= MAX64 -> file <= MAX64 -> pos <= MAX64 ->
  decode_record key (enc_record version height status ntx file pos undo tail) =
    Ok {| r_hash := key; r_height := height; r_status := status;
          r_file := if has status Published.file_mask then file else 0; r_off := if has status Published.pos_mask then pos else 0 |}.
Proof.
  intros Hk Hv Hh Hs Hn Hf Hp. unfold decode_record, enc_record. rewrite Hk. cbn [Nat.eqb negb].
  erewrite bind_ok by (apply read_varint_enc; assumption).
  erewrite bind_ok by (apply read_varint_enc; assumption).
  erewrite bind_ok by (apply read_varint_enc; assumption).
  erewrite bind_ok by (apply read_varint_enc; assumption).
  destruct (has status Published.file_mask); destruct (has status Published.pos_mask);
    repeat (first [erewrite bind_ok by (apply read_varint_enc; assumption) | erewrite bind_ok by reflexivity]); reflexivity.
Qed.
Print Assumptions decode_record_enc.

(* ---------- C03: blk file names (blkfile.rs:126) ---------- *)
From RBP Require Import Render.
Lemma starts_with_app p x : starts_with p (p ++ x) = Some x.
Proof. induction p as [|c p IH]; [reflexivity|]. cbn. now rewrite N.eqb_refl. Qed.
Lemma parse_digits_app a b acc : parse_digits (a ++ b) acc = match parse_digits a acc with Some x => parse_digits b x | None => None end.
Proof.
  revert acc. induction a as [|c a IH]; intro acc; [reflexivity|]. cbn [app parse_digits].
  destruct ((48 <=? c) && (c <=? 57)); [|reflexivity]. destruct (MAX64 <? acc * 10 + (c - 48)); [reflexivity|apply IH].
Qed.
Lemma parse_digits_zeros k : parse_digits (repeat 48 k) 0 = Some 0.
Proof. induction k as [|k IH]; [reflexivity|]. cbn [repeat parse_digits]. exact IH. Qed.
Lemma parse_digits_dec_rev : forall f n, n < 10 ^ N.of_nat f -> n <= MAX64 -> parse_digits (rev (dec_rev f n)) 0 = Some n.
Proof.
  induction f as [|f IH]; intros n H HM.
  - change (10 ^ N.of_nat 0) with 1 in H. replace n with 0 by lia. reflexivity.
  - cbn [dec_rev]. destruct (n <? 10) eqn:E.
    + cbn [rev app parse_digits]. replace ((48 <=? 48 + n) && (48 + n <=? 57)) with true by lia.
      replace (MAX64 <? 0 * 10 + (48 + n - 48)) with false by (unfold MAX64; lia). f_equal. lia.
    + cbn [rev]. rewrite parse_digits_app, IH.
      * cbn [parse_digits]. replace ((48 <=? 48 + n mod 10) && (48 + n mod 10 <=? 57)) with true by lia.
        replace (n / 10 * 10 + (48 + n mod 10 - 48)) with n by lia.
        replace (MAX64 <? n) with false by lia. reflexivity.
      * rewrite Nnat.Nat2N.inj_succ, N.pow_succ_r' in H. lia.
      * lia.
Qed.
Lemma dec_first_digit n : exists c r, dec n = c :: r /\ 48 <= c <= 57.
Proof.
  unfold dec. pose proof (dec_rev_nonempty 25 n ltac:(lia)) as Hne. pose proof (dec_rev_all_digits 25 n) as F.
  destruct (rev (dec_rev 25 n)) as [|c r] eqn:E.
  - apply (f_equal (@length N)) in E. rewrite rev_length in E. change (length (@nil N)) with 0%nat in E. lia.
  - exists c, r. split; [reflexivity|]. rewrite Forall_forall in F. apply F. apply in_rev. rewrite E. now left.
Qed.

(* a file named blk<zero padding><decimal n>.dat, any padding width, is file number n *)
Theorem blk_name_parses n k : n <= MAX64 ->
  parse_blk_index (Published.blk_prefix ++ repeat 48 k ++ dec n ++ Published.blk_ext) = Some n.
Proof.
  intro H. unfold parse_blk_index. rewrite starts_with_app.
  replace (rev (Published.blk_prefix ++ repeat 48 k ++ dec n ++ Published.blk_ext)) with (rev Published.blk_ext ++ rev (Published.blk_prefix ++ repeat 48 k ++ dec n))
    by (now rewrite !rev_app_distr, <- !app_assoc).
  rewrite starts_with_app.
  replace (Nat.sub (length (repeat 48 k ++ dec n ++ Published.blk_ext)) (length Published.blk_ext)) with (length (repeat 48 k ++ dec n)) by (rewrite !app_length; lia).
  rewrite app_assoc, firstn_app, Nat.sub_diag, firstn_all. cbn [firstn]. rewrite app_nil_r.
  assert (Hd : parse_digits (repeat 48 k ++ dec n) 0 = Some n).
  { rewrite parse_digits_app, parse_digits_zeros. unfold dec. apply parse_digits_dec_rev; [|exact H].
    change (N.of_nat 25) with 25. unfold MAX64 in H. assert (18446744073709551615 < 10 ^ 25) by reflexivity. lia. }
  unfold parse_u64. destruct k as [|k].
  - cbn [repeat app] in *. destruct (dec_first_digit n) as (c & r & E & Hc). rewrite E in *.
    destruct (N.eq_dec c 43); [lia|]. destruct c as [|p]; [exact Hd|]. repeat (destruct p as [p|p|]; try exact Hd); lia.
  - cbn [repeat app] in *. exact Hd.
Qed.
(* names that do not start with the prefix or do not end with the extension are not blk files *)
Theorem non_blk_name_prefix name : starts_with Published.blk_prefix name = None -> parse_blk_index name = None.
Proof. intro H. unfold parse_blk_index. now rewrite H. Qed.
Theorem non_blk_name_suffix name : starts_with (rev Published.blk_ext) (rev name) = None -> parse_blk_index name = None.
Proof. intro H. unfold parse_blk_index. destruct (starts_with Published.blk_prefix name); [now rewrite H|reflexivity]. Qed.

(* database keys that are not block records ('b' ++ hash) are ignored *)
Theorem non_b_key_ignored k v r m : (match k with 98 :: _ => False | [] => False | _ => True end) -> load_index ((k, v) :: r) m = load_index r m.
Proof.
  intro H. cbn [load_index]. destruct k as [|b key]; [contradiction|].
  destruct b as [|p]; [reflexivity|]. repeat (destruct p as [p|p|]; try reflexivity). contradiction.
Qed.

(* ---------- C04: which record is kept per height ---------- *)
(* if the only admitted record of height h (in the whole database) is `a`, the index delivers `a` at h *)
Theorem unique_admitted_is_kept kvs idx h a : load_index kvs [] = Ok idx -> last_admitted h kvs None = Some a -> hm_get h idx = Some a.
Proof. intros H L. now rewrite (load_index_last kvs [] idx h H). Qed.
(* C04 for all indexes outside the known class: if at every height the last admitted record in key order is the active one,
   the height map is exactly the active chain *)
Theorem C04_partial kvs idx (active : N -> option irec) :
  load_index kvs [] = Ok idx -> (forall h, last_admitted h kvs None = active h) -> forall h, hm_get h idx = active h.
Proof. intros H A h. rewrite (load_index_last kvs [] idx h H). apply A. Qed.

(* the general statement is false of the code (known finding F-C04): a stale sibling WITH block data whose hash sorts after the active
   block's replaces the active block at its height *)
Definition hashA : bytes := repeat 0x11 32. Definition hashB : bytes := repeat 0x22 32.
Definition rec_active : bytes * bytes := (98 :: hashA, enc_record 1 2 0x1d 1 0 8 9 (repeat 0 80)).       (* VALID_SCRIPTS|HAVE_DATA|HAVE_UNDO, height 2 *)
Definition rec_stale : bytes * bytes := (98 :: hashB, enc_record 1 2 0x0b 1 0 300 0 (repeat 0 80)).     (* VALID_TRANSACTIONS|HAVE_DATA, height 2 *)
Theorem C04_refuted : exists kvs idx r, load_index (sort_kv kvs) [] = Ok idx /\ hm_get 2 idx = Some r /\ r_hash r = hashB /\ r_off r = 300.
Proof. exists [rec_stale; rec_active]. eexists. eexists. split; [vm_compute; reflexivity|]. split; [vm_compute; reflexivity|]. split; reflexivity. Qed.
(* while a header-only competitor (no data, validity below CHAIN) never displaces anything, for every status value *)
Theorem header_only_never_displaces kvs idx h key v rec :
  load_index kvs [] = Ok idx -> decode_record key v = Ok rec -> N.land (r_status rec) Published.status_mask = 0 ->
  forall kvs1 kvs2, kvs = kvs1 ++ (98 :: key, v) :: kvs2 -> hm_get h idx = last_admitted h (kvs1 ++ kvs2) None.
Proof.
  intros H D S kvs1 kvs2 ->. rewrite (load_index_last _ [] idx h H). cbn [hm_get]. clear H.
  generalize (@None irec). induction kvs1 as [|[[|b0 key0] v0] r IH]; intro cur.
  - cbn [app last_admitted]. rewrite D, (header_only_not_admitted rec S). cbn [andb]. reflexivity.
  - cbn [app last_admitted]. apply IH.
  - cbn [app last_admitted]. destruct (N.eq_dec b0 98) as [->|Hb].
    + destruct (decode_record key0 v0); [apply IH|reflexivity|reflexivity|reflexivity].
    + assert (Hskip : forall A (x y:A), match b0 with 98 => x | _ => y end = y).
      { intros A x y. destruct b0 as [|p]; [reflexivity|]. repeat (destruct p as [p|p|]; try reflexivity). exfalso; apply Hb; reflexivity. }
      rewrite !Hskip. apply IH.
Qed.
