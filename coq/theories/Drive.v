(* Model + proofs: driver loop (parser/mod.rs:54-75) delivers exactly s..max (C02), stops at the first failing height (C09/C10);
   open-file bookkeeping of ChainStorage::get_block (chain.rs:28-51) keeps open only files with blocks still to come (C17) *)
From RBP Require Import Bytes.

Definition heights (s:N) (n:nat) : list N := map (fun i => s + N.of_nat i) (seq 0 n).

Lemma heights_S s n : heights s (S n) = s :: heights (s + 1) n.
Proof.
  unfold heights. cbn [seq map]. f_equal; [lia|]. rewrite <- seq_shift, map_map. apply map_ext. intro i. lia.
Qed.
Lemma heights_length s n : length (heights s n) = n.
Proof. unfold heights. now rewrite map_length, seq_length. Qed.
Lemma heights_In s n h : In h (heights s n) <-> s <= h < s + N.of_nat n.
Proof.
  unfold heights. rewrite in_map_iff. split.
  - intros (i & <- & Hi). apply in_seq in Hi. lia.
  - intro H. exists (N.to_nat (h - s)). split; [lia|]. apply in_seq. lia.
Qed.


Section Drive.
Variable B E : Type.
Variable get : N -> option (B + E).         (* chain_index.get(h) then read/verify; None past the index *)

(* `for height in cur..=max` (inclusive = after the F1 repair) / `cur..max` (pinned tree).
   Result: delivered blocks, cur_height at exit, and the failing height/error if the run was aborted. *)
Fixpoint drive (fuel:nat) (inclusive:bool) (maxh cur:N) (acc:list (N * B)) : list (N * B) * N * option (N * E) :=
  match fuel with
  | O => (acc, cur, None)
  | S f => if (if inclusive then maxh <? cur else maxh <=? cur) then (acc, cur, None) else
           match get cur with
           | None => (acc, cur, None)                                  (* break *)
           | Some (inl b) => drive f inclusive maxh (cur + 1) (acc ++ [(cur, b)])
           | Some (inr e) => (acc, cur, Some (cur, e))                  (* error!(..); process::exit(1) *)
           end
  end.
Variable blk : N -> B.
Theorem drive_inclusive : forall fuel s maxh acc,
  (forall h, s <= h <= maxh -> get h = Some (inl (blk h))) -> s <= maxh + 1 -> (N.to_nat (maxh + 1 - s) < fuel)%nat ->
  drive fuel true maxh s acc = (acc ++ map (fun h => (h, blk h)) (heights s (N.to_nat (maxh + 1 - s))), maxh + 1, None).
Proof.
  induction fuel as [|f IH]; intros s maxh acc Hget Hs Hf; [lia|].
  cbn [drive]. destruct (N.ltb_spec maxh s) as [Hdone|Hgo].
  - replace (N.to_nat (maxh + 1 - s)) with 0%nat by lia. cbn. rewrite app_nil_r. do 2 f_equal. lia.
  - rewrite Hget by lia. rewrite IH; [|intros h Hh; apply Hget; lia|lia|lia].
    replace (N.to_nat (maxh + 1 - s)) with (S (N.to_nat (maxh + 1 - (s + 1)))) by lia.
    rewrite heights_S. cbn [map]. now rewrite <- app_assoc.
Qed.

(* the pinned tree stopped one short (finding F1): the generalised refutation witness *)
Theorem drive_exclusive_skips_tip : forall fuel s maxh acc,
  (forall h, s <= h <= maxh -> get h = Some (inl (blk h))) -> s <= maxh -> (N.to_nat (maxh - s) < fuel)%nat ->
  drive fuel false maxh s acc = (acc ++ map (fun h => (h, blk h)) (heights s (N.to_nat (maxh - s))), maxh, None).
Proof.
  induction fuel as [|f IH]; intros s maxh acc Hget Hs Hf; [lia|].
  cbn [drive]. destruct (N.leb_spec maxh s) as [Hdone|Hgo].
  - replace (N.to_nat (maxh - s)) with 0%nat by lia. cbn. rewrite app_nil_r. do 2 f_equal. lia.
  - rewrite Hget by lia. rewrite IH; [|intros h Hh; apply Hget; lia|lia|lia].
    replace (N.to_nat (maxh - s)) with (S (N.to_nat (maxh - (s + 1)))) by lia.
    rewrite heights_S. cbn [map]. now rewrite <- app_assoc.
Qed.

(* a failing block at height f (s <= f <= maxh), all blocks before it fine: exactly s..f-1 are delivered and the run is aborted at f *)
Theorem drive_stops_at_first_error : forall fuel s maxh f e acc,
  (forall h, s <= h < f -> get h = Some (inl (blk h))) -> get f = Some (inr e) -> s <= f <= maxh -> (N.to_nat (f - s) < fuel)%nat ->
  drive fuel true maxh s acc = (acc ++ map (fun h => (h, blk h)) (heights s (N.to_nat (f - s))), f, Some (f, e)).
Proof.
  induction fuel as [|fu IH]; intros s maxh f e acc Hget Hf Hs Hfu; [lia|].
  cbn [drive]. replace (maxh <? s) with false by lia.
  destruct (N.eq_dec s f) as [->|Hne].
  - rewrite Hf. replace (N.to_nat (f - f)) with 0%nat by lia. cbn. now rewrite app_nil_r.
  - rewrite Hget by lia. rewrite (IH (s + 1) maxh f e); [|intros h Hh; apply Hget; lia|assumption|lia|lia].
    replace (N.to_nat (f - s)) with (S (N.to_nat (f - (s + 1)))) by lia.
    rewrite heights_S. cbn [map]. now rewrite <- app_assoc.
Qed.

(* nothing outside [s, maxh] is ever fetched: the result only depends on `get` inside the range *)
End Drive.

Theorem drive_ext B E (g1 g2 : N -> option (B + E)) : forall fuel incl maxh s acc,
  (forall h, s <= h <= maxh -> g1 h = g2 h) -> drive B E g1 fuel incl maxh s acc = drive B E g2 fuel incl maxh s acc.
Proof.
  induction fuel as [|f IH]; intros incl maxh s acc H; [reflexivity|].
  cbn [drive]. destruct (if incl then maxh <? s else maxh <=? s) eqn:E1; [reflexivity|].
  assert (Hs : s <= maxh) by (destruct incl; lia).
  rewrite <- H by lia. destruct (g1 s) as [[b|e]|]; try reflexivity.
  apply IH. intros h Hh. apply H. lia.
Qed.

Section Fds.
Variable file_of : N -> N.          (* height -> blk file number, from the index *)
Variable maxh : N -> N.             (* max_height_by_blk *)
Variable dom : N -> Prop.           (* the heights the run processes *)
Hypothesis maxh_ok : forall h, dom h -> h <= maxh (file_of h).                        (* it bounds every processed height stored in the file *)
Hypothesis maxh_attained : forall h' h, dom h' -> dom h -> maxh (file_of h') = h -> file_of h = file_of h'.   (* a processed height equal to a file's maximum is stored in that file *)

Definition openset := list N.
Definition add (f:N) (o:openset) : openset := if existsb (N.eqb f) o then o else f :: o.
Definition del (f:N) (o:openset) : openset := filter (fun g => negb (g =? f)) o.
(* get_block(height): open (no-op when open), read, close when height >= max_height_by_blk *)
Definition visit (o:openset) (h:N) : openset :=
  let f := file_of h in let o1 := add f o in if maxh f <=? h then del f o1 else o1.
Fixpoint visits (o:openset) (s:N) (n:nat) : openset :=
  match n with O => o | S n' => visits (visit o s) (s + 1) n' end.

(* every open file still holds a block of a height yet to come *)
Definition inv (o:openset) (next:N) : Prop := forall f, In f o -> (exists h', dom h' /\ f = file_of h') /\ next <= maxh f.

Lemma visit_inv o h : dom h -> inv o h -> inv (visit o h) (h + 1).
Proof.
  intros Hd Hi f Hin. unfold visit in Hin.
  assert (Hadd : forall g, In g (add (file_of h) o) -> g = file_of h \/ In g o).
  { intros g Hg. unfold add in Hg. destruct (existsb (N.eqb (file_of h)) o); [now right|]. destruct Hg; [left; congruence|now right]. }
  assert (Hother : forall g, In g o -> g <> file_of h -> (exists h', dom h' /\ g = file_of h') /\ h + 1 <= maxh g).
  { intros g Hg Hne. destruct (Hi g Hg) as [[h' [Hd' ->]] Hle]. split; [eauto|].
    destruct (N.eq_dec (maxh (file_of h')) h) as [Heq|]; [|lia].
    exfalso. apply Hne. symmetry. now apply (maxh_attained h' h). }
  pose proof (maxh_ok h Hd) as Hok.
  destruct (N.leb_spec (maxh (file_of h)) h) as [Hclose|Hkeep].
  - unfold del in Hin. apply filter_In in Hin as [Hin Hne]. destruct (N.eqb_spec f (file_of h)); [discriminate|].
    destruct (Hadd f Hin) as [->|Hold]; [congruence|]. now apply Hother.
  - destruct (Hadd f Hin) as [->|Hold]; [split; [eauto|lia]|].
    destruct (N.eq_dec f (file_of h)) as [->|Hne]; [split; [eauto|lia]|now apply Hother].
Qed.

(* C17: for every layout (file_of arbitrary) and every start height, after delivering s .. s+n-1 the open files all contain a later block *)
Theorem open_invariant : forall n s o, (forall i, (i < n)%nat -> dom (s + N.of_nat i)) -> inv o s -> inv (visits o s n) (s + N.of_nat n).
Proof.
  induction n as [|n IH]; intros s o Hd Hi.
  - cbn. replace (s + 0) with s by lia. exact Hi.
  - cbn [visits]. replace (s + N.of_nat (S n)) with (s + 1 + N.of_nat n) by lia. apply IH.
    + intros i Hi'. replace (s + 1 + N.of_nat i) with (s + N.of_nat (S i)) by lia. apply Hd. lia.
    + apply visit_inv; [|exact Hi]. replace s with (s + N.of_nat 0) by lia. apply Hd. lia.
Qed.

Corollary open_span : forall n s f, (forall i, (i < n)%nat -> dom (s + N.of_nat i)) -> In f (visits [] s n) -> (exists h', dom h' /\ f = file_of h') /\ s + N.of_nat n <= maxh f.
Proof. intros n s f Hd Hin. apply (open_invariant n s [] Hd); [intros g []|exact Hin]. Qed.

(* no file is listed twice in the open set *)
Lemma add_nodup f o : NoDup o -> NoDup (add f o).
Proof.
  intro H. unfold add. destruct (existsb (N.eqb f) o) eqn:E; [exact H|]. constructor; [|exact H].
  intro Hin. assert (existsb (N.eqb f) o = true) by (apply existsb_exists; exists f; split; [exact Hin|apply N.eqb_refl]). congruence.
Qed.
Lemma del_nodup f o : NoDup o -> NoDup (del f o).
Proof. intro H. unfold del. now apply NoDup_filter. Qed.
Lemma visits_nodup : forall n s o, NoDup o -> NoDup (visits o s n).
Proof.
  induction n as [|n IH]; intros s o H; [exact H|]. cbn [visits]. apply IH. unfold visit.
  destruct (maxh (file_of s) <=? s); [apply del_nodup|]; now apply add_nodup.
Qed.

(* files with pairwise disjoint height spans (file f holds processed heights only inside lo f .. maxh f): at most one open *)
Variable lo : N -> N.
Hypothesis span : forall h, dom h -> lo (file_of h) <= h.
Hypothesis disjoint : forall h h', dom h -> dom h' -> file_of h <> file_of h' -> maxh (file_of h) < lo (file_of h') \/ maxh (file_of h') < lo (file_of h).
Lemma opened_lo : forall n s o, (forall i, (i < n)%nat -> dom (s + N.of_nat i)) -> (forall y, In y o -> exists h', dom h' /\ y = file_of h' /\ lo y <= s) ->
  forall y, In y (visits o s n) -> exists h', dom h' /\ y = file_of h' /\ lo y <= s + N.of_nat n.
Proof.
  induction n as [|n IH]; intros s o Hd Ho y Hy.
  - cbn in Hy. destruct (Ho y Hy) as (h' & Hd' & -> & Hl). exists h'. repeat split; [exact Hd'|lia].
  - cbn [visits] in Hy. replace (s + N.of_nat (S n)) with (s + 1 + N.of_nat n) by lia. apply (IH (s + 1) (visit o s)); [| |exact Hy].
    + intros i Hi'. replace (s + 1 + N.of_nat i) with (s + N.of_nat (S i)) by lia. apply Hd. lia.
    + assert (Hds : dom s) by (replace s with (s + N.of_nat 0) by lia; apply Hd; lia).
      intros z Hz. unfold visit in Hz.
      assert (Hz' : In z (add (file_of s) o)).
      { destruct (maxh (file_of s) <=? s); [unfold del in Hz; apply filter_In in Hz; tauto|exact Hz]. }
      unfold add in Hz'. destruct (existsb (N.eqb (file_of s)) o).
      * destruct (Ho z Hz') as (h' & Hd' & -> & Hl). exists h'. repeat split; [exact Hd'|lia].
      * destruct Hz' as [<-|Hz'].
        -- exists s. repeat split; [exact Hds|]. specialize (span s Hds). lia.
        -- destruct (Ho z Hz') as (h' & Hd' & -> & Hl). exists h'. repeat split; [exact Hd'|lia].
Qed.
Theorem disjoint_spans_one_open : forall n s, (forall i, (i < n)%nat -> dom (s + N.of_nat i)) -> (length (visits [] s n) <= 1)%nat.
Proof.
  intros n s Hd. pose proof (visits_nodup n s [] (NoDup_nil _)) as Hnd.
  destruct (visits [] s n) as [|f [|g r]] eqn:E; cbn; try lia. exfalso.
  assert (Hf : In f (visits [] s n)) by (rewrite E; now left).
  assert (Hg : In g (visits [] s n)) by (rewrite E; right; now left).
  assert (Hopen : forall x, In x (visits [] s n) -> exists h', dom h' /\ x = file_of h' /\ lo x <= s + N.of_nat n <= maxh x).
  { intros x Hx. destruct (opened_lo n s [] Hd (fun y (H:In y []) => match H with end) x Hx) as (h' & Hd' & -> & Hl).
    destruct (open_span n s _ Hd Hx) as [_ Hm]. exists h'. repeat split; [exact Hd'|lia|lia]. }
  destruct (Hopen f Hf) as (hf & Hdf & -> & Hsf). destruct (Hopen g Hg) as (hg & Hdg & -> & Hsg).
  inversion Hnd as [|? ? Hnin _]; subst. assert (Hne : file_of hf <> file_of hg) by (intro Heq; apply Hnin; rewrite Heq; now left).
  destruct (disjoint hf hg Hdf Hdg Hne); lia.
Qed.
End Fds.
