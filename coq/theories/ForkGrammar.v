(* C06 / C14: the fork-coin tokeniser is exactly the Bitcoin push grammar.
   A script is a sequence of items: an opcode above OP_PUSHDATA4, or a push of d in one of the four forms.  The tokeniser maps
   a non-empty push to Data d (whatever the form), drops no-ops, keeps every other opcode, and maps an EMPTY push to its opcode.
   Soundness: every item sequence tokenises to its semantics.  Completeness: every byte string that tokenises is an item sequence.
   Consequences: byte-level verdicts for the five templates with the data slot written in any push form and no-ops anywhere. *)
From RBP Require Import Bytes Hashes Base58 Utf8 ScriptCustom CustomTop ScriptCustomP ScriptBtc OpReturnP ScriptBtcComplete.
From RBP Require Published.

Inductive item := ItOp (c:N) | ItPush (f:pform) (d:bytes).
Definition form_opcode (f:pform) : N := match f with Direct => 0 | PD1 => 0x4c | PD2 => 0x4d | PD4 => 0x4e end.
Definition item_ok (it:item) : Prop := match it with ItOp c => 0x4e < c | ItPush f d => pfits f d end.
Definition enc_item (it:item) : bytes := match it with ItOp c => [c] | ItPush f d => enc_push f d end.
Definition sem_item (it:item) : list tok :=
  match it with
  | ItOp c => if is_noop c then [] else [TOp c]
  | ItPush f [] => [TOp (form_opcode f)]
  | ItPush f d => [TData d]
  end.
Definition enc_items (its:list item) : bytes := flat_map enc_item its.
Definition sem (its:list item) : list tok := flat_map sem_item its.

(* ---------- fuel is irrelevant once it covers the length ---------- *)
Lemma push_ext op n rest k1 k2 : (forall l', (length l' <= length rest)%nat -> k1 l' = k2 l') -> push op n rest k1 = push op n rest k2.
Proof.
  intro H. unfold push. destruct (n =? 0).
  - rewrite (H rest) by lia. reflexivity.
  - destruct (N.of_nat (length rest) <? n); [reflexivity|]. rewrite (H (skipn (N.to_nat n) rest)); [reflexivity|]. rewrite skipn_length. lia.
Qed.
Lemma toks_fuel : forall f1 f2 l, (length l <= f1)%nat -> (length l <= f2)%nat -> toks f1 l = toks f2 l.
Proof.
  induction f1 as [|f1 IH]; intros f2 l H1 H2.
  - destruct l; [|cbn in H1; lia]. destruct f2; reflexivity.
  - destruct f2 as [|f2]; [destruct l; [reflexivity|cbn in H2; lia]|].
    destruct l as [|c r]; [reflexivity|]. cbn [length] in H1, H2. cbn [toks].
    assert (E : forall n rest, (length rest <= length r)%nat -> push c n rest (toks f1) = push c n rest (toks f2)).
    { intros n rest Hr. apply push_ext. intros l' Hl'. apply IH; lia. }
    destruct (c <=? 0x4b); [apply E; lia|].
    destruct (c =? 0x4c); [destruct (length r <? 1)%nat; [reflexivity|apply E; rewrite skipn_length; lia]|].
    destruct (c =? 0x4d); [destruct (length r <? 2)%nat; [reflexivity|apply E; rewrite skipn_length; lia]|].
    destruct (c =? 0x4e); [destruct (length r <? 4)%nat; [reflexivity|apply E; rewrite skipn_length; lia]|].
    apply E; lia.
Qed.
Definition tokenise (l:bytes) : option (list tok) := toks (length l) l.
Lemma toks_tokenise f l : (length l <= f)%nat -> toks f l = tokenise l.
Proof. intro H. apply toks_fuel; [exact H|lia]. Qed.

(* ---------- one item at the head ---------- *)
Lemma push_data op d rest k : d <> [] -> push op (plen d) (d ++ rest) k = option_map (cons (TData d)) (k rest).
Proof.
  intro Hne. unfold push, plen. assert (0 < length d)%nat by (destruct d; [congruence|cbn; lia]).
  replace (N.of_nat (length d) =? 0) with false by lia. rewrite app_length.
  replace (N.of_nat (length d + length rest) <? N.of_nat (length d)) with false by lia.
  rewrite Nnat.Nat2N.id, firstn_app, Nat.sub_diag, firstn_all, skipn_app, Nat.sub_diag, skipn_all. cbn [firstn skipn app]. now rewrite app_nil_r.
Qed.
Lemma push_zero op rest k : is_noop op = false -> push op 0 rest k = option_map (cons (TOp op)) (k rest).
Proof. intro H. unfold push. cbn [N.eqb]. now rewrite H. Qed.
Lemma push_noop op rest k : is_noop op = true -> push op 0 rest k = k rest.
Proof. intro H. unfold push. cbn [N.eqb]. now rewrite H. Qed.

Lemma tokenise_cons c r : tokenise (c :: r) =
  if c <=? 0x4b then push c c r tokenise
  else if c =? 0x4c then (if (length r <? 1)%nat then None else push c (le_decode (firstn 1 r)) (skipn 1 r) tokenise)
  else if c =? 0x4d then (if (length r <? 2)%nat then None else push c (le_decode (firstn 2 r)) (skipn 2 r) tokenise)
  else if c =? 0x4e then (if (length r <? 4)%nat then None else push c (le_decode (firstn 4 r)) (skipn 4 r) tokenise)
  else push c 0 r tokenise.
Proof.
  unfold tokenise at 1. cbn [length toks].
  assert (E : forall n rest, (length rest <= length r)%nat -> push c n rest (toks (length r)) = push c n rest tokenise).
  { intros n rest Hr. apply push_ext. intros l' Hl'. apply toks_tokenise. lia. }
  destruct (c <=? 0x4b); [apply E; lia|].
  destruct (c =? 0x4c); [destruct (length r <? 1)%nat; [reflexivity|apply E; rewrite skipn_length; lia]|].
  destruct (c =? 0x4d); [destruct (length r <? 2)%nat; [reflexivity|apply E; rewrite skipn_length; lia]|].
  destruct (c =? 0x4e); [destruct (length r <? 4)%nat; [reflexivity|apply E; rewrite skipn_length; lia]|].
  apply E; lia.
Qed.

Lemma tokenise_item it rest : item_ok it -> tokenise (enc_item it ++ rest) = option_map (app (sem_item it)) (tokenise rest).
Proof.
  intro Hok. destruct it as [c|f d]; cbn [item_ok enc_item sem_item] in *.
  - cbn [app]. rewrite tokenise_cons.
    replace (c <=? 0x4b) with false by lia. replace (c =? 0x4c) with false by lia. replace (c =? 0x4d) with false by lia. replace (c =? 0x4e) with false by lia.
    destruct (is_noop c) eqn:En.
    + rewrite push_noop by exact En. destruct (tokenise rest); reflexivity.
    + rewrite push_zero by exact En. destruct (tokenise rest); reflexivity.
  - assert (Hd : forall op, push op (plen d) (d ++ rest) tokenise =
                  option_map (app (match d with [] => [TOp op] | _ => [TData d] end)) (tokenise rest) \/ (d = [] /\ is_noop op = true)).
    { intro op. destruct d as [|x d'].
      - destruct (is_noop op) eqn:En; [right; auto|left]. cbn [plen length app]. change (N.of_nat 0) with 0. rewrite push_zero by exact En. destruct (tokenise rest); reflexivity.
      - left. rewrite push_data by discriminate. destruct (tokenise rest); reflexivity. }
    destruct f; cbn [enc_push pfits app form_opcode] in *.
    + rewrite tokenise_cons. replace (plen d <=? 0x4b) with true by lia.
      destruct (Hd (plen d)) as [E|[-> En]].
      * rewrite E. destruct d; reflexivity.
      * cbn in En. discriminate.
    + rewrite tokenise_cons. cbn [N.leb N.compare Pos.compare Pos.compare_cont]. replace (0x4c <=? 0x4b) with false by reflexivity. replace (0x4c =? 0x4c) with true by reflexivity.
      cbn [length]. replace (Nat.ltb (S (length (d ++ rest))) 1) with false by reflexivity.
      cbn [firstn skipn le_decode]. replace (plen d + 256 * 0) with (plen d) by lia.
      destruct (Hd 0x4c) as [E|[_ En]]; [rewrite E; destruct d; reflexivity|cbn in En; discriminate].
    + rewrite tokenise_cons. replace (0x4d <=? 0x4b) with false by reflexivity. replace (0x4d =? 0x4c) with false by reflexivity. replace (0x4d =? 0x4d) with true by reflexivity.
      rewrite <- app_assoc.
      assert (L : (2 <= length (le_encode 2 (plen d) ++ d ++ rest))%nat) by (rewrite app_length, le_encode_length; lia).
      destruct (Nat.ltb_spec (length (le_encode 2 (plen d) ++ d ++ rest)) 2); [lia|].
      rewrite (le_decode_firstn 2) by (change (256 ^ N.of_nat 2) with 65536; exact Hok). rewrite skipn_le_encode.
      destruct (Hd 0x4d) as [E|[_ En]]; [rewrite E; destruct d; reflexivity|cbn in En; discriminate].
    + rewrite tokenise_cons. replace (0x4e <=? 0x4b) with false by reflexivity. replace (0x4e =? 0x4c) with false by reflexivity. replace (0x4e =? 0x4d) with false by reflexivity.
      replace (0x4e =? 0x4e) with true by reflexivity. rewrite <- app_assoc.
      assert (L : (4 <= length (le_encode 4 (plen d) ++ d ++ rest))%nat) by (rewrite app_length, le_encode_length; lia).
      destruct (Nat.ltb_spec (length (le_encode 4 (plen d) ++ d ++ rest)) 4); [lia|].
      rewrite (le_decode_firstn 4) by (change (256 ^ N.of_nat 4) with (2^32); exact Hok). rewrite skipn_le_encode.
      destruct (Hd 0x4e) as [E|[_ En]]; [rewrite E; destruct d; reflexivity|cbn in En; discriminate].
Qed.

(* ---------- soundness: every item sequence tokenises to its semantics ---------- *)
Theorem tokenise_items its : Forall item_ok its -> tokenise (enc_items its) = Some (sem its).
Proof.
  induction its as [|it r IH]; intro HF; [reflexivity|]. inversion HF as [|? ? Hok Hr]; subst.
  cbn [enc_items sem flat_map]. rewrite (tokenise_item it _ Hok). fold (enc_items r). rewrite (IH Hr). reflexivity.
Qed.

(* ---------- completeness: a byte string that tokenises is an item sequence ---------- *)
Lemma push_inv op n rest k ts : push op n rest k = Some ts ->
  (n = 0 /\ ((is_noop op = true /\ k rest = Some ts) \/ (is_noop op = false /\ exists ts', k rest = Some ts' /\ ts = TOp op :: ts'))) \/
  (n <> 0 /\ exists d rest' ts', plen d = n /\ d <> [] /\ rest = d ++ rest' /\ k rest' = Some ts' /\ ts = TData d :: ts').
Proof.
  unfold push. destruct (N.eqb_spec n 0) as [->|Hn].
  - intro H. left. split; [reflexivity|]. destruct (is_noop op); [left; auto|right]. split; [reflexivity|].
    destruct (k rest) as [ts'|]; [|discriminate]. inversion H. eauto.
  - destruct (N.ltb_spec (N.of_nat (length rest)) n) as [|Hge]; [discriminate|]. intro H. right. split; [exact Hn|].
    destruct (k (skipn (N.to_nat n) rest)) as [ts'|] eqn:Ek; [|discriminate]. inversion H.
    exists (firstn (N.to_nat n) rest), (skipn (N.to_nat n) rest), ts'.
    assert (Hl : length (firstn (N.to_nat n) rest) = N.to_nat n) by (rewrite firstn_length; lia).
    split; [unfold plen; rewrite Hl; lia|]. split; [intro E; rewrite E in Hl; cbn in Hl; lia|].
    split; [symmetry; apply firstn_skipn|]. split; [exact Ek|reflexivity].
Qed.

Theorem tokenise_complete : forall fuel l ts, wfb l = true -> (length l <= fuel)%nat -> tokenise l = Some ts ->
  exists its, Forall item_ok its /\ l = enc_items its /\ ts = sem its.
Proof.
  induction fuel as [|fuel IH]; intros l ts Hwf Hlen H.
  { destruct l; [|cbn in Hlen; lia]. cbn in H. inversion H. exists []. repeat split. constructor. }
  destruct l as [|c r]; [cbn in H; inversion H; exists []; repeat split; constructor|].
  apply wfb_cons in Hwf. destruct Hwf as [Hc Hr]. cbn [length] in Hlen. rewrite tokenise_cons in H.
  (* a helper that finishes once the head item and the remaining bytes are known *)
  assert (Fin : forall it rest ts', item_ok it -> c :: r = enc_item it ++ rest -> wfb rest = true -> (length rest <= fuel)%nat -> tokenise rest = Some ts' -> ts = sem_item it ++ ts' ->
                exists its, Forall item_ok its /\ c :: r = enc_items its /\ ts = sem its).
  { intros it rest ts' Hok El Hwr Hlr Ht Ets. destruct (IH rest ts' Hwr Hlr Ht) as (its & HF & -> & ->).
    exists (it :: its). split; [constructor; assumption|]. split; [exact El|exact Ets]. }
  destruct (N.leb_spec c 0x4b) as [H1|H1].
  { apply push_inv in H. destruct H as [(-> & [(En & _)|(En & ts' & Ht & ->)])|(Hn & d & rest' & ts' & Hl & Hne & -> & Ht & ->)].
    - cbn in En. discriminate.
    - apply (Fin (ItPush Direct []) r ts'); cbn; try lia; try reflexivity; assumption.
    - apply (Fin (ItPush Direct d) rest' ts'); cbn [item_ok pfits enc_item enc_push sem_item].
      + lia.
      + now rewrite Hl.
      + unfold wfb in *. rewrite forallb_app in Hr. apply andb_true_iff in Hr. apply Hr.
      + rewrite app_length in Hlen. lia.
      + exact Ht.
      + destruct d; [congruence|reflexivity]. }
  (* PUSHDATA1/2/4 share one argument, parameterised by the width *)
  assert (PD : forall (w:nat) (f:pform), (w = 1%nat /\ f = PD1 /\ c = 0x4c \/ w = 2%nat /\ f = PD2 /\ c = 0x4d \/ w = 4%nat /\ f = PD4 /\ c = 0x4e) ->
                (length r <? w)%nat = false -> push c (le_decode (firstn w r)) (skipn w r) tokenise = Some ts ->
                exists its, Forall item_ok its /\ c :: r = enc_items its /\ ts = sem its).
  { intros w f Hwf' Hlw Hp. apply Nat.ltb_ge in Hlw.
    assert (Hw2 : wfb (firstn w r) = true) by now apply wfb_firstn.
    assert (Hl2 : length (firstn w r) = w) by (rewrite firstn_length; lia).
    pose proof (le_decode_bound _ Hw2) as Hbd. rewrite Hl2 in Hbd.
    assert (Hws : wfb (skipn w r) = true) by now apply wfb_skipn.
    assert (Hsplit : r = le_encode w (le_decode (firstn w r)) ++ skipn w r).
    { rewrite <- Hl2 at 1. rewrite (le_encode_decode _ Hw2). symmetry. apply firstn_skipn. }
    assert (Hfit : forall d, plen d = le_decode (firstn w r) -> pfits f d).
    { intros d Hd. destruct Hwf' as [(-> & -> & _)|[(-> & -> & _)|(-> & -> & _)]]; cbn [pfits]; rewrite Hd.
      - change (256 ^ N.of_nat 1) with 256 in Hbd. exact Hbd.
      - change (256 ^ N.of_nat 2) with 65536 in Hbd. exact Hbd.
      - change (256 ^ N.of_nat 4) with (2^32) in Hbd. exact Hbd. }
    assert (Henc : forall d, plen d = le_decode (firstn w r) -> c :: le_encode w (plen d) = enc_push f d ++ [] -> True) by (intros; exact I).
    assert (Hcop : is_noop c = false) by (destruct Hwf' as [(_ & _ & ->)|[(_ & _ & ->)|(_ & _ & ->)]]; reflexivity).
    assert (Hfo : form_opcode f = c) by (destruct Hwf' as [(_ & -> & ->)|[(_ & -> & ->)|(_ & -> & ->)]]; reflexivity).
    assert (Eenc : forall d rest, plen d = le_decode (firstn w r) -> skipn w r = d ++ rest -> c :: r = enc_push f d ++ rest).
    { intros d rest Hd Hs. rewrite Hsplit, Hs, <- Hd.
      destruct Hwf' as [(-> & -> & ->)|[(-> & -> & ->)|(-> & -> & ->)]]; cbn [enc_push app].
      - cbn [le_encode]. f_equal. assert (Hsmall : plen d < 256) by (rewrite Hd; change (256 ^ N.of_nat 1) with 256 in Hbd; exact Hbd).
        cbn [app]. f_equal. apply N.mod_small. exact Hsmall.
      - now rewrite <- app_assoc.
      - now rewrite <- app_assoc. }
    apply push_inv in Hp. destruct Hp as [(Hz & [(En & _)|(_ & ts' & Ht & ->)])|(Hn & d & rest' & ts' & Hl & Hne & Hs & Ht & ->)].
    - congruence.
    - apply (Fin (ItPush f []) (skipn w r) ts').
      + apply Hfit. cbn. now rewrite Hz.
      + apply (Eenc [] (skipn w r)); [cbn; now rewrite Hz|reflexivity].
      + exact Hws.
      + rewrite skipn_length. lia.
      + exact Ht.
      + cbn [sem_item app]. now rewrite Hfo.
    - apply (Fin (ItPush f d) rest' ts').
      + now apply Hfit.
      + now apply Eenc.
      + rewrite Hs in Hws. unfold wfb in *. rewrite forallb_app in Hws. apply andb_true_iff in Hws. apply Hws.
      + assert (Hsl : length (skipn w r) = (length d + length rest')%nat) by (rewrite Hs, app_length; reflexivity). rewrite skipn_length in Hsl. lia.
      + exact Ht.
      + cbn [sem_item]. destruct d; [congruence|reflexivity]. }
  destruct (N.eqb_spec c 0x4c) as [H2|H2].
  { destruct (length r <? 1)%nat eqn:E; [discriminate|]. apply (PD 1%nat PD1); auto. }
  destruct (N.eqb_spec c 0x4d) as [H3|H3].
  { destruct (length r <? 2)%nat eqn:E; [discriminate|]. apply (PD 2%nat PD2); auto. }
  destruct (N.eqb_spec c 0x4e) as [H4|H4].
  { destruct (length r <? 4)%nat eqn:E; [discriminate|]. apply (PD 4%nat PD4); auto 6. }
  apply push_inv in H. destruct H as [(_ & [(En & Ht)|(En & ts' & Ht & ->)])|(Hn & _)]; [| |congruence].
  - apply (Fin (ItOp c) r ts); cbn [item_ok enc_item sem_item app]; try lia; try reflexivity; try assumption. now rewrite En.
  - apply (Fin (ItOp c) r ts'); cbn [item_ok enc_item sem_item app]; try lia; try reflexivity; try assumption. now rewrite En.
Qed.

Theorem tokenise_iff l ts : wfb l = true ->
  (tokenise l = Some ts <-> exists its, Forall item_ok its /\ l = enc_items its /\ ts = sem its).
Proof.
  intro Hwf. split.
  - intro H. now apply (tokenise_complete (length l) l ts Hwf (le_n _)).
  - intros (its & HF & -> & ->). now apply tokenise_items.
Qed.

(* ---------- consequences for the evaluator ---------- *)
Theorem fork_verdict_of_items its v : Forall item_ok its -> eval_custom (enc_items its) v = classify (sem its) v.
Proof. intro HF. apply eval_custom_is_classify_of_tokens. exact (tokenise_items its HF). Qed.

(* a byte string that is not an item sequence (a push running past the end) is NotRecognised *)
Theorem fork_not_items_not_recognised bs v : wfb bs = true -> (forall its, Forall item_ok its -> bs <> enc_items its) -> eval_custom bs v = (PNotRecognised, None).
Proof.
  intros Hwf Hno. apply truncated_push_not_recognised. fold (tokenise bs). destruct (tokenise bs) as [ts|] eqn:E; [|reflexivity].
  exfalso. apply tokenise_iff in E; [|exact Hwf]. destruct E as (its & HF & -> & _). now apply (Hno its).
Qed.

(* no-ops anywhere and the push form of any non-empty datum do not change the verdict *)
Lemma sem_app a b : sem (a ++ b) = sem a ++ sem b.
Proof. unfold sem. apply flat_map_app. Qed.
Theorem noop_irrelevant a c b v : Forall item_ok a -> Forall item_ok b -> 0x4e < c -> is_noop c = true ->
  eval_custom (enc_items (a ++ ItOp c :: b)) v = eval_custom (enc_items (a ++ b)) v.
Proof.
  intros Ha Hb Hc Hn. rewrite !fork_verdict_of_items.
  - rewrite !sem_app. cbn [sem flat_map sem_item]. rewrite Hn. reflexivity.
  - apply Forall_app; split; assumption.
  - apply Forall_app; split; [assumption|]. constructor; assumption.
Qed.
Theorem push_form_irrelevant a f1 f2 d b v : Forall item_ok a -> Forall item_ok b -> pfits f1 d -> pfits f2 d -> d <> [] ->
  eval_custom (enc_items (a ++ ItPush f1 d :: b)) v = eval_custom (enc_items (a ++ ItPush f2 d :: b)) v.
Proof.
  intros Ha Hb H1 H2 Hne. rewrite !fork_verdict_of_items.
  - rewrite !sem_app. cbn [sem flat_map sem_item]. destruct d; [congruence|reflexivity].
  - apply Forall_app; split; [assumption|]. constructor; assumption.
  - apply Forall_app; split; [assumption|]. constructor; assumption.
Qed.

(* byte-level verdicts of the five templates: the data slots take ANY non-empty push in any form *)
Theorem fork_p2pkh_bytes f h v : pfits f h -> h <> [] ->
  eval_custom ([0x76; 0xa9] ++ enc_push f h ++ [0x88; 0xac]) v = (PP2PKH, Some (hash160_to_address v h)).
Proof.
  intros Hf Hne. change ([0x76; 0xa9] ++ enc_push f h ++ [0x88; 0xac]) with ([0x76] ++ [0xa9] ++ enc_push f h ++ [0x88] ++ [0xac]).
  replace ([0x76] ++ [0xa9] ++ enc_push f h ++ [0x88] ++ [0xac]) with (enc_items [ItOp 0x76; ItOp 0xa9; ItPush f h; ItOp 0x88; ItOp 0xac])
    by (cbn [enc_items flat_map enc_item]; now rewrite app_nil_r).
  rewrite fork_verdict_of_items by (repeat constructor; cbn; try lia; exact Hf).
  cbn [sem flat_map sem_item is_noop]. destruct h as [|x h']; [congruence|]. reflexivity.
Qed.
Theorem fork_p2sh_bytes f h v : pfits f h -> h <> [] ->
  eval_custom ([0xa9] ++ enc_push f h ++ [0x87]) v = (PP2SH, Some (hash160_to_address 5 h)).
Proof.
  intros Hf Hne.
  replace ([0xa9] ++ enc_push f h ++ [0x87]) with (enc_items [ItOp 0xa9; ItPush f h; ItOp 0x87]) by (cbn [enc_items flat_map enc_item]; now rewrite app_nil_r).
  rewrite fork_verdict_of_items by (repeat constructor; cbn; try lia; exact Hf).
  cbn [sem flat_map sem_item is_noop]. destruct h as [|x h']; [congruence|]. reflexivity.
Qed.
Theorem fork_p2pk_bytes f k v : pfits f k -> k <> [] ->
  eval_custom (enc_push f k ++ [0xac]) v = (PP2PK, Some (public_key_to_addr v k)).
Proof.
  intros Hf Hne.
  replace (enc_push f k ++ [0xac]) with (enc_items [ItPush f k; ItOp 0xac]) by (cbn [enc_items flat_map enc_item]; now rewrite app_nil_r).
  rewrite fork_verdict_of_items by (repeat constructor; cbn; try lia; exact Hf).
  cbn [sem flat_map sem_item is_noop]. destruct k as [|x k']; [congruence|]. reflexivity.
Qed.
Theorem fork_multisig_bytes f1 f2 f3 a b c v : pfits f1 a -> pfits f2 b -> pfits f3 c -> a <> [] -> b <> [] -> c <> [] ->
  eval_custom ([0x52] ++ enc_push f1 a ++ enc_push f2 b ++ enc_push f3 c ++ [0x53; 0xae]) v = (PMultiSig, None).
Proof.
  intros H1 H2 H3 Na Nb Nc.
  replace ([0x52] ++ enc_push f1 a ++ enc_push f2 b ++ enc_push f3 c ++ [0x53; 0xae])
    with (enc_items [ItOp 0x52; ItPush f1 a; ItPush f2 b; ItPush f3 c; ItOp 0x53; ItOp 0xae]) by (cbn [enc_items flat_map enc_item]; now rewrite app_nil_r).
  rewrite fork_verdict_of_items by (repeat constructor; cbn; try lia; assumption).
  cbn [sem flat_map sem_item is_noop]. destruct a; [congruence|]. destruct b; [congruence|]. destruct c; [congruence|]. reflexivity.
Qed.
(* an empty push in a data slot is an opcode token, never Data: the template does not match *)
Theorem fork_p2pkh_empty_push_not_recognised f v : eval_custom ([0x76; 0xa9] ++ enc_push f [] ++ [0x88; 0xac]) v = (PNotRecognised, None).
Proof. destruct f; vm_compute; reflexivity. Qed.
