(* Model: fork-coin evaluator top level (custom.rs:157-345): template cascade over the published template table,
   address extraction, EOF -> NotRecognised. *)
From RBP Require Import Bytes Hashes Base58 ScriptCustom Utf8.
From RBP Require Published.

Inductive pattern := POpReturn (d:bytes) | PMultiSig | PP2PK | PP2PKH | PP2SH | PNotRecognised | PError.
(* match_stack_pattern: same length, opcodes equal, data slots accept any Data token *)
Definition slot_match (t:tok) (s:option N) : bool :=
  match t, s with TData _, None => true | TOp c, Some c' => c =? c' | _, _ => false end.
Fixpoint match_template (ts:list tok) (tpl:list (option N)) : bool :=
  match ts, tpl with [], [] => true | t :: ts', s :: tpl' => slot_match t s && match_template ts' tpl' | _, _ => false end.
Fixpoint first_match (ts:list tok) (tpls:list (N * list (option N))) : option N :=
  match tpls with [] => None | (tag, tpl) :: r => if match_template ts tpl then Some tag else first_match ts r end.
Definition data_at (ts:list tok) (i:N) : option bytes := match nth_error ts (N.to_nat i) with Some (TData d) => Some d | _ => None end.

(* eval_script_pattern + compute_stack: pattern and, for the three address-bearing types, the address as a function of the coin version *)
Definition classify (ts:list tok) (version:N) : pattern * option (list N) :=
  let '(s_pkh, s_pk, s_sh) := Published.addr_slots in
  match first_match ts Published.templates with
  | Some 3 => match data_at ts s_pkh with Some h => (PP2PKH, Some (hash160_to_address version h)) | None => (PError, None) end
  | Some 2 => match data_at ts s_pk with Some k => (PP2PK, Some (public_key_to_addr version k)) | None => (PError, None) end
  | Some 4 => match data_at ts s_sh with Some h => (PP2SH, Some (hash160_to_address Published.p2sh_version h)) | None => (PError, None) end
  | Some 0 => match data_at ts 1 with Some d => (POpReturn (from_utf8_lossy d), None) | None => (PError, None) end
  | Some 1 => match data_at ts 1 with Some _ => (PMultiSig, None) | None => (PError, None) end
  | _ => (PNotRecognised, None)
  end.
Definition eval_custom (bs:bytes) (version:N) : pattern * option (list N) :=
  match eval bs with
  | Ok ts => classify ts version
  | _ => (PNotRecognised, None)
  end.
