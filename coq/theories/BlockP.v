(* Prototype: block-level round trip, with and without the AuxPoW section (C01 / C12) *)
From RBP Require Import Bytes Hashes Wire Block.

Record abranch := { br_w : cs_width; br_hashes : list bytes; br_mask : N }.
Record aaux := { ax_tx : atx; ax_hash : bytes; ax_b1 : abranch; ax_b2 : abranch; ax_parent : header }.
Record ablock := { ab_header : header; ab_aux : option aaux; ab_cw : cs_width; ab_txs : list atx }.

Definition ser_branch (b:abranch) : bytes := cs_enc (br_w b) (N.of_nat (length (br_hashes b))) ++ concat (br_hashes b) ++ le_encode 4 (br_mask b).
Definition ser_aux (a:aaux) : bytes := ser_tx_disk (ax_tx a) ++ ax_hash a ++ ser_branch (ax_b1 a) ++ ser_branch (ax_b2 a) ++ raw_header (ax_parent a).
Definition ser_block (b:ablock) : bytes :=
  raw_header (ab_header b) ++ (match ab_aux b with Some a => ser_aux a | None => [] end)
  ++ cs_enc (ab_cw b) (N.of_nat (length (ab_txs b))) ++ flat_map ser_tx_disk (ab_txs b).

Definition wf_header (h:header) : bool :=
  (h_version h <? 2^32) && (length (h_prev h) =? 32)%nat && (length (h_merkle h) =? 32)%nat && (h_time h <? 2^32) && (h_bits h <? 2^32) && (h_nonce h <? 2^32).
Definition wf_branch (b:abranch) : bool :=
  cs_fits (br_w b) (N.of_nat (length (br_hashes b))) && forallb (fun h => (length h =? 32)%nat) (br_hashes b) && (br_mask b <? 2^32).
Definition wf_aux (a:aaux) : bool :=
  wf_tx (ax_tx a) && (length (ax_hash a) =? 32)%nat && wf_branch (ax_b1 a) && wf_branch (ax_b2 a) && wf_header (ax_parent a).
Definition wf_block (c:coin) (b:ablock) : bool :=
  wf_header (ab_header b) && cs_fits (ab_cw b) (N.of_nat (length (ab_txs b))) && forallb wf_tx (ab_txs b)
  && match ab_aux b with Some a => aux_expected c (ab_header b) && wf_aux a | None => negb (aux_expected c (ab_header b)) end.

Lemma read_header_ser h rest : wf_header h = true -> read_header (raw_header h ++ rest) = Ok (h, rest).
Proof.
  unfold wf_header. rewrite !andb_true_iff. intros [[[[[H1 H2] H3] H4] H5] H6].
  apply Nat.eqb_eq in H2, H3. unfold read_header, raw_header. rewrite <- !app_assoc.
  unfold read_u32. change 4 with (N.of_nat 4).
  erewrite bind_ok by (apply read_le_app; change (256 ^ N.of_nat 4) with (2^32); lia).
  erewrite bind_ok by (unfold read_hash; apply read_bytes_app'; rewrite H2; reflexivity).
  erewrite bind_ok by (unfold read_hash; apply read_bytes_app'; rewrite H3; reflexivity).
  erewrite bind_ok by (apply read_le_app; change (256 ^ N.of_nat 4) with (2^32); lia).
  erewrite bind_ok by (apply read_le_app; change (256 ^ N.of_nat 4) with (2^32); lia).
  erewrite bind_ok by (apply read_le_app; change (256 ^ N.of_nat 4) with (2^32); lia).
  unfold ret. destruct h; reflexivity.
Qed.

Lemma read_hash_ser h rest : (length h =? 32)%nat = true -> read_hash (h ++ rest) = Ok (h, rest).
Proof. intro H. apply Nat.eqb_eq in H. unfold read_hash. apply read_bytes_app'. now rewrite H. Qed.

Lemma flat_map_id_concat (l:list bytes) : flat_map (fun x => x) l = concat l.
Proof. induction l; cbn; congruence. Qed.

Lemma read_branch_ser b rest : wf_branch b = true -> read_merkle_branch (ser_branch b ++ rest) = Ok (tt, rest).
Proof.
  unfold wf_branch. rewrite !andb_true_iff. intros [[H1 H2] H3].
  unfold read_merkle_branch, ser_branch. rewrite <- !app_assoc.
  erewrite bind_ok by (apply read_cs_enc; assumption). cbn [vval].
  erewrite bind_ok.
  2:{ rewrite <- flat_map_id_concat.
      apply (read_n_ser read_hash (fun x => x) (fun x => x) (fun h => (length h =? 32)%nat)).
      - intros x r Hx. now apply read_hash_ser.
      - intros x Hx. apply Nat.eqb_eq in Hx. rewrite Hx. lia.
      - exact H2. }
  unfold read_u32. change 4 with (N.of_nat 4).
  erewrite bind_ok by (apply read_le_app; change (256 ^ N.of_nat 4) with (2^32); lia).
  reflexivity.
Qed.

Lemma read_auxpow_ser a rest : wf_aux a = true -> read_auxpow (ser_aux a ++ rest) = Ok (tt, rest).
Proof.
  unfold wf_aux. rewrite !andb_true_iff. intros [[[[H1 H2] H3] H4] H5].
  unfold read_auxpow, ser_aux. rewrite <- !app_assoc.
  erewrite bind_ok by (apply read_tx_ser; assumption).
  erewrite bind_ok by (apply read_hash_ser; assumption).
  erewrite bind_ok by (apply read_branch_ser; assumption).
  erewrite bind_ok by (apply read_branch_ser; assumption).
  erewrite bind_ok by (apply read_header_ser; assumption).
  reflexivity.
Qed.

Definition parsed_block (size:N) (b:ablock) : block :=
  {| b_size := size; b_header := ab_header b; b_aux := match ab_aux b with Some _ => true | None => false end;
     b_txcount := {| vval := N.of_nat (length (ab_txs b)); vraw := cs_enc (ab_cw b) (N.of_nat (length (ab_txs b))) |};
     b_txs := map parsed_tx (ab_txs b) |}.

(* C01 / C12: every well-formed block parses back to itself. With an AuxPoW section (present exactly when the coin has a
   threshold and the header version is at or above it) the parsed header and transaction list do not depend on the section. *)
Theorem read_block_ser c size b rest : wf_block c b = true ->
  read_block c size (ser_block b ++ rest) = Ok (parsed_block size b, rest).
Proof.
  unfold wf_block. rewrite !andb_true_iff. intros [[[Hh Hcw] Htxs] Haux].
  unfold read_block, ser_block, parsed_block. rewrite <- !app_assoc.
  erewrite bind_ok by (apply read_header_ser; assumption).
  assert (Htx : read_n read_tx (N.of_nat (length (ab_txs b))) (flat_map ser_tx_disk (ab_txs b) ++ rest) = Ok (map parsed_tx (ab_txs b), rest)).
  { apply (read_n_ser read_tx ser_tx_disk parsed_tx wf_tx); auto using read_tx_ser, ser_tx_nonempty. }
  destruct (ab_aux b) as [a|].
  - apply andb_true_iff in Haux as [Hexp Hwa]. rewrite Hexp.
    erewrite bind_ok by (apply read_auxpow_ser; assumption).
    erewrite bind_ok by (apply read_cs_enc; assumption). cbn [vval].
    erewrite bind_ok by exact Htx. reflexivity.
  - cbn [app]. apply negb_true_iff in Haux. rewrite Haux.
    erewrite bind_ok by reflexivity.
    erewrite bind_ok by (apply read_cs_enc; assumption). cbn [vval].
    erewrite bind_ok by exact Htx. reflexivity.
Qed.

Corollary auxpow_irrelevant c c0 size b a rest rest0 :
  ab_aux b = Some a -> wf_block c b = true ->
  let b0 := {| ab_header := ab_header b; ab_aux := None; ab_cw := ab_cw b; ab_txs := ab_txs b |} in
  wf_block c0 b0 = true ->
  exists blk blk0, read_block c size (ser_block b ++ rest) = Ok (blk, rest) /\ read_block c0 size (ser_block b0 ++ rest0) = Ok (blk0, rest0)
    /\ b_header blk = b_header blk0 /\ b_txs blk = b_txs blk0 /\ block_hash blk = block_hash blk0.
Proof.
  intros Ha W b0 W0. do 2 eexists. split; [apply read_block_ser; exact W|]. split; [apply read_block_ser; exact W0|].
  repeat split.
Qed.
Print Assumptions read_block_ser.

(* ---------- C12: when a section is (not) decoded ---------- *)
(* a coin without threshold never decodes a section, whatever the version *)
Theorem no_threshold_no_section c size : auxpow_version c = None -> forall s b rest, read_block c size s = Ok (b, rest) -> b_aux b = false.
Proof.
  intros Hc s b rest H. unfold read_block, bind, aux_expected in H. rewrite Hc in H.
  destruct (read_header s) as [[h s1]| | |]; try discriminate. cbn [ret] in H.
  destruct (read_cs s1) as [[cnt s2]| | |]; try discriminate.
  destruct (read_n read_tx (vval cnt) s2) as [[txs s3]| | |]; try discriminate. unfold ret in H. now inversion H.
Qed.
(* the section is decoded exactly when the header version is at or above the threshold (equality included) *)
Theorem section_iff_threshold c t size s b rest : auxpow_version c = Some t -> read_block c size s = Ok (b, rest) ->
  b_aux b = (t <=? h_version (b_header b)).
Proof.
  intros Hc H. unfold read_block, bind, aux_expected in H. rewrite Hc in H.
  destruct (read_header s) as [[h s1]| | |]; try discriminate.
  destruct (t <=? h_version h) eqn:E.
  - destruct (read_auxpow s1) as [[u s1']| | |]; try discriminate.
    destruct (read_cs s1') as [[cnt s2]| | |]; try discriminate.
    destruct (read_n read_tx (vval cnt) s2) as [[txs s3]| | |]; try discriminate. unfold ret in H. inversion H; subst. cbn. now rewrite E.
  - cbn [ret] in H. destruct (read_cs s1) as [[cnt s2]| | |]; try discriminate.
    destruct (read_n read_tx (vval cnt) s2) as [[txs s3]| | |]; try discriminate. unfold ret in H. inversion H; subst. cbn. now rewrite E.
Qed.
(* the published thresholds, and which coins have one *)
From RBP Require Published.
Definition threshold_of (name:list N) : option (option N) :=
  option_map (fun e => snd (snd e)) (find (fun e => if list_eq_dec N.eq_dec (fst e) name then true else false) Published.coins).
Theorem published_thresholds :
  map (fun e => (fst e, snd (snd e))) Published.coins =
  [ ([98; 105; 116; 99; 111; 105; 110], None); ([100; 111; 103; 101; 99; 111; 105; 110], Some 0x620102); ([108; 105; 116; 101; 99; 111; 105; 110], None);
    ([109; 121; 114; 105; 97; 100; 99; 111; 105; 110], None); ([110; 97; 109; 101; 99; 111; 105; 110], Some 0x10101);
    ([110; 111; 116; 101; 98; 108; 111; 99; 107; 99; 104; 97; 105; 110], None); ([116; 101; 115; 116; 110; 101; 116; 51], None); ([117; 110; 111; 98; 116; 97; 110; 105; 117; 109], None) ].
Proof. vm_compute. reflexivity. Qed.
