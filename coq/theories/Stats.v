(* Prototype: mirror of callbacks/simplestats.rs on_block accumulation (with repairs F5, F8, F9, F10 applied) = declarative
   definitions over the processed range.  C15 *)
From RBP Require Import Bytes.
From RBP Require Published.

(* what simplestats reads from an evaluated transaction / block *)
Record stx := { t_id : bytes; t_incount : N; t_outcount : N; t_coinbase : bool; t_outs : list (N * N) (* value, script-type tag *); t_size : N }.
Record sblock := { k_height : N; k_size : N; k_time : N; k_txcount : N; k_txs : list stx }.

Definition base_reward (h:N) : N :=   (* block.rs get_base_reward, zero from the 64th halving *)
  let halvings := h / Published.halving_interval in if Published.halving_cap <=? halvings then 0 else N.shiftr Published.reward halvings.
Definition tx_value (t:stx) : N := fold_left (fun a o => a + fst o) (t_outs t) 0.

Record acc := { a_blocks : N; a_tx : N; a_in : N; a_out : N; a_fee : N; a_vol : N;
                a_bigv : option (N * N * bytes); a_bigs : option (N * N * bytes);
                a_types : list (N * N); a_first : list (N * (N * bytes * N));
                a_sizes : list N; a_gaps : list N; a_last : option N }.
Definition acc0 := {| a_blocks := 0; a_tx := 0; a_in := 0; a_out := 0; a_fee := 0; a_vol := 0; a_bigv := None; a_bigs := None;
                      a_types := []; a_first := []; a_sizes := []; a_gaps := []; a_last := None |}.

Fixpoint bump (p:N) (l:list (N * N)) : list (N * N) :=
  match l with [] => [(p, 1)] | (q, c) :: r => if q =? p then (q, c + 1) :: r else (q, c) :: bump p r end.
Fixpoint lookup {V} (p:N) (l:list (N * V)) : option V := match l with [] => None | (q, v) :: r => if q =? p then Some v else lookup p r end.
Definition note_first (p:N) (w:N * bytes * N) (l:list (N * (N * bytes * N))) := match lookup p l with Some _ => l | None => l ++ [(p, w)] end.
Definition better (key:N) (cur:option (N * N * bytes)) : bool := match cur with None => true | Some (k, _, _) => k <? key end.

Definition on_tx (h:N) (a:acc) (t:stx) : acc :=
  let v := tx_value t in
  let '(types, first, _) := fold_left (fun '(ty, fi, i) o => (bump (snd o) ty, note_first (snd o) (h, t_id t, i) fi, i + 1)) (t_outs t) (a_types a, a_first a, 0) in
  {| a_blocks := a_blocks a; a_tx := a_tx a; a_in := a_in a + t_incount t; a_out := a_out a + t_outcount t;
     a_fee := a_fee a + (if t_coinbase t then match t_outs t with o :: _ => fst o - base_reward h | [] => 0 end else 0);
     a_vol := a_vol a + v;
     a_bigv := if better v (a_bigv a) then Some (v, h, t_id t) else a_bigv a;
     a_bigs := if better (t_size t) (a_bigs a) then Some (t_size t, h, t_id t) else a_bigs a;
     a_types := types; a_first := first; a_sizes := a_sizes a; a_gaps := a_gaps a; a_last := a_last a |}.
Definition on_block (a:acc) (b:sblock) : acc :=
  let a1 := fold_left (on_tx (k_height b)) (k_txs b) a in
  {| a_blocks := a_blocks a1 + 1; a_tx := a_tx a1 + k_txcount b; a_in := a_in a1; a_out := a_out a1; a_fee := a_fee a1; a_vol := a_vol a1;
     a_bigv := a_bigv a1; a_bigs := a_bigs a1; a_types := a_types a1; a_first := a_first a1;
     a_sizes := a_sizes a1 ++ [k_size b];
     a_gaps := match a_last a1 with Some p => a_gaps a1 ++ [k_time b - p] | None => a_gaps a1 end;    (* checked_sub .. unwrap_or_default *)
     a_last := Some (k_time b) |}.
Definition run (bs:list sblock) : acc := fold_left on_block bs acc0.

(* get_mean with the F5 repair: exact rational (sum, count) *)
Definition mean (l:list N) : N * N := (fold_left N.add l 0, N.of_nat (length l)).

(* ---------- spec ---------- *)
Definition all_txs (bs:list sblock) : list (N * stx) := flat_map (fun b => map (fun t => (k_height b, t)) (k_txs b)) bs.
Definition sum {A} (f:A -> N) (l:list A) : N := fold_right (fun x s => f x + s) 0 l.
Fixpoint gaps_spec (prev:option N) (ts:list N) : list N :=
  match ts with [] => [] | t :: r => match prev with Some p => (t - p) :: gaps_spec (Some t) r | None => gaps_spec (Some t) r end end.
(* first element with the strictly largest key *)
Fixpoint first_max {A} (key:A -> N) (l:list A) (cur:option (N * A)) : option (N * A) :=
  match l with [] => cur | x :: r => first_max key r (match cur with None => Some (key x, x) | Some (k, _) => if k <? key x then Some (key x, x) else cur end) end.

Lemma sum_nil {A} (f:A -> N) : sum f [] = 0. Proof. reflexivity. Qed.
Lemma sum_cons {A} (f:A -> N) x l : sum f (x :: l) = f x + sum f l. Proof. reflexivity. Qed.
Global Opaque sum.

Lemma fold_add_sum {A} (f:A -> N) l a : fold_left (fun s x => s + f x) l a = a + sum f l.
Proof.
  revert a; induction l as [|x r IH]; intro a; [cbn [fold_left]; rewrite sum_nil; lia|].
  cbn [fold_left]. rewrite IH, sum_cons. lia.
Qed.

Lemma tx_value_sum t : tx_value t = sum fst (t_outs t).
Proof. unfold tx_value. rewrite fold_add_sum. apply N.add_0_l. Qed.

(* projections of on_tx that do not depend on the type bookkeeping *)
Lemma on_tx_simple h a t :
  a_in (on_tx h a t) = a_in a + t_incount t /\ a_out (on_tx h a t) = a_out a + t_outcount t /\
  a_vol (on_tx h a t) = a_vol a + tx_value t /\ a_blocks (on_tx h a t) = a_blocks a /\ a_tx (on_tx h a t) = a_tx a /\
  a_sizes (on_tx h a t) = a_sizes a /\ a_gaps (on_tx h a t) = a_gaps a /\ a_last (on_tx h a t) = a_last a /\
  a_fee (on_tx h a t) = a_fee a + (if t_coinbase t then match t_outs t with o :: _ => fst o - base_reward h | [] => 0 end else 0).
Proof. unfold on_tx. destruct (fold_left _ (t_outs t) _) as [[ty fi] i]. cbn. repeat split. Qed.

Definition fee_of (ht:N * stx) : N := if t_coinbase (snd ht) then match t_outs (snd ht) with o :: _ => fst o - base_reward (fst ht) | [] => 0 end else 0.

Lemma txs_fold h txs a :
  let a' := fold_left (on_tx h) txs a in
  a_in a' = a_in a + sum t_incount txs /\ a_out a' = a_out a + sum t_outcount txs /\ a_vol a' = a_vol a + sum tx_value txs /\
  a_fee a' = a_fee a + sum (fun t => fee_of (h, t)) txs /\
  a_blocks a' = a_blocks a /\ a_tx a' = a_tx a /\ a_sizes a' = a_sizes a /\ a_gaps a' = a_gaps a /\ a_last a' = a_last a.
Proof.
  revert a. induction txs as [|t r IH]; intro a; cbn [fold_left]; rewrite ?sum_nil, ?sum_cons.
  - repeat split; lia.
  - destruct (on_tx_simple h a t) as (H1 & H2 & H3 & H4 & H5 & H6 & H7 & H8 & H9).
    destruct (IH (on_tx h a t)) as (I1 & I2 & I3 & I4 & I5 & I6 & I7 & I8 & I9). cbn zeta in *.
    rewrite I1, I2, I3, I4, I5, I6, I7, I8, I9, H1, H2, H3, H4, H5, H6, H7, H8, H9. unfold fee_of. cbn [fst snd].
    repeat split; lia.
Qed.

Lemma sum_app {A} (f:A -> N) a b : sum f (a ++ b) = sum f a + sum f b.
Proof. induction a as [|x a IH]; cbn [app]; rewrite ?sum_nil, ?sum_cons; lia. Qed.
Lemma sum_flat_map {A B} (f:B -> N) (g:A -> list B) l : sum f (flat_map g l) = sum (fun x => sum f (g x)) l.
Proof. induction l as [|x r IH]; cbn [flat_map]; rewrite ?sum_nil, ?sum_cons; [reflexivity|]. rewrite sum_app, IH. reflexivity. Qed.
Lemma sum_map {A B} (f:B -> N) (g:A -> B) l : sum f (map g l) = sum (fun x => f (g x)) l.
Proof. induction l as [|x r IH]; cbn [map]; rewrite ?sum_nil, ?sum_cons; congruence. Qed.

(* C15 core: counters, volume, fees, block sizes and time gaps equal their definitions, for every processed range *)
Theorem run_spec bs :
  let a := run bs in
  a_blocks a = N.of_nat (length bs) /\ a_tx a = sum k_txcount bs /\
  a_in a = sum (fun ht => t_incount (snd ht)) (all_txs bs) /\ a_out a = sum (fun ht => t_outcount (snd ht)) (all_txs bs) /\
  a_vol a = sum (fun ht => tx_value (snd ht)) (all_txs bs) /\ a_fee a = sum fee_of (all_txs bs) /\
  a_sizes a = map k_size bs /\ a_gaps a = gaps_spec None (map k_time bs).
Proof.
  unfold run.
  assert (G : forall bs a,
    let a' := fold_left on_block bs a in
    a_blocks a' = a_blocks a + N.of_nat (length bs) /\ a_tx a' = a_tx a + sum k_txcount bs /\
    a_in a' = a_in a + sum (fun ht => t_incount (snd ht)) (all_txs bs) /\ a_out a' = a_out a + sum (fun ht => t_outcount (snd ht)) (all_txs bs) /\
    a_vol a' = a_vol a + sum (fun ht => tx_value (snd ht)) (all_txs bs) /\ a_fee a' = a_fee a + sum fee_of (all_txs bs) /\
    a_sizes a' = a_sizes a ++ map k_size bs /\ a_gaps a' = a_gaps a ++ gaps_spec (a_last a) (map k_time bs)).
  { clear bs. induction bs as [|b r IH]; intro a; cbn [fold_left length all_txs flat_map map gaps_spec]; rewrite ?sum_nil, ?sum_cons.
    - rewrite !app_nil_r. repeat split; lia.
    - destruct (txs_fold (k_height b) (k_txs b) a) as (T1 & T2 & T3 & T4 & T5 & T6 & T7 & T8 & T9). cbn zeta in *.
      destruct (IH (on_block a b)) as (I1 & I2 & I3 & I4 & I5 & I6 & I7 & I8). cbn zeta in *.
      fold (all_txs r). rewrite I1, I2, I3, I4, I5, I6, I7, I8. unfold on_block.
      cbn [a_blocks a_tx a_in a_out a_vol a_fee a_sizes a_gaps a_last].
      rewrite T1, T2, T3, T4, T5, T6, T7, T8, T9, !sum_app, !sum_map. cbn [snd fst].
      change (fun x : stx => t_incount x) with t_incount. change (fun x : stx => t_outcount x) with t_outcount.
      change (fun x : stx => tx_value x) with tx_value.
      repeat (split; [lia|]). split.
      + rewrite <- app_assoc. reflexivity.
      + destruct (a_last a); [rewrite <- app_assoc; reflexivity|reflexivity]. }
  destruct (G bs acc0) as (H1 & H2 & H3 & H4 & H5 & H6 & H7 & H8). cbn in *. repeat split; assumption || lia.
Qed.
Print Assumptions run_spec.

(* "biggest ... (first one on ties)": the strict-> update keeps the first element with the maximal key *)
Section FirstMax.
Variable A : Type. Variable key : A -> N.
Definition upd (cur:option (N * A)) (x:A) : option (N * A) :=
  match cur with None => Some (key x, x) | Some (k, _) => if k <? key x then Some (key x, x) else cur end.
Definition is_first_max (l:list A) (k:N) (x:A) : Prop :=
  key x = k /\ (forall y, In y l -> key y <= k) /\ exists pre post, l = pre ++ x :: post /\ forall y, In y pre -> key y < k.

Lemma first_max_gen : forall l done k x, is_first_max done k x ->
  exists k' x', fold_left upd l (Some (k, x)) = Some (k', x') /\ is_first_max (done ++ l) k' x'.
Proof.
  induction l as [|y r IH]; intros done k x H.
  - exists k, x. rewrite app_nil_r. auto.
  - cbn [fold_left upd]. destruct H as (Hk & Hmax & pre & post & Hsplit & Hpre).
    replace (done ++ y :: r) with ((done ++ [y]) ++ r) by (rewrite <- app_assoc; reflexivity).
    destruct (N.ltb_spec k (key y)) as [Hlt|Hge]; apply IH.
    + split; [reflexivity|]. split.
      * intros z Hz. apply in_app_iff in Hz as [Hz|[<-|[]]]; [specialize (Hmax z Hz); lia|lia].
      * exists done, []. split; [reflexivity|]. intros z Hz. specialize (Hmax z Hz). lia.
    + split; [assumption|]. split.
      * intros z Hz. apply in_app_iff in Hz as [Hz|[<-|[]]]; [now apply Hmax|lia].
      * exists pre, (post ++ [y]). split; [rewrite Hsplit, <- app_assoc; reflexivity|assumption].
Qed.

Theorem first_max_spec x l : exists k' x', fold_left upd (x :: l) None = Some (k', x') /\ is_first_max (x :: l) k' x'.
Proof.
  cbn [fold_left upd]. apply (first_max_gen l [x] (key x) x).
  split; [reflexivity|]. split; [intros y [<-|[]]; lia|]. exists [], []. split; [reflexivity|intros y []].
Qed.
End FirstMax.
Print Assumptions first_max_spec.

(* ---------- biggest transactions: first one with the strictly largest key, over all transactions of the range in chain order ---------- *)
Lemma on_tx_big h a t :
  a_bigv (on_tx h a t) = (if better (tx_value t) (a_bigv a) then Some (tx_value t, h, t_id t) else a_bigv a) /\
  a_bigs (on_tx h a t) = (if better (t_size t) (a_bigs a) then Some (t_size t, h, t_id t) else a_bigs a).
Proof. unfold on_tx. destruct (fold_left _ (t_outs t) _) as [[ty fi] i]. cbn. split; reflexivity. Qed.
Lemma on_block_big a b : a_bigv (on_block a b) = a_bigv (fold_left (on_tx (k_height b)) (k_txs b) a) /\ a_bigs (on_block a b) = a_bigs (fold_left (on_tx (k_height b)) (k_txs b) a).
Proof. split; reflexivity. Qed.

Definition rec_of (e:N * (N * stx)) : N * N * bytes := (fst e, fst (snd e), t_id (snd (snd e))).
Lemma big_fold (key:stx -> N) (proj:acc -> option (N * N * bytes)) :
  (forall h a t, proj (on_tx h a t) = if better (key t) (proj a) then Some (key t, h, t_id t) else proj a) ->
  (forall a b, proj (on_block a b) = proj (fold_left (on_tx (k_height b)) (k_txs b) a)) ->
  forall bs a cur, proj a = option_map rec_of cur ->
  proj (fold_left on_block bs a) = option_map rec_of (fold_left (upd (N * stx) (fun ht => key (snd ht))) (all_txs bs) cur).
Proof.
  intros Htx Hblk.
  assert (T : forall h txs a cur, proj a = option_map rec_of cur ->
            proj (fold_left (on_tx h) txs a) = option_map rec_of (fold_left (upd (N * stx) (fun ht => key (snd ht))) (map (fun t => (h, t)) txs) cur)).
  { intros h txs. induction txs as [|t r IH]; intros a cur H; [exact H|]. cbn [fold_left map]. apply IH. rewrite Htx, H.
    destruct cur as [[k [h0 t0]]|]; cbn [option_map rec_of better upd fst snd]; [|reflexivity]. destruct (k <? key t); reflexivity. }
  induction bs as [|b r IH]; intros a cur H; [exact H|]. cbn [fold_left all_txs flat_map]. rewrite fold_left_app. apply IH.
  rewrite Hblk. now apply T.
Qed.
(* C15: biggest value / biggest size transaction = first maximum over all transactions of the range (the record keeps value, height, txid) *)
Theorem biggest_value_spec bs : a_bigv (run bs) = option_map rec_of (fold_left (upd (N * stx) (fun ht => tx_value (snd ht))) (all_txs bs) None).
Proof. unfold run. apply (big_fold tx_value a_bigv); [intros; apply on_tx_big|intros; apply on_block_big|reflexivity]. Qed.
Theorem biggest_size_spec bs : a_bigs (run bs) = option_map rec_of (fold_left (upd (N * stx) (fun ht => t_size (snd ht))) (all_txs bs) None).
Proof. unfold run. apply (big_fold t_size a_bigs); [intros; apply on_tx_big|intros; apply on_block_big|reflexivity]. Qed.

(* ---------- per script type: number of outputs and first occurrence ---------- *)
Definition all_outs (bs:list sblock) : list (N * (N * bytes * N)) :=   (* type tag, (height, txid, output index) in chain order *)
  flat_map (fun b => flat_map (fun t => map (fun io => (snd (snd io), (k_height b, t_id t, fst io))) (combine (map N.of_nat (seq 0 (length (t_outs t)))) (t_outs t))) (k_txs b)) bs.
Definition count_tag (p:N) (l:list (N * (N * bytes * N))) : N := N.of_nat (length (filter (fun e => fst e =? p) l)).
Definition first_tag (p:N) (l:list (N * (N * bytes * N))) : option (N * bytes * N) := option_map snd (find (fun e => fst e =? p) l).

Lemma lookup_bump p q l : lookup p (bump q l) = if q =? p then Some (match lookup p l with Some c => c + 1 | None => 1 end) else lookup p l.
Proof.
  induction l as [|[q' c] r IH]; cbn [bump lookup].
  - destruct (q =? p); reflexivity.
  - destruct (N.eqb_spec q' q) as [->|Hne]; cbn [lookup].
    + destruct (q =? p); reflexivity.
    + rewrite IH. destruct (N.eqb_spec q' p) as [->|Hne2]; [|reflexivity]. destruct (N.eqb_spec q p); [congruence|reflexivity].
Qed.
Lemma lookup_note_first p q w l : lookup p (note_first q w l) = match lookup p l with Some x => Some x | None => if q =? p then Some w else None end.
Proof.
  unfold note_first. destruct (lookup q l) eqn:E.
  - destruct (lookup p l) eqn:E2; [reflexivity|]. destruct (N.eqb_spec q p) as [->|]; [congruence|reflexivity].
  - induction l as [|[q' x] r IH]; cbn [app lookup] in *.
    + destruct (q =? p); reflexivity.
    + destruct (N.eqb_spec q' q) as [->|Hne]; [discriminate|]. destruct (q' =? p); [reflexivity|]. now apply IH.
Qed.

Definition types_inv (a:acc) (l:list (N * (N * bytes * N))) : Prop :=
  forall p, lookup p (a_types a) = (if count_tag p l =? 0 then None else Some (count_tag p l)) /\ lookup p (a_first a) = first_tag p l.
Lemma count_tag_app p a b : count_tag p (a ++ b) = count_tag p a + count_tag p b.
Proof. unfold count_tag. rewrite filter_app, app_length. lia. Qed.
Lemma first_tag_app p a b : first_tag p (a ++ b) = match first_tag p a with Some x => Some x | None => first_tag p b end.
Proof. unfold first_tag. induction a as [|e r IH]; [reflexivity|]. cbn [app find]. destruct (fst e =? p); [reflexivity|exact IH]. Qed.

Lemma count_tag_single p q w : count_tag p [(q, w)] = if q =? p then 1 else 0.
Proof. unfold count_tag. cbn [filter fst]. destruct (q =? p); reflexivity. Qed.
Lemma first_tag_single p q w : first_tag p [(q, w)] = if q =? p then Some w else None.
Proof. unfold first_tag. cbn [find fst]. destruct (q =? p); reflexivity. Qed.
Lemma outs_step h id : forall (outs:list (N * N)) ty fi i l,
  (forall p, lookup p ty = (if count_tag p l =? 0 then None else Some (count_tag p l)) /\ lookup p fi = first_tag p l) ->
  let '(ty', fi', _) := fold_left (fun '(ty, fi, i) o => (bump (snd o) ty, note_first (snd o) (h, id, i) fi, i + 1)) outs (ty, fi, i) in
  forall p, lookup p ty' = (if count_tag p (l ++ map (fun io => (snd (snd io), (h, id, fst io))) (combine (map (fun k => i + N.of_nat k) (seq 0 (length outs))) outs)) =? 0 then None
                            else Some (count_tag p (l ++ map (fun io => (snd (snd io), (h, id, fst io))) (combine (map (fun k => i + N.of_nat k) (seq 0 (length outs))) outs)))) /\
            lookup p fi' = first_tag p (l ++ map (fun io => (snd (snd io), (h, id, fst io))) (combine (map (fun k => i + N.of_nat k) (seq 0 (length outs))) outs)).
Proof.
  induction outs as [|o r IH]; intros ty fi i l H.
  - cbn. intro p. rewrite app_nil_r. apply H.
  - cbn [fold_left length seq map combine].
    specialize (IH (bump (snd o) ty) (note_first (snd o) (h, id, i) fi) (i + 1) (l ++ [(snd o, (h, id, i))])).
    assert (H' : forall p, lookup p (bump (snd o) ty) = (if count_tag p (l ++ [(snd o, (h, id, i))]) =? 0 then None else Some (count_tag p (l ++ [(snd o, (h, id, i))]))) /\
                         lookup p (note_first (snd o) (h, id, i) fi) = first_tag p (l ++ [(snd o, (h, id, i))])).
    { intro p. destruct (H p) as [Hc Hf]. rewrite lookup_bump, lookup_note_first, Hc, Hf, count_tag_app, first_tag_app, count_tag_single, first_tag_single.
      destruct (N.eqb_spec (snd o) p) as [Ep|Hne].
      - split; [destruct (count_tag p l =? 0) eqn:E0; [apply N.eqb_eq in E0; rewrite E0; reflexivity|replace (count_tag p l + 1 =? 0) with false by lia; reflexivity]|].
        destruct (first_tag p l); reflexivity.
      - split; [replace (count_tag p l + 0) with (count_tag p l) by lia; reflexivity|destruct (first_tag p l); reflexivity]. }
    specialize (IH H'). destruct (fold_left _ r _) as [[ty' fi'] i']. intro p. specialize (IH p).
    replace (i + N.of_nat 0) with i by lia.
    assert (E : map (fun k => i + N.of_nat k) (seq 1 (length r)) = map (fun k => i + 1 + N.of_nat k) (seq 0 (length r))).
    { rewrite <- seq_shift, map_map. apply map_ext. intro k. lia. }
    rewrite E. cbn [map fst snd]. rewrite <- app_assoc in IH. exact IH.
Qed.

Definition outs_of (h:N) (t:stx) : list (N * (N * bytes * N)) :=
  map (fun io => (snd (snd io), (h, t_id t, fst io))) (combine (map N.of_nat (seq 0 (length (t_outs t)))) (t_outs t)).
Lemma on_tx_types h a t l : types_inv a l -> types_inv (on_tx h a t) (l ++ outs_of h t).
Proof.
  intro H. pose proof (outs_step h (t_id t) (t_outs t) (a_types a) (a_first a) 0 l H) as S.
  unfold types_inv, on_tx. destruct (fold_left _ (t_outs t) _) as [[ty fi] i]. cbn [a_types a_first].
  unfold outs_of. replace (map N.of_nat (seq 0 (length (t_outs t)))) with (map (fun k => 0 + N.of_nat k) (seq 0 (length (t_outs t)))) by (apply map_ext; intro; lia).
  exact S.
Qed.
Lemma txs_types h : forall txs a l, types_inv a l -> types_inv (fold_left (on_tx h) txs a) (l ++ flat_map (outs_of h) txs).
Proof.
  induction txs as [|t r IH]; intros a l H; [cbn; now rewrite app_nil_r|]. cbn [fold_left flat_map]. rewrite app_assoc. apply IH. now apply on_tx_types.
Qed.
Lemma all_outs_cons b r : all_outs (b :: r) = flat_map (outs_of (k_height b)) (k_txs b) ++ all_outs r.
Proof. reflexivity. Qed.
(* C15: per script type the number of outputs and the first occurrence (height, txid, output index), over all outputs of the range in chain order *)
Theorem types_spec bs : forall p,
  lookup p (a_types (run bs)) = (if count_tag p (all_outs bs) =? 0 then None else Some (count_tag p (all_outs bs))) /\
  lookup p (a_first (run bs)) = first_tag p (all_outs bs).
Proof.
  unfold run. assert (G : forall bs a l, types_inv a l -> types_inv (fold_left on_block bs a) (l ++ all_outs bs)).
  { clear bs. induction bs as [|b r IH]; intros a l H; [cbn; now rewrite app_nil_r|]. cbn [fold_left]. rewrite all_outs_cons, app_assoc. apply IH.
    pose proof (txs_types (k_height b) (k_txs b) a l H) as T. unfold types_inv in *. intro p. specialize (T p). unfold on_block. cbn [a_types a_first]. exact T. }
  apply (G bs acc0 []). intro p. split; reflexivity.
Qed.
(* the share printed next to each type is count / total outputs: the denominator is the output counter *)
Print Assumptions types_spec. Print Assumptions biggest_value_spec.
(* the base reward: 50 coins halved every 210000 heights (integer division), zero from the 64th halving *)
Theorem base_reward_spec h : base_reward h = if 64 <=? h / 210000 then 0 else 5000000000 / 2 ^ (h / 210000).
Proof. unfold base_reward. change Published.halving_interval with 210000. change Published.halving_cap with 64. change Published.reward with 5000000000.
  destruct (64 <=? h / 210000); [reflexivity|]. apply N.shiftr_div_pow2. Qed.
(* get_mean: the exact rational sum / count *)
Theorem mean_spec l : mean l = (sum (fun x => x) l, N.of_nat (length l)).
Proof. unfold mean. f_equal. rewrite <- (N.add_0_l (sum (fun x => x) l)). rewrite <- fold_add_sum. reflexivity. Qed.
