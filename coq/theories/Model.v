(* Executable end-to-end mirror of rusty-blockparser: index load, block fetch, parse, script evaluation, --verify, driver loop,
   the five callbacks, the output protocol and the open-file bookkeeping, composed from the components the theorems are about.
   No proofs here: this is the object the correspondence check runs against the real binary. *)
From RBP Require Import Bytes Hashes Base58 Utf8 Wire Block Render ScriptCustom CustomTop ScriptBtc Index.
From RBP Require Merkle Drive Utxo Stats OutProto Published.
From RBPGen Require SrcGen.      (* tables no property specifies (header texts, file stems): read from the source on every run *)

(* ---------- coins by command-line name (types.rs) ---------- *)
Definition coin_of_name (name:list N) : option coin :=
  match find (fun e => if list_eq_dec N.eq_dec (fst e) name then true else false) Published.coins with
  | Some (_, (_, v, g, a)) => Some {| version_id := v; auxpow_version := a; genesis := g |}
  | None => None end.

(* ---------- script evaluation dispatch (script/mod.rs:114): tag, address, OP_RETURN text ---------- *)
Record escript := { e_tag : N; e_addr : option (list N); e_text : bytes }.
(* tags: 0 OpReturn 1 Pay2MultiSig 2 Pay2PublicKey 3 Pay2PublicKeyHash 4 Pay2ScriptHash 5 Pay2WitnessPublicKeyHash
         6 Pay2WitnessScriptHash 7 WitnessProgram 8 Pay2Taproot 9 Unspendable 10 NotRecognised 11 Error *)
Definition mk (t:N) (a:option (list N)) (d:bytes) := {| e_tag := t; e_addr := a; e_text := d |}.
Definition is_btc (c:coin) : bool := (version_id c =? 0) || (version_id c =? 0x6f).
Definition eval_script (c:coin) (script:bytes) : escript :=
  if is_btc c then
    let '(p, a) := eval_btc (if version_id c =? 0 then mainnet else testnet) script in
    match p with
    | BOpReturn d => mk 0 a d | BMultiSig => mk 1 a [] | BP2PK => mk 2 a [] | BP2PKH => mk 3 a [] | BP2SH => mk 4 a []
    | BP2WPKH => mk 5 a [] | BP2WSH => mk 6 a [] | BWitnessProgram => mk 7 a [] | BP2TR => mk 8 a []
    | BUnspendable => mk 9 a [] | BNotRecognised => mk 10 a [] end
  else
    let '(p, a) := eval_custom script (version_id c) in
    match p with
    | POpReturn d => mk 0 a d | PMultiSig => mk 1 a [] | PP2PK => mk 2 a [] | PP2PKH => mk 3 a [] | PP2SH => mk 4 a []
    | PNotRecognised => mk 10 a [] | PError => mk 11 a [] end.

(* ---------- evaluated transactions and blocks (tx.rs:31-55, block.rs:22-40) ---------- *)
Record etx := { x_raw : rawtx; x_id : bytes; x_outs : list (txout * escript) }.
Record eblock := { y_blk : block; y_hash : bytes; y_txs : list etx }.
Definition eval_tx (c:coin) (t:rawtx) : etx :=
  {| x_raw := t; x_id := txid t; x_outs := map (fun o => (o, eval_script c (out_script o))) (tx_outputs t) |}.
Definition eval_block (c:coin) (b:block) : eblock :=
  {| y_blk := b; y_hash := block_hash b; y_txs := map (eval_tx c) (b_txs b) |}.

(* ---------- data directory: blk files as extents, optional xor key ---------- *)
Definition extent := (N * bytes)%type.
Record blkfile := { f_num : N; f_extents : list extent }.
Fixpoint find_extent (exts:list extent) (p:N) : option bytes :=   (* bytes from position p to the end of its extent *)
  match exts with [] => None | (o, d) :: r =>
    if (o <=? p) && (p <? o + N.of_nat (length d)) then Some (skipn (N.to_nat (p - o)) d) else find_extent r p end.
Definition kbyte (k:bytes) (pos:N) : N := nth (N.to_nat (pos mod N.of_nat (length k))) k 0.
Fixpoint unxor (k:bytes) (pos:N) (l:bytes) : bytes := match l with [] => [] | b :: r => N.lxor b (kbyte k pos) :: unxor k (pos + 1) r end.
Record datadir := { d_files : list blkfile; d_index : list (bytes * bytes); d_xor : option bytes }.

Inductive errkind := ENoFile | ERead | EMerkle | EGenesis | EPrev.
Inductive failure := FErr (k:errkind) | FPanic.

(* BlkFile::read_block (blkfile.rs:52): seek(offset - 4), size prefix, read_block. The plaintext at a position is what the
   XorReader/BufReader stack returns there (Reader.xor_reader_refines); an empty key makes `% 0` panic. *)
Definition fetch_block (c:coin) (d:datadir) (rec:irec) : block + failure :=
  match find (fun f => f_num f =? r_file rec) (d_files d) with
  | None => inr (FErr ENoFile)                      (* "Block file for block not found" *)
  | Some f =>
    if r_off rec <? 4 then inr FPanic else          (* offset - 4 underflows (debug profile) *)
    match find_extent (f_extents f) (r_off rec - 4) with
    | None => inr (FErr ERead)
    | Some raw =>
      match d_xor d with
      | Some [] => inr FPanic
      | _ =>
        let plain := match d_xor d with Some k => unxor k (r_off rec - 4) raw | None => raw end in
        match (size <- read_u32 ;; read_block c size) plain with
        | Ok (b, _) => inl b | Eof => inr (FErr ERead) | Panic | Overflow => inr FPanic end
      end
    end
  end.

(* ---------- --verify (chain.rs:53-87) ---------- *)
Definition H2 (a b:bytes) : bytes := sha256d (a ++ b).
Fixpoint beqb (a b:bytes) : bool := match a, b with [], [] => true | x :: a', y :: b' => (x =? y) && beqb a' b' | _, _ => false end.
Definition verify_block (c:coin) (idx:hmap) (b:eblock) (h:N) : option failure :=
  match Merkle.merkle_root H2 (map x_id (y_txs b)) with
  | Ok r => if negb (beqb r (h_merkle (b_header (y_blk b)))) then Some (FErr EMerkle) else
            if h =? 0 then (if beqb (y_hash b) (genesis c) then None else Some (FErr EGenesis))
            else match hm_get (h - 1) idx with
                 | Some p => if beqb (h_prev (b_header (y_blk b))) (r_hash p) then None else Some (FErr EPrev)
                 | None => Some FPanic end
  | _ => Some FPanic end.

(* ChainStorage::get_block (chain.rs:28-51) *)
Definition get_block (c:coin) (d:datadir) (verify:bool) (ci:chain_index) (h:N) : option (eblock + failure) :=
  match hm_get h (ci_idx ci) with
  | None => None
  | Some rec =>
    Some match fetch_block c d rec with
         | inl b => let eb := eval_block c b in
                    if verify then match verify_block c (ci_idx ci) eb h with None => inl eb | Some f => inr f end else inl eb
         | inr f => inr f end
  end.

(* ---------- csvdump (callbacks/csvdump.rs): the writes in program order, addressed to writer 0..3 ---------- *)
Definition block_row (b:eblock) (height:N) : bytes :=
  let h := b_header (y_blk b) in
  row [hash_str (y_hash b); dec height; dec (h_version h); dec (b_size (y_blk b)); hash_str (h_prev h); hash_str (h_merkle h);
       dec (h_time h); dec (h_bits h); dec (h_nonce h)].
Definition tx_row (bh:list N) (t:etx) : bytes := row [hash_str (x_id t); bh; dec (tx_version (x_raw t)); dec (tx_locktime (x_raw t))].
Definition in_row (tid:list N) (i:txin) : bytes :=
  row [tid; hash_str (op_txid (in_prev i)); dec (op_index (in_prev i)); hex (in_script i); dec (in_seq i)].
Definition out_row (tid:list N) (i:N) (oe:txout * escript) : bytes :=
  row [tid; dec i; dec (out_value (fst oe)); hex (out_script (fst oe)); match e_addr (snd oe) with Some s => s | None => [] end].
Fixpoint out_rows (tid:list N) (i:N) (outs:list (txout * escript)) : list bytes :=
  match outs with [] => [] | oe :: r => out_row tid (i mod 2^32) oe :: out_rows tid (i + 1) r end.
Definition csv_tx_writes (bh:list N) (t:etx) : list (nat * bytes) :=
  let tid := hash_str (x_id t) in
  (1%nat, tx_row bh t) :: map (fun i => (2%nat, in_row tid i)) (tx_inputs (x_raw t)) ++ map (fun r => (3%nat, r)) (out_rows tid 0 (x_outs t)).
Definition csv_block_writes (hb:N * eblock) : list (nat * bytes) :=
  let '(height, b) := hb in
  (0%nat, block_row b height) :: flat_map (csv_tx_writes (hash_str (y_hash b))) (y_txs b).
Definition csv_writes (delivered:list (N * eblock)) : list (nat * bytes) := flat_map csv_block_writes delivered.
Definition sumN {A} (f:A -> N) (l:list A) : N := fold_left (fun a x => a + f x) l 0.
Definition csv_totals (delivered:list (N * eblock)) : N * N * N :=
  (sumN (fun hb => vval (b_txcount (y_blk (snd hb)))) delivered,
   sumN (fun hb => sumN (fun t => vval (tx_incount (x_raw t))) (y_txs (snd hb))) delivered,
   sumN (fun hb => sumN (fun t => vval (tx_outcount (x_raw t))) (y_txs (snd hb))) delivered).

(* ---------- unspent / balances (callbacks/common.rs) as an event history over Utxo ---------- *)
Definition ukey (t:bytes) (i:N) : bytes := t ++ le_encode 4 (i mod 2^32).
Definition uval := (N * N * list N)%type.   (* height, value, address *)
Definition uevent := Utxo.event bytes uval.
Fixpoint create_events (tid:bytes) (h:N) (i:N) (outs:list (txout * escript)) : list uevent :=
  match outs with [] => [] | (o, e) :: r =>
    match e_addr e with
    | Some a => Utxo.Create _ _ (ukey tid i) (h, out_value o, a) :: create_events tid h (i + 1) r
    | None => create_events tid h (i + 1) r end end.
Definition tx_events (h:N) (t:etx) : list uevent :=
  map (fun i => Utxo.Spend _ _ (ukey (op_txid (in_prev i)) (op_index (in_prev i)))) (tx_inputs (x_raw t)) ++ create_events (x_id t) h 0 (x_outs t).
Definition utxo_events (delivered:list (N * eblock)) : list uevent :=
  flat_map (fun hb => flat_map (tx_events (fst hb)) (y_txs (snd hb))) delivered.
Definition utxo_final (delivered:list (N * eblock)) : list (bytes * uval) := Utxo.run bytes uval beqb (utxo_events delivered).
Definition unspent_row (e:bytes * uval) : bytes :=
  let '(k, (h, v, a)) := e in row [hash_str (firstn 32 k); dec (le_decode (skipn 32 k)); dec h; dec v; a].
Definition UNSPENT_HEADER : bytes := SrcGen.unspent_header ++ [NL].
Definition BALANCES_HEADER : bytes := SrcGen.balances_header ++ [NL].
Definition unspent_totals (delivered:list (N * eblock)) : N * N * N :=
  (sumN (fun hb => vval (b_txcount (y_blk (snd hb)))) delivered,
   sumN (fun hb => sumN (fun t => vval (tx_incount (x_raw t))) (y_txs (snd hb))) delivered,
   N.of_nat (length (filter (fun e => match e with Utxo.Create _ _ _ _ => true | _ => false end) (utxo_events delivered)))).
Definition balances_final (m:list (bytes * uval)) : list (list N * N) :=
  Utxo.balances (list N) beqb (map (fun e => let '(_, (_, v, a)) := e in (a, v)) m).
Definition balance_row (e:list N * N) : bytes := row [fst e; dec (snd e)].

(* ---------- opreturn (callbacks/opreturn.rs:34-49) ---------- *)
Definition opreturn_lines (delivered:list (N * eblock)) : list (N * bytes * bytes) :=
  flat_map (fun hb => flat_map (fun t => flat_map (fun oe =>
     if (e_tag (snd oe) =? 0) && negb (match e_text (snd oe) with [] => true | _ => false end)
     then [(fst hb, x_id t, e_text (snd oe))] else []) (x_outs t)) (y_txs (snd hb))) delivered.

(* ---------- simplestats: projection to what Stats reads ---------- *)
Definition is_coinbase (t:rawtx) : bool :=
  (vval (tx_incount t) =? 1) && match tx_inputs t with i :: _ => beqb (op_txid (in_prev i)) (repeat 0 32) && (op_index (in_prev i) =? 0xffffffff) | [] => false end.
Definition stx_of (t:etx) : Stats.stx :=
  {| Stats.t_id := x_id t; Stats.t_incount := vval (tx_incount (x_raw t)); Stats.t_outcount := vval (tx_outcount (x_raw t));
     Stats.t_coinbase := is_coinbase (x_raw t); Stats.t_outs := map (fun oe => (out_value (fst oe), e_tag (snd oe))) (x_outs t);
     Stats.t_size := N.of_nat (length (raw_tx (x_raw t))) |}.
Definition sblock_of (hb:N * eblock) : Stats.sblock :=
  {| Stats.k_height := fst hb; Stats.k_size := b_size (y_blk (snd hb)); Stats.k_time := h_time (b_header (y_blk (snd hb)));
     Stats.k_txcount := vval (b_txcount (y_blk (snd hb))); Stats.k_txs := map stx_of (y_txs (snd hb)) |}.
Definition stats_run (delivered:list (N * eblock)) : Stats.acc := Stats.run (map sblock_of delivered).

(* ---------- open blk files after each delivered height (chain.rs:48-51, blkfile.rs:35-50) ---------- *)
Definition file_of_height (ci:chain_index) (h:N) : N := match hm_get h (ci_idx ci) with Some r => r_file r | None => 0 end.
Definition maxh_of_file (ci:chain_index) (f:N) : N := match maxh_by_file (ci_full ci) f with Some m => m | None => 0 end.
Fixpoint open_trace (ci:chain_index) (o:Drive.openset) (hs:list N) : list (N * Drive.openset) :=
  match hs with [] => [] | h :: r => let o' := Drive.visit (file_of_height ci) (maxh_of_file ci) o h in (h, o') :: open_trace ci o' r end.

(* ---------- whole run ---------- *)
Record opts := { o_range : range; o_verify : bool }.
Record result := { r_delivered : list (N * eblock); r_cur : N; r_fail : option (N * failure); r_ci : chain_index }.
Inductive outcome := Run (r:result) | StartupPanic | StartupError.
(* main.rs:42-47 BlockHeightRange::new: "--start value must be lower than --end value" *)
Definition range_ok (r:range) : bool := match o_end r with Some e => o_start r <? e | None => true end.
Definition run_case (c:coin) (d:datadir) (o:opts) : outcome :=
  if negb (range_ok (o_range o)) then StartupError else
  match d_files d with [] => StartupError | _ =>      (* "No blk files found!" *)
  match new_index (d_index d) (o_range o) with
  | Ok ci =>
    let '(del, cur, fail) := Drive.drive eblock failure (get_block c d (o_verify o) ci) (S (length (ci_idx ci))) true (ci_max ci) (o_start (o_range o)) [] in
    Run {| r_delivered := del; r_cur := cur; r_fail := fail; r_ci := ci |}
  | Eof => StartupError
  | _ => StartupPanic end end.
Definition last_height (r:result) : N := r_cur r - 1.           (* cur_height.saturating_sub(1) *)

(* ---------- output protocol: the three file-producing callbacks under a file size limit L (RLIMIT_FSIZE) ---------- *)
Definition WCAP : N := fst (fst Published.writer_caps).
Definition mk_writers (names:list (N * N)) : list OutProto.wr :=
  map (fun tf => {| OutProto.w_bw := {| OutProto.tmp := fst tf; OutProto.disk := 0; OutProto.buf := [] |};
                    OutProto.w_final := snd tf; OutProto.w_logical := [] |}) names.
(* file names are abstract numbers: tmp i = 2i, final i = 2i+1 *)
Definition writers (k:nat) : list OutProto.wr := mk_writers (map (fun i => (2 * N.of_nat i, 2 * N.of_nat i + 1)) (seq 0 k)).
Definition unspent_writes (r:result) : list (nat * bytes) :=
  (0%nat, UNSPENT_HEADER) :: map (fun e => (0%nat, unspent_row e)) (utxo_final (r_delivered r)).
Definition balances_writes (r:result) : list (nat * bytes) :=
  (0%nat, BALANCES_HEADER) :: map (fun e => (0%nat, balance_row e)) (balances_final (utxo_final (r_delivered r))).
Definition out_run (k:nat) (L:N) (writes:list (nat * bytes)) : OutProto.fs * OutProto.exitcode :=
  let '(trace, code) := OutProto.run (N.to_nat WCAP) L (writers k) writes in (OutProto.apply_trace [] trace, code).

(* ---------- file names (csvdump.rs / unspentcsvdump.rs / balances.rs: "<stem>.csv.tmp" while writing, "<stem>-<start>-<last height>.csv" once complete) ---------- *)
Definition tmp_name (stem:bytes) : bytes := stem ++ [46; 99; 115; 118; 46; 116; 109; 112].                        (* ".csv.tmp" *)
Definition final_name (stem:bytes) (s e:N) : bytes := stem ++ [45] ++ dec s ++ [45] ++ dec e ++ [46; 99; 115; 118].    (* "-s-e.csv" *)
Definition result_names (stems:list bytes) (o:opts) (r:result) : list bytes :=
  map (fun st => final_name st (o_start (o_range o)) (last_height r)) stems.
