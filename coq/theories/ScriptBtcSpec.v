(* Proofs for C05: for every script of a standard shape the mirrored evaluator returns the reference type and address, and the
   address decodes (checksum verified) to exactly the network prefix and the hash / witness program embedded in the script. *)
From RBP Require Import Bytes Hashes Codec Base58 Utf8 Bech32 Segwit ScriptBtc ScriptBtcP.

Lemma firstn_skipn_mid {A} (a b c:list A) : firstn (length b) (skipn (length a) (a ++ b ++ c)) = b.
Proof. rewrite skipn_app, Nat.sub_diag, skipn_all. cbn [app skipn]. rewrite firstn_app, Nat.sub_diag, firstn_O, app_nil_r. apply firstn_all. Qed.

(* ---------- P2PKH ---------- *)
Theorem p2pkh_verdict n h : length h = 20%nat ->
  eval_btc n ([0x76; 0xa9; 0x14] ++ h ++ [0x88; 0xac]) = (BP2PKH, Some (hash160_to_address (pkh_ver n) h)).
Proof.
  intro Hh. set (l := [0x76; 0xa9; 0x14] ++ h ++ [0x88; 0xac]).
  assert (Hp : is_p2pkh l = true) by (apply is_p2pkh_shape; exists h; split; [exact Hh|reflexivity]).
  destruct (templates_exclusive l) as (E1 & _ & _). destruct (E1 Hp) as (Hsh & Hpk & Hw).
  unfold eval_btc. change l with (0x76 :: 0xa9 :: 0x14 :: h ++ [0x88; 0xac]) at 1. cbv iota beta.
  replace (return_or_illegal 118) with false by reflexivity. fold l. rewrite Hpk, Hp.
  unfold address_from_script. rewrite Hp. do 3 f_equal.
  change 20%nat with (length h) || idtac. rewrite <- Hh. apply (firstn_skipn_mid [0x76; 0xa9; 0x14] h [0x88; 0xac]).
Qed.
(* ---------- P2SH ---------- *)
Theorem p2sh_verdict n h : length h = 20%nat ->
  eval_btc n ([0xa9; 0x14] ++ h ++ [0x87]) = (BP2SH, Some (hash160_to_address (sh_ver n) h)).
Proof.
  intro Hh. set (l := [0xa9; 0x14] ++ h ++ [0x87]).
  assert (Hp : is_p2sh l = true) by (apply is_p2sh_shape; exists h; split; [exact Hh|reflexivity]).
  destruct (templates_exclusive l) as (_ & E2 & _). destruct (E2 Hp) as (Hpk & Hw).
  assert (Hkh : is_p2pkh l = false).
  { destruct (is_p2pkh l) eqn:E; [|reflexivity]. exfalso. destruct (templates_exclusive l) as (X & _ & _). rewrite E in X. destruct (X eq_refl) as (Y & _). congruence. }
  unfold eval_btc. change l with (0xa9 :: 0x14 :: h ++ [0x87]) at 1. cbv iota beta.
  replace (return_or_illegal 169) with false by reflexivity. fold l. rewrite Hpk, Hkh, Hp.
  unfold address_from_script. rewrite Hkh, Hp. do 3 f_equal. rewrite <- Hh. apply (firstn_skipn_mid [0xa9; 0x14] h [0x87]).
Qed.
(* ---------- P2PK: the address is the P2PKH form of HASH160(key) ---------- *)
Theorem p2pk_verdict n k : (length k = 33%nat \/ length k = 65%nat) ->
  eval_btc n ([N.of_nat (length k)] ++ k ++ [0xac]) = (BP2PK, Some (hash160_to_address (pkh_ver n) (hash160 k))).
Proof.
  intro Hk. set (l := [N.of_nat (length k)] ++ k ++ [0xac]).
  assert (Hp : p2pk_key l = Some k) by (apply p2pk_shape; split; [exact Hk|reflexivity]).
  unfold eval_btc. change l with (N.of_nat (length k) :: k ++ [0xac]) at 1. cbv iota beta.
  assert (Hf : return_or_illegal (N.of_nat (length k)) = false) by (destruct Hk as [-> | ->]; reflexivity).
  assert (Hne : forall A (x y:A), match N.of_nat (length k) with 0x6a => x | _ => y end = y) by (intros; destruct Hk as [-> | ->]; reflexivity).
  rewrite Hne, Hf. fold l. rewrite Hp. reflexivity.
Qed.

(* ---------- addresses decode to prefix || hash, checksum verified ---------- *)
Theorem p2pkh_address_decodes n h : pkh_ver n < 256 -> wfb h = true -> length h = 20%nat ->
  exists a, eval_btc n ([0x76; 0xa9; 0x14] ++ h ++ [0x88; 0xac]) = (BP2PKH, Some a) /\ b58check_decode a = Some (pkh_ver n :: h).
Proof. intros Hv Hw Hh. eexists. split; [apply p2pkh_verdict; exact Hh|apply address_decodes; assumption]. Qed.
Theorem p2sh_address_decodes n h : sh_ver n < 256 -> wfb h = true -> length h = 20%nat ->
  exists a, eval_btc n ([0xa9; 0x14] ++ h ++ [0x87]) = (BP2SH, Some a) /\ b58check_decode a = Some (sh_ver n :: h).
Proof. intros Hv Hw Hh. eexists. split; [apply p2sh_verdict; exact Hh|apply address_decodes; assumption]. Qed.
Theorem p2pk_address_decodes n k : pkh_ver n < 256 -> (length k = 33%nat \/ length k = 65%nat) ->
  exists a, eval_btc n ([N.of_nat (length k)] ++ k ++ [0xac]) = (BP2PK, Some a) /\ b58check_decode a = Some (pkh_ver n :: hash160 k).
Proof. intros Hv Hk. eexists. split; [apply p2pk_verdict; exact Hk|apply address_decodes; [exact Hv|apply hash160_wfb]]. Qed.
(* the two networks' prefixes *)
Theorem network_prefixes : (pkh_ver mainnet, sh_ver mainnet, hrp mainnet) = (0x00, 0x05, [98; 99]) /\ (pkh_ver testnet, sh_ver testnet, hrp testnet) = (0x6f, 0xc4, [116; 98]).
Proof. split; reflexivity. Qed.

(* ---------- witness programs ---------- *)
Definition wit_opcode (v:N) : N := if v =? 0 then 0 else 0x50 + v.
Lemma witness_version_of v prog : v <= 16 -> (2 <= length prog <= 40)%nat ->
  witness_version ([wit_opcode v; N.of_nat (length prog)] ++ prog) = Some v.
Proof.
  intros Hv Hl. unfold witness_version, len, nthb. cbn [app length nth].
  replace ((4 <=? S (S (length prog))) && (S (S (length prog)) <=? 42))%nat with true by (symmetry; apply andb_true_iff; split; apply Nat.leb_le; lia).
  replace ((N.of_nat (length prog) <? 2) || (40 <? N.of_nat (length prog))) with false by lia.
  replace (S (S (length prog)) - 2)%nat with (length prog) by lia. rewrite N.eqb_refl. cbn [negb].
  unfold wit_opcode. destruct (N.eqb_spec v 0) as [->|Hne]; [reflexivity|].
  replace (0x50 + v =? 0) with false by lia. unfold pushnum. replace ((81 <=? 80 + v) && (80 + v <=? 96)) with true by lia. f_equal. lia.
Qed.
Definition wit_type (v:N) (n:nat) : bpattern :=
  if (v =? 0) && (n =? 20)%nat then BP2WPKH else if (v =? 0) && (n =? 32)%nat then BP2WSH else if (v =? 1) && (n =? 32)%nat then BP2TR else BWitnessProgram.
Definition wit_has_address (v:N) (n:nat) : bool := negb ((v =? 0) && negb ((n =? 20) || (n =? 32))%nat).
Theorem witness_verdict net v prog : v <= 16 -> (2 <= length prog <= 40)%nat ->
  eval_btc net ([wit_opcode v; N.of_nat (length prog)] ++ prog) =
  (wit_type v (length prog), if wit_has_address v (length prog) then Some (segwit_addr (hrp net) v prog) else None).
Proof.
  intros Hv Hl. set (l := [wit_opcode v; N.of_nat (length prog)] ++ prog).
  pose proof (witness_version_of v prog Hv Hl) as Hw. fold l in Hw.
  assert (Hpk : p2pk_key l = None).
  { destruct (p2pk_key l) eqn:E; [|reflexivity]. exfalso. destruct (templates_exclusive l) as (_ & _ & E3). rewrite E in E3. rewrite E3 in Hw; [discriminate|discriminate]. }
  assert (Hkh : is_p2pkh l = false).
  { destruct (is_p2pkh l) eqn:E; [|reflexivity]. exfalso. destruct (templates_exclusive l) as (X & _ & _). rewrite E in X. destruct (X eq_refl) as (_ & _ & Y). congruence. }
  assert (Hsh : is_p2sh l = false).
  { destruct (is_p2sh l) eqn:E; [|reflexivity]. exfalso. destruct (templates_exclusive l) as (_ & X & _). rewrite E in X. destruct (X eq_refl) as (_ & Y). congruence. }
  assert (Hlen : len l = S (S (length prog))) by reflexivity.
  assert (Hn1 : nthb l 1 = N.of_nat (length prog)) by reflexivity.
  assert (Hskip : skipn 2 l = prog) by reflexivity.
  assert (Hfirst : return_or_illegal (wit_opcode v) = false).
  { unfold wit_opcode. destruct (N.eqb_spec v 0) as [->|]; [reflexivity|].
    assert (In v [1;2;3;4;5;6;7;8;9;10;11;12;13;14;15;16]) as Hin by (cbn; lia). cbn in Hin. repeat (destruct Hin as [<-|Hin]; [reflexivity|]). contradiction. }
  assert (Hne : forall A (x y:A), match wit_opcode v with 0x6a => x | _ => y end = y).
  { intros. unfold wit_opcode. destruct (N.eqb_spec v 0) as [->|]; [reflexivity|].
    assert (In v [1;2;3;4;5;6;7;8;9;10;11;12;13;14;15;16]) as Hin by (cbn; lia). cbn in Hin. repeat (destruct Hin as [<-|Hin]; [reflexivity|]). contradiction. }
  unfold eval_btc. change l with (wit_opcode v :: N.of_nat (length prog) :: prog) at 1. cbv iota beta. rewrite Hne, Hfirst. fold l. rewrite Hpk, Hkh, Hsh.
  unfold address_from_script. rewrite Hkh, Hsh, Hw, Hskip.
  unfold is_p2wpkh, is_p2wsh, is_p2tr. rewrite Hw, Hlen, Hn1. unfold wit_type, wit_has_address, len.
  destruct (N.eqb_spec v 0) as [->|Hv0]; cbn [andb orb negb].
  - destruct (Nat.eqb_spec (length prog) 20) as [E20|N20].
    + rewrite E20. reflexivity.
    + destruct (Nat.eqb_spec (length prog) 32) as [E32|N32].
      * rewrite E32. reflexivity.
      * replace (S (S (length prog)) =? 22)%nat with false by (symmetry; apply Nat.eqb_neq; lia).
        replace (S (S (length prog)) =? 34)%nat with false by (symmetry; apply Nat.eqb_neq; lia). cbn [andb]. reflexivity.
  - destruct v as [|p]; [congruence|]. destruct p as [p|p|]; cbn [N.eqb Pos.eqb andb]; try (destruct (S (S (length prog)) =? 22)%nat; destruct (S (S (length prog)) =? 34)%nat; reflexivity).
    (* v = 1 *)
    destruct (Nat.eqb_spec (length prog) 32) as [E32|N32].
    + rewrite E32. reflexivity.
    + replace (S (S (length prog)) =? 34)%nat with false by (symmetry; apply Nat.eqb_neq; lia).
      destruct (S (S (length prog)) =? 22)%nat; reflexivity.
Qed.
Theorem witness_address_decodes net v prog : v <= 16 -> (2 <= length prog <= 40)%nat -> wfb prog = true -> wit_has_address v (length prog) = true ->
  exists a, snd (eval_btc net ([wit_opcode v; N.of_nat (length prog)] ++ prog)) = Some a /\ segwit_decode (hrp net) a = Some (v, prog).
Proof.
  intros Hv Hl Hw Ha. rewrite (witness_verdict net v prog Hv Hl), Ha. eexists. split; [reflexivity|]. apply segwit_roundtrip; [lia|exact Hw].
Qed.

(* ---------- provably unspendable: first opcode in the return/illegal class (exhaustive table below), other than OP_RETURN ---------- *)
Theorem unspendable_verdict n c r : c <> 0x6a -> return_or_illegal c = true -> eval_btc n (c :: r) = (BUnspendable, None).
Proof.
  intros Hne H. unfold eval_btc.
  assert (E : forall A (x y:A), match c with 0x6a => x | _ => y end = y).
  { intros A x y. destruct c as [|p]; [reflexivity|]. repeat (destruct p as [p|p|]; try reflexivity). exfalso; apply Hne; reflexivity. }
  rewrite E, H. reflexivity.
Qed.
(* the opcode class table, swept over all 256 byte values: the 91 first opcodes that make a script unspendable (incl. OP_RETURN itself) *)
Definition unspendable_first_bytes : list N :=
  [0x50; 0x62; 0x65; 0x66; 0x6a; 0x7e; 0x7f; 0x80; 0x81; 0x83; 0x84; 0x85; 0x86; 0x89; 0x8a; 0x8d; 0x8e; 0x95; 0x96; 0x97; 0x98; 0x99] ++ map (fun i => 0xba + N.of_nat i) (seq 0 70).
Theorem opcode_table_sweep : forallb (fun c => Bool.eqb (return_or_illegal c) (existsb (N.eqb c) unspendable_first_bytes)) (map N.of_nat (seq 0 256)) = true.
Proof. vm_compute. reflexivity. Qed.
(* an empty script is not recognised *)
Theorem empty_script_verdict n : eval_btc n [] = (BNotRecognised, None).
Proof. reflexivity. Qed.

(* ---------- "otherwise unrecognised with no address": only the seven address-bearing types ever carry an address ---------- *)
Theorem address_only_for_address_types n l a : snd (eval_btc n l) = Some a ->
  In (fst (eval_btc n l)) [BP2PK; BP2PKH; BP2SH; BP2WPKH; BP2WSH; BP2TR; BWitnessProgram].
Proof.
  unfold eval_btc. destruct l as [|c r]; [discriminate|].
  destruct (N.eq_dec c 0x6a) as [->|Hne]; [discriminate|].
  assert (E : forall A (x y:A), match c with 0x6a => x | _ => y end = y).
  { intros A x y. destruct c as [|p]; [reflexivity|]. repeat (destruct p as [p|p|]; try reflexivity). exfalso; apply Hne; reflexivity. }
  rewrite !E. destruct (return_or_illegal c); [discriminate|].
  destruct (p2pk_key (c :: r)); [intros _; cbn; tauto|].
  destruct (is_p2pkh (c :: r)) eqn:Ekh; [intros _; cbn; tauto|].
  destruct (is_p2sh (c :: r)) eqn:Esh; [intros _; cbn; tauto|].
  destruct (is_p2wpkh (c :: r)); [intros _; cbn; tauto|].
  destruct (is_p2wsh (c :: r)); [intros _; cbn; tauto|].
  destruct (is_p2tr (c :: r)); [intros _; cbn; tauto|].
  destruct (witness_version (c :: r)) eqn:Ew; [intros _; cbn; tauto|].
  unfold address_from_script. rewrite Ekh, Esh, Ew. destruct (is_multisig (c :: r)); discriminate.
Qed.
Corollary not_recognised_has_no_address n l : fst (eval_btc n l) = BNotRecognised -> snd (eval_btc n l) = None.
Proof.
  intro H. destruct (snd (eval_btc n l)) as [a|] eqn:E; [|reflexivity]. pose proof (address_only_for_address_types n l a E) as Hin. rewrite H in Hin. cbn in Hin.
  repeat (destruct Hin as [Hin|Hin]; [discriminate|]). contradiction.
Qed.
