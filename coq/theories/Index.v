(* Model: block index (index.rs) — Bitcoin Core VarInt, record decode (with the conditional nFile/nDataPos of the F7 repair),
   key-ordered load with the 'b' filter and the status filter, height-keyed last-wins insert, max height per blk file,
   max_height clamp and trimming; blkfile.rs:126 parse_blk_index *)
From RBP Require Import Bytes.
From RBP Require Published.

Definition MAX64 : N := 18446744073709551615.
(* index.rs:160 read_varint; both `panic!("size too large")` branches are explicit *)
Fixpoint read_varint_loop (n:N) (l:bytes) : res (N * bytes) :=
  match l with
  | [] => Eof
  | ch :: r =>
    if 18446744073709551615 / 128 <? n then Panic else
    let n1 := n * 128 + ch mod 128 in
    if 128 <=? ch then (if n1 =? 18446744073709551615 then Panic else read_varint_loop (n1 + 1) r) else Ok (n1, r)
  end.
Definition read_varint : reader N := read_varint_loop 0.

Record irec := { r_hash : bytes; r_height : N; r_status : N; r_file : N; r_off : N }.
Definition has (status mask:N) : bool := 0 <? N.land status mask.
(* BlockIndexRecord::from (index.rs:96) *)
Definition decode_record (key value:bytes) : res irec :=
  if negb (length key =? 32)%nat then Panic else   (* try_into().expect("leveldb: malformed blockhash") *)
  match (_ <- read_varint ;; h <- read_varint ;; s <- read_varint ;; _ <- read_varint ;;
         f <- (if has s Published.file_mask then read_varint else ret 0) ;;
         o <- (if has s Published.pos_mask then read_varint else ret 0) ;;
         ret {| r_hash := key; r_height := h; r_status := s; r_file := f; r_off := o |}) value with
  | Ok (r, _) => Ok r | Eof => Eof | Panic => Panic | Overflow => Overflow end.
Definition admitted (r:irec) : bool := has (r_status r) Published.status_mask.

(* bytewise lexicographic order of LevelDB keys *)
Fixpoint key_leb (a b:bytes) : bool :=
  match a, b with [], _ => true | _ :: _, [] => false | x :: a', y :: b' => if x <? y then true else if y <? x then false else key_leb a' b' end.
Fixpoint insert_sorted (kv:bytes * bytes) (l:list (bytes * bytes)) :=
  match l with [] => [kv] | h :: t => if key_leb (fst kv) (fst h) then kv :: l else h :: insert_sorted kv t end.
Definition sort_kv (l:list (bytes * bytes)) := fold_right insert_sorted [] l.

Definition hmap := list (N * irec).
Fixpoint hm_get (h:N) (m:hmap) : option irec := match m with [] => None | (k, v) :: r => if k =? h then Some v else hm_get h r end.
Definition hm_put (h:N) (v:irec) (m:hmap) : hmap := (h, v) :: filter (fun e => negb (fst e =? h)) m.
(* get_block_index (index.rs:133) *)
Fixpoint load_index (kvs:list (bytes * bytes)) (m:hmap) : res hmap :=
  match kvs with
  | [] => Ok m
  | (k, v) :: r =>
    match k with
    | [] => Panic                                   (* data.first().unwrap() *)
    | 98 :: key =>                                  (* b'b' *)
      match decode_record key v with
      | Ok rec => if admitted rec then load_index r (hm_put (r_height rec) rec m) else load_index r m
      | Eof => Eof | Panic => Panic | Overflow => Overflow end
    | _ => load_index r m
    end
  end.
Fixpoint hm_max (m:hmap) : N := match m with [] => 0 | (k, _) :: r => N.max k (hm_max r) end.

(* max_height_blk_index (index.rs:28-40): highest height stored per blk file, over the untrimmed index *)
Definition maxh_by_file (m:hmap) (f:N) : option N :=
  fold_left (fun acc e => if r_file (snd e) =? f then Some (match acc with Some a => N.max a (fst e) | None => fst e end) else acc) m None.

Record range := { o_start : N; o_end : option N }.
Definition is_default (o:range) : bool := (o_start o =? 0) && match o_end o with None => true | _ => false end.
Record chain_index := { ci_max : N; ci_idx : hmap; ci_full : hmap }.
(* ChainIndex::new (index.rs:26-66); an empty index makes `keys().max().unwrap()` panic *)
Definition new_index (kvs:list (bytes * bytes)) (o:range) : res chain_index :=
  match load_index (sort_kv kvs) [] with
  | Ok idx =>
    match idx with [] => Panic | _ =>
    let maxk := hm_max idx in
    let maxh := match o_end o with Some e => if e <? maxk then e else maxk | None => maxk end in
    let idx' := if is_default o then idx else filter (fun e => (o_start o - 1 <=? fst e) && (fst e <=? maxh)) idx in
    Ok {| ci_max := maxh; ci_idx := idx'; ci_full := idx |} end
  | Eof => Eof | Panic => Panic | Overflow => Overflow end.

(* ---- blk file names: blkfile.rs:126 parse_blk_index with prefix "blk", suffix ".dat"; u64::from_str accepts one leading '+' ---- *)
Fixpoint starts_with (p l:list N) : option (list N) :=
  match p, l with [] , _ => Some l | x :: p', y :: l' => if x =? y then starts_with p' l' else None | _ :: _, [] => None end.
Fixpoint parse_digits (l:list N) (acc:N) : option N :=
  match l with [] => Some acc | c :: r => if (48 <=? c) && (c <=? 57) then
      let acc' := acc * 10 + (c - 48) in if MAX64 <? acc' then None else parse_digits r acc' else None end.
Definition parse_u64 (l:list N) : option N :=
  match l with [] => None | 43 :: [] => None | 43 :: r => parse_digits r 0 | _ => parse_digits l 0 end.
Definition parse_blk_index (name:list N) : option N :=
  match starts_with Published.blk_prefix name with
  | Some rest =>
    match starts_with (rev Published.blk_ext) (rev name) with
    | Some _ => parse_u64 (firstn (length rest - length Published.blk_ext) rest)
    | None => None end
  | None => None end.
