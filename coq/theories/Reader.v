(* Prototype: mirror of seek_bufread::BufReader + XorReader (reader.rs:186-220) and its refinement proof *)
From Coq Require Import List NArith Lia ZArith ZifyN ZifyNat ZifyBool Bool Arith.
Import ListNotations.
Open Scope N_scope.
Ltac Zify.zify_post_hook ::= Z.div_mod_to_equations.

(* ---------- abstract file ---------- *)
Record file := { fsize : N; fat : N -> N }.
Definition range (F:file) (p:N) (k:nat) : list N := map (fun i => fat F (p + N.of_nat i)) (seq 0 k).

Arguments range : simpl never.

Lemma range_length F p k : length (range F p k) = k.
Proof. unfold range. now rewrite map_length, seq_length. Qed.

Lemma range_0 F p : range F p 0 = []. Proof. reflexivity. Qed.

Lemma seq_shift_k : forall k a b, seq (a + k) b = map (fun i => (i + k)%nat) (seq a b).
Proof.
  intros k a b. revert a. induction b as [|b IH]; intro a; simpl; [reflexivity|].
  f_equal. rewrite <- IH. reflexivity.
Qed.

Lemma range_app F p a b : range F p (a + b) = range F p a ++ range F (p + N.of_nat a) b.
Proof.
  unfold range. rewrite seq_app, map_app. f_equal.
  change (0 + a)%nat with (0 + a)%nat. rewrite (seq_shift_k a 0 b), map_map.
  apply map_ext. intro i. f_equal. lia.
Qed.

Lemma range_S F p n : range F p (S n) = fat F p :: range F (p + 1) n.
Proof.
  replace (S n) with (1 + n)%nat by lia. rewrite range_app.
  unfold range at 1. cbn [seq map app]. replace (p + N.of_nat 0) with p by lia.
  replace (p + N.of_nat 1) with (p + 1) by lia. reflexivity.
Qed.

Lemma skipn_skipn' {A} : forall (a b:nat) (l:list A), skipn a (skipn b l) = skipn (b + a) l.
Proof. intros a b; revert a; induction b as [|b IH]; intros a l; [reflexivity|]. destruct l; [now rewrite !skipn_nil|]. cbn. apply IH. Qed.

Lemma skipn_range F p k n : (n <= k)%nat -> skipn n (range F p k) = range F (p + N.of_nat n) (k - n).
Proof.
  intro H. replace k with (n + (k - n))%nat at 1 by lia.
  rewrite range_app, skipn_app, range_length, Nat.sub_diag.
  rewrite skipn_all2 by (rewrite range_length; lia). reflexivity.
Qed.

Lemma firstn_range F p k n : (n <= k)%nat -> firstn n (range F p k) = range F p n.
Proof.
  intro H. replace k with (n + (k - n))%nat at 1 by lia.
  rewrite range_app, firstn_app, range_length, Nat.sub_diag.
  rewrite firstn_all2 by (rewrite range_length; lia). simpl. now rewrite app_nil_r.
Qed.

(* ---------- OS file handle: read may be short (oracle), returns [] only at EOF or want = 0 ---------- *)
Definition os_read (F:file) (fpos:N) (want:nat) (short:nat) : list N :=
  range F fpos (N.to_nat (N.min (N.of_nat want) (N.min (fsize F - fpos) (N.of_nat (S short))))).

(* ---------- seek_bufread::BufReader ---------- *)
Record bufr := { ipos : N; buf : list N; buf_pos : nat; cap : nat; babs : N }.
Section WithFile.
Variable F : file.
Variable BUFSZ : nat.
Hypothesis BUFSZ_pos : (0 < BUFSZ)%nat.

Definition available (b:bufr) : nat := (cap b - buf_pos b)%nat.
Definition sync_and_flush (b:bufr) (p:N) : bufr :=
  {| ipos := p; buf := buf b; buf_pos := cap b; cap := cap b; babs := p |}.
Definition consume (b:bufr) (n:nat) : bufr :=
  {| ipos := ipos b; buf := buf b; buf_pos := (buf_pos b + n)%nat; cap := cap b; babs := babs b + N.of_nat n |}.
Definition seek_forward (b:bufr) (n:N) : bufr :=
  if N.of_nat (available b) <? n then sync_and_flush b (babs b + n) else consume b (N.to_nat n).
Definition seek_start (b:bufr) (p:N) : bufr :=
  if p <? babs b then sync_and_flush b p else seek_forward b (p - babs b).
Definition fill_buf (b:bufr) (short:nat) : bufr :=
  if Nat.eqb (cap b) (buf_pos b) then
    let got := os_read F (ipos b) BUFSZ short in
    {| ipos := ipos b + N.of_nat (length got); buf := got; buf_pos := 0; cap := length got; babs := babs b |}
  else b.
Definition window (b:bufr) : list N := skipn (buf_pos b) (firstn (cap b) (buf b)).

Fixpoint bread (fuel:nat) (b:bufr) (want:nat) (shorts:list nat) (acc:list N) : list N * bufr :=
  match fuel with
  | O => (acc, b)
  | S f =>
    if Nat.eqb want 0 then (acc, b) else
    let b1 := fill_buf b (hd 0%nat shorts) in
    let chunk := firstn want (window b1) in
    match chunk with
    | [] => (acc, b1)
    | _ => bread f (consume b1 (length chunk)) (want - length chunk) (tl shorts) (acc ++ chunk)
    end
  end.

(* invariant *)
Definition binv (b:bufr) : Prop :=
  (buf_pos b <= cap b)%nat /\ (cap b <= length (buf b))%nat /\
  window b = range F (babs b) (available b) /\
  ipos b = babs b + N.of_nat (available b) /\
  ((0 < available b)%nat -> babs b + N.of_nat (available b) <= fsize F).

Lemma binv_sync b p : binv b -> binv (sync_and_flush b p).
Proof.
  intros (H1 & H2 & H3 & H4 & H5). unfold binv, sync_and_flush, window, available; cbn.
  rewrite Nat.sub_diag. repeat split; try lia.
  rewrite skipn_all2; [reflexivity|]. rewrite firstn_length. lia.
Qed.

Lemma binv_consume b n : binv b -> (n <= available b)%nat -> binv (consume b n).
Proof.
  intros (H1 & H2 & H3 & H4 & H5) Hn. unfold binv, consume, window, available in *; cbn in *.
  repeat split; try lia.
  rewrite <- skipn_skipn', H3, skipn_range by lia. f_equal; lia.
Qed.

Lemma binv_seek_start b p : binv b -> binv (seek_start b p) /\ babs (seek_start b p) = p.
Proof.
  intro H. unfold seek_start. destruct (p <? babs b) eqn:E.
  - split; [now apply binv_sync|reflexivity].
  - unfold seek_forward. destruct (N.of_nat (available b) <? p - babs b) eqn:E2.
    + split; [now apply binv_sync|]. cbn. lia.
    + split; [apply binv_consume; [assumption|lia]|]. cbn. lia.
Qed.

Lemma binv_fill b s : binv b -> binv (fill_buf b s) /\ babs (fill_buf b s) = babs b /\
  (available (fill_buf b s) = 0%nat -> fsize F <= babs b).
Proof.
  intros (H1 & H2 & H3 & H4 & H5). unfold fill_buf. destruct (Nat.eqb (cap b) (buf_pos b)) eqn:E.
  - apply Nat.eqb_eq in E. unfold available in H4. rewrite E, Nat.sub_diag in H4.
    unfold binv, window, available; cbn. unfold os_read. rewrite !range_length.
    set (k := N.to_nat _).
    assert (Hk : k = N.to_nat (N.min (N.of_nat BUFSZ) (N.min (fsize F - ipos b) (N.of_nat (S s))))) by reflexivity.
    clearbody k.
    repeat split; try lia.
    rewrite firstn_all2 by (rewrite range_length; lia). cbn. rewrite Nat.sub_0_r. f_equal. lia.
  - apply Nat.eqb_neq in E. repeat split; try assumption. unfold available. lia.
Qed.

Lemma range_first_chunk want avail p :
  firstn want (range F p avail) = range F p (Nat.min want avail).
Proof.
  destruct (Nat.le_ge_cases want avail).
  - rewrite firstn_range by lia. f_equal. lia.
  - rewrite firstn_all2 by (rewrite range_length; lia). f_equal. lia.
Qed.

(* BufReader::read returns exactly the next min(want, remaining) bytes, whatever the short-read oracle says *)
Lemma bread_spec : forall fuel b want shorts acc,
  binv b -> (want < fuel)%nat ->
  exists b', bread fuel b want shorts acc =
     (acc ++ range F (babs b) (N.to_nat (N.min (N.of_nat want) (fsize F - babs b))), b')
   /\ binv b' /\ babs b' = babs b + N.min (N.of_nat want) (fsize F - babs b).
Proof.
  induction fuel as [|f IH]; intros b want shorts acc Hb Hf; [lia|].
  cbn [bread]. destruct (Nat.eqb want 0) eqn:E0.
  - apply Nat.eqb_eq in E0. subst want. exists b. cbn [N.of_nat]. rewrite N.min_0_l.
    change (N.to_nat 0) with 0%nat. rewrite range_0, app_nil_r.
    split; [reflexivity|split; [assumption|lia]].
  - apply Nat.eqb_neq in E0.
    destruct (binv_fill b (hd 0%nat shorts) Hb) as (Hb1 & Ha1 & Heof).
    set (b1 := fill_buf b (hd 0%nat shorts)) in *.
    pose proof Hb1 as (I1 & I2 & I3 & I4 & I5).
    rewrite I3, range_first_chunk.
    remember (Nat.min want (available b1)) as n eqn:Hn0.
    destruct (range F (babs b1) n) as [|c cs] eqn:Ech.
    + (* nothing available: EOF *)
      assert (n = 0%nat) as Hz by (apply (f_equal (@length N)) in Ech; rewrite range_length in Ech; exact Ech).
      assert (available b1 = 0%nat) as Hz' by lia.
      specialize (Heof Hz'). exists b1.
      replace (N.min (N.of_nat want) (fsize F - babs b)) with 0 by lia.
      change (N.to_nat 0) with 0%nat. rewrite range_0, app_nil_r.
      split; [reflexivity|split; [assumption|lia]].
    + assert (Hnpos : (0 < n)%nat).
      { destruct n as [|n']; [|lia]. rewrite range_0 in Ech. discriminate Ech. }
      rewrite <- Ech. clear Ech c cs. rewrite range_length.
      assert (Hn : (n <= available b1)%nat) by lia.
      destruct (IH (consume b1 n) (want - n)%nat (tl shorts) (acc ++ range F (babs b1) n)
                   (binv_consume b1 n Hb1 Hn) ltac:(lia)) as (b' & Hrun & Hb' & Habs').
      exists b'. rewrite Hrun. cbn [babs consume] in *.
      assert (Hin : N.of_nat n <= fsize F - babs b1) by lia.
      rewrite Ha1 in *.
      split; [|split; [assumption|lia]].
      f_equal. rewrite <- app_assoc. f_equal.
        replace (N.to_nat (N.min (N.of_nat want) (fsize F - babs b)))
          with (n + N.to_nat (N.min (N.of_nat (want - n)) (fsize F - (babs b + N.of_nat n))))%nat by lia.
        apply eq_sym, range_app.
Qed.

(* ---------- XorReader (reader.rs:186-220) ---------- *)
Variable key : option (list N).
Definition key_ok : Prop := match key with Some k => k <> [] | None => True end.
Definition kbyte (k:list N) (pos:N) : N := nth (N.to_nat (pos mod N.of_nat (length k))) k 0.
Fixpoint xor_from (k:list N) (pos:N) (l:list N) : list N :=
  match l with [] => [] | b :: r => N.lxor b (kbyte k pos) :: xor_from k (pos + 1) r end.
Definition unxor (pos:N) (l:list N) : list N := match key with Some k => xor_from k pos l | None => l end.

Record xr := { rd : bufr; xabs : N }.
Definition xseek (x:xr) (p:N) : xr := let b' := seek_start (rd x) p in {| rd := b'; xabs := babs b' |}.
Definition xread (x:xr) (want:nat) (shorts:list nat) : list N * xr :=
  let '(got, b') := bread (S want) (rd x) want shorts [] in
  (unxor (xabs x) got, {| rd := b'; xabs := xabs x + N.of_nat (length got) |}).

(* std::io::Read::read_exact default implementation *)
Inductive rres := ROk (l:list N) | REof.
Fixpoint read_exact (fuel:nat) (x:xr) (want:nat) (shorts:list nat) (acc:list N) : rres * xr :=
  match fuel with
  | O => (REof, x)
  | S f =>
    if Nat.eqb want 0 then (ROk acc, x) else
    let '(got, x') := xread x want shorts in
    match got with
    | [] => (REof, x')
    | _ => read_exact f x' (want - length got) (skipn (S want) shorts) (acc ++ got)
    end
  end.

(* the plaintext file: disk xor key stream *)
Definition plain : file := {| fsize := fsize F;
  fat := fun p => match key with Some k => N.lxor (fat F p) (kbyte k p) | None => fat F p end |}.

Lemma unxor_range p n : unxor p (range F p n) = range plain p n.
Proof.
  unfold unxor, plain. destruct key as [k|]; [|reflexivity].
  revert p. induction n as [|n IH]; intro p; [reflexivity|].
  rewrite !range_S. cbn [xor_from fat]. rewrite IH. reflexivity.
Qed.

Definition xinv (x:xr) : Prop := binv (rd x) /\ xabs x = babs (rd x).

Lemma xinv_seek x p : xinv x -> xinv (xseek x p) /\ xabs (xseek x p) = p.
Proof.
  intros (Hb & Hx). destruct (binv_seek_start (rd x) p Hb) as (Hb' & Hp).
  unfold xinv, xseek; cbn. auto.
Qed.

Lemma xread_spec x want shorts : xinv x ->
  exists x', xread x want shorts =
    (range plain (xabs x) (N.to_nat (N.min (N.of_nat want) (fsize F - xabs x))), x')
  /\ xinv x' /\ xabs x' = xabs x + N.min (N.of_nat want) (fsize F - xabs x).
Proof.
  intros (Hb & Hx). unfold xread.
  destruct (bread_spec (S want) (rd x) want shorts [] Hb ltac:(lia)) as (b' & Hrun & Hb' & Habs).
  rewrite Hrun. cbn [app]. eexists. split; [|split].
  - rewrite Hx, unxor_range. reflexivity.
  - split; cbn; [assumption|]. rewrite range_length. lia.
  - cbn. rewrite range_length. lia.
Qed.

Theorem read_exact_spec : forall fuel x want shorts acc, xinv x -> (want < fuel)%nat ->
  exists x', xinv x' /\
   (if N.of_nat want <=? fsize F - xabs x
    then read_exact fuel x want shorts acc = (ROk (acc ++ range plain (xabs x) want), x')
         /\ xabs x' = xabs x + N.of_nat want
    else fst (read_exact fuel x want shorts acc) = REof).
Proof.
  induction fuel as [|f IH]; intros x want shorts acc Hx Hf; [lia|].
  cbn [read_exact]. destruct (Nat.eqb want 0) eqn:E0.
  - apply Nat.eqb_eq in E0. subst want. exists x. split; [assumption|].
    replace (N.of_nat 0 <=? fsize F - xabs x) with true by lia.
    rewrite range_0, app_nil_r. split; [reflexivity|lia].
  - apply Nat.eqb_neq in E0.
    destruct (xread_spec x want shorts Hx) as (x1 & Hrun & Hx1 & Habs1). rewrite Hrun. clear Hrun.
    set (m := N.to_nat (N.min (N.of_nat want) (fsize F - xabs x))) in *.
    destruct (range plain (xabs x) m) as [|c cs] eqn:Er.
    + assert (m = 0%nat) by (apply (f_equal (@length N)) in Er; rewrite range_length in Er; exact Er).
      exists x1. split; [assumption|].
      replace (N.of_nat want <=? fsize F - xabs x) with false by lia. reflexivity.
    + assert (Hm : (0 < m)%nat) by (destruct m; [rewrite range_0 in Er; discriminate|lia]).
      rewrite <- Er. clear Er c cs. rewrite range_length.
      destruct (IH x1 (want - m)%nat (skipn (S want) shorts) (acc ++ range plain (xabs x) m) Hx1 ltac:(lia))
        as (x' & Hx' & Hres).
      exists x'. split; [assumption|].
      rewrite Habs1 in Hres.
      destruct (N.of_nat want <=? fsize F - xabs x) eqn:Ew.
      * replace (N.of_nat (want - m) <=? fsize F - (xabs x + N.min (N.of_nat want) (fsize F - xabs x)))
          with true in Hres by lia.
        destruct Hres as (Hr & Ha). rewrite Hr. split; [|lia].
        f_equal. f_equal. rewrite <- app_assoc. f_equal.
        replace (range plain (xabs x) want) with (range plain (xabs x) (m + (want - m))) by (f_equal; lia).
        rewrite range_app. f_equal. f_equal. lia.
      * replace (N.of_nat (want - m) <=? fsize F - (xabs x + N.min (N.of_nat want) (fsize F - xabs x)))
          with false in Hres by lia.
        exact Hres.
Qed.
End WithFile.

(* ---------- top level: any sequence of seek(Start p) ; read_exact n, as BlkFile::read_block and the parser issue them ---------- *)
Inductive op := Seek (p:N) | ReadExact (n:nat) (shorts:list nat).
Definition step F BUFSZ key (x:xr) (o:op) : xr * option rres :=
  match o with
  | Seek p => (xseek x p, None)
  | ReadExact n shorts => let '(r, x') := read_exact F BUFSZ key (S n) x n shorts [] in (x', Some r)
  end.
Fixpoint run F BUFSZ key (x:xr) (ops:list op) : list rres :=
  match ops with [] => [] | o :: r =>
    let '(x', out) := step F BUFSZ key x o in
    match out with Some v => v :: run F BUFSZ key x' r | None => run F BUFSZ key x' r end end.

(* reference semantics: a cursor over the plaintext *)
Fixpoint ref_run (P:file) (pos:N) (ops:list op) : list rres :=
  match ops with [] => [] | Seek p :: r => ref_run P p r
  | ReadExact n _ :: r =>
      if N.of_nat n <=? fsize P - pos then ROk (range P pos n) :: ref_run P (pos + N.of_nat n) r
      else [REof]   (* after an i/o error the caller stops (chain.rs:41-45) *)
  end.
Definition fresh : xr := {| rd := {| ipos := 0; buf := []; buf_pos := 0; cap := 0; babs := 0 |}; xabs := 0 |}.

Lemma fresh_inv F : xinv F fresh.
Proof. unfold xinv, binv, fresh, window, available; cbn. repeat split; lia. Qed.

Fixpoint ok_prefix (P:file) (pos:N) (ops:list op) : list op :=
  match ops with [] => [] | Seek p :: r => Seek p :: ok_prefix P p r
  | ReadExact n s :: r => if N.of_nat n <=? fsize P - pos then ReadExact n s :: ok_prefix P (pos + N.of_nat n) r
                          else [ReadExact n s] end.

Theorem xor_reader_refines : forall F BUFSZ key ops x,
  (0 < BUFSZ)%nat -> xinv F x ->
  run F BUFSZ key x (ok_prefix (plain F key) (xabs x) ops) = ref_run (plain F key) (xabs x) ops.
Proof.
  intros F BUFSZ key ops. induction ops as [|o r IH]; intros x HB Hx; [reflexivity|].
  destruct o as [p|n shorts]; cbn [ok_prefix ref_run].
  - cbn [run step]. destruct (xinv_seek F BUFSZ HB x p Hx) as (Hx' & Hp).
    specialize (IH (xseek x p) HB Hx'). rewrite Hp in IH. exact IH.
  - destruct (read_exact_spec F BUFSZ HB key (S n) x n shorts [] Hx ltac:(lia)) as (x' & Hx' & Hres).
    change (fsize (plain F key)) with (fsize F).
    destruct (N.of_nat n <=? fsize F - xabs x) eqn:E.
    + destruct Hres as (Hr & Ha). cbn [run step]. rewrite Hr. cbn [app]. f_equal.
      specialize (IH x' HB Hx'). rewrite Ha in IH. exact IH.
    + cbn [run step]. destruct (read_exact F BUFSZ key (S n) x n shorts []) as [r0 x0]. cbn in Hres. subst r0.
      reflexivity.
Qed.
Print Assumptions xor_reader_refines.
