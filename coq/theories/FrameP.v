(* Proofs for C14 (frame): the bytes of one script or witness field reach nothing but the values derived from that field. *)
From RBP Require Import Bytes Hashes Wire Block BlockP Render Index Model.

Fixpoint upd {A} (k:nat) (f:A -> A) (l:list A) : list A :=
  match l, k with [], _ => [] | x :: r, O => f x :: r | x :: r, S j => x :: upd j f r end.
Lemma map_upd {A B} (g:A -> B) (f:A -> A) (f':B -> B) k l : (forall x, g (f x) = f' (g x)) -> map g (upd k f l) = upd k f' (map g l).
Proof. intro H. revert k. induction l as [|x r IH]; intros [|k]; cbn; try reflexivity; [now rewrite H|now rewrite IH]. Qed.
Lemma upd_length {A} (f:A -> A) k l : length (upd k f l) = length l.
Proof. revert k. induction l as [|x r IH]; intros [|k]; cbn; auto. Qed.
Lemma nth_upd_other {A} (f:A -> A) k j l d : k <> j -> nth j (upd k f l) d = nth j l d.
Proof. revert k j. induction l as [|x r IH]; intros [|k] [|j] H; cbn; try reflexivity; try congruence. apply IH. congruence. Qed.

(* witness bytes: the parsed transaction, its hashed bytes and hence its txid and every row do not depend on them *)
Definition with_witness (t:atx) (w:option (list (cs_width * list (cs_width * bytes)))) : atx :=
  {| a_version := a_version t; a_iw := a_iw t; a_ins := a_ins t; a_outw := a_outw t; a_outs := a_outs t; a_witness := w; a_locktime := a_locktime t |}.
Theorem witness_frame t w : parsed_tx (with_witness t w) = parsed_tx t /\ ser_tx_stripped (with_witness t w) = ser_tx_stripped t /\
  txid (parsed_tx (with_witness t w)) = txid (parsed_tx t).
Proof. repeat split. Qed.

(* an output script: only that output's script (and its length field) changes in the parsed transaction *)
Definition set_oscript (w:cs_width) (x:bytes) (o:aout) : aout := {| a_value := a_value o; a_ow := w; a_oscript := x |}.
Definition with_oscript (t:atx) (k:nat) (w:cs_width) (x:bytes) : atx :=
  {| a_version := a_version t; a_iw := a_iw t; a_ins := a_ins t; a_outw := a_outw t; a_outs := upd k (set_oscript w x) (a_outs t);
     a_witness := a_witness t; a_locktime := a_locktime t |}.
Definition set_out_script (w:cs_width) (x:bytes) (o:txout) : txout :=
  {| out_value := out_value o; out_slen := {| vval := len x; vraw := cs_enc w (len x) |}; out_script := x |}.
Theorem out_script_frame t k w x :
  let p := parsed_tx t in let p' := parsed_tx (with_oscript t k w x) in
  tx_version p' = tx_version p /\ tx_locktime p' = tx_locktime p /\ tx_incount p' = tx_incount p /\ tx_inputs p' = tx_inputs p /\
  tx_outcount p' = tx_outcount p /\ tx_outputs p' = upd k (set_out_script w x) (tx_outputs p).
Proof.
  cbn. unfold with_oscript, parsed_tx. cbn [a_version a_locktime a_ins a_iw a_outw a_outs tx_version tx_locktime tx_incount tx_inputs tx_outcount tx_outputs].
  rewrite upd_length. repeat split. apply map_upd. intros [v ow s]. reflexivity.
Qed.
(* an input script likewise *)
Definition set_iscript (w:cs_width) (x:bytes) (i:ain) : ain := {| a_txid := a_txid i; a_index := a_index i; a_sw := w; a_script := x; a_seq := a_seq i |}.
Definition with_iscript (t:atx) (k:nat) (w:cs_width) (x:bytes) : atx :=
  {| a_version := a_version t; a_iw := a_iw t; a_ins := upd k (set_iscript w x) (a_ins t); a_outw := a_outw t; a_outs := a_outs t;
     a_witness := a_witness t; a_locktime := a_locktime t |}.
Definition set_in_script (w:cs_width) (x:bytes) (i:txin) : txin :=
  {| in_prev := in_prev i; in_slen := {| vval := len x; vraw := cs_enc w (len x) |}; in_script := x; in_seq := in_seq i |}.
Theorem in_script_frame t k w x :
  let p := parsed_tx t in let p' := parsed_tx (with_iscript t k w x) in
  tx_version p' = tx_version p /\ tx_locktime p' = tx_locktime p /\ tx_incount p' = tx_incount p /\ tx_outputs p' = tx_outputs p /\
  tx_outcount p' = tx_outcount p /\ tx_inputs p' = upd k (set_in_script w x) (tx_inputs p).
Proof.
  cbn. unfold with_iscript, parsed_tx. cbn [a_version a_locktime a_ins a_iw a_outw a_outs tx_version tx_locktime tx_incount tx_inputs tx_outcount tx_outputs].
  rewrite upd_length. repeat split. apply map_upd. intros [tx ix sw s sq]. reflexivity.
Qed.
(* script evaluation is per output: the verdict (type, address, text) of output j is a function of output j's script alone *)
Theorem eval_is_per_output c t j d : nth j (x_outs (eval_tx c t)) d =
  nth j (map (fun o => (o, eval_script c (out_script o))) (tx_outputs t)) d.
Proof. reflexivity. Qed.
Theorem other_outputs_unaffected c (p:rawtx) k w x j d : k <> j ->
  nth j (map (fun o => (o, eval_script c (out_script o))) (upd k (set_out_script w x) (tx_outputs p))) d =
  nth j (map (fun o => (o, eval_script c (out_script o))) (tx_outputs p)) d.
Proof.
  intro H. revert k j H. induction (tx_outputs p) as [|o r IH]; intros k j H.
  - destruct k; destruct j; reflexivity.
  - destruct k as [|k]; destruct j as [|j]; cbn [upd map nth]; try reflexivity; try congruence. apply IH. congruence.
Qed.
