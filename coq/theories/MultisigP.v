(* C05: bare multisig.  OP_m <push>{n} OP_n OP_CHECKMULTISIG with 1 <= m <= n <= 16, pushes in any form, is typed Pay2MultiSig with no address. *)
From RBP Require Import Bytes Hashes Codec Base58 Utf8 Bech32 Segwit ScriptBtc ScriptBtcP OpReturnP.

Definition keys_bytes (keys:list (pform * bytes)) : bytes := flat_map (fun fk => enc_push (fst fk) (snd fk)) keys.
Definition ms_script (m:N) (keys:list (pform * bytes)) : bytes := [0x50 + m] ++ keys_bytes keys ++ [0x50 + N.of_nat (length keys); 0xae].

Lemma inext_pushnum v rest : 1 <= v <= 16 -> inext_of ((0x50 + v) :: rest) = ISome (IOp (0x50 + v)) rest.
Proof.
  intro H. cbn [inext_of]. replace (80 + v <=? 75) with false by lia. replace (80 + v =? 76) with false by lia.
  replace (80 + v =? 77) with false by lia. replace (80 + v =? 78) with false by lia. reflexivity.
Qed.
Lemma pushnum_of v : 1 <= v <= 16 -> pushnum (0x50 + v) = Some v.
Proof. intro H. unfold pushnum. replace ((81 <=? 80 + v) && (80 + v <=? 96)) with true by lia. f_equal. lia. Qed.
Lemma enc_push_nonempty f d : (1 <= length (enc_push f d))%nat.
Proof. destruct f; cbn; lia. Qed.

Lemma ms_loop_keys m : forall keys fuel k tail,
  Forall (fun fk => pfits (fst fk) (snd fk)) keys -> (length (keys_bytes keys ++ tail) < fuel)%nat ->
  ms_loop fuel (keys_bytes keys ++ tail) k m = ms_loop (fuel - length keys) tail (k + N.of_nat (length keys)) m.
Proof.
  induction keys as [|[f d] r IH]; intros fuel k tail HF Hfu.
  - cbn. replace (k + 0) with k by lia. now rewrite Nat.sub_0_r.
  - inversion HF as [|? ? Hfit Hr]; subst. cbn [fst snd] in Hfit. destruct fuel as [|fu]; [cbn in Hfu; lia|].
    cbn [keys_bytes flat_map fst snd ms_loop]. rewrite <- app_assoc, (inext_push f d _ Hfit). fold (keys_bytes r).
    rewrite IH; [|exact Hr|].
    + cbn [length]. replace (S fu - S (length r))%nat with (fu - length r)%nat by lia. f_equal. lia.
    + cbn [keys_bytes flat_map fst snd] in Hfu. rewrite <- app_assoc, app_length in Hfu. pose proof (enc_push_nonempty f d). fold (keys_bytes r) in Hfu. lia.
Qed.
Lemma keys_bytes_length_ge keys : (length keys <= length (keys_bytes keys))%nat.
Proof. induction keys as [|[f d] r IH]; [cbn; lia|]. cbn [keys_bytes flat_map length fst snd]. rewrite app_length. pose proof (enc_push_nonempty f d). fold (keys_bytes r). lia. Qed.

Theorem is_multisig_of_shape m keys : Forall (fun fk => pfits (fst fk) (snd fk)) keys ->
  1 <= m -> m <= N.of_nat (length keys) -> N.of_nat (length keys) <= 16 -> is_multisig (ms_script m keys) = true.
Proof.
  intros HF Hm Hmn Hn. set (n := N.of_nat (length keys)). unfold is_multisig, ms_script. cbn [app].
  rewrite (inext_pushnum m _ ltac:(lia)), (pushnum_of m ltac:(lia)). fold n.
  rewrite (ms_loop_keys m keys _ 0 [0x50 + n; 0xae] HF) by lia.
  pose proof (keys_bytes_length_ge keys) as Hlen.
  destruct (Nat.sub (S (length (keys_bytes keys ++ [0x50 + n; 0xae]))) (length keys)) as [|fu] eqn:Efu; [rewrite app_length in Efu; cbn [length] in Efu; lia|].
  cbn [ms_loop]. rewrite (inext_pushnum n [0xae] ltac:(lia)), (pushnum_of n ltac:(lia)).
  replace (0 + N.of_nat (length keys)) with n by (unfold n; lia). rewrite N.eqb_refl. replace (m <=? n) with true by lia. cbn [andb].
  reflexivity.
Qed.

(* ---------- the verdict of the whole evaluator ---------- *)
Lemma first_byte_pushnum_facts m : 1 <= m <= 16 ->
  return_or_illegal (0x50 + m) = false /\ 0x50 + m <> 0x6a /\ 0x50 + m <> 0x76 /\ 0x50 + m <> 0xa9 /\ 0x50 + m <> 33 /\ 0x50 + m <> 65.
Proof.
  intro H. assert (In m [1;2;3;4;5;6;7;8;9;10;11;12;13;14;15;16]) as Hin by (cbn; lia). cbn in Hin.
  repeat (destruct Hin as [<-|Hin]; [repeat split; try reflexivity; discriminate|]). contradiction.
Qed.
Lemma witness_version_none_of_ms m keys : keys <> [] -> Forall (fun fk => pfits (fst fk) (snd fk)) keys -> witness_version (ms_script m keys) = None.
Proof.
  intros Hne HF. destruct keys as [|[f d] r]; [congruence|]. inversion HF as [|? ? Hfit _]; subst. cbn [fst snd] in Hfit.
  unfold ms_script, keys_bytes. cbn [flat_map fst snd app]. fold (keys_bytes r).
  unfold witness_version, len, nthb. destruct f; cbn [enc_push pfits] in *.
  - (* direct push: the push length cannot equal the length of everything after byte 1 *)
    cbn [app length nth]. rewrite <- app_assoc.
    match goal with |- context [d ++ ?x] => remember x as more eqn:Em end.
    assert (Hmore : (2 <= length more)%nat) by (subst more; rewrite app_length; cbn [length]; lia).
    destruct ((4 <=? S (S (length (d ++ more)))) && (S (S (length (d ++ more))) <=? 42))%nat; [|reflexivity].
    destruct ((plen d <? 2) || (40 <? plen d)); [reflexivity|].
    replace (S (S (length (d ++ more))) - 2)%nat with (length (d ++ more)) by lia. rewrite app_length.
    replace (N.of_nat (length d + length more) =? plen d) with false by (unfold plen; lia). reflexivity.
  - cbn [app length nth]. destruct ((4 <=? _) && (_ <=? 42))%nat; [|reflexivity]. replace ((0x4c <? 2) || (40 <? 0x4c)) with true by reflexivity. reflexivity.
  - cbn [app length nth]. destruct ((4 <=? _) && (_ <=? 42))%nat; [|reflexivity]. replace ((0x4d <? 2) || (40 <? 0x4d)) with true by reflexivity. reflexivity.
  - cbn [app length nth]. destruct ((4 <=? _) && (_ <=? 42))%nat; [|reflexivity]. replace ((0x4e <? 2) || (40 <? 0x4e)) with true by reflexivity. reflexivity.
Qed.
Theorem multisig_verdict net m keys : Forall (fun fk => pfits (fst fk) (snd fk)) keys ->
  1 <= m -> m <= N.of_nat (length keys) -> N.of_nat (length keys) <= 16 -> eval_btc net (ms_script m keys) = (BMultiSig, None).
Proof.
  intros HF Hm Hmn Hn. assert (Hne : keys <> []) by (destruct keys; [cbn in Hmn; lia|discriminate]).
  pose proof (is_multisig_of_shape m keys HF Hm Hmn Hn) as Hms. pose proof (witness_version_none_of_ms m keys Hne HF) as Hw.
  destruct (first_byte_pushnum_facts m ltac:(lia)) as (Hr & N6a & N76 & Na9 & N33 & N65).
  set (l := ms_script m keys) in *.
  assert (Hf : nthb l 0 = 0x50 + m) by reflexivity.
  assert (Hpk : p2pk_key l = None) by (destruct (p2pk_key l) eqn:E; [apply p2pk_first in E; rewrite Hf in E; destruct E; congruence|reflexivity]).
  assert (Hkh : is_p2pkh l = false) by (destruct (is_p2pkh l) eqn:E; [apply p2pkh_first in E; rewrite Hf in E; congruence|reflexivity]).
  assert (Hsh : is_p2sh l = false) by (destruct (is_p2sh l) eqn:E; [apply p2sh_first in E; rewrite Hf in E; congruence|reflexivity]).
  unfold eval_btc. change l with ((0x50 + m) :: keys_bytes keys ++ [0x50 + N.of_nat (length keys); 0xae]) at 1. cbv iota beta.
  assert (E : forall A (x y:A), match 0x50 + m with 0x6a => x | _ => y end = y).
  { intros A x y. destruct (0x50 + m) as [|p] eqn:Ep; [reflexivity|]. repeat (destruct p as [p|p|]; try reflexivity). exfalso; apply N6a; reflexivity. }
  rewrite E, Hr. fold l. rewrite Hpk, Hkh, Hsh. unfold is_p2wpkh, is_p2wsh, is_p2tr. rewrite Hw, !andb_false_r. cbn [andb].
  rewrite Hms. unfold address_from_script. now rewrite Hkh, Hsh, Hw.
Qed.
