(* Prototype: mirror of callbacks/common.rs remove_unspents / insert_unspents and the last-touch theorem (C07), balances (C08) *)
From RBP Require Import Bytes.

Section Utxo.
Variable K V : Type.
Variable keqb : K -> K -> bool.
Hypothesis keqb_spec : forall a b, reflect (a = b) (keqb a b).

Definition umap := list (K * V).
Fixpoint lookup (k:K) (m:umap) : option V :=
  match m with [] => None | (k', v) :: r => if keqb k k' then Some v else lookup k r end.
Definition remove (k:K) (m:umap) : umap := filter (fun e => negb (keqb k (fst e))) m.
Definition insert (k:K) (v:V) (m:umap) : umap := (k, v) :: remove k m.

Inductive event := Spend (k:K) | Create (k:K) (v:V).
Definition apply (m:umap) (e:event) : umap :=
  match e with Spend k => remove k m | Create k v => insert k v m end.
Definition run (evs:list event) : umap := fold_left apply evs [].

(* spec: what the last event touching k did *)
Fixpoint last_touch (k:K) (evs:list event) (cur:option V) : option V :=
  match evs with
  | [] => cur
  | Spend k' :: r => last_touch k r (if keqb k k' then None else cur)
  | Create k' v :: r => last_touch k r (if keqb k k' then Some v else cur)
  end.

Lemma keqb_refl k : keqb k k = true.
Proof. destruct (keqb_spec k k); congruence. Qed.

Lemma keqb_eq a b : keqb a b = true -> a = b.
Proof. destruct (keqb_spec a b); congruence. Qed.
Lemma keqb_neq a b : keqb a b = false -> a <> b.
Proof. destruct (keqb_spec a b); congruence. Qed.

Lemma lookup_remove k k' m : lookup k (remove k' m) = if keqb k k' then None else lookup k m.
Proof.
  induction m as [|[k0 v0] r IH]; cbn [remove filter lookup fst].
  - destruct (keqb k k'); reflexivity.
  - fold (remove k' r). destruct (keqb k' k0) eqn:E1; cbn [negb lookup].
    + apply keqb_eq in E1. subst k0. rewrite IH. destruct (keqb k k'); reflexivity.
    + rewrite IH. destruct (keqb k k0) eqn:E2; [|reflexivity].
      apply keqb_eq in E2. subst k0. destruct (keqb k k') eqn:E3; [|reflexivity].
      apply keqb_eq in E3. subst k'. rewrite keqb_refl in E1. discriminate.
Qed.

Lemma lookup_insert k k' v m : lookup k (insert k' v m) = if keqb k k' then Some v else lookup k m.
Proof. unfold insert. cbn. rewrite lookup_remove. destruct (keqb k k'); reflexivity. Qed.

Lemma fold_last_touch_gen k evs m : lookup k (fold_left apply evs m) = last_touch k evs (lookup k m).
Proof.
  revert m. induction evs as [|e r IH]; intro m; [reflexivity|].
  cbn [fold_left last_touch]. rewrite IH. destruct e as [k'|k' v]; cbn [apply].
  - now rewrite lookup_remove.
  - now rewrite lookup_insert.
Qed.

(* C07 core: for every history, an outpoint is in the final set iff its last touch is a creation, with that creation's data *)
Theorem fold_last_touch k evs : lookup k (run evs) = last_touch k evs None.
Proof. apply fold_last_touch_gen. Qed.

(* nothing is listed twice *)
Definition keys (m:umap) := map fst m.
Lemma remove_keys k m x : In x (keys (remove k m)) -> In x (keys m) /\ x <> k.
Proof.
  unfold keys, remove. intro H. apply in_map_iff in H as ((k0, v0) & <- & Hin). apply filter_In in Hin as [Hin Hf].
  cbn in *. split; [apply in_map_iff; now exists (k0, v0)|]. destruct (keqb_spec k k0); [discriminate|congruence].
Qed.
Lemma remove_nodup k m : NoDup (keys m) -> NoDup (keys (remove k m)).
Proof.
  unfold keys, remove. induction m as [|[k0 v0] r IH]; cbn; intro H; [constructor|].
  inversion H as [|? ? Hn Hr]; subst. destruct (keqb k k0); cbn; [now apply IH|].
  constructor; [|now apply IH]. intro Hin. apply Hn. fold (keys r).
  apply (remove_keys k r k0) in Hin. tauto.
Qed.
Theorem run_nodup evs : NoDup (keys (run evs)).
Proof.
  unfold run. assert (G : forall m, NoDup (keys m) -> NoDup (keys (fold_left apply evs m))).
  { induction evs as [|e r IH]; intros m Hm; [exact Hm|]. cbn. apply IH. destruct e as [k|k v]; cbn.
    - now apply remove_nodup.
    - constructor; [|now apply remove_nodup]. intro Hin. apply remove_keys in Hin. tauto. }
  apply G. constructor.
Qed.
End Utxo.

(* C08: per-address sums *)
Section Balances.
Variable A : Type.
Variable aeqb : A -> A -> bool.
Hypothesis aeqb_spec : forall a b, reflect (a = b) (aeqb a b).
(* mirror of balances.rs:90-95: entry(address).or_insert(0) += value, over the values of the utxo map *)
Fixpoint add_bal (a:A) (v:N) (b:list (A * N)) : list (A * N) :=
  match b with [] => [(a, v)] | (a', s) :: r => if aeqb a a' then (a', s + v) :: r else (a', s) :: add_bal a v r end.
Definition balances (vals:list (A * N)) : list (A * N) := fold_left (fun b e => add_bal (fst e) (snd e) b) vals [].
Fixpoint bal_lookup (a:A) (b:list (A*N)) : option N :=
  match b with [] => None | (a', s) :: r => if aeqb a a' then Some s else bal_lookup a r end.
Definition sum_for (a:A) (vals:list (A*N)) : N := fold_right (fun e acc => if aeqb a (fst e) then snd e + acc else acc) 0 vals.
Definition owns (a:A) (vals:list (A*N)) : bool := existsb (fun e => aeqb a (fst e)) vals.

Lemma aeqb_refl a : aeqb a a = true. Proof. destruct (aeqb_spec a a); congruence. Qed.

Lemma add_bal_lookup a v b x :
  bal_lookup x (add_bal a v b) =
  if aeqb x a then Some (match bal_lookup a b with Some s => s + v | None => v end) else bal_lookup x b.
Proof.
  induction b as [|[a' s] r IH]; cbn.
  - destruct (aeqb x a); reflexivity.
  - destruct (aeqb_spec a a') as [->|Hne]; cbn.
    + destruct (aeqb x a'); reflexivity.
    + rewrite IH. destruct (aeqb_spec x a') as [->|Hne2].
      * destruct (aeqb_spec a' a); [congruence|reflexivity].
      * reflexivity.
Qed.

Lemma balances_gen vals : forall b a,
  bal_lookup a (fold_left (fun b e => add_bal (fst e) (snd e) b) vals b) =
  match bal_lookup a b with
  | Some s => Some (s + sum_for a vals)
  | None => if owns a vals then Some (sum_for a vals) else None end.
Proof.
  induction vals as [|[a0 v0] r IH]; intros b a; cbn [fold_left sum_for fold_right owns existsb fst snd].
  - destruct (bal_lookup a b); [f_equal; lia|reflexivity].
  - rewrite IH, add_bal_lookup. fold (sum_for a r). fold (owns a r).
    destruct (aeqb_spec a a0) as [->|Hne]; cbn [orb].
    + destruct (bal_lookup a0 b); f_equal; lia.
    + destruct (bal_lookup a b); reflexivity.
Qed.

(* one row per owning address, carrying the exact sum *)
Theorem balances_spec vals a :
  bal_lookup a (balances vals) = if owns a vals then Some (sum_for a vals) else None.
Proof. unfold balances. rewrite balances_gen. reflexivity. Qed.
End Balances.
Print Assumptions fold_last_touch. Print Assumptions run_nodup. Print Assumptions balances_spec.

(* ---------- the property in its own words ---------- *)
Section UtxoWords.
Variable K V : Type.
Variable keqb : K -> K -> bool.
Hypothesis keqb_spec : forall a b, reflect (a = b) (keqb a b).
Definition touches (k:K) (e:event K V) : bool := match e with Spend _ _ k' => keqb k k' | Create _ _ k' _ => keqb k k' end.

Lemma last_touch_untouched k evs cur : forallb (fun e => negb (touches k e)) evs = true -> last_touch K V keqb k evs cur = cur.
Proof.
  revert cur. induction evs as [|e r IH]; intros cur H; [reflexivity|]. cbn in H. apply andb_true_iff in H as [He Hr].
  destruct e as [k'|k' v]; cbn [last_touch touches] in *; apply negb_true_iff in He; rewrite He; now apply IH.
Qed.

(* an outpoint is listed with value v  iff  the history splits as  before ++ [Create k v] ++ after  where nothing in `after` touches k:
   created in the range, not referenced by any later input, not re-created later (the later creation would be the one listed) *)
Theorem listed_iff k v evs :
  lookup K V keqb k (run K V keqb evs) = Some v <->
  exists before after, evs = before ++ Create K V k v :: after /\ forallb (fun e => negb (touches k e)) after = true.
Proof.
  rewrite (fold_last_touch K V keqb keqb_spec). split.
  - assert (G : forall evs cur, last_touch K V keqb k evs cur = Some v ->
               (cur = Some v /\ forallb (fun e => negb (touches k e)) evs = true) \/
               exists before after, evs = before ++ Create K V k v :: after /\ forallb (fun e => negb (touches k e)) after = true).
    { clear evs. induction evs as [|e r IH]; intros cur H; [left; split; [exact H|reflexivity]|].
      destruct e as [k'|k' v']; cbn [last_touch] in H.
      - destruct (IH _ H) as [[Hc Hr]|(b & a & -> & Ha)].
        + destruct (keqb k k') eqn:E; [discriminate|]. left. split; [exact Hc|]. cbn. now rewrite E.
        + right. exists (Spend K V k' :: b), a. split; [reflexivity|exact Ha].
      - destruct (IH _ H) as [[Hc Hr]|(b & a & -> & Ha)].
        + destruct (keqb_spec k k') as [<-|Hne].
          * right. exists [], r. inversion Hc; subst. split; [reflexivity|exact Hr].
          * left. split; [exact Hc|]. cbn. destruct (keqb_spec k k'); [contradiction|exact Hr].
        + right. exists (Create K V k' v' :: b), a. split; [reflexivity|exact Ha]. }
    intro H. destruct (G evs None H) as [[Hc _]|Hex]; [discriminate|exact Hex].
  - intros (b & a & -> & Ha).
    assert (G : forall b cur, last_touch K V keqb k (b ++ Create K V k v :: a) cur = Some v).
    { clear b. induction b as [|e r IH]; intro cur.
      - cbn [app last_touch]. destruct (keqb_spec k k); [|contradiction]. now apply last_touch_untouched.
      - destruct e; cbn [app last_touch]; apply IH. }
    apply G.
Qed.
End UtxoWords.

Section BalancesMore.
Variable A : Type.
Variable aeqb : A -> A -> bool.
Hypothesis aeqb_spec : forall a b, reflect (a = b) (aeqb a b).
Lemma add_bal_keys a v b x : In x (map fst (add_bal A aeqb a v b)) <-> x = a \/ In x (map fst b).
Proof.
  induction b as [|[a' s] r IH]; cbn.
  - split; [intros [H|[]]; left; congruence|intros [H|[]]; left; congruence].
  - destruct (aeqb_spec a a') as [->|Hne]; cbn.
    + split; [intros [H|H]; [left; congruence|right; now right]|intros [H|[H|H]]; [left; congruence|left; exact H|now right]].
    + rewrite IH. split; [intros [H|[H|H]]; [right; now left|now left|right; now right]|intros [H|[H|H]]; [right; now left|now left|right; now right]].
Qed.
Lemma add_bal_nodup a v b : NoDup (map fst b) -> NoDup (map fst (add_bal A aeqb a v b)).
Proof.
  induction b as [|[a' s] r IH]; intro H; cbn; [constructor; [intros []|constructor]|].
  inversion H as [|? ? Hn Hr]; subst. destruct (aeqb_spec a a') as [->|Hne]; cbn; [constructor; assumption|].
  constructor; [|now apply IH]. intro Hin. apply add_bal_keys in Hin as [->|Hin]; [congruence|contradiction].
Qed.
(* every address is listed at most once *)
Theorem balances_nodup vals : NoDup (map fst (balances A aeqb vals)).
Proof.
  unfold balances. assert (G : forall b, NoDup (map fst b) -> NoDup (map fst (fold_left (fun b e => add_bal A aeqb (fst e) (snd e) b) vals b))).
  { induction vals as [|e r IH]; intros b H; [exact H|]. cbn. apply IH. now apply add_bal_nodup. }
  apply G. constructor.
Qed.
End BalancesMore.
