(* C11, the key stream itself: the byte at file offset o is XOR-ed with key[o mod |key|] - the key repeats from file offset 0 with its own length, wherever a read
   starts; an all-zero key is the identity; a zero byte in the key leaves the bytes at its offsets as they are (so a file may begin with plaintext-looking bytes, e.g. the
   magic under a key with a zero prefix, and is still obfuscated further on). *)
From Coq Require Import List NArith Arith Lia.
Import ListNotations.
From RBP Require Import Bytes Reader.

Lemma xor_from_length k p l : length (xor_from k p l) = length l.
Proof. revert p. induction l as [|b r IH]; intro p; cbn [xor_from length]; [reflexivity|]. rewrite IH. reflexivity. Qed.

Lemma xor_from_app k p a b : xor_from k p (a ++ b) = xor_from k p a ++ xor_from k (p + N.of_nat (length a)) b.
Proof.
  revert p. induction a as [|x r IH]; intro p; cbn [app xor_from length].
  - rewrite N.add_0_r. reflexivity.
  - rewrite IH. do 3 f_equal. lia.
Qed.

(* position-wise meaning *)
Theorem xor_from_nth k p l i : (i < length l)%nat -> nth i (xor_from k p l) 0 = N.lxor (nth i l 0) (kbyte k (p + N.of_nat i)).
Proof.
  revert p i. induction l as [|b r IH]; intros p i Hi; [cbn in Hi; lia|].
  destruct i as [|i]; cbn [xor_from nth].
  - rewrite N.add_0_r. reflexivity.
  - rewrite IH by (cbn in Hi; lia). do 2 f_equal. lia.
Qed.

(* the key stream has the period |key|, counted from file offset 0 *)
Lemma kbyte_period k p : k <> [] -> kbyte k (p + N.of_nat (length k)) = kbyte k p.
Proof.
  intro Hk. unfold kbyte. assert (N.of_nat (length k) <> 0) by (destruct k; [congruence|cbn [length]; lia]).
  rewrite <- (N.mul_1_l (N.of_nat (length k))) at 1. rewrite N.mod_add by assumption. reflexivity.
Qed.

Theorem xor_from_period k p l : k <> [] -> xor_from k (p + N.of_nat (length k)) l = xor_from k p l.
Proof.
  intro Hk. revert p. induction l as [|b r IH]; intro p; cbn [xor_from]; [reflexivity|].
  rewrite kbyte_period by exact Hk. f_equal. replace (p + N.of_nat (length k) + 1) with (p + 1 + N.of_nat (length k)) by lia. apply IH.
Qed.

(* an all-zero key of any length is the identity *)
Lemma kbyte_zero k p : Forall (fun b => b = 0) k -> kbyte k p = 0.
Proof.
  intro F. unfold kbyte. destruct (nth_in_or_default (N.to_nat (p mod N.of_nat (length k))) k 0) as [Hin|E]; [|exact E].
  rewrite Forall_forall in F. apply F. exact Hin.
Qed.

Theorem xor_from_zero_key k p l : Forall (fun b => b = 0) k -> xor_from k p l = l.
Proof.
  intro F. revert p. induction l as [|b r IH]; intro p; cbn [xor_from]; [reflexivity|].
  rewrite kbyte_zero by exact F. rewrite N.lxor_0_r, IH. reflexivity.
Qed.

(* a zero key byte leaves the file bytes at its offsets unchanged; every other offset is still obfuscated with its own key byte *)
Corollary xor_from_zero_byte k p l i : (i < length l)%nat -> kbyte k (p + N.of_nat i) = 0 -> nth i (xor_from k p l) 0 = nth i l 0.
Proof. intros Hi Hz. rewrite xor_from_nth by exact Hi. rewrite Hz. apply N.lxor_0_r. Qed.

(* zero prefix of length z: the first z bytes of the file read back as they are *)
Corollary xor_from_zero_prefix k z l : (z <= length k)%nat -> Forall (fun b => b = 0) (firstn z k) -> (length l <= z)%nat -> xor_from k 0 l = l.
Proof.
  intros Hz F Hl. apply nth_ext with (d := 0) (d' := 0); [apply xor_from_length|]. rewrite xor_from_length. intros i Hi.
  apply xor_from_zero_byte; [exact Hi|]. unfold kbyte. rewrite N.add_0_l.
  assert (Hk : (i < length k)%nat) by lia. rewrite N.mod_small by lia. rewrite Nat2N.id.
  rewrite Forall_forall in F. apply F. rewrite <- (firstn_skipn z k) at 1.
  assert (Hf : length (firstn z k) = z) by (rewrite firstn_length; lia).
  rewrite app_nth1 by lia. apply nth_In. lia.
Qed.
