From Coq Require Import List NArith Lia.
Import ListNotations.
From RBP Require Import Model.
Local Open Scope N_scope.

(* the k-th tx_out row written for a transaction carries index k (mod 2^32, the width of the field in the code), for every k *)
Lemma out_rows_nth tid : forall outs i k oe,
  nth_error outs k = Some oe ->
  nth_error (out_rows tid i outs) k = Some (out_row tid ((i + N.of_nat k) mod 2^32) oe).
Proof.
  induction outs as [|o r IH]; intros i k oe H.
  - destruct k; discriminate.
  - destruct k as [|k]; cbn [nth_error out_rows] in *.
    + injection H as <-. rewrite N.add_0_r. reflexivity.
    + rewrite (IH (i + 1) k oe H). do 3 f_equal. lia.
Qed.

Lemma out_rows_index tid outs k oe :
  nth_error outs k = Some oe -> (N.of_nat k < 2^32) ->
  nth_error (out_rows tid 0 outs) k = Some (out_row tid (N.of_nat k) oe).
Proof.
  intros H Hk. rewrite (out_rows_nth tid outs 0 k oe H). rewrite N.add_0_l, N.mod_small by exact Hk. reflexivity.
Qed.
