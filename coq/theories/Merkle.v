(* Prototype: mirror of utils::merkle_root (utils.rs:9-32) = Bitcoin merkle levels; termination; C09 *)
From RBP Require Import Bytes.
Section M.
Variable H2 : bytes -> bytes -> bytes.   (* sha256d (a ++ b); opaque here *)

(* mirror: chunks(2).filter(|c| c.len()==2).map(hash), then push hash(last,last) when len is odd *)
Fixpoint pairs (l:list bytes) : list bytes := match l with a :: b :: r => H2 a b :: pairs r | _ => [] end.
Definition level (l:list bytes) : list bytes :=
  pairs l ++ (if Nat.odd (length l) then [H2 (last l []) (last l [])] else []).
Fixpoint merkle_loop (fuel:nat) (l:list bytes) : res bytes :=
  match fuel with
  | O => Panic
  | S f => if (length l <=? 1)%nat then match l with [x] => Ok x | _ => Panic end   (* .first().expect(..) *)
           else merkle_loop f (level l)
  end.
Definition merkle_root (l:list bytes) : res bytes := merkle_loop (S (length l)) l.

(* spec: Bitcoin Core ComputeMerkleRoot levels *)
Fixpoint level_spec (l:list bytes) : list bytes :=
  match l with [] => [] | [a] => [H2 a a] | a :: b :: r => H2 a b :: level_spec r end.
Fixpoint merkle_spec (fuel:nat) (l:list bytes) : option bytes :=
  match fuel with O => None | S f => match l with [] => None | [x] => Some x | _ => merkle_spec f (level_spec l) end end.

Lemma level_eq : forall l, level l = level_spec l.
Proof.
  assert (G : forall n l, (length l <= n)%nat -> level l = level_spec l).
  { induction n as [|n IH]; intros l Hl.
    - destruct l; [reflexivity|cbn in Hl; lia].
    - destruct l as [|a [|b r]]; [reflexivity|reflexivity|].
      unfold level. cbn [pairs length level_spec]. rewrite <- IH by (cbn in Hl; lia). unfold level.
      change (Nat.odd (S (S (length r)))) with (Nat.odd (length r)).
      destruct r as [|c r']; [reflexivity|]. cbn [app]. reflexivity. }
  intro l. apply (G (length l)). lia.
Qed.

Lemma level_spec_length : forall l, (2 <= length l)%nat -> (1 <= length (level_spec l) < length l)%nat.
Proof.
  assert (G : forall n l, (length l <= n)%nat -> (2 <= length l)%nat -> (1 <= length (level_spec l) < length l)%nat).
  { induction n as [|n IH]; intros l Hn H2l; [lia|].
    destruct l as [|a [|b r]]; cbn in *; try lia.
    destruct r as [|c [|d r']]; cbn in *; try lia.
    specialize (IH (c :: d :: r') ltac:(cbn; lia) ltac:(cbn; lia)). cbn in IH. lia. }
  intros. apply (G (length l)); lia.
Qed.

(* C09: the loop never panics on a non-empty list and computes the Bitcoin merkle root *)
Theorem merkle_loop_spec : forall fuel l, l <> [] -> (length l <= fuel)%nat ->
  exists r, merkle_loop fuel l = Ok r /\ merkle_spec fuel l = Some r.
Proof.
  induction fuel as [|f IH]; intros l Hne Hf; [destruct l; [congruence|cbn in Hf; lia]|].
  cbn [merkle_loop merkle_spec]. destruct l as [|a [|b r]]; [congruence|eexists; split; reflexivity|].
  cbn [length Nat.leb]. rewrite level_eq.
  pose proof (level_spec_length (a :: b :: r) ltac:(cbn; lia)) as HL.
  apply IH; [destruct (level_spec (a :: b :: r)); [cbn in HL; lia|discriminate]|cbn in *; lia].
Qed.

Corollary merkle_root_spec l : l <> [] -> exists r, merkle_root l = Ok r /\ merkle_spec (S (length l)) l = Some r.
Proof. intro. apply merkle_loop_spec; [assumption|lia]. Qed.
End M.
Print Assumptions merkle_root_spec.
