(* --verify looks at nothing but the txids, the header and the block hash: the verdict for a block is the same for any two evaluated blocks that agree on these,
   so the stored size, the width of the transaction count, an AuxPoW section, witness data, scripts and values (beyond what the txids commit to) cannot enter it. *)
From Coq Require Import List NArith Lia.
Import ListNotations.
From RBP Require Import Bytes Wire Block Model.

Theorem verify_block_frame c idx b1 b2 h :
  map x_id (y_txs b1) = map x_id (y_txs b2) -> b_header (y_blk b1) = b_header (y_blk b2) -> y_hash b1 = y_hash b2 ->
  verify_block c idx b1 h = verify_block c idx b2 h.
Proof. intros H1 H2 H3. unfold verify_block. rewrite H1, H2, H3. reflexivity. Qed.

Definition with_size (b : eblock) (sz : N) : eblock :=
  {| y_blk := {| b_size := sz; b_header := b_header (y_blk b); b_aux := b_aux (y_blk b); b_txcount := b_txcount (y_blk b); b_txs := b_txs (y_blk b) |};
     y_hash := y_hash b; y_txs := y_txs b |}.

(* no size rule of any network is among the conditions: the verdict is the same whatever length prefix the block was stored with *)
Corollary verify_ignores_stored_size c idx b h sz : verify_block c idx (with_size b sz) h = verify_block c idx b h.
Proof. apply verify_block_frame; reflexivity. Qed.
