(* Fixed-length positional digits in any base (little-endian) and their round trips; SHA-256 / RIPEMD-160 outputs are byte strings. *)
From RBP Require Import Bytes Hashes.

Fixpoint fdec (B:N) (l:list N) : N := match l with [] => 0 | d :: r => d + B * fdec B r end.
Fixpoint fenc (B:N) (k:nat) (n:N) : list N := match k with O => [] | S k' => n mod B :: fenc B k' (n / B) end.
Lemma fenc_length B k n : length (fenc B k n) = k.
Proof. revert n; induction k; intro n; cbn; [reflexivity|now rewrite IHk]. Qed.
Lemma fenc_small B k n : 0 < B -> Forall (fun d => d < B) (fenc B k n).
Proof. intro HB. revert n; induction k; intro n; cbn; constructor; [apply N.mod_lt; lia|apply IHk]. Qed.
Lemma fdec_fenc B k n : 0 < B -> n < B ^ N.of_nat k -> fdec B (fenc B k n) = n.
Proof.
  intro HB. revert n; induction k as [|k IH]; intros n H.
  - change (B ^ N.of_nat 0) with 1 in H. cbn. lia.
  - cbn [fenc fdec]. rewrite IH.
    + pose proof (N.div_mod n B ltac:(lia)). lia.
    + rewrite Nnat.Nat2N.inj_succ, N.pow_succ_r' in H. apply N.div_lt_upper_bound; lia.
Qed.
Lemma fenc_fdec B l : 0 < B -> Forall (fun d => d < B) l -> fenc B (length l) (fdec B l) = l.
Proof.
  intros HB H. induction l as [|d r IH]; [reflexivity|]. inversion H as [|? ? Hd Hr]; subst. cbn [length fenc fdec]. f_equal.
  - replace (d + B * fdec B r) with (d + fdec B r * B) by lia. rewrite N.mod_add by lia. now apply N.mod_small.
  - replace (d + B * fdec B r) with (fdec B r * B + d) by lia. rewrite N.div_add_l by lia. rewrite (N.div_small d B) by assumption. rewrite N.add_0_r. now apply IH.
Qed.
Lemma fdec_bound B l : 0 < B -> Forall (fun d => d < B) l -> fdec B l < B ^ N.of_nat (length l).
Proof.
  intros HB H. induction l as [|d r IH]; [cbn; change (B ^ 0) with 1; lia|]. inversion H as [|? ? Hd Hr]; subst. specialize (IH Hr).
  cbn [length fdec]. rewrite Nnat.Nat2N.inj_succ, N.pow_succ_r'. nia.
Qed.

(* ---------- hash outputs are byte strings ---------- *)
Lemma w32_lt x : w32 x < 2^32.
Proof. unfold w32, M32. change 4294967295 with (N.ones 32). rewrite N.land_ones. apply N.mod_lt. discriminate. Qed.
Lemma add32_lt a b : add32 a b < 2^32. Proof. apply w32_lt. Qed.
Lemma word_bytes_wfb be w : w < 2^32 -> wfb (word_bytes be w) = true.
Proof.
  intro H. assert (A : forall x, N.land x 255 <? 256 = true).
  { intro x. change 255 with (N.ones 8). rewrite N.land_ones. apply N.ltb_lt. apply N.mod_lt. discriminate. }
  assert (Bn : N.shiftr w 24 <? 256 = true).
  { apply N.ltb_lt. rewrite N.shiftr_div_pow2. apply N.div_lt_upper_bound; [discriminate|]. change (2 ^ 24 * 256) with (2^32). exact H. }
  unfold word_bytes. destruct be; cbn [rev app wfb forallb]; rewrite !A, Bn; reflexivity.
Qed.
Lemma flat_map_wfb {A} (f:A -> bytes) l : Forall (fun x => wfb (f x) = true) l -> wfb (flat_map f l) = true.
Proof. induction 1 as [|x r Hx Hr IH]; [reflexivity|]. cbn [flat_map]. rewrite wfb_app, Hx, IH. reflexivity. Qed.

Lemma compress256_lt h blk : Forall (fun w => w < 2^32) (compress256 h blk).
Proof.
  unfold compress256. generalize (combine h (fold_left round256 (combine K256 (blk ++ sched 48 (rev blk) [])) h)).
  induction l as [|p r IH]; cbn; constructor; [apply add32_lt|exact IH].
Qed.
Lemma H256_lt : Forall (fun w => w < 2^32) H256.
Proof. unfold H256. repeat constructor. Qed.
Theorem sha256_wfb msg : wfb (sha256 msg) = true.
Proof.
  unfold sha256. apply flat_map_wfb.
  assert (G : forall cs st, Forall (fun w => w < 2^32) st -> Forall (fun w => w < 2^32) (fold_left compress256 cs st)).
  { induction cs as [|c r IH]; intros st H; [exact H|]. cbn. apply IH. apply compress256_lt. }
  eapply Forall_impl; [|apply G, H256_lt]. intros w Hw. now apply word_bytes_wfb.
Qed.
Corollary sha256d_wfb msg : wfb (sha256d msg) = true. Proof. apply sha256_wfb. Qed.
Lemma sha256_length_32 : forall msg, length (sha256 msg) = 32%nat -> True. Proof. trivial. Qed.

Lemma compress160_lt h x : Forall (fun w => w < 2^32) h -> Forall (fun w => w < 2^32) (compress160 h x).
Proof.
  intro H. unfold compress160. destruct h as [|h0 [|h1 [|h2 [|h3 [|h4 [|? ?]]]]]]; try exact H.
  destruct (fold_left (rstep true x) (seq 0 80) [h0; h1; h2; h3; h4]) as [|al [|bl [|cl [|dl [|el [|? ?]]]]]]; try exact H.
  destruct (fold_left (rstep false x) (seq 0 80) [h0; h1; h2; h3; h4]) as [|ar [|br [|cr [|dr [|er [|? ?]]]]]]; try exact H.
  repeat constructor; apply add32_lt.
Qed.
Lemma H160_lt : Forall (fun w => w < 2^32) H160.
Proof. unfold H160. repeat constructor. Qed.
Theorem ripemd160_wfb msg : wfb (ripemd160 msg) = true.
Proof.
  unfold ripemd160. apply flat_map_wfb.
  assert (G : forall cs st, Forall (fun w => w < 2^32) st -> Forall (fun w => w < 2^32) (fold_left compress160 cs st)).
  { induction cs as [|c r IH]; intros st H; [exact H|]. cbn. apply IH. now apply compress160_lt. }
  eapply Forall_impl; [|apply G, H160_lt]. intros w Hw. now apply word_bytes_wfb.
Qed.
Corollary hash160_wfb msg : wfb (hash160 msg) = true. Proof. apply ripemd160_wfb. Qed.

(* ---------- SHA-256 output length ---------- *)
Lemma round256_len st kw : length st = 8%nat -> length (round256 st kw) = 8%nat.
Proof. intro H. do 9 (destruct st as [|? st]; try discriminate H). reflexivity. Qed.
Lemma fold_round256_len kws : forall st, length st = 8%nat -> length (fold_left round256 kws st) = 8%nat.
Proof. induction kws as [|kw r IH]; intros st H; [exact H|]. cbn. apply IH. now apply round256_len. Qed.
Lemma compress256_len h blk : length h = 8%nat -> length (compress256 h blk) = 8%nat.
Proof. intro H. unfold compress256. rewrite map_length, combine_length, fold_round256_len by exact H. rewrite H. reflexivity. Qed.
Lemma word_bytes_len be w : length (word_bytes be w) = 4%nat.
Proof. unfold word_bytes. destruct be; reflexivity. Qed.
Theorem sha256_length msg : length (sha256 msg) = 32%nat.
Proof.
  unfold sha256. assert (G : forall cs st, length st = 8%nat -> length (fold_left compress256 cs st) = 8%nat).
  { induction cs as [|c r IH]; intros st H; [exact H|]. cbn. apply IH. now apply compress256_len. }
  specialize (G (chunks16 (length (words true (pad true msg))) (words true (pad true msg))) H256 eq_refl).
  destruct (fold_left compress256 _ H256) as [|a [|b [|c [|d [|e [|f [|g [|h [|? ?]]]]]]]]]; try discriminate G.
  cbn [flat_map]. rewrite !app_length, !word_bytes_len. reflexivity.
Qed.
