(* C13: the two nested parallel collects of the implementation (transactions of a block, outputs of a transaction), idealised as "result i is written into slot i, in any
   completion order, possibly more than once": whatever the orders chosen at both levels - one per block and one per transaction - the evaluated block is the sequential one.
   (What is NOT proved: that rayon's indexed collect is such a slot-wise write - that is its documented contract and is exercised with 1..64 threads under load.) *)
From RBP Require Import Bytes Hashes Base58 Utf8 Wire Block Render ScriptCustom CustomTop ScriptBtc Index Model Misc.

Definition complete_order (n:nat) (order:list nat) : Prop := forall i, (i < n)%nat <-> In i order.

(* outputs of one transaction, evaluated in the order `oo` *)
Definition eval_tx_in_order (c:coin) (dflt_out:txout) (dflt:txout * escript) (oo:list nat) (t:rawtx) : etx :=
  {| x_raw := t; x_id := txid t;
     x_outs := collect txout (txout * escript) (fun o => (o, eval_script c (out_script o))) dflt dflt_out oo (tx_outputs t) |}.
(* transactions of one block in the order `ot`, transaction i using the output order `oo i` *)
Definition eval_block_in_order (c:coin) (dflt_out:txout) (dflt:txout * escript) (dflt_tx:rawtx) (dflt_etx:etx) (ot:list nat) (oo:nat -> list nat) (b:block) : eblock :=
  {| y_blk := b; y_hash := block_hash b;
     y_txs := collect (nat * rawtx) etx (fun it => eval_tx_in_order c dflt_out dflt (oo (fst it)) (snd it)) dflt_etx (O, dflt_tx) ot (combine (seq 0 (length (b_txs b))) (b_txs b)) |}.

Theorem eval_tx_any_order c dflt_out dflt oo t : complete_order (length (tx_outputs t)) oo -> eval_tx_in_order c dflt_out dflt oo t = eval_tx c t.
Proof. intro H. unfold eval_tx_in_order, eval_tx. f_equal. now apply collect_any_order. Qed.

Lemma map_snd_combine_seq {A} (l:list A) s : map snd (combine (seq s (length l)) l) = l.
Proof. revert s. induction l as [|x l IH]; intro s; [reflexivity|]. cbn. f_equal. apply IH. Qed.
Lemma in_combine_seq {A} (l:list A) s i x : In (i, x) (combine (seq s (length l)) l) -> nth_error l (i - s) = Some x /\ (s <= i)%nat.
Proof.
  revert s. induction l as [|y l IH]; intros s H; [contradiction|]. cbn in H. destruct H as [H|H].
  - inversion H; subst. rewrite Nat.sub_diag. split; [reflexivity|lia].
  - destruct (IH (S s) H) as [E L]. split; [|lia]. replace (i - s)%nat with (S (i - S s)) by lia. exact E.
Qed.

Theorem eval_block_any_order c dflt_out dflt dflt_tx dflt_etx ot oo b :
  complete_order (length (b_txs b)) ot ->
  (forall i t, nth_error (b_txs b) i = Some t -> complete_order (length (tx_outputs t)) (oo i)) ->
  eval_block_in_order c dflt_out dflt dflt_tx dflt_etx ot oo b = eval_block c b.
Proof.
  intros Ht Ho. unfold eval_block_in_order, eval_block. f_equal.
  rewrite collect_any_order.
  - transitivity (map (eval_tx c) (map snd (combine (seq 0 (length (b_txs b))) (b_txs b)))); [|now rewrite map_snd_combine_seq].
    rewrite map_map. apply map_ext_in. intros [i t] Hin. cbn [fst snd].
    apply eval_tx_any_order. apply (Ho i). destruct (in_combine_seq _ _ _ _ Hin) as [E _]. now rewrite Nat.sub_0_r in E.
  - intro i. rewrite combine_length, seq_length, Nat.min_id. apply Ht.
Qed.

(* non-vacuity: a reversed order with a repetition is complete for three elements *)
Example complete_order_example : complete_order 3 [2; 0; 1; 2]%nat.
Proof. intro i. split; intro H; [assert (i = 0 \/ i = 1 \/ i = 2)%nat as [->|[->| ->]] by lia; cbn; auto|cbn in H; lia]. Qed.
