(* C09, what "the merkle root holds" buys: the Bitcoin merkle root (odd levels duplicate their last hash) commits to the txid list *up to a hash collision*.
   The reduction is constructive and generic in the compression function H2: two different txid lists of the same length with the same root contain an explicit
   collision of H2 (two different input pairs with one output).  The converse side is stated too: lists of *different* lengths can share a root without any
   collision (the duplicated-tail mutation, CVE-2012-2459), so "same number of transactions" cannot be dropped from the statement, and --verify, which by
   verify_block_iff accepts exactly the blocks satisfying the three stated conditions, accepts such a mutated body. *)
From Coq Require Import List NArith Arith Lia.
Import ListNotations.
From RBP Require Import Bytes Merkle.

Section MP.
Variable H2 : bytes -> bytes -> bytes.

Definition collision : Prop := exists a b c d : bytes, (a, b) <> (c, d) /\ H2 a b = H2 c d.

Lemma bytes_eq_dec (x y : bytes) : {x = y} + {x <> y}.
Proof. apply list_eq_dec, N.eq_dec. Qed.

Lemma pair_dec (a b c d : bytes) : {(a, b) = (c, d)} + {(a, b) <> (c, d)}.
Proof.
  destruct (bytes_eq_dec a c) as [->|Hac]; [destruct (bytes_eq_dec b d) as [->|Hbd]|].
  - left; reflexivity.
  - right; intro E; inversion E; contradiction.
  - right; intro E; inversion E; contradiction.
Qed.

(* small cases, by computation on the implementation's loop *)
Lemma merkle_single x : merkle_root H2 [x] = Ok x.
Proof. reflexivity. Qed.
Lemma merkle_two a b : merkle_root H2 [a; b] = Ok (H2 a b).
Proof. reflexivity. Qed.
Lemma merkle_three a b c : merkle_root H2 [a; b; c] = Ok (H2 (H2 a b) (H2 c c)).
Proof. reflexivity. Qed.
Lemma merkle_four a b c d : merkle_root H2 [a; b; c; d] = Ok (H2 (H2 a b) (H2 c d)).
Proof. reflexivity. Qed.
Lemma merkle_empty_panics : merkle_root H2 [] = Panic.
Proof. reflexivity. Qed.

Lemma level_spec_length_eq : forall l l', length l = length l' -> length (level_spec H2 l) = length (level_spec H2 l').
Proof.
  assert (G : forall n l l', (length l <= n)%nat -> length l = length l' -> length (level_spec H2 l) = length (level_spec H2 l')).
  { induction n as [|n IH]; intros l l' Hn Hl.
    - destruct l; [destruct l'; [reflexivity|discriminate]|cbn in Hn; lia].
    - destruct l as [|a [|b r]]; destruct l' as [|a' [|b' r']]; try discriminate; try reflexivity.
      cbn [level_spec length]. f_equal. apply IH; [cbn in Hn; lia|cbn in Hl; lia]. }
  intros l l'. apply (G (length l)). lia.
Qed.

(* one level: equal images of equally long lists come from equal lists, or exhibit a collision *)
Lemma level_spec_inj : forall l l', length l = length l' -> level_spec H2 l = level_spec H2 l' -> l = l' \/ collision.
Proof.
  assert (G : forall n l l', (length l <= n)%nat -> length l = length l' -> level_spec H2 l = level_spec H2 l' -> l = l' \/ collision).
  { induction n as [|n IH]; intros l l' Hn Hl HE.
    - destruct l; [destruct l'; [left; reflexivity|discriminate]|cbn in Hn; lia].
    - destruct l as [|a [|b r]]; destruct l' as [|a' [|b' r']]; try discriminate.
      + left; reflexivity.
      + cbn [level_spec] in HE. injection HE as HE.
        destruct (pair_dec a a a' a') as [E|NE]; [left; inversion E; reflexivity|right; exists a, a, a', a'; split; assumption].
      + cbn [level_spec] in HE. injection HE as HE HR.
        destruct (pair_dec a b a' b') as [E|NE]; [|right; exists a, b, a', b'; split; assumption].
        inversion E; subst a' b'.
        destruct (IH r r') as [->|C]; [cbn in Hn; lia|cbn in Hl; lia|assumption|left; reflexivity|right; exact C]. }
  intros l l'. apply (G (length l)). lia.
Qed.

(* the whole tree *)
Theorem merkle_spec_collision : forall fuel l l' r, length l = length l' -> l <> l' ->
  merkle_spec H2 fuel l = Some r -> merkle_spec H2 fuel l' = Some r -> collision.
Proof.
  induction fuel as [|f IH]; intros l l' r Hl Hne H1 H1'; [discriminate|].
  destruct l as [|a [|b t]]; destruct l' as [|a' [|b' t']]; try discriminate.
  - cbn in H1, H1'. exfalso; apply Hne; congruence.
  - cbn [merkle_spec] in H1, H1'.
    destruct (list_eq_dec bytes_eq_dec (level_spec H2 (a :: b :: t)) (level_spec H2 (a' :: b' :: t'))) as [E|NE].
    + destruct (level_spec_inj _ _ Hl E) as [E'|C]; [contradiction|exact C].
    + eapply IH; [apply level_spec_length_eq; exact Hl|exact NE|exact H1|exact H1'].
Qed.

(* for the implementation's loop *)
Corollary merkle_root_collision l l' r : length l = length l' -> l <> l' ->
  merkle_root H2 l = Ok r -> merkle_root H2 l' = Ok r -> collision.
Proof.
  intros Hl Hne H1 H1'.
  assert (Hn : l <> []) by (intro; subst; discriminate).
  assert (Hn' : l' <> []) by (intro; subst; discriminate).
  destruct (merkle_root_spec H2 l Hn) as (x & Hx & Sx). destruct (merkle_root_spec H2 l' Hn') as (x' & Hx' & Sx').
  rewrite Hx in H1; injection H1 as ->. rewrite Hx' in H1'; injection H1' as ->.
  rewrite <- Hl in Sx'. eapply merkle_spec_collision; eauto.
Qed.

(* the duplicated-tail mutation: from the second level on nothing distinguishes an odd level from the same level with its last element written twice *)
Lemma level_spec_dup_last : forall l x, Nat.odd (length l) = false -> level_spec H2 (l ++ [x]) = level_spec H2 (l ++ [x; x]).
Proof.
  assert (G : forall n l x, (length l <= n)%nat -> Nat.odd (length l) = false -> level_spec H2 (l ++ [x]) = level_spec H2 (l ++ [x; x])).
  { induction n as [|n IH]; intros l x Hn Ho.
    - destruct l; [reflexivity|cbn in Hn; lia].
    - destruct l as [|a [|b r]]; [reflexivity|discriminate|].
      cbn [app level_spec]. f_equal. apply IH; [cbn in Hn; lia|exact Ho]. }
  intros l x. apply (G (length l)). lia.
Qed.

Theorem merkle_dup_tail_same_root l x : l <> [] -> Nat.odd (length l) = false ->
  forall f, merkle_spec H2 (S f) (l ++ [x]) = merkle_spec H2 (S f) (l ++ [x; x]).
Proof.
  intros Hne Ho f. destruct l as [|a [|b r]]; [congruence|discriminate|].
  cbn [app merkle_spec].
  change (a :: b :: r ++ [x]) with ((a :: b :: r) ++ [x]). change (a :: b :: r ++ [x; x]) with ((a :: b :: r) ++ [x; x]).
  rewrite (level_spec_dup_last (a :: b :: r) x Ho). reflexivity.
Qed.

Example dup_tail_three a b c : merkle_root H2 [a; b; c] = merkle_root H2 [a; b; c; c].
Proof. reflexivity. Qed.
End MP.
