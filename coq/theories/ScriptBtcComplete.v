(* C05, completeness direction: every verdict of the Bitcoin evaluator implies the byte shape the reference rules name.
   Together with the verdict theorems of ScriptBtcSpec / MultisigP this makes each rule an equivalence on well-formed byte strings, so
   "everything else is NotRecognised" is a theorem, not only a correspondence. *)
From RBP Require Import Bytes Hashes Codec Base58 Utf8 Bech32 Segwit ScriptBtc ScriptBtcP OpReturnP MultisigP ScriptBtcSpec.

(* ---------- inversion of the instruction iterator ---------- *)
Lemma wfb_cons b r : wfb (b :: r) = true -> b < 256 /\ wfb r = true.
Proof. unfold wfb. cbn [forallb]. intro H. apply andb_true_iff in H. destruct H as [H1 H2]. split; [lia|exact H2]. Qed.
Lemma wfb_firstn k l : wfb l = true -> wfb (firstn k l) = true.
Proof. revert l. induction k as [|k IH]; intros [|b r] H; try reflexivity. apply wfb_cons in H. destruct H as [Hb Hr]. cbn [firstn]. unfold wfb. cbn [forallb]. apply andb_true_iff. split; [lia|apply IH, Hr]. Qed.
Lemma wfb_skipn k l : wfb l = true -> wfb (skipn k l) = true.
Proof. revert l. induction k as [|k IH]; intros [|b r] H; try exact H; try reflexivity. apply wfb_cons in H. cbn [skipn]. apply IH, H. Qed.

Lemma take_inv n l d rest : take n l = ISome (IPush d) rest -> plen d = n /\ l = d ++ rest.
Proof.
  unfold take. destruct (N.ltb_spec (N.of_nat (length l)) n) as [Hlt|Hge]; [discriminate|]. intro H. inversion H; subst. split.
  - unfold plen. rewrite firstn_length. lia.
  - symmetry. apply firstn_skipn.
Qed.
Lemma inext_op_inv l c rest : inext_of l = ISome (IOp c) rest -> l = c :: rest /\ 0x4e < c.
Proof.
  destruct l as [|b r]; [discriminate|]. cbn [inext_of].
  destruct (N.leb_spec b 0x4b) as [H1|H1]; [unfold take; destruct (_ <? _); discriminate|].
  destruct (N.eqb_spec b 0x4c) as [H2|H2]; [destruct (_ <? _)%nat; [discriminate|unfold take; destruct (_ <? _); discriminate]|].
  destruct (N.eqb_spec b 0x4d) as [H3|H3]; [destruct (_ <? _)%nat; [discriminate|unfold take; destruct (_ <? _); discriminate]|].
  destruct (N.eqb_spec b 0x4e) as [H4|H4]; [destruct (_ <? _)%nat; [discriminate|unfold take; destruct (_ <? _); discriminate]|].
  intro H. inversion H; subst. split; [reflexivity|lia].
Qed.
Lemma inext_none_inv l : inext_of l = INone -> l = [].
Proof.
  destruct l as [|b r]; [reflexivity|]. cbn [inext_of].
  destruct (b <=? 0x4b); [unfold take; destruct (_ <? _); discriminate|].
  destruct (b =? 0x4c); [destruct (_ <? _)%nat; [discriminate|unfold take; destruct (_ <? _); discriminate]|].
  destruct (b =? 0x4d); [destruct (_ <? _)%nat; [discriminate|unfold take; destruct (_ <? _); discriminate]|].
  destruct (b =? 0x4e); [destruct (_ <? _)%nat; [discriminate|unfold take; destruct (_ <? _); discriminate]|]. discriminate.
Qed.
Lemma firstn_skipn_len {A} k (l:list A) : (k <= length l)%nat -> length (firstn k l) = k.
Proof. intro H. rewrite firstn_length. lia. Qed.

(* a push returned by the iterator was written in one of the four push forms, and that form fits *)
Lemma inext_push_inv l d rest : wfb l = true -> inext_of l = ISome (IPush d) rest -> exists f, pfits f d /\ l = enc_push f d ++ rest.
Proof.
  intros Hwf. destruct l as [|b r]; [discriminate|]. apply wfb_cons in Hwf. destruct Hwf as [Hb Hr]. cbn [inext_of].
  destruct (N.leb_spec b 0x4b) as [H1|H1].
  { intro H. apply take_inv in H. destruct H as [Hl ->]. exists Direct. cbn [pfits enc_push app]. split; [lia|now rewrite Hl]. }
  destruct (N.eqb_spec b 0x4c) as [H2|H2].
  { subst b. destruct (Nat.ltb_spec (length r) 1) as [|Hlen]; [discriminate|]. destruct r as [|x r']; [cbn in Hlen; lia|].
    apply wfb_cons in Hr. destruct Hr as [Hx Hr']. cbn [firstn skipn le_decode]. replace (x + 256 * 0) with x by lia.
    intro H. apply take_inv in H. destruct H as [Hl ->]. exists PD1. cbn [pfits enc_push app]. split; [lia|now rewrite Hl]. }
  destruct (N.eqb_spec b 0x4d) as [H3|H3].
  { subst b. destruct (Nat.ltb_spec (length r) 2) as [|Hlen]; [discriminate|].
    intro H. apply take_inv in H. destruct H as [Hl Hsk]. exists PD2.
    assert (Hw2 : wfb (firstn 2 r) = true) by now apply wfb_firstn.
    assert (Hl2 : length (firstn 2 r) = 2%nat) by now apply firstn_skipn_len.
    pose proof (le_decode_bound _ Hw2) as Hbd. rewrite Hl2 in Hbd. change (256 ^ N.of_nat 2) with 65536 in Hbd.
    cbn [pfits enc_push]. split; [lia|]. rewrite Hl. rewrite <- Hl2 at 1. rewrite (le_encode_decode _ Hw2).
    cbn [app]. f_equal. rewrite <- app_assoc, <- Hsk. symmetry. apply firstn_skipn. }
  destruct (N.eqb_spec b 0x4e) as [H4|H4].
  { subst b. destruct (Nat.ltb_spec (length r) 4) as [|Hlen]; [discriminate|].
    intro H. apply take_inv in H. destruct H as [Hl Hsk]. exists PD4.
    assert (Hw2 : wfb (firstn 4 r) = true) by now apply wfb_firstn.
    assert (Hl2 : length (firstn 4 r) = 4%nat) by now apply firstn_skipn_len.
    pose proof (le_decode_bound _ Hw2) as Hbd. rewrite Hl2 in Hbd. change (256 ^ N.of_nat 4) with (2^32) in Hbd.
    cbn [pfits enc_push]. split; [lia|]. rewrite Hl. rewrite <- Hl2 at 1. rewrite (le_encode_decode _ Hw2).
    cbn [app]. f_equal. rewrite <- app_assoc, <- Hsk. symmetry. apply firstn_skipn. }
  discriminate.
Qed.
Lemma inext_rest_wfb l i rest : wfb l = true -> inext_of l = ISome i rest -> wfb rest = true.
Proof.
  intros Hwf H. destruct i as [d|c].
  - destruct (inext_push_inv l d rest Hwf H) as (f & _ & ->). unfold wfb in *. rewrite forallb_app in Hwf. apply andb_true_iff in Hwf. apply Hwf.
  - apply inext_op_inv in H. destruct H as [-> _]. apply wfb_cons in Hwf. apply Hwf.
Qed.

Lemma pushnum_inv c p : pushnum c = Some p -> c = 0x50 + p /\ 1 <= p <= 16.
Proof. unfold pushnum. destruct ((0x51 <=? c) && (c <=? 0x60)) eqn:E; [|discriminate]. intro H. inversion H; subst. lia. Qed.

(* ---------- the key loop, inverted ---------- *)
Lemma ms_loop_inv required : forall fuel l k rest, wfb l = true -> ms_loop fuel l k required = Some rest ->
  exists keys, Forall (fun fk => pfits (fst fk) (snd fk)) keys /\
    l = keys_bytes keys ++ [0x50 + (k + N.of_nat (length keys))] ++ rest /\ 1 <= k + N.of_nat (length keys) <= 16 /\ required <= k + N.of_nat (length keys).
Proof.
  induction fuel as [|fu IH]; intros l k rest Hwf H; [discriminate|]. cbn [ms_loop] in H.
  destruct (inext_of l) as [| |[d|c] r] eqn:E; try discriminate.
  - destruct (inext_push_inv l d r Hwf E) as (f & Hfit & ->).
    destruct (IH r (k + 1) rest (inext_rest_wfb _ _ _ Hwf E) H) as (keys & HF & -> & Hn & Hreq).
    exists ((f, d) :: keys). cbn [length keys_bytes flat_map fst snd]. fold (keys_bytes keys).
    replace (k + N.of_nat (S (length keys))) with (k + 1 + N.of_nat (length keys)) by lia.
    split; [constructor; [exact Hfit|exact HF]|]. split; [now rewrite <- app_assoc|]. split; assumption.
  - destruct (pushnum c) as [p|] eqn:Ep; [|discriminate]. destruct ((p =? k) && (required <=? k)) eqn:Ec; [|discriminate].
    inversion H; subst. apply inext_op_inv in E. destruct E as [-> _]. apply pushnum_inv in Ep. destruct Ep as [-> Hp].
    exists []. cbn [length keys_bytes flat_map app]. replace (k + N.of_nat 0) with k by lia.
    assert (p = k) by lia. subst p. split; [constructor|]. split; [reflexivity|]. split; lia.
Qed.

(* ---------- bare multisig: the predicate holds exactly on OP_m <push>{n} OP_n OP_CHECKMULTISIG, 1 <= m <= n <= 16 ---------- *)
Theorem is_multisig_shape l : wfb l = true -> is_multisig l = true ->
  exists m keys, Forall (fun fk => pfits (fst fk) (snd fk)) keys /\ 1 <= m /\ m <= N.of_nat (length keys) /\ N.of_nat (length keys) <= 16 /\ l = ms_script m keys.
Proof.
  intros Hwf H. unfold is_multisig in H.
  destruct (inext_of l) as [| |[d|c] rest] eqn:E; try discriminate.
  destruct (pushnum c) as [m|] eqn:Ep; [|discriminate].
  destruct (ms_loop (S (length rest)) rest 0 m) as [rest2|] eqn:El; [|discriminate].
  destruct (inext_of rest2) as [| |[d2|c2] rest3] eqn:E2; try discriminate.
  pose proof (inext_rest_wfb _ _ _ Hwf E) as Hwr.
  apply inext_op_inv in E. destruct E as [-> _]. apply pushnum_inv in Ep. destruct Ep as [-> Hm].
  destruct (ms_loop_inv m _ _ _ _ Hwr El) as (keys & HF & -> & Hn & Hreq). cbn [N.add] in *.
  replace (0 + N.of_nat (length keys)) with (N.of_nat (length keys)) in * by lia.
  apply inext_op_inv in E2. destruct E2 as [-> _].
  assert (c2 = 0xae /\ rest3 = []) as [-> ->].
  { destruct (N.eq_dec c2 0xae) as [->|Hne].
    - split; [reflexivity|]. destruct (inext_of rest3) eqn:E3; try discriminate. now apply inext_none_inv.
    - exfalso. destruct c2 as [|p]; [discriminate|]. repeat (destruct p as [p|p|]; try discriminate). congruence. }
  exists m, keys. repeat split; try lia; try exact HF.
Qed.
Theorem is_multisig_iff l : wfb l = true ->
  (is_multisig l = true <-> exists m keys, Forall (fun fk => pfits (fst fk) (snd fk)) keys /\ 1 <= m /\ m <= N.of_nat (length keys) /\ N.of_nat (length keys) <= 16 /\ l = ms_script m keys).
Proof.
  intro Hwf. split; [now apply is_multisig_shape|]. intros (m & keys & HF & H1 & H2 & H3 & ->). now apply is_multisig_of_shape.
Qed.

(* ---------- the decision list of eval_btc, read backwards ---------- *)
Definition not_opreturn_first (l:bytes) : Prop := forall r, l <> 0x6a :: r.
Lemma eval_btc_unfold n c r : c <> 0x6a ->
  eval_btc n (c :: r) =
    if return_or_illegal c then (BUnspendable, None) else
    let l := c :: r in let addr := address_from_script n l in
    match p2pk_key l with
    | Some k => (BP2PK, Some (public_key_to_addr (pkh_ver n) k))
    | None =>
      if is_p2pkh l then (BP2PKH, addr) else if is_p2sh l then (BP2SH, addr)
      else if is_p2wpkh l then (BP2WPKH, addr) else if is_p2wsh l then (BP2WSH, addr)
      else if is_p2tr l then (BP2TR, addr)
      else match witness_version l with
           | Some _ => (BWitnessProgram, addr)
           | None => if is_multisig l then (BMultiSig, addr) else (BNotRecognised, addr)
           end
    end.
Proof.
  intro Hne. unfold eval_btc.
  assert (E : forall A (x y:A), match c with 0x6a => x | _ => y end = y).
  { intros A x y. destruct c as [|p]; [reflexivity|]. repeat (destruct p as [p|p|]; try reflexivity). exfalso; apply Hne; reflexivity. }
  now rewrite E.
Qed.

(* which branch produced a verdict: each type is produced by exactly one branch, whose guard is the type's predicate *)
Theorem eval_btc_type_inv n l :
  match fst (eval_btc n l) with
  | BOpReturn _ => exists r, l = 0x6a :: r
  | BUnspendable => exists c r, l = c :: r /\ c <> 0x6a /\ return_or_illegal c = true
  | BP2PK => exists k, p2pk_key l = Some k
  | BP2PKH => is_p2pkh l = true /\ p2pk_key l = None
  | BP2SH => is_p2sh l = true
  | BP2WPKH => is_p2wpkh l = true
  | BP2WSH => is_p2wsh l = true
  | BP2TR => is_p2tr l = true
  | BWitnessProgram => (exists v, witness_version l = Some v) /\ is_p2wpkh l = false /\ is_p2wsh l = false /\ is_p2tr l = false
  | BMultiSig => is_multisig l = true /\ witness_version l = None
  | BNotRecognised => l = [] \/ (exists c r, l = c :: r /\ c <> 0x6a /\ return_or_illegal c = false) /\ p2pk_key l = None /\ is_p2pkh l = false /\ is_p2sh l = false
                      /\ witness_version l = None /\ is_multisig l = false
  end.
Proof.
  destruct l as [|c r]; [cbn; now left|].
  destruct (N.eq_dec c 0x6a) as [->|Hne]; [cbn [eval_btc fst]; eauto|].
  rewrite (eval_btc_unfold n c r Hne). cbv zeta.
  destruct (return_or_illegal c) eqn:Er; [cbn [fst]; eauto|].
  destruct (p2pk_key (c :: r)) as [k|] eqn:Ek; [cbn [fst]; eauto|].
  destruct (is_p2pkh (c :: r)) eqn:E1; [cbn [fst]; auto|].
  destruct (is_p2sh (c :: r)) eqn:E2; [cbn [fst]; auto|].
  destruct (is_p2wpkh (c :: r)) eqn:E3; [cbn [fst]; auto|].
  destruct (is_p2wsh (c :: r)) eqn:E4; [cbn [fst]; auto|].
  destruct (is_p2tr (c :: r)) eqn:E5; [cbn [fst]; auto|].
  destruct (witness_version (c :: r)) as [v|] eqn:Ew; [cbn [fst]; eauto|].
  destruct (is_multisig (c :: r)) eqn:Em; cbn [fst]; [auto|].
  right. repeat split; eauto.
Qed.

(* ---------- each rule as an equivalence ---------- *)
Theorem p2pkh_iff n l : fst (eval_btc n l) = BP2PKH <-> exists h, length h = 20%nat /\ l = [0x76; 0xa9; 0x14] ++ h ++ [0x88; 0xac].
Proof.
  split.
  - intro H. pose proof (eval_btc_type_inv n l) as I. rewrite H in I. now apply is_p2pkh_shape.
  - intros (h & Hl & ->). now rewrite (p2pkh_verdict n h Hl).
Qed.
Theorem p2sh_iff n l : fst (eval_btc n l) = BP2SH <-> exists h, length h = 20%nat /\ l = [0xa9; 0x14] ++ h ++ [0x87].
Proof.
  split.
  - intro H. pose proof (eval_btc_type_inv n l) as I. rewrite H in I. now apply is_p2sh_shape.
  - intros (h & Hl & ->). now rewrite (p2sh_verdict n h Hl).
Qed.
Theorem p2pk_iff n l : fst (eval_btc n l) = BP2PK <-> exists k, (length k = 33%nat \/ length k = 65%nat) /\ l = [N.of_nat (length k)] ++ k ++ [0xac].
Proof.
  split.
  - intro H. pose proof (eval_btc_type_inv n l) as I. rewrite H in I. destruct I as [k Hk]. exists k. now apply p2pk_shape.
  - intros (k & Hl & ->). now rewrite (p2pk_verdict n k Hl).
Qed.
Theorem multisig_iff n l : wfb l = true ->
  (fst (eval_btc n l) = BMultiSig <->
   exists m keys, Forall (fun fk => pfits (fst fk) (snd fk)) keys /\ 1 <= m /\ m <= N.of_nat (length keys) /\ N.of_nat (length keys) <= 16 /\ l = ms_script m keys).
Proof.
  intro Hwf. split.
  - intro H. pose proof (eval_btc_type_inv n l) as I. rewrite H in I. destruct I as [I _]. now apply is_multisig_shape.
  - intros (m & keys & HF & H1 & H2 & H3 & ->). now rewrite (multisig_verdict n m keys HF H1 H2 H3).
Qed.
Theorem unspendable_iff n l : fst (eval_btc n l) = BUnspendable <-> exists c r, l = c :: r /\ c <> 0x6a /\ return_or_illegal c = true.
Proof.
  split.
  - intro H. pose proof (eval_btc_type_inv n l) as I. now rewrite H in I.
  - intros (c & r & -> & Hne & Hr). now rewrite (unspendable_verdict n c r Hne Hr).
Qed.

(* "everything else is NotRecognised": a well-formed script that has none of the named shapes gets exactly that verdict and no address *)
Definition witness_shaped (l:bytes) : Prop := exists v, witness_version l = Some v.
Theorem not_recognised_iff n l : wfb l = true ->
  (fst (eval_btc n l) = BNotRecognised <->
   (forall r, l <> 0x6a :: r) /\ (forall c r, l = c :: r -> return_or_illegal c = false) /\
   (forall k, (length k = 33%nat \/ length k = 65%nat) -> l <> [N.of_nat (length k)] ++ k ++ [0xac]) /\
   (forall h, length h = 20%nat -> l <> [0x76; 0xa9; 0x14] ++ h ++ [0x88; 0xac]) /\
   (forall h, length h = 20%nat -> l <> [0xa9; 0x14] ++ h ++ [0x87]) /\
   ~ witness_shaped l /\
   (forall m keys, Forall (fun fk => pfits (fst fk) (snd fk)) keys -> 1 <= m -> m <= N.of_nat (length keys) -> N.of_nat (length keys) <= 16 -> l <> ms_script m keys)).
Proof.
  intro Hwf. split.
  - intro H. pose proof (eval_btc_type_inv n l) as I. rewrite H in I.
    destruct I as [->|((c & r & -> & Hne & Hr) & Hk & Hkh & Hsh & Hw & Hm)].
    + split; [discriminate|]. split; [discriminate|].
      split; [intros k _; discriminate|]. split; [intros h _; discriminate|]. split; [intros h _; discriminate|].
      split; [intros [v Hv]; cbn in Hv; discriminate|]. intros m keys _ _ _ _. unfold ms_script. discriminate.
    + split; [intros r' E; inversion E; congruence|]. split; [intros c' r' E; inversion E; subst; exact Hr|].
      split; [intros k Hl E; assert (p2pk_key (c :: r) = Some k) by (apply p2pk_shape; now split); congruence|].
      split; [intros h Hl E; assert (is_p2pkh (c :: r) = true) by (apply is_p2pkh_shape; eauto); congruence|].
      split; [intros h Hl E; assert (is_p2sh (c :: r) = true) by (apply is_p2sh_shape; eauto); congruence|].
      split; [intros [v Hv]; congruence|].
      intros m keys HF H1 H2 H3 E. rewrite E in Hm. rewrite (is_multisig_of_shape m keys HF H1 H2 H3) in Hm. discriminate.
  - intros (H6a & Hri & Hpk & Hkh & Hsh & Hws & Hms).
    pose proof (eval_btc_type_inv n l) as I. destruct (fst (eval_btc n l)) eqn:E; try reflexivity; exfalso.
    + destruct I as [r ->]. now apply (H6a r).
    + destruct I as [I _]. destruct (is_multisig_shape l Hwf I) as (m & keys & HF & H1 & H2 & H3 & El). now apply (Hms m keys).
    + destruct I as [k Hk]. apply p2pk_shape in Hk. destruct Hk as [Hl El]. now apply (Hpk k).
    + destruct I as [I _]. apply is_p2pkh_shape in I. destruct I as (h & Hl & El). now apply (Hkh h).
    + apply is_p2sh_shape in I. destruct I as (h & Hl & El). now apply (Hsh h).
    + apply Hws. unfold witness_shaped. unfold is_p2wpkh in I. destruct (witness_version l) as [v|]; [now exists v|]. rewrite andb_false_r in I. discriminate.
    + apply Hws. unfold witness_shaped. unfold is_p2wsh in I. destruct (witness_version l) as [v|]; [now exists v|]. rewrite andb_false_r in I. discriminate.
    + apply Hws. destruct I as [I _]. exact I.
    + apply Hws. unfold witness_shaped. unfold is_p2tr in I. destruct (witness_version l) as [v|]; [now exists v|]. rewrite andb_false_r in I. discriminate.
    + destruct I as (c & r & -> & Hne & Hr). rewrite (Hri c r eq_refl) in Hr. discriminate.
Qed.

(* ---------- witness programs: the version predicate holds exactly on <OP_0 | OP_1..OP_16> <direct push of 2..40 bytes> ---------- *)
Theorem witness_version_shape l v : witness_version l = Some v ->
  exists prog, v <= 16 /\ (2 <= length prog <= 40)%nat /\ l = [wit_opcode v; N.of_nat (length prog)] ++ prog.
Proof.
  unfold witness_version, len, nthb. destruct ((4 <=? length l) && (length l <=? 42))%nat eqn:El; [|discriminate].
  apply andb_true_iff in El. destruct El as [L1 L2]. apply Nat.leb_le in L1, L2.
  destruct l as [|a [|p prog]]; [cbn in L1; lia|cbn in L1; lia|]. cbn [nth length] in *.
  destruct ((p <? 2) || (40 <? p)) eqn:Ep; [discriminate|].
  replace (S (S (length prog)) - 2)%nat with (length prog) by lia.
  destruct (N.eqb_spec (N.of_nat (length prog)) p) as [Hp|Hp]; [|discriminate]. cbn [negb].
  intro H. exists prog. subst p.
  assert (Hv : v <= 16 /\ a = wit_opcode v).
  { unfold wit_opcode. destruct (N.eqb_spec a 0) as [->|Ha].
    - inversion H; subst. split; [lia|reflexivity].
    - apply pushnum_inv in H. destruct H as [-> Hr]. replace (v =? 0) with false by lia. split; [lia|reflexivity]. }
  destruct Hv as [Hv ->]. split; [exact Hv|]. split; [lia|reflexivity].
Qed.
Theorem witness_iff n l :
  (fst (eval_btc n l) = BP2WPKH \/ fst (eval_btc n l) = BP2WSH \/ fst (eval_btc n l) = BP2TR \/ fst (eval_btc n l) = BWitnessProgram) <->
  exists v prog, v <= 16 /\ (2 <= length prog <= 40)%nat /\ l = [wit_opcode v; N.of_nat (length prog)] ++ prog.
Proof.
  split.
  - intro H. pose proof (eval_btc_type_inv n l) as I.
    assert (W : exists v, witness_version l = Some v).
    { destruct H as [H|[H|[H|H]]]; rewrite H in I.
      - unfold is_p2wpkh in I. destruct (witness_version l) as [v|]; [eauto|]. rewrite andb_false_r in I. discriminate.
      - unfold is_p2wsh in I. destruct (witness_version l) as [v|]; [eauto|]. rewrite andb_false_r in I. discriminate.
      - unfold is_p2tr in I. destruct (witness_version l) as [v|]; [eauto|]. rewrite andb_false_r in I. discriminate.
      - apply I. }
    destruct W as [v Hv]. exists v. now apply witness_version_shape.
  - intros (v & prog & Hv & Hl & ->). rewrite (witness_verdict n v prog Hv Hl). cbn [fst]. unfold wit_type.
    destruct ((v =? 0) && (length prog =? 20)%nat); [now left|]. destruct ((v =? 0) && (length prog =? 32)%nat); [now right; left|].
    destruct ((v =? 1) && (length prog =? 32)%nat); [now right; right; left|now right; right; right].
Qed.
(* the type inside the witness family is decided by version and program length alone *)
Theorem witness_type_exact n v prog : v <= 16 -> (2 <= length prog <= 40)%nat ->
  fst (eval_btc n ([wit_opcode v; N.of_nat (length prog)] ++ prog)) = wit_type v (length prog).
Proof. intros Hv Hl. now rewrite (witness_verdict n v prog Hv Hl). Qed.

(* non-vacuity: a 1-of-2 multisig script with one key pushed through OP_PUSHDATA1 is a witness of the multisig rule; a script with a key slot
   holding OP_2 is not of the shape (and the evaluator says NotRecognised) *)
Example multisig_witness : fst (eval_btc mainnet (ms_script 1 [(Direct, [2; 7; 7]); (PD1, [3; 9])])) = BMultiSig.
Proof. vm_compute. reflexivity. Qed.
Example multisig_pushnum_in_key_slot : fst (eval_btc mainnet [0x51; 3; 2; 7; 7; 0x52; 0x52; 0xae]) = BNotRecognised.
Proof. vm_compute. reflexivity. Qed.
