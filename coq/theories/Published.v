(* Published constant tables: the values the properties speak about (coin version bytes and AuxPoW thresholds as published,
   status bits of Bitcoin Core, script templates, reward schedule, file-name literals). Hand-maintained; props/Tables.v proves
   that the tables regenerated from /repo/src (gen/SrcGen.v) are equal to these. *)
From Coq Require Import List NArith Bool.
Import ListNotations.
Open Scope N_scope.
(* coins: name, magic, version_id, genesis hash (internal byte order), AuxPoW activation version *)
Definition coins : list (list N * (N * N * list N * option N)) := [
  ([98; 105; 116; 99; 111; 105; 110], (3652501241, 0, [111; 226; 140; 10; 182; 241; 179; 114; 193; 166; 162; 70; 174; 99; 247; 79; 147; 30; 131; 101; 225; 90; 8; 156; 104; 214; 25; 0; 0; 0; 0; 0], None));
  ([100; 111; 103; 101; 99; 111; 105; 110], (3233857728, 30, [145; 86; 53; 44; 24; 24; 179; 46; 144; 201; 231; 146; 239; 214; 161; 26; 130; 254; 121; 86; 166; 48; 240; 59; 190; 226; 54; 206; 218; 227; 145; 26], Some 6422786));
  ([108; 105; 116; 101; 99; 111; 105; 110], (3686187259, 48, [226; 191; 4; 126; 126; 90; 25; 26; 164; 239; 52; 211; 20; 151; 157; 201; 152; 110; 15; 25; 37; 30; 218; 186; 89; 64; 253; 31; 227; 101; 167; 18], None));
  ([109; 121; 114; 105; 97; 100; 99; 111; 105; 110], (4000728495, 50, [133; 164; 30; 250; 207; 131; 117; 143; 247; 50; 143; 179; 240; 239; 25; 246; 75; 49; 61; 234; 160; 65; 132; 147; 181; 32; 192; 228; 253; 15; 0; 0], None));
  ([110; 97; 109; 101; 99; 111; 105; 110], (4273258233, 52, [112; 199; 169; 240; 162; 251; 61; 72; 230; 53; 167; 13; 91; 21; 124; 128; 126; 88; 200; 251; 69; 235; 44; 94; 44; 183; 98; 0; 0; 0; 0; 0], Some 65793));
  ([110; 111; 116; 101; 98; 108; 111; 99; 107; 99; 104; 97; 105; 110], (3824018932, 53, [54; 72; 181; 78; 236; 164; 113; 64; 203; 54; 215; 103; 26; 32; 21; 79; 245; 141; 101; 16; 61; 145; 186; 87; 45; 65; 92; 24; 123; 62; 15; 39], None));
  ([116; 101; 115; 116; 110; 101; 116; 51], (118034699, 111, [67; 73; 127; 215; 248; 38; 149; 113; 8; 244; 163; 15; 217; 206; 195; 174; 186; 121; 151; 32; 132; 233; 14; 173; 1; 234; 51; 9; 0; 0; 0; 0], None));
  ([117; 110; 111; 98; 116; 97; 110; 105; 117; 109], (62248195, 130, [117; 43; 197; 226; 232; 203; 108; 217; 82; 229; 50; 82; 48; 104; 154; 9; 144; 54; 96; 125; 25; 204; 220; 16; 184; 255; 95; 252; 194; 4; 0; 0], None))
].
Definition BLOCK_VALID_CHAIN : N := 4.
Definition BLOCK_HAVE_DATA : N := 8.
Definition BLOCK_HAVE_UNDO : N := 16.
Definition status_mask : N := 12.
Definition file_mask : N := 24.
Definition pos_mask : N := 8.
(* fork-coin templates in cascade order: pattern tag, slots (None = data) *)
Definition templates : list (N * list (option N)) := [
  (3, [Some 118; Some 169; None; Some 136; Some 172]);
  (2, [None; Some 172]);
  (4, [Some 169; None; Some 135]);
  (0, [Some 106; None]);
  (1, [Some 82; None; None; None; Some 83; Some 174])
].
Definition p2sh_version : N := 5.
Definition addr_slots : N * N * N := (2, 0, 1).
Definition reward : N := 5000000000.
Definition halving_interval : N := 210000.
Definition halving_cap : N := 64.
Definition reader_bufsize : N := 32768.
Definition blk_prefix : list N := [98; 108; 107].
Definition blk_ext : list N := [46; 100; 97; 116].
Definition writer_caps : N * N * N := (4000000, 4000000, 4000000).
Definition csv_stems : list (list N) := [[98; 108; 111; 99; 107; 115]; [116; 114; 97; 110; 115; 97; 99; 116; 105; 111; 110; 115]; [116; 120; 95; 105; 110]; [116; 120; 95; 111; 117; 116]].
Definition unspent_stem : list N := [117; 110; 115; 112; 101; 110; 116].
Definition balances_stem : list N := [98; 97; 108; 97; 110; 99; 101; 115].
Definition unspent_header : list N := [116; 120; 105; 100; 59; 105; 110; 100; 101; 120; 79; 117; 116; 59; 104; 101; 105; 103; 104; 116; 59; 118; 97; 108; 117; 101; 59; 97; 100; 100; 114; 101; 115; 115].
Definition balances_header : list N := [97; 100; 100; 114; 101; 115; 115; 59; 98; 97; 108; 97; 110; 99; 101].
Definition opreturn_format : list N := [104; 101; 105; 103; 104; 116; 58; 32; 123; 58; 32; 60; 57; 125; 32; 116; 120; 105; 100; 58; 32; 123; 125; 32; 32; 32; 32; 100; 97; 116; 97; 58; 32; 123; 125].
