(* Prototype: output protocol of the file-producing callbacks (csvdump.rs / unspentcsvdump.rs / balances.rs) with the F4 repair
   (flush every writer, then rename), std BufWriter semantics, a per-file size limit, and crash prefixes.  C10 / C13 *)
From RBP Require Import Bytes.

Definition name := N.
Inductive osop := OCreate (f:name) | OAppend (f:name) (d:bytes) | ORename (a b:name).
Definition fs := list (name * bytes).
Fixpoint fs_get (f:name) (s:fs) : option bytes := match s with [] => None | (g, c) :: r => if g =? f then Some c else fs_get f r end.
Definition fs_del (f:name) (s:fs) : fs := filter (fun e => negb (fst e =? f)) s.
Definition fs_put (f:name) (c:bytes) (s:fs) : fs := (f, c) :: fs_del f s.
Definition apply_op (s:fs) (o:osop) : fs :=
  match o with
  | OCreate f => fs_put f [] s                                   (* File::create truncates *)
  | OAppend f d => match fs_get f s with Some c => fs_put f (c ++ d) s | None => s end
  | ORename a b => match fs_get a s with Some c => fs_put b c (fs_del a s) | None => s end
  end.
Definition apply_trace (s:fs) (t:list osop) : fs := fold_left apply_op t s.

Lemma fs_get_del f g s : fs_get f (fs_del g s) = if f =? g then None else fs_get f s.
Proof.
  induction s as [|[h c] r IH]; cbn [fs_del filter fs_get fst].
  - destruct (f =? g); reflexivity.
  - fold (fs_del g r). destruct (N.eqb_spec h g) as [->|Hne]; cbn [negb fs_get].
    + rewrite IH. destruct (N.eqb_spec f g) as [->|Hfg]; [reflexivity|].
      destruct (N.eqb_spec g f); [congruence|reflexivity].
    + rewrite IH. destruct (N.eqb_spec h f) as [->|Hhf]; [|reflexivity].
      destruct (N.eqb_spec f g); [congruence|reflexivity].
Qed.
Lemma fs_get_put f g c s : fs_get f (fs_put g c s) = if f =? g then Some c else fs_get f s.
Proof. unfold fs_put. cbn. rewrite fs_get_del, (N.eqb_sym g f). destruct (f =? g); reflexivity. Qed.

(* ---------- one BufWriter<File> over a tmp file with a size limit L (RLIMIT_FSIZE, SIGXFSZ ignored) ---------- *)
Record bw := { tmp : name; disk : N; buf : bytes }.      (* disk = bytes already on disk *)
(* File::write_all: writes what fits, fails if something is left *)
Definition os_write_all (L:N) (w:bw) (d:bytes) : list osop * bw * bool :=
  let room := L - disk w in
  if N.of_nat (length d) <=? room then ((if d then [] else [OAppend (tmp w) d]), {| tmp := tmp w; disk := disk w + N.of_nat (length d); buf := buf w |}, true)
  else let part := firstn (N.to_nat room) d in
       ((if part then [] else [OAppend (tmp w) part]), {| tmp := tmp w; disk := disk w + N.of_nat (length part); buf := buf w |}, false).
Definition flush_buf (L:N) (w:bw) : list osop * bw * bool :=
  let '(ops, w', ok) := os_write_all L w (buf w) in
  if ok then (ops, {| tmp := tmp w'; disk := disk w'; buf := [] |}, true)
  else (ops, {| tmp := tmp w'; disk := disk w'; buf := skipn (N.to_nat (L - disk w)) (buf w) |}, false).
(* std::io::BufWriter::write_all / write_all_cold *)
Definition bw_write_all (cap:nat) (L:N) (w:bw) (d:bytes) : list osop * bw * bool :=
  if (length d <? cap - length (buf w))%nat then ([], {| tmp := tmp w; disk := disk w; buf := buf w ++ d |}, true)
  else
    let '(ops1, w1, ok1) := if (cap - length (buf w) <? length d)%nat then flush_buf L w else ([], w, true) in
    if negb ok1 then (ops1, w1, false) else
    if (cap <=? length d)%nat then let '(ops2, w2, ok2) := os_write_all L w1 d in (ops1 ++ ops2, w2, ok2)
    else (ops1, {| tmp := tmp w1; disk := disk w1; buf := buf w1 ++ d |}, true).

(* ---------- the callback: k writers; rows addressed to writer i; completion = flush all, rename all ---------- *)
Record wr := { w_bw : bw; w_final : name; w_logical : bytes }.    (* logical = everything handed to write_all so far *)
Definition exitcode := N.
Fixpoint write_to (cap:nat) (L:N) (i:nat) (d:bytes) (ws:list wr) : list osop * list wr * bool :=
  match ws, i with
  | [], _ => ([], [], true)
  | w :: r, O => let '(ops, b, ok) := bw_write_all cap L (w_bw w) d in
                 (ops, {| w_bw := b; w_final := w_final w; w_logical := w_logical w ++ d |} :: r, ok)
  | w :: r, S j => let '(ops, r', ok) := write_to cap L j d r in (ops, w :: r', ok)
  end.
Fixpoint run_writes (cap:nat) (L:N) (rows:list (nat * bytes)) (ws:list wr) : list osop * list wr * bool :=
  match rows with
  | [] => ([], ws, true)
  | (i, d) :: r => let '(ops, ws1, ok) := write_to cap L i d ws in
                   if ok then let '(ops2, ws2, ok2) := run_writes cap L r ws1 in (ops ++ ops2, ws2, ok2)
                   else (ops, ws1, false)            (* `?` propagates to main -> process::exit(1), no destructors *)
  end.
Fixpoint flush_all (L:N) (ws:list wr) : list osop * list wr * bool :=
  match ws with
  | [] => ([], [], true)
  | w :: r => let '(ops, b, ok) := flush_buf L (w_bw w) in
              let w' := {| w_bw := b; w_final := w_final w; w_logical := w_logical w |} in
              if ok then let '(ops2, r', ok2) := flush_all L r in (ops ++ ops2, w' :: r', ok2) else (ops, w' :: r, false)
  end.
Definition renames (ws:list wr) : list osop := map (fun w => ORename (tmp (w_bw w)) (w_final w)) ws.
Definition creates (ws:list wr) : list osop := map (fun w => OCreate (tmp (w_bw w))) ws.

Definition run (cap:nat) (L:N) (ws0:list wr) (rows:list (nat * bytes)) : list osop * exitcode :=
  let '(ops1, ws1, ok1) := run_writes cap L rows ws0 in
  if negb ok1 then (creates ws0 ++ ops1, 1) else
  let '(ops2, ws2, ok2) := flush_all L ws1 in
  if negb ok2 then (creates ws0 ++ ops1 ++ ops2, 1) else
  (creates ws0 ++ ops1 ++ ops2 ++ renames ws2, 0).

(* ---------- invariant of one writer: what is on disk plus what is buffered is what was written ---------- *)
Definition winv (s:fs) (w:wr) : Prop :=
  exists c, fs_get (tmp (w_bw w)) s = Some c /\ N.of_nat (length c) = disk (w_bw w) /\ c ++ buf (w_bw w) = w_logical w.

Lemma os_write_all_inv L s w d ops b ok :
  os_write_all L (w_bw w) d = (ops, b, ok) ->
  forall c, fs_get (tmp (w_bw w)) s = Some c -> N.of_nat (length c) = disk (w_bw w) ->
  exists c', fs_get (tmp b) (apply_trace s ops) = Some c' /\ N.of_nat (length c') = disk b /\ tmp b = tmp (w_bw w) /\ buf b = buf (w_bw w) /\
             (forall g, g <> tmp (w_bw w) -> fs_get g (apply_trace s ops) = fs_get g s) /\
             (if ok then c' = c ++ d else exists k, c' = c ++ firstn k d /\ (k < length d)%nat /\ L < disk (w_bw w) + N.of_nat (length d)).
Proof.
  unfold os_write_all. intros H c Hc Hl.
  destruct (N.leb_spec (N.of_nat (length d)) (L - disk (w_bw w))) as [Hfit|Hno]; inversion H; subst; clear H; cbn [tmp disk buf].
  - destruct d as [|x d']; cbn [apply_trace fold_left apply_op].
    + exists c. rewrite app_nil_r. repeat split; auto; cbn; lia.
    + rewrite Hc. exists (c ++ x :: d'). rewrite fs_get_put, N.eqb_refl. repeat split; auto.
      * rewrite app_length. cbn [length] in *. lia.
      * intros g Hg. rewrite fs_get_put. destruct (N.eqb_spec g (tmp (w_bw w))); [contradiction|reflexivity].
  - set (part := firstn (N.to_nat (L - disk (w_bw w))) d).
    assert (Hpl : (length part <= N.to_nat (L - disk (w_bw w)))%nat) by (unfold part; rewrite firstn_length; lia).
    destruct part as [|x p'] eqn:Ep; cbn [apply_trace fold_left apply_op].
    + exists c. repeat split; auto; [cbn; lia|]. exists 0%nat. cbn. rewrite app_nil_r. repeat split; [|lia].
      destruct d; [cbn in Hno; lia|cbn; lia].
    + rewrite Hc. exists (c ++ x :: p'). rewrite fs_get_put, N.eqb_refl. repeat split; auto.
      * rewrite app_length. cbn [length] in *. lia.
      * intros g Hg. rewrite fs_get_put. destruct (N.eqb_spec g (tmp (w_bw w))); [contradiction|reflexivity].
      * exists (N.to_nat (L - disk (w_bw w))). fold part. rewrite Ep. repeat split; lia.
Qed.

(* ---------- which names an op can change ---------- *)
Definition only_appends_to (names:list name) (ops:list osop) : Prop :=
  Forall (fun o => match o with OAppend f _ => In f names | _ => False end) ops.

Lemma apply_appends_frame names ops s g : only_appends_to names ops -> ~ In g names -> fs_get g (apply_trace s ops) = fs_get g s.
Proof.
  intros H Hg. revert s. induction H as [|o r Ho Hr IH]; intro s; [reflexivity|].
  cbn [apply_trace fold_left]. fold (apply_trace (apply_op s o) r). rewrite IH.
  destruct o as [f|f d|a b]; try contradiction. cbn [apply_op].
  destruct (fs_get f s); [|reflexivity]. rewrite fs_get_put. destruct (N.eqb_spec g f); [subst; contradiction|reflexivity].
Qed.

Lemma only_appends_app names a b : only_appends_to names a -> only_appends_to names b -> only_appends_to names (a ++ b).
Proof. intros Ha Hb. apply Forall_app. split; assumption. Qed.

Lemma os_write_all_ops L w d ops b ok : os_write_all L w d = (ops, b, ok) -> only_appends_to [tmp w] ops /\ tmp b = tmp w.
Proof.
  unfold os_write_all. destruct (N.of_nat (length d) <=? L - disk w); intro H; inversion H; subst; clear H; cbn [tmp].
  - split; [|reflexivity]. destruct d; constructor; [cbn; auto|constructor].
  - split; [|reflexivity]. destruct (firstn (N.to_nat (L - disk w)) d); constructor; [cbn; auto|constructor].
Qed.

Lemma flush_buf_ops L w ops b ok : flush_buf L w = (ops, b, ok) -> only_appends_to [tmp w] ops /\ tmp b = tmp w.
Proof.
  unfold flush_buf. destruct (os_write_all L w (buf w)) as [[o1 w1] ok1] eqn:E.
  apply os_write_all_ops in E as [Ho Ht]. destruct ok1; intro H; inversion H; subst; cbn [tmp]; auto.
Qed.

Lemma bw_write_all_ops cap L w d ops b ok : bw_write_all cap L w d = (ops, b, ok) -> only_appends_to [tmp w] ops /\ tmp b = tmp w.
Proof.
  unfold bw_write_all. destruct (length d <? cap - length (buf w))%nat.
  { intro H; inversion H; subst; cbn [tmp]. split; [constructor|reflexivity]. }
  destruct (if (cap - length (buf w) <? length d)%nat then flush_buf L w else ([], w, true)) as [[o1 w1] ok1] eqn:E1.
  assert (H1 : only_appends_to [tmp w] o1 /\ tmp w1 = tmp w).
  { destruct (cap - length (buf w) <? length d)%nat; [now apply flush_buf_ops in E1|inversion E1; subst; split; [constructor|reflexivity]]. }
  destruct H1 as [Ho1 Ht1]. destruct ok1; cbn [negb].
  2:{ intro H; inversion H; subst. auto. }
  destruct (cap <=? length d)%nat.
  - destruct (os_write_all L w1 d) as [[o2 w2] ok2] eqn:E2. apply os_write_all_ops in E2 as [Ho2 Ht2].
    intro H; inversion H; subst. split; [|congruence]. apply only_appends_app; [assumption|now rewrite <- Ht1].
  - intro H; inversion H; subst; cbn [tmp]. auto.
Qed.

Definition tmps (ws:list wr) : list name := map (fun w => tmp (w_bw w)) ws.
Definition finals (ws:list wr) : list name := map w_final ws.

Lemma only_appends_weaken a b ops : (forall x, In x a -> In x b) -> only_appends_to a ops -> only_appends_to b ops.
Proof. intros Hab H. eapply Forall_impl; [|exact H]. intros [f|f d|x y]; auto. Qed.

Lemma write_to_ops cap L i d ws ops ws' ok : write_to cap L i d ws = (ops, ws', ok) ->
  only_appends_to (tmps ws) ops /\ tmps ws' = tmps ws /\ finals ws' = finals ws.
Proof.
  revert i ops ws' ok. induction ws as [|w r IH]; intros i ops ws' ok H.
  - destruct i; cbn in H; inversion H; subst; repeat split; constructor.
  - destruct i as [|j]; cbn [write_to] in H.
    + destruct (bw_write_all cap L (w_bw w) d) as [[o b] k] eqn:E. inversion H; subst. apply bw_write_all_ops in E as [Ho Ht].
      cbn [tmps finals map w_bw w_final]. rewrite Ht. repeat split.
      eapply only_appends_weaken; [|exact Ho]. intros x [<-|[]]. now left.
    + destruct (write_to cap L j d r) as [[o r'] k] eqn:E. inversion H; subst. apply IH in E as (Ho & Ht & Hf).
      cbn [tmps finals map]. fold (tmps r') (tmps r) (finals r') (finals r). rewrite Ht, Hf. repeat split.
      eapply only_appends_weaken; [|exact Ho]. intros x Hx. now right.
Qed.

Lemma run_writes_ops cap L rows : forall ws ops ws' ok, run_writes cap L rows ws = (ops, ws', ok) ->
  only_appends_to (tmps ws) ops /\ tmps ws' = tmps ws /\ finals ws' = finals ws.
Proof.
  induction rows as [|[i d] r IH]; intros ws ops ws' ok H; cbn [run_writes] in H.
  - inversion H; subst. repeat split; constructor.
  - destruct (write_to cap L i d ws) as [[o1 ws1] ok1] eqn:E1. apply write_to_ops in E1 as (Ho1 & Ht1 & Hf1).
    destruct ok1.
    + destruct (run_writes cap L r ws1) as [[o2 ws2] ok2] eqn:E2. apply IH in E2 as (Ho2 & Ht2 & Hf2).
      inversion H; subst. rewrite Ht2, Ht1, Hf2, Hf1. repeat split. apply only_appends_app; [assumption|now rewrite <- Ht1].
    + inversion H; subst. auto.
Qed.

Lemma flush_all_ops L : forall ws ops ws' ok, flush_all L ws = (ops, ws', ok) ->
  only_appends_to (tmps ws) ops /\ tmps ws' = tmps ws /\ finals ws' = finals ws.
Proof.
  induction ws as [|w r IH]; intros ops ws' ok H; cbn [flush_all] in H.
  - inversion H; subst. repeat split; constructor.
  - destruct (flush_buf L (w_bw w)) as [[o b] k] eqn:E. apply flush_buf_ops in E as [Ho Ht]. destruct k.
    + destruct (flush_all L r) as [[o2 r'] k2] eqn:E2. destruct (IH _ _ _ eq_refl) as (Ho2 & Ht2 & Hf2). inversion H; subst.
      cbn [tmps finals map w_bw w_final]. fold (tmps r') (tmps r) (finals r') (finals r). rewrite Ht, Ht2, Hf2. repeat split.
      apply only_appends_app.
      * eapply only_appends_weaken; [|exact Ho]. intros x [<-|[]]. now left.
      * eapply only_appends_weaken; [|exact Ho2]. intros x Hx. now right.
    + inversion H; subst. cbn [tmps finals map w_bw w_final]. rewrite Ht. repeat split.
      eapply only_appends_weaken; [|exact Ho]. intros x [<-|[]]. now left.
Qed.

(* C10, failure half: whenever the run ends with a non-zero status — a write failed at any point, under any size limit,
   with any buffer capacity — no final name has been touched, whatever was in the folder before *)
Theorem failure_no_final cap L ws rows trace s :
  run cap L ws rows = (trace, 1) -> (forall f, In f (finals ws) -> ~ In f (tmps ws)) ->
  forall f, In f (finals ws) -> fs_get f (apply_trace s trace) = fs_get f s.
Proof.
  unfold run. intros H Hdisj f Hf.
  assert (Hcreate : forall s, fs_get f (apply_trace s (creates ws)) = fs_get f s).
  { specialize (Hdisj f Hf). clear - Hdisj. unfold creates, tmps in *. induction ws as [|w r IH]; intro s; [reflexivity|].
    cbn [map apply_trace fold_left]. fold (apply_trace (apply_op s (OCreate (tmp (w_bw w)))) (map (fun w => OCreate (tmp (w_bw w))) r)).
    rewrite IH by (intro Hin; apply Hdisj; now right). cbn [apply_op]. rewrite fs_get_put.
    destruct (N.eqb_spec f (tmp (w_bw w))); [exfalso; apply Hdisj; left; congruence|reflexivity]. }
  destruct (run_writes cap L rows ws) as [[o1 ws1] ok1] eqn:E1. apply run_writes_ops in E1 as (Ho1 & Ht1 & Hf1).
  destruct ok1; cbn [negb] in H.
  - destruct (flush_all L ws1) as [[o2 ws2] ok2] eqn:E2. apply flush_all_ops in E2 as (Ho2 & Ht2 & Hf2).
    destruct ok2; cbn [negb] in H; inversion H; subst.
    unfold apply_trace. rewrite !fold_left_app. fold (apply_trace s (creates ws)).
    fold (apply_trace (apply_trace s (creates ws)) o1). fold (apply_trace (apply_trace (apply_trace s (creates ws)) o1) o2).
    rewrite (apply_appends_frame (tmps ws1) o2) by (try assumption; rewrite Ht1; now apply Hdisj).
    rewrite (apply_appends_frame (tmps ws) o1) by (try assumption; now apply Hdisj). apply Hcreate.
  - inversion H; subst. unfold apply_trace. rewrite fold_left_app. fold (apply_trace s (creates ws)).
    fold (apply_trace (apply_trace s (creates ws)) o1).
    rewrite (apply_appends_frame (tmps ws) o1) by (try assumption; now apply Hdisj). apply Hcreate.
Qed.
Print Assumptions failure_no_final.

(* ---------- success half: content invariant ---------- *)
Definition binv (s:fs) (b:bw) (logical:bytes) : Prop :=
  exists c, fs_get (tmp b) s = Some c /\ N.of_nat (length c) = disk b /\ c ++ buf b = logical.
Definition frame (t:name) (s s':fs) : Prop := forall g, g <> t -> fs_get g s' = fs_get g s.

Lemma os_write_all_ok L s b d ops b' : os_write_all L b d = (ops, b', true) ->
  forall c, fs_get (tmp b) s = Some c -> N.of_nat (length c) = disk b ->
  fs_get (tmp b) (apply_trace s ops) = Some (c ++ d) /\ N.of_nat (length (c ++ d)) = disk b' /\ tmp b' = tmp b /\ buf b' = buf b
  /\ frame (tmp b) s (apply_trace s ops).
Proof.
  intros H c Hc Hl.
  pose proof (os_write_all_inv L s {| w_bw := b; w_final := 0; w_logical := [] |} d ops b' true H c Hc Hl) as (c' & G1 & G2 & G3 & G4 & G5 & G6).
  cbn [w_bw] in *. subst c'. rewrite G3 in G1. repeat split; assumption.
Qed.

Lemma flush_buf_ok L s b ops b' logical : flush_buf L b = (ops, b', true) -> binv s b logical ->
  fs_get (tmp b) (apply_trace s ops) = Some logical /\ binv (apply_trace s ops) b' logical /\ buf b' = [] /\ tmp b' = tmp b
  /\ frame (tmp b) s (apply_trace s ops).
Proof.
  unfold flush_buf. intros H (c & Hc & Hl & Hlog).
  destruct (os_write_all L b (buf b)) as [[o1 w1] ok1] eqn:E. destruct ok1; inversion H; subst; clear H.
  destruct (os_write_all_ok L s b (buf b) ops w1 E c Hc Hl) as (G1 & G2 & G3 & G4 & G5).
  cbn [tmp disk buf]. repeat split; try assumption.
  exists (c ++ buf b). cbn [tmp disk buf]. rewrite G3. repeat split; [assumption|assumption|apply app_nil_r].
Qed.

Lemma bw_write_all_ok cap L s b d ops b' logical : bw_write_all cap L b d = (ops, b', true) -> binv s b logical ->
  (0 < cap)%nat -> (length (buf b) <= cap)%nat ->
  binv (apply_trace s ops) b' (logical ++ d) /\ tmp b' = tmp b /\ frame (tmp b) s (apply_trace s ops) /\ (length (buf b') <= cap)%nat.
Proof.
  unfold bw_write_all. intros H Hinv Hcap0 Hbl. destruct (Nat.ltb_spec (length d) (cap - length (buf b))) as [Hsmall|Hcold].
  { inversion H; subst; clear H. destruct Hinv as (c & Hc & Hl & Hlog). split; [|split; [reflexivity|split; [intros g _; reflexivity|]]].
    - exists c. cbn [tmp disk buf apply_trace fold_left]. split; [assumption|]. split; [assumption|]. now rewrite app_assoc, Hlog.
    - cbn [buf]. rewrite app_length. lia. }
  destruct (if (cap - length (buf b) <? length d)%nat then flush_buf L b else ([], b, true)) as [[o1 w1] ok1] eqn:E1.
  destruct ok1; cbn [negb] in H; [|inversion H].
  assert (H1 : binv (apply_trace s o1) w1 logical /\ tmp w1 = tmp b /\ frame (tmp b) s (apply_trace s o1)
               /\ ((cap <= length d)%nat -> buf w1 = []) /\ (length (buf w1) + length d <= cap \/ cap <= length d)%nat).
  { destruct (Nat.ltb_spec (cap - length (buf b)) (length d)) as [Hfl|Hnf].
    - destruct (flush_buf_ok L s b o1 w1 logical E1 Hinv) as (_ & G2 & G3 & G4 & G5).
      split; [assumption|]. split; [assumption|]. split; [assumption|]. split; [auto|]. rewrite G3. cbn [length]. lia.
    - inversion E1; subst. split; [assumption|]. split; [reflexivity|]. split; [intros g _; reflexivity|].
      split; [|lia]. intro Hcap. destruct (buf w1) as [|x l]; [reflexivity|cbn [length] in *; lia]. }
  destruct H1 as (Hinv1 & Ht1 & Hf1 & Hempty & Hroom).
  destruct (Nat.leb_spec cap (length d)) as [Hbig|Hfits].
  - destruct (os_write_all L w1 d) as [[o2 w2] ok2] eqn:E2. inversion H; subst; clear H.
    destruct Hinv1 as (c & Hc & Hl & Hlog). rewrite (Hempty Hbig), app_nil_r in Hlog.
    unfold apply_trace. rewrite fold_left_app. fold (apply_trace s o1). fold (apply_trace (apply_trace s o1) o2).
    destruct (os_write_all_ok L (apply_trace s o1) w1 d o2 b' E2 c Hc Hl) as (G1 & G2 & G3 & G4 & G5).
    split; [|split; [congruence|split]].
    + exists (c ++ d). rewrite G3. split; [assumption|]. split; [assumption|]. rewrite G4, (Hempty Hbig), app_nil_r. now rewrite Hlog.
    + intros g Hg. rewrite G5 by congruence. now apply Hf1.
    + rewrite G4, (Hempty Hbig). cbn. lia.
  - inversion H; subst; clear H. destruct Hinv1 as (c & Hc & Hl & Hlog). split; [|split; [assumption|split; [assumption|]]].
    + exists c. cbn [tmp disk buf]. split; [assumption|]. split; [assumption|]. now rewrite app_assoc, Hlog.
    + cbn [buf]. rewrite app_length. lia.
Qed.

Lemma binv_frame s s' t b logical : binv s b logical -> frame t s s' -> tmp b <> t -> binv s' b logical.
Proof. intros (c & Hc & Hl & Hlog) Hf Hne. exists c. rewrite Hf by assumption. auto. Qed.

Definition wgood (cap:nat) (s:fs) (w:wr) : Prop := binv s (w_bw w) (w_logical w) /\ (length (buf (w_bw w)) <= cap)%nat.

Lemma binv_eq s s' b logical : fs_get (tmp b) s' = fs_get (tmp b) s -> binv s b logical -> binv s' b logical.
Proof. intros He (c & Hc & Hl & Hlog). exists c. rewrite He. auto. Qed.

Lemma write_to_ok cap L : (0 < cap)%nat -> forall ws i d s ops ws',
  write_to cap L i d ws = (ops, ws', true) -> NoDup (tmps ws) -> Forall (wgood cap s) ws ->
  Forall (wgood cap (apply_trace s ops)) ws' /\ (forall g, ~ In g (tmps ws) -> fs_get g (apply_trace s ops) = fs_get g s).
Proof.
  intro Hcap. induction ws as [|w r IH]; intros i d s ops ws' H Hnd Hall.
  - destruct i; cbn in H; inversion H; subst; (split; [apply Forall_nil|reflexivity]).
  - inversion Hnd as [|? ? Hnotin Hnd']; subst. inversion Hall as [|? ? Hwg Hr]; subst. destruct Hwg as [Hw Hbl].
    destruct i as [|j]; cbn [write_to] in H.
    + destruct (bw_write_all cap L (w_bw w) d) as [[o b] k] eqn:E. inversion H; subst; clear H.
      destruct (bw_write_all_ok cap L s (w_bw w) d ops b (w_logical w) E Hw Hcap Hbl) as (G1 & G2 & G3 & G4).
      split.
      * constructor; [split; assumption|]. apply Forall_forall. intros x Hx.
        pose proof (proj1 (Forall_forall _ _) Hr x Hx) as [Hxb Hxl]. split; [|assumption].
        eapply binv_frame; [exact Hxb|exact G3|]. intro Heq. apply Hnotin. unfold tmps. apply in_map_iff. exists x. auto.
      * intros g Hg. apply G3. intro Heq. apply Hg. left. now symmetry.
    + destruct (write_to cap L j d r) as [[o r'] k] eqn:E. inversion H; subst; clear H.
      destruct (IH j d s ops r' E Hnd' Hr) as (G1 & G2). split.
      * constructor; [|assumption]. split; [|assumption]. eapply binv_eq; [|exact Hw]. apply G2. exact Hnotin.
      * intros g Hg. apply G2. intro Hin. apply Hg. now right.
Qed.

Lemma run_writes_ok cap L : (0 < cap)%nat -> forall rows ws s ops ws',
  run_writes cap L rows ws = (ops, ws', true) -> NoDup (tmps ws) -> Forall (wgood cap s) ws ->
  Forall (wgood cap (apply_trace s ops)) ws'.
Proof.
  intro Hcap. induction rows as [|[i d] r IH]; intros ws s ops ws' H Hnd Hall; cbn [run_writes] in H.
  - inversion H; subst. exact Hall.
  - destruct (write_to cap L i d ws) as [[o1 ws1] ok1] eqn:E1. destruct ok1; [|inversion H].
    destruct (run_writes cap L r ws1) as [[o2 ws2] ok2] eqn:E2. inversion H; subst; clear H.
    destruct (write_to_ok cap L Hcap ws i d s o1 ws1 E1 Hnd Hall) as (G1 & _).
    pose proof (write_to_ops cap L i d ws o1 ws1 true E1) as (_ & Ht & _).
    unfold apply_trace. rewrite fold_left_app. apply (IH ws1 _ o2 ws' E2); [now rewrite Ht|exact G1].
Qed.

Lemma flush_all_ok cap L : forall ws s ops ws',
  flush_all L ws = (ops, ws', true) -> NoDup (tmps ws) -> Forall (wgood cap s) ws ->
  Forall (fun w => fs_get (tmp (w_bw w)) (apply_trace s ops) = Some (w_logical w)) ws' /\
  (forall g, ~ In g (tmps ws) -> fs_get g (apply_trace s ops) = fs_get g s).
Proof.
  induction ws as [|w r IH]; intros s ops ws' H Hnd Hall; cbn [flush_all] in H.
  - inversion H; subst. split; [constructor|reflexivity].
  - inversion Hnd as [|? ? Hnotin Hnd']; subst. inversion Hall as [|? ? Hwg Hr]; subst. destruct Hwg as [Hw Hbl].
    destruct (flush_buf L (w_bw w)) as [[o b] k] eqn:E. destruct k; [|inversion H].
    destruct (flush_all L r) as [[o2 r'] k2] eqn:E2. inversion H; subst; clear H.
    destruct (flush_buf_ok L s (w_bw w) o b (w_logical w) E Hw) as (G1 & G2 & G3 & G4 & G5).
    assert (Hr' : Forall (wgood cap (apply_trace s o)) r).
    { apply Forall_forall. intros x Hx. pose proof (proj1 (Forall_forall _ _) Hr x Hx) as [Hxb Hxl]. split; [|assumption].
      eapply binv_frame; [exact Hxb|exact G5|]. intro Heq. apply Hnotin. unfold tmps. apply in_map_iff. exists x. auto. }
    destruct (IH (apply_trace s o) o2 r' eq_refl Hnd' Hr') as (H1 & H2).
    unfold apply_trace. rewrite fold_left_app. fold (apply_trace s o). fold (apply_trace (apply_trace s o) o2). split.
    + constructor; [|assumption]. cbn [w_bw w_logical]. rewrite G4, H2 by assumption. exact G1.
    + intros g Hg. rewrite H2 by (intro Hin; apply Hg; now right). apply G5. intro Heq. apply Hg. left. now symmetry.
Qed.

Lemma renames_spec : forall ws s,
  NoDup (tmps ws ++ finals ws) ->
  Forall (fun w => fs_get (tmp (w_bw w)) s = Some (w_logical w)) ws ->
  Forall (fun w => fs_get (w_final w) (apply_trace s (renames ws)) = Some (w_logical w) /\
                   fs_get (tmp (w_bw w)) (apply_trace s (renames ws)) = None) ws
  /\ (forall g, ~ In g (tmps ws ++ finals ws) -> fs_get g (apply_trace s (renames ws)) = fs_get g s).
Proof.
  induction ws as [|w r IH]; intros s Hnd Hall; [split; [constructor|reflexivity]|].
  inversion Hall as [|? ? Hw Hr]; subst.
  cbn [tmps finals map app] in Hnd. fold (tmps r) (finals r) in Hnd.
  assert (Ht_notin : ~ In (tmp (w_bw w)) (tmps r ++ finals r) /\ tmp (w_bw w) <> w_final w).
  { inversion Hnd as [|? ? Hn _]; subst. split; intro Hx; apply Hn; apply in_app_iff; [apply in_app_iff in Hx as [Hx|Hx]|].
    - now left. - right. now right. - right. left. now symmetry. }
  assert (Hf_notin : ~ In (w_final w) (tmps r ++ finals r)).
  { inversion Hnd as [|? ? _ Hn2]; subst. apply NoDup_remove_2 in Hn2. exact Hn2. }
  assert (Hnd_r : NoDup (tmps r ++ finals r)).
  { inversion Hnd as [|? ? _ Hn2]; subst. apply NoDup_remove_1 in Hn2. exact Hn2. }
  destruct Ht_notin as [Ht_notin Hne].
  cbn [renames map apply_trace fold_left]. fold (renames r).
  set (s1 := apply_op s (ORename (tmp (w_bw w)) (w_final w))).
  fold (apply_trace s1 (renames r)).
  assert (Hs1_final : fs_get (w_final w) s1 = Some (w_logical w)).
  { unfold s1. cbn [apply_op]. rewrite Hw, fs_get_put, N.eqb_refl. reflexivity. }
  assert (Hs1_tmp : fs_get (tmp (w_bw w)) s1 = None).
  { unfold s1. cbn [apply_op]. rewrite Hw, fs_get_put. destruct (N.eqb_spec (tmp (w_bw w)) (w_final w)); [contradiction|].
    rewrite fs_get_del, N.eqb_refl. reflexivity. }
  assert (Hs1_other : forall g, g <> tmp (w_bw w) -> g <> w_final w -> fs_get g s1 = fs_get g s).
  { intros g H1 H2. unfold s1. cbn [apply_op]. rewrite Hw, fs_get_put. destruct (N.eqb_spec g (w_final w)); [contradiction|].
    rewrite fs_get_del. destruct (N.eqb_spec g (tmp (w_bw w))); [contradiction|reflexivity]. }
  assert (Hr1 : Forall (fun x => fs_get (tmp (w_bw x)) s1 = Some (w_logical x)) r).
  { apply Forall_forall. intros x Hx. rewrite Hs1_other; [exact (proj1 (Forall_forall _ _) Hr x Hx)| |].
    - intro He. apply Ht_notin. apply in_app_iff. left. unfold tmps. apply in_map_iff. exists x. auto.
    - intro He. apply Hf_notin. apply in_app_iff. left. unfold tmps. apply in_map_iff. exists x. auto. }
  destruct (IH s1 Hnd_r Hr1) as (G1 & G2). split.
  - constructor; [|exact G1]. split; rewrite G2 by assumption; assumption.
  - intros g Hg. rewrite G2.
    + apply Hs1_other; intro He; apply Hg; subst g; cbn [tmps finals map app]; [now left|right; apply in_app_iff; right; now left].
    + intro Hin. apply Hg. cbn [tmps finals map app]. fold (tmps r) (finals r). right. apply in_app_iff in Hin as [Hin|Hin]; apply in_app_iff; [now left|right; now right].
Qed.

Lemma creates_spec : forall ws s, Forall (fun w => fs_get (tmp (w_bw w)) (apply_trace s (creates ws)) = Some []) ws
  /\ (forall g, ~ In g (tmps ws) -> fs_get g (apply_trace s (creates ws)) = fs_get g s).
Proof.
  induction ws as [|w r IH]; intro s; [split; [constructor|reflexivity]|].
  cbn [creates map apply_trace fold_left]. fold (creates r). set (s1 := apply_op s (OCreate (tmp (w_bw w)))). fold (apply_trace s1 (creates r)).
  destruct (IH s1) as (G1 & G2). split.
  - constructor; [|exact G1]. destruct (in_dec N.eq_dec (tmp (w_bw w)) (tmps r)) as [Hin|Hnin].
    + unfold tmps in Hin. apply in_map_iff in Hin as (x & Hx & Hxin). rewrite <- Hx. exact (proj1 (Forall_forall _ _) G1 x Hxin).
    + rewrite G2 by assumption. unfold s1. cbn [apply_op]. rewrite fs_get_put, N.eqb_refl. reflexivity.
  - intros g Hg. rewrite G2 by (intro Hin; apply Hg; now right). unfold s1. cbn [apply_op]. rewrite fs_get_put.
    destruct (N.eqb_spec g (tmp (w_bw w))); [exfalso; apply Hg; left; now symmetry|reflexivity].
Qed.

Lemma nodup_app_l {A} (a b:list A) : NoDup (a ++ b) -> NoDup a.
Proof. induction a as [|x a IH]; intro H; [constructor|]. inversion H; subst. constructor; [intro Hin; apply H2; apply in_app_iff; now left|now apply IH]. Qed.

(* C10, success half: exit status 0 implies every final-named file holds exactly everything that was handed to its writer
   and no tmp file is left — for every size limit, buffer capacity > 0, row sequence and initial folder content *)
Definition fresh_writers (ws:list wr) : Prop := Forall (fun w => disk (w_bw w) = 0 /\ buf (w_bw w) = [] /\ w_logical w = []) ws.

(* ---------- what the final files contain: exactly the rows handed to each writer, in order ---------- *)
Fixpoint app_at (i:nat) (d:bytes) (ls:list bytes) : list bytes :=
  match ls, i with [], _ => [] | x :: r, O => (x ++ d) :: r | x :: r, S j => x :: app_at j d r end.
Lemma write_to_logical cap L : forall ws i d ops ws' ok, write_to cap L i d ws = (ops, ws', ok) -> map w_logical ws' = app_at i d (map w_logical ws).
Proof.
  induction ws as [|w r IH]; intros i d ops ws' ok H; [destruct i; inversion H; reflexivity|].
  destruct i as [|j]; cbn [write_to] in H.
  - destruct (bw_write_all cap L (w_bw w) d) as [[o b] k]. inversion H; subst. reflexivity.
  - destruct (write_to cap L j d r) as [[o r'] k] eqn:E. inversion H; subst. cbn [map app_at]. f_equal. eapply IH; eauto.
Qed.
Lemma run_writes_logical cap L : forall rows ws ops ws', run_writes cap L rows ws = (ops, ws', true) ->
  map w_logical ws' = fold_left (fun ls r => app_at (fst r) (snd r) ls) rows (map w_logical ws).
Proof.
  induction rows as [|[i d] r IH]; intros ws ops ws' H; cbn [run_writes] in H; [inversion H; reflexivity|].
  destruct (write_to cap L i d ws) as [[o ws1] ok] eqn:E. destruct ok; [|inversion H].
  destruct (run_writes cap L r ws1) as [[o2 ws2] ok2] eqn:E2. inversion H; subst. cbn [fold_left fst snd].
  rewrite <- (write_to_logical cap L ws i d o ws1 true E). eapply IH; eauto.
Qed.
Lemma flush_all_logical L : forall ws ops ws' ok, flush_all L ws = (ops, ws', ok) -> map w_logical ws' = map w_logical ws.
Proof.
  induction ws as [|w r IH]; intros ops ws' ok H; cbn [flush_all] in H; [inversion H; reflexivity|].
  destruct (flush_buf L (w_bw w)) as [[o b] k]. destruct k.
  - destruct (flush_all L r) as [[o2 r'] k2] eqn:E. inversion H; subst. cbn [map w_logical]. f_equal. eapply IH; eauto.
  - inversion H; subst. reflexivity.
Qed.
Definition data_for (i:nat) (rows:list (nat * bytes)) : bytes := concat (map snd (filter (fun r => Nat.eqb (fst r) i) rows)).
Lemma nth_app_at i j d ls : (i < length ls)%nat -> nth j (app_at i d ls) [] = if Nat.eqb i j then nth j ls [] ++ d else nth j ls [].
Proof.
  revert i j. induction ls as [|x r IH]; intros [|i] [|j] H; cbn in *; try lia; try reflexivity. apply IH. lia.
Qed.
Lemma app_at_length i d ls : length (app_at i d ls) = length ls.
Proof. revert i. induction ls as [|x r IH]; intros [|i]; cbn; auto. Qed.
Lemma fold_app_at rows : forall ls j, (forall r, In r rows -> (fst r < length ls)%nat) ->
  nth j (fold_left (fun ls r => app_at (fst r) (snd r) ls) rows ls) [] = nth j ls [] ++ data_for j rows.
Proof.
  induction rows as [|[i d] r IH]; intros ls j Hb; [cbn; now rewrite app_nil_r|].
  cbn [fold_left fst snd]. rewrite IH by (intros r0 Hr0; rewrite app_at_length; apply Hb; now right).
  rewrite nth_app_at by (apply (Hb (i, d)); now left). unfold data_for. cbn [filter fst]. destruct (Nat.eqb_spec i j) as [Eij|Hne].
  - cbn [map snd concat]. now rewrite app_assoc.
  - reflexivity.
Qed.

Theorem success_complete cap L ws rows trace s : (0 < cap)%nat ->
  run cap L ws rows = (trace, 0) -> NoDup (tmps ws ++ finals ws) -> fresh_writers ws ->
  exists ws', tmps ws' = tmps ws /\ finals ws' = finals ws /\
    Forall (fun w => fs_get (w_final w) (apply_trace s trace) = Some (w_logical w) /\ fs_get (tmp (w_bw w)) (apply_trace s trace) = None) ws'
    /\ (forall g, ~ In g (tmps ws ++ finals ws) -> fs_get g (apply_trace s trace) = fs_get g s)
    /\ map w_logical ws' = fold_left (fun ls r => app_at (fst r) (snd r) ls) rows (map w_logical ws).
Proof.
  intros Hcap H Hnd Hfresh. unfold run in H.
  assert (Hnd_t : NoDup (tmps ws)) by (apply nodup_app_l in Hnd; exact Hnd).
  destruct (run_writes cap L rows ws) as [[o1 ws1] ok1] eqn:E1. destruct ok1; cbn [negb] in H; [|inversion H].
  destruct (flush_all L ws1) as [[o2 ws2] ok2] eqn:E2. destruct ok2; cbn [negb] in H; inversion H; subst; clear H.
  pose proof (run_writes_ops cap L rows ws o1 ws1 true E1) as (Ho1 & Ht1 & Hf1).
  pose proof (flush_all_ops L ws1 o2 ws2 true E2) as (Ho2 & Ht2 & Hf2).
  destruct (creates_spec ws s) as (C1 & C2). set (s0 := apply_trace s (creates ws)) in *.
  assert (Hgood0 : Forall (wgood cap s0) ws).
  { apply Forall_forall. intros w Hw. pose proof (proj1 (Forall_forall _ _) C1 w Hw) as Hc.
    pose proof (proj1 (Forall_forall _ _) Hfresh w Hw) as (Hd & Hb & Hl). split; [|rewrite Hb; cbn; lia].
    exists []. rewrite Hc, Hd, Hb, Hl. auto. }
  pose proof (run_writes_ok cap L Hcap rows ws s0 o1 ws1 E1 Hnd_t Hgood0) as Hgood1.
  destruct (flush_all_ok cap L ws1 (apply_trace s0 o1) o2 ws2 E2 ltac:(now rewrite Ht1) Hgood1) as (F1 & F2).
  set (s2 := apply_trace (apply_trace s0 o1) o2) in *.
  destruct (renames_spec ws2 s2 ltac:(now rewrite Ht2, Ht1, Hf2, Hf1) F1) as (R1 & R2).
  exists ws2. split; [congruence|]. split; [congruence|].
  assert (Etrace : apply_trace s (creates ws ++ o1 ++ o2 ++ renames ws2) = apply_trace s2 (renames ws2)).
  { unfold s2, s0, apply_trace. now rewrite !fold_left_app. }
  rewrite Etrace. split; [exact R1|]. split; [|rewrite (flush_all_logical L ws1 o2 ws2 true E2); exact (run_writes_logical cap L rows ws o1 ws1 E1)].
  intros g Hg. rewrite R2 by (now rewrite Ht2, Ht1, Hf2, Hf1).
  assert (Hgt : ~ In g (tmps ws)) by (intro Hin; apply Hg; apply in_app_iff; now left).
  unfold s2. rewrite F2 by (now rewrite Ht1).
  rewrite (apply_appends_frame (tmps ws) o1) by assumption. apply C2. exact Hgt.
Qed.
Print Assumptions success_complete.

(* C10, success half in full: exit 0 => for every writer the final-named file holds exactly the concatenation of the rows addressed to it
   (hence the same bytes as an undisturbed run), no tmp file is left - for any size limit, capacity, initial folder *)
Theorem success_content cap L ws rows trace s : (0 < cap)%nat ->
  run cap L ws rows = (trace, 0) -> NoDup (tmps ws ++ finals ws) -> fresh_writers ws -> (forall r, In r rows -> (fst r < length ws)%nat) ->
  forall j, (j < length ws)%nat ->
    fs_get (nth j (finals ws) 0) (apply_trace s trace) = Some (data_for j rows) /\ fs_get (nth j (tmps ws) 0) (apply_trace s trace) = None.
Proof.
  intros Hcap H Hnd Hfresh Hb j Hj.
  destruct (success_complete cap L ws rows trace s Hcap H Hnd Hfresh) as (ws' & Ht & Hf & HF & _ & HL).
  assert (Hlen' : length ws' = length ws) by (rewrite <- (map_length w_final ws'), <- (map_length w_final ws); unfold finals in Hf; now rewrite Hf).
  set (dw := {| w_bw := {| tmp := 0; disk := 0; buf := [] |}; w_final := 0; w_logical := [] |}).
  pose proof (proj1 (Forall_forall _ _) HF (nth j ws' dw) ltac:(apply nth_In; lia)) as [Hfin Htmp].
  assert (Nf : nth j (finals ws) 0 = w_final (nth j ws' dw)) by (rewrite <- Hf; unfold finals; apply (map_nth w_final ws' dw j)).
  assert (Nt : nth j (tmps ws) 0 = tmp (w_bw (nth j ws' dw))) by (rewrite <- Ht; unfold tmps; apply (map_nth (fun w => tmp (w_bw w)) ws' dw j)).
  rewrite Nf, Nt. split; [|exact Htmp]. rewrite Hfin. f_equal.
  change (w_logical (nth j ws' dw)) with (w_logical (nth j ws' dw)). rewrite <- (map_nth w_logical ws' dw j). cbn [w_logical dw]. rewrite HL.
  rewrite fold_app_at by (intros r Hr; rewrite map_length; now apply Hb).
  assert (E0 : nth j (map w_logical ws) [] = []).
  { change (@nil N) with (w_logical dw) at 1. rewrite (map_nth w_logical ws dw j).
    exact (proj2 (proj2 (proj1 (Forall_forall _ _) Hfresh (nth j ws dw) (nth_In _ _ Hj)))). }
  rewrite E0. reflexivity.
Qed.
Print Assumptions success_content.

(* ---------- crash prefixes: at no instant does a final name hold partial content ---------- *)
Lemma only_appends_firstn names ops n : only_appends_to names ops -> only_appends_to names (firstn n ops).
Proof.
  intro H. revert n. induction H as [|o r Ho Hr IH]; intros [|n]; cbn [firstn]; try (constructor; fail).
  constructor; [exact Ho|apply IH].
Qed.

Lemma creates_firstn_frame ws : forall n s g, ~ In g (tmps ws) -> fs_get g (apply_trace s (firstn n (creates ws))) = fs_get g s.
Proof.
  induction ws as [|w r IH]; intros [|n] s g Hg; try reflexivity.
  cbn [creates map firstn apply_trace fold_left]. fold (creates r). fold (apply_trace (apply_op s (OCreate (tmp (w_bw w)))) (firstn n (creates r))).
  rewrite IH by (intro Hin; apply Hg; now right). cbn [apply_op]. rewrite fs_get_put.
  destruct (N.eqb_spec g (tmp (w_bw w))); [exfalso; apply Hg; left; now symmetry|reflexivity].
Qed.

Lemma firstn_app3 {A} (a b:list A) n : firstn n (a ++ b) = if (n <=? length a)%nat then firstn n a else a ++ firstn (n - length a) b.
Proof.
  rewrite firstn_app. destruct (Nat.leb_spec n (length a)) as [H|H].
  - replace (n - length a)%nat with 0%nat by lia. cbn. now rewrite app_nil_r.
  - now rewrite firstn_all2 by lia.
Qed.

Lemma rename_frame s a b g : g <> a -> g <> b -> fs_get g (apply_op s (ORename a b)) = fs_get g s.
Proof.
  intros Ha Hb. cbn [apply_op]. destruct (fs_get a s); [|reflexivity].
  rewrite fs_get_put. destruct (N.eqb_spec g b); [contradiction|]. rewrite fs_get_del. destruct (N.eqb_spec g a); [contradiction|reflexivity].
Qed.

Lemma renames_prefix_frame ws : forall n s g, ~ In g (tmps ws ++ finals ws) -> fs_get g (apply_trace s (firstn n (renames ws))) = fs_get g s.
Proof.
  induction ws as [|w r IH]; intros [|n] s g Hg; try reflexivity.
  cbn [renames map firstn apply_trace fold_left]. fold (renames r).
  fold (apply_trace (apply_op s (ORename (tmp (w_bw w)) (w_final w))) (firstn n (renames r))).
  assert (Hg' : ~ In g (tmps r ++ finals r)).
  { intro Hin. apply Hg. cbn [tmps finals map app]. fold (tmps r) (finals r). right.
    apply in_app_iff in Hin as [Hin|Hin]; apply in_app_iff; [now left|right; now right]. }
  rewrite IH by exact Hg'. apply rename_frame; intro He; apply Hg; subst g; cbn [tmps finals map app]; fold (tmps r) (finals r).
  - now left.
  - right. apply in_app_iff. right. now left.
Qed.

Lemma renames_prefix : forall ws n s, NoDup (tmps ws ++ finals ws) ->
  Forall (fun w => fs_get (tmp (w_bw w)) s = Some (w_logical w)) ws ->
  Forall (fun w => let s' := apply_trace s (firstn n (renames ws)) in
                   fs_get (w_final w) s' = fs_get (w_final w) s \/ fs_get (w_final w) s' = Some (w_logical w)) ws.
Proof.
  induction ws as [|w r IH]; intros n s Hnd Hall; [constructor|].
  destruct n as [|n]; [apply Forall_forall; intros x _; left; reflexivity|].
  inversion Hall as [|? ? Hw Hr]; subst.
  cbn [tmps finals map app] in Hnd. fold (tmps r) (finals r) in Hnd.
  assert (Ht_notin : ~ In (tmp (w_bw w)) (tmps r ++ finals r) /\ tmp (w_bw w) <> w_final w).
  { inversion Hnd as [|? ? Hn _]; subst. split; intro Hx; apply Hn; apply in_app_iff; [apply in_app_iff in Hx as [Hx|Hx]|].
    - now left. - right. now right. - right. left. now symmetry. }
  assert (Hf_notin : ~ In (w_final w) (tmps r ++ finals r)).
  { inversion Hnd as [|? ? _ Hn2]; subst. apply NoDup_remove_2 in Hn2. exact Hn2. }
  assert (Hnd_r : NoDup (tmps r ++ finals r)).
  { inversion Hnd as [|? ? _ Hn2]; subst. apply NoDup_remove_1 in Hn2. exact Hn2. }
  destruct Ht_notin as [Ht_notin Hne].
  cbn [renames map firstn apply_trace fold_left]. fold (renames r).
  set (s1 := apply_op s (ORename (tmp (w_bw w)) (w_final w))). fold (apply_trace s1 (firstn n (renames r))).
  assert (Hs1_final : fs_get (w_final w) s1 = Some (w_logical w)).
  { unfold s1. cbn [apply_op]. rewrite Hw, fs_get_put, N.eqb_refl. reflexivity. }
  assert (Hs1_other : forall g, g <> tmp (w_bw w) -> g <> w_final w -> fs_get g s1 = fs_get g s) by (intros; now apply rename_frame).
  assert (Hr1 : Forall (fun x => fs_get (tmp (w_bw x)) s1 = Some (w_logical x)) r).
  { apply Forall_forall. intros x Hx. rewrite Hs1_other; [exact (proj1 (Forall_forall _ _) Hr x Hx)| |].
    - intro He. apply Ht_notin. apply in_app_iff. left. unfold tmps. apply in_map_iff. exists x. auto.
    - intro He. apply Hf_notin. apply in_app_iff. left. unfold tmps. apply in_map_iff. exists x. auto. }
  constructor.
  - right. cbn zeta. rewrite renames_prefix_frame by exact Hf_notin. exact Hs1_final.
  - specialize (IH n s1 Hnd_r Hr1). apply Forall_forall. intros x Hx. pose proof (proj1 (Forall_forall _ _) IH x Hx) as Hix. cbn zeta in *.
    assert (Hxs : fs_get (w_final x) s1 = fs_get (w_final x) s).
    { apply Hs1_other; intro He.
      - apply Ht_notin. rewrite <- He. apply in_app_iff. right. unfold finals. apply in_map_iff. exists x. auto.
      - apply Hf_notin. rewrite <- He. apply in_app_iff. right. unfold finals. apply in_map_iff. exists x. auto. }
    destruct Hix as [Hix|Hix]; [left; rewrite Hix; exact Hxs|right; exact Hix].
Qed.

(* C10, third clause: kill the process after any number of file-system operations — every final name of this run either still
   holds what it held before the run or already holds its complete content; never something in between *)
Theorem crash_prefix_safe cap L ws rows trace code s n : (0 < cap)%nat ->
  run cap L ws rows = (trace, code) -> NoDup (tmps ws ++ finals ws) -> fresh_writers ws ->
  exists ws', finals ws' = finals ws /\
    Forall (fun w => let s' := apply_trace s (firstn n trace) in
                     fs_get (w_final w) s' = fs_get (w_final w) s \/ fs_get (w_final w) s' = Some (w_logical w)) ws'.
Proof.
  intros Hcap H Hnd Hfresh. unfold run in H.
  assert (Hnd_t : NoDup (tmps ws)) by (apply nodup_app_l in Hnd; exact Hnd).
  assert (Hdisj : forall w', forall ws', finals ws' = finals ws -> In w' ws' -> ~ In (w_final w') (tmps ws)).
  { intros w' ws' Hf Hin Hint. assert (Hinf : In (w_final w') (finals ws)) by (rewrite <- Hf; unfold finals; apply in_map_iff; eauto).
    clear - Hnd Hint Hinf. induction (tmps ws) as [|t ts IH]; [contradiction|]. cbn in Hnd. inversion Hnd as [|? ? Hn Hr]; subst.
    destruct Hint as [->|Hint]; [apply Hn; apply in_app_iff; now right|now apply IH]. }
  destruct (run_writes cap L rows ws) as [[o1 ws1] ok1] eqn:E1.
  pose proof (run_writes_ops cap L rows ws o1 ws1 ok1 E1) as (Ho1 & Ht1 & Hf1).
  (* untouched-by-appends argument, used for every prefix that contains no rename *)
  assert (Huntouched : forall ops, only_appends_to (tmps ws) ops -> forall m w', In w' ws1 ->
            fs_get (w_final w') (apply_trace s (firstn m (creates ws ++ ops))) = fs_get (w_final w') s).
  { intros ops Hops m w' Hin. pose proof (Hdisj w' ws1 Hf1 Hin) as Hd. rewrite firstn_app3.
    destruct (m <=? length (creates ws))%nat; [now apply creates_firstn_frame|].
    unfold apply_trace. rewrite fold_left_app. fold (apply_trace s (creates ws)).
    fold (apply_trace (apply_trace s (creates ws)) (firstn (m - length (creates ws)) ops)).
    rewrite (apply_appends_frame (tmps ws)) by (try assumption; now apply only_appends_firstn).
    destruct (creates_spec ws s) as (_ & C2). now apply C2. }
  destruct ok1; cbn [negb] in H.
  2:{ inversion H; subst. exists ws1. split; [assumption|]. apply Forall_forall. intros w' Hin. left. cbn zeta. now apply Huntouched. }
  destruct (flush_all L ws1) as [[o2 ws2] ok2] eqn:E2.
  pose proof (flush_all_ops L ws1 o2 ws2 ok2 E2) as (Ho2 & Ht2 & Hf2).
  assert (Ho12 : only_appends_to (tmps ws) (o1 ++ o2)) by (apply only_appends_app; [assumption|now rewrite <- Ht1]).
  destruct ok2; cbn [negb] in H.
  2:{ inversion H; subst. exists ws1. split; [assumption|]. apply Forall_forall. intros w' Hin. left. cbn zeta.
      rewrite app_assoc, <- (app_assoc (creates ws)). now apply Huntouched. }
  inversion H; subst; clear H. exists ws2. split; [congruence|].
  (* success trace: creates ++ o1 ++ o2 ++ renames ws2 *)
  destruct (creates_spec ws s) as (C1 & C2). set (s0 := apply_trace s (creates ws)) in *.
  assert (Hgood0 : Forall (wgood cap s0) ws).
  { apply Forall_forall. intros w Hw. pose proof (proj1 (Forall_forall _ _) C1 w Hw) as Hc.
    pose proof (proj1 (Forall_forall _ _) Hfresh w Hw) as (Hd & Hb & Hl). split; [|rewrite Hb; cbn; lia].
    exists []. rewrite Hc, Hd, Hb, Hl. auto. }
  pose proof (run_writes_ok cap L Hcap rows ws s0 o1 ws1 E1 Hnd_t Hgood0) as Hgood1.
  destruct (flush_all_ok cap L ws1 (apply_trace s0 o1) o2 ws2 E2 ltac:(now rewrite Ht1) Hgood1) as (F1 & F2).
  set (s2 := apply_trace (apply_trace s0 o1) o2) in *.
  set (pre := creates ws ++ o1 ++ o2).
  replace (creates ws ++ o1 ++ o2 ++ renames ws2) with (pre ++ renames ws2) by (unfold pre; now rewrite <- !app_assoc).
  rewrite firstn_app3. destruct (Nat.leb_spec n (length pre)) as [Hin_pre|Hpast].
  - apply Forall_forall. intros w' Hin. left. cbn zeta. unfold pre.
    assert (Hin1 : exists w1, In w1 ws1 /\ w_final w1 = w_final w').
    { assert (Hx : In (w_final w') (finals ws1)) by (rewrite <- Hf2; unfold finals; apply in_map_iff; eauto).
      unfold finals in Hx. apply in_map_iff in Hx as (w1 & He & Hw1). eauto. }
    destruct Hin1 as (w1 & Hw1 & <-). now apply (Huntouched (o1 ++ o2) Ho12 n w1 Hw1).
  - assert (Es2 : apply_trace s pre = s2) by (unfold pre, s2, s0, apply_trace; now rewrite !fold_left_app).
    pose proof (renames_prefix ws2 (n - length pre) s2 ltac:(now rewrite Ht2, Ht1, Hf2, Hf1) F1) as HR.
    apply Forall_forall. intros w' Hin. pose proof (proj1 (Forall_forall _ _) HR w' Hin) as Hw'. cbn zeta in *.
    assert (Hsplit : apply_trace s (pre ++ firstn (n - length pre) (renames ws2)) = apply_trace s2 (firstn (n - length pre) (renames ws2))).
    { rewrite <- Es2. unfold apply_trace. now rewrite fold_left_app. }
    rewrite Hsplit.
    assert (Hs2s : fs_get (w_final w') s2 = fs_get (w_final w') s).
    { assert (Hin1 : exists w1, In w1 ws1 /\ w_final w1 = w_final w').
      { assert (Hx : In (w_final w') (finals ws1)) by (rewrite <- Hf2; unfold finals; apply in_map_iff; eauto).
        unfold finals in Hx. apply in_map_iff in Hx as (w1 & He & Hw1). eauto. }
      destruct Hin1 as (w1 & Hw1 & <-).
      pose proof (Huntouched (o1 ++ o2) Ho12 (length pre) w1 Hw1) as Hu. unfold pre in Hu at 1. rewrite firstn_all in Hu.
      fold pre in Hu. fold (apply_trace s pre) in Hu. rewrite Es2 in Hu. exact Hu. }
    rewrite <- Hs2s. exact Hw'.
Qed.
Print Assumptions crash_prefix_safe.

