(* Prototype: Base58 / Base58Check (base58ck crate as used by custom.rs:337-345 and rust-bitcoin Address Display) and round trip *)
From RBP Require Import Bytes.

(* ---------- positional digits, little-endian, generic base ---------- *)
Fixpoint from_le (B:N) (ds:list N) : N := match ds with [] => 0 | d :: r => d + B * from_le B r end.
Fixpoint to_le (fuel:nat) (B n:N) : list N :=
  match fuel with O => [] | S f => if n =? 0 then [] else n mod B :: to_le f B (n / B) end.

Lemma from_to_le B : 2 <= B -> forall fuel n, n < 2 ^ N.of_nat fuel -> from_le B (to_le fuel B n) = n.
Proof.
  intros HB. induction fuel as [|f IH]; intros n Hn.
  - change (2 ^ N.of_nat 0) with 1 in Hn. cbn. lia.
  - cbn [to_le]. destruct (N.eqb_spec n 0) as [->|Hne]; [reflexivity|].
    cbn [from_le]. rewrite IH.
    + pose proof (N.div_mod n B ltac:(lia)). lia.
    + rewrite Nnat.Nat2N.inj_succ, N.pow_succ_r' in Hn.
      assert (n / B <= n / 2) by (apply N.div_le_compat_l; lia).
      assert (n / 2 < 2 ^ N.of_nat f) by (apply N.div_lt_upper_bound; lia). lia.
Qed.

Definition digits_ok (B:N) (ds:list N) : Prop := Forall (fun d => d < B) ds /\ last ds 1 <> 0.

Lemma from_le_nonzero B : 2 <= B -> forall ds, ds <> [] -> digits_ok B ds -> from_le B ds <> 0.
Proof.
  intros HB. induction ds as [|x l IH]; intros Hne [Ha Hl]; [congruence|].
  cbn [from_le]. inversion Ha as [|? ? Hx Hr]; subst. destruct l as [|y l'].
  - cbn in *. lia.
  - assert (from_le B (y :: l') <> 0) by (apply IH; [discriminate|split; [assumption|exact Hl]]). nia.
Qed.

Lemma to_from_le B : 2 <= B -> forall ds fuel, digits_ok B ds -> (length ds <= fuel)%nat -> to_le fuel B (from_le B ds) = ds.
Proof.
  intros HB. induction ds as [|d r IH]; intros fuel [Hall Hlast] Hf.
  - destruct fuel; reflexivity.
  - destruct fuel as [|f]; [cbn in Hf; lia|]. inversion Hall as [|? ? Hd Hr]; subst.
    cbn [from_le to_le].
    assert (Hr_ok : digits_ok B r).
    { split; [assumption|]. destruct r; [cbn; lia|exact Hlast]. }
    assert (Hnz : d + B * from_le B r <> 0).
    { destruct r as [|d2 r2]; [cbn in *; lia|].
      assert (from_le B (d2 :: r2) <> 0) by (apply from_le_nonzero; [assumption|discriminate|assumption]).
      nia. }
    destruct (N.eqb_spec (d + B * from_le B r) 0); [contradiction|].
    f_equal.
    + replace (d + B * from_le B r) with (d + from_le B r * B) by lia.
      rewrite N.mod_add by lia. apply N.mod_small. assumption.
    + replace (d + B * from_le B r) with (from_le B r * B + d) by lia.
      rewrite N.div_add_l by lia. rewrite (N.div_small d B) by assumption.
      rewrite N.add_0_r. apply IH; [assumption|cbn in Hf; lia].
Qed.

(* ---------- Base58 over bytes ---------- *)
Fixpoint count_lead (x:N) (l:list N) : nat := match l with y :: r => if y =? x then S (count_lead x r) else 0%nat | [] => 0%nat end.
Definition bits_fuel (l:list N) : nat := (8 * length l + 8)%nat.

Definition b58_digits (bs:bytes) : list N :=          (* most significant first, '1' digits for leading zero bytes *)
  let z := count_lead 0 bs in
  let body := skipn z bs in
  repeat 0 z ++ rev (to_le (bits_fuel body) 58 (from_le 256 (rev body))).
Definition b58_undigits (ds:list N) : bytes :=
  let z := count_lead 0 ds in
  let body := skipn z ds in
  repeat 0 z ++ rev (to_le (bits_fuel body) 256 (from_le 58 (rev body))).

Lemma count_lead_repeat x z l : (match l with y :: _ => y <> x | [] => True end) -> count_lead x (repeat x z ++ l) = z.
Proof.
  intro H. induction z as [|z IH]; cbn.
  - destruct l as [|y r]; [reflexivity|]. cbn. destruct (N.eqb_spec y x); [contradiction|reflexivity].
  - rewrite N.eqb_refl. now rewrite IH.
Qed.

Lemma skipn_repeat_app {A} (x:A) z l : skipn z (repeat x z ++ l) = l.
Proof. induction z; cbn; auto. Qed.

Lemma split_lead x l : l = repeat x (count_lead x l) ++ skipn (count_lead x l) l /\
  match skipn (count_lead x l) l with y :: _ => y <> x | [] => True end.
Proof.
  induction l as [|y r IH]; cbn; [auto|].
  destruct (N.eqb_spec y x) as [->|Hne]; cbn.
  - destruct IH as [E H]. split; [now f_equal|assumption].
  - auto.
Qed.

Lemma from_le_bound B ds : Forall (fun d => d < B) ds -> 1 <= B -> from_le B ds < B ^ N.of_nat (length ds).
Proof.
  intros H HB. induction H as [|d r Hd Hr IH]; [cbn; change (B ^ 0) with 1; lia|].
  cbn [from_le length]. rewrite Nnat.Nat2N.inj_succ, N.pow_succ_r'. nia.
Qed.

Lemma last_rev_hd {A} (l:list A) d : last (rev l) d = hd d l.
Proof. destruct l as [|a r]; [reflexivity|]. cbn. now rewrite last_last. Qed.

Lemma to_le_ok B : 2 <= B -> forall fuel n, n < 2 ^ N.of_nat fuel -> digits_ok B (to_le fuel B n).
Proof.
  intros HB. induction fuel as [|f IH]; intros n Hn; [split; [constructor|cbn; lia]|].
  cbn [to_le]. destruct (N.eqb_spec n 0) as [->|Hne]; [split; [constructor|cbn; lia]|].
  assert (Hdiv : n / B < 2 ^ N.of_nat f).
  { rewrite Nnat.Nat2N.inj_succ, N.pow_succ_r' in Hn.
    assert (n / B <= n / 2) by (apply N.div_le_compat_l; lia).
    assert (n / 2 < 2 ^ N.of_nat f) by (apply N.div_lt_upper_bound; lia). lia. }
  destruct (IH (n / B) Hdiv) as [Ha Hl]. split.
  - constructor; [apply N.mod_lt; lia|assumption].
  - destruct (to_le f B (n / B)) as [|d r] eqn:E.
    + cbn [last]. (* n / B = 0, so n < B and the digit is n itself *)
      assert (n / B = 0).
      { destruct f as [|f']; [change (N.of_nat 0) with 0 in Hdiv; rewrite N.pow_0_r in Hdiv; apply N.lt_1_r; exact Hdiv|]. cbn [to_le] in E.
        destruct (N.eqb_spec (n / B) 0); [assumption|discriminate]. }
      assert (n < B) by (apply N.div_small_iff in H; [exact H|lia]). rewrite N.mod_small by assumption. exact Hne.
    + exact Hl.
Qed.

Lemma from_le_lower B : 2 <= B -> forall ds, ds <> [] -> digits_ok B ds -> B ^ N.of_nat (length ds - 1) <= from_le B ds.
Proof.
  intros HB. induction ds as [|d r IH]; intros Hne [Ha Hl]; [congruence|].
  inversion Ha as [|? ? Hd Hr]; subst. destruct r as [|d2 r2].
  - cbn in *. change (B ^ 0) with 1. lia.
  - assert (Hrec : B ^ N.of_nat (length (d2 :: r2) - 1) <= from_le B (d2 :: r2)) by (apply IH; [discriminate|split; assumption]).
    cbn [length from_le] in *. replace (S (S (length r2)) - 1)%nat with (S (length r2 - 0))%nat by lia.
    replace (S (length r2) - 1)%nat with (length r2 - 0)%nat in Hrec by lia.
    rewrite Nnat.Nat2N.inj_succ, N.pow_succ_r'. nia.
Qed.

Lemma pow_le_mono_exp a b : 2 ^ a <= 2 ^ b -> a <= b \/ True. Proof. auto. Qed.

Lemma hd_rev_last {A} (l:list A) d : hd d (rev l) = last l d.
Proof. induction l as [|x r IH] using rev_ind; [reflexivity|]. rewrite rev_app_distr, last_last. reflexivity. Qed.

Lemma wfb_forall l : wfb l = true -> Forall (fun d => d < 256) l.
Proof. unfold wfb. rewrite forallb_forall, Forall_forall. intros H x Hx. specialize (H x Hx). lia. Qed.

(* digit-level round trip of Base58: leading zero bytes <-> leading zero digits, the rest via positional conversion *)
Theorem b58_digits_roundtrip bs : wfb bs = true -> b58_undigits (b58_digits bs) = bs.
Proof.
  intro Hwf. destruct (split_lead 0 bs) as [Hsplit Hhd].
  set (z := count_lead 0 bs) in *. set (body := skipn z bs) in *.
  assert (Hbody_wf : Forall (fun d => d < 256) body).
  { apply wfb_forall in Hwf. rewrite Hsplit in Hwf. apply Forall_app in Hwf. tauto. }
  assert (Hok256 : digits_ok 256 (rev body)).
  { split; [now apply Forall_rev|]. rewrite last_rev_hd. destruct body; [cbn; lia|exact Hhd]. }
  set (n := from_le 256 (rev body)).
  assert (Hn_up : n < 2 ^ N.of_nat (bits_fuel body)).
  { unfold n, bits_fuel. pose proof (from_le_bound 256 (rev body) (proj1 Hok256) ltac:(lia)) as Hb. rewrite rev_length in Hb.
    eapply N.lt_le_trans; [exact Hb|]. change 256 with (2 ^ 8). rewrite <- N.pow_mul_r. apply N.pow_le_mono_r; lia. }
  set (D := to_le (bits_fuel body) 58 n).
  assert (HokD : digits_ok 58 D) by (apply to_le_ok; [lia|exact Hn_up]).
  assert (HDval : from_le 58 D = n) by (apply from_to_le; [lia|exact Hn_up]).
  unfold b58_digits. fold z body n D. unfold b58_undigits.
  assert (Hz : count_lead 0 (repeat 0 z ++ rev D) = z).
  { apply count_lead_repeat. destruct (rev D) as [|y r] eqn:E; [exact I|].
    assert (y = hd 1 (rev D)) by (rewrite E; reflexivity). subst y. rewrite hd_rev_last. exact (proj2 HokD). }
  rewrite Hz, skipn_repeat_app, rev_involutive, HDval.
  rewrite Hsplit. fold z body. f_equal.
  rewrite <- (rev_involutive body). f_equal.
  apply to_from_le; [lia|exact Hok256|].
  (* enough fuel: the byte count is bounded by the digit count *)
  rewrite !rev_length. unfold bits_fuel. rewrite rev_length.
  destruct body as [|b0 body'] eqn:Eb; [cbn; lia|].
  assert (Hlow : 256 ^ N.of_nat (length (rev (b0 :: body')) - 1) <= n).
  { apply from_le_lower; [lia| |exact Hok256]. destruct (rev (b0 :: body')) eqn:E; [|discriminate].
    apply (f_equal (@length N)) in E. rewrite rev_length in E. cbn in E. lia. }
  rewrite rev_length in Hlow.
  pose proof (from_le_bound 58 D (proj1 HokD) ltac:(lia)) as Hup. rewrite HDval in Hup.
  assert (H58 : 58 ^ N.of_nat (length D) <= 256 ^ N.of_nat (length D)) by (apply N.pow_le_mono_l; lia).
  assert (Hlt : 256 ^ N.of_nat (length (b0 :: body') - 1) < 256 ^ N.of_nat (length D)) by lia.
  apply N.pow_lt_mono_r_iff in Hlt; lia.
Qed.
Print Assumptions b58_digits_roundtrip.

(* Base58Check: payload ++ first four bytes of sha256d payload *)
From RBP Require Import Hashes.
Definition ALPHABET : list N := (* 123456789ABCDEFGHJKLMNPQRSTUVWXYZabcdefghijkmnopqrstuvwxyz *)
  [49; 50; 51; 52; 53; 54; 55; 56; 57; 65; 66; 67; 68; 69; 70; 71; 72; 74; 75; 76; 77; 78; 80; 81; 82; 83; 84; 85; 86; 87; 88; 89; 90; 97; 98; 99; 100; 101; 102; 103; 104; 105; 106; 107; 109; 110; 111; 112; 113; 114; 115; 116; 117; 118; 119; 120; 121; 122].
Definition b58_encode (bs:bytes) : list N := map (fun d => nth (N.to_nat d) ALPHABET 0) (b58_digits bs).
Definition b58check_encode (payload:bytes) : list N := b58_encode (payload ++ firstn 4 (sha256d payload)).
Definition hash160_to_address (version:N) (h160:bytes) : list N := b58check_encode (version :: h160).
Definition public_key_to_addr (version:N) (pk:bytes) : list N := hash160_to_address version (hash160 pk).

(* ---------- decoding, and the Base58Check round trip (C05 / C06: every reported address decodes to version byte || hash) ---------- *)
From RBP Require Import Codec.
Fixpoint index_of (c:N) (l:list N) (i:N) : option N := match l with [] => None | x :: r => if x =? c then Some i else index_of c r (i + 1) end.
Definition unalpha (c:N) : option N := index_of c ALPHABET 0.
Fixpoint traverse {A B} (f:A -> option B) (l:list A) : option (list B) :=
  match l with [] => Some [] | x :: r => match f x, traverse f r with Some y, Some ys => Some (y :: ys) | _, _ => None end end.
Definition b58_decode (s:list N) : option bytes := option_map b58_undigits (traverse unalpha s).
Fixpoint list_eqb (a b:list N) : bool := match a, b with [], [] => true | x :: a', y :: b' => (x =? y) && list_eqb a' b' | _, _ => false end.
Definition b58check_decode (s:list N) : option bytes :=
  match b58_decode s with
  | None => None
  | Some raw => let n := length raw in
      if (n <? 4)%nat then None else
      let p := firstn (n - 4) raw in let c := skipn (n - 4) raw in
      if list_eqb c (firstn 4 (sha256d p)) then Some p else None end.

Lemma list_eqb_refl a : list_eqb a a = true.
Proof. induction a; cbn; [reflexivity|]. now rewrite N.eqb_refl. Qed.
Lemma unalpha_alphabet : forallb (fun d => match unalpha (nth d ALPHABET 0) with Some i => i =? N.of_nat d | None => false end) (seq 0 58) = true.
Proof. vm_compute. reflexivity. Qed.
Lemma unalpha_nth d : d < 58 -> unalpha (nth (N.to_nat d) ALPHABET 0) = Some d.
Proof.
  intro H. pose proof unalpha_alphabet as A. rewrite forallb_forall in A. specialize (A (N.to_nat d) ltac:(apply in_seq; lia)).
  destruct (unalpha (nth (N.to_nat d) ALPHABET 0)) as [i|]; [|discriminate]. apply N.eqb_eq in A. f_equal. lia.
Qed.
Lemma traverse_unalpha ds : Forall (fun d => d < 58) ds -> traverse unalpha (map (fun d => nth (N.to_nat d) ALPHABET 0) ds) = Some ds.
Proof. induction 1 as [|d r Hd Hr IH]; [reflexivity|]. cbn [map traverse]. now rewrite (unalpha_nth d Hd), IH. Qed.
Lemma to_le_small B : 0 < B -> forall fuel n, Forall (fun d => d < B) (to_le fuel B n).
Proof. intros HB. induction fuel as [|f IH]; intro n; cbn [to_le]; [constructor|]. destruct (n =? 0); constructor; [apply N.mod_lt; lia|apply IH]. Qed.
Lemma b58_digits_small bs : Forall (fun d => d < 58) (b58_digits bs).
Proof.
  unfold b58_digits. apply Forall_app. split.
  - apply Forall_forall. intros x Hx. apply repeat_spec in Hx. subst. lia.
  - apply Forall_rev. apply to_le_small. lia.
Qed.
Theorem b58_decode_encode bs : wfb bs = true -> b58_decode (b58_encode bs) = Some bs.
Proof.
  intro H. unfold b58_decode, b58_encode. rewrite traverse_unalpha by apply b58_digits_small. cbn [option_map]. f_equal. now apply b58_digits_roundtrip.
Qed.
(* any payload (version byte || hash of any length): the address decodes back to exactly that payload, checksum verified *)
Theorem b58check_roundtrip p : wfb p = true -> b58check_decode (b58check_encode p) = Some p.
Proof.
  intro H. unfold b58check_decode, b58check_encode.
  assert (Hc : length (firstn 4 (sha256d p)) = 4%nat) by (rewrite firstn_length; unfold sha256d; rewrite sha256_length; reflexivity).
  assert (Hw : wfb (p ++ firstn 4 (sha256d p)) = true).
  { rewrite wfb_app, H. cbn [andb]. pose proof (sha256d_wfb p) as W. unfold wfb in *. rewrite forallb_forall in *. intros x Hx. apply W. rewrite <- (firstn_skipn 4 (sha256d p)). apply in_or_app. now left. }
  rewrite (b58_decode_encode _ Hw). rewrite app_length, Hc.
  replace (length p + 4 <? 4)%nat with false by (symmetry; apply Nat.ltb_ge; lia).
  replace (length p + 4 - 4)%nat with (length p) by lia.
  rewrite firstn_app, Nat.sub_diag, firstn_O, app_nil_r, firstn_all, skipn_app, Nat.sub_diag, skipn_all. cbn [app skipn]. now rewrite list_eqb_refl.
Qed.
(* the forms used by the code *)
Corollary address_decodes version h : version < 256 -> wfb h = true -> b58check_decode (hash160_to_address version h) = Some (version :: h).
Proof. intros Hv Hh. unfold hash160_to_address. apply b58check_roundtrip. unfold wfb in *. cbn [forallb]. rewrite Hh. replace (version <? 256) with true by lia. reflexivity. Qed.
Corollary p2pk_address_decodes version pk : version < 256 -> b58check_decode (public_key_to_addr version pk) = Some (version :: hash160 pk).
Proof. intro Hv. unfold public_key_to_addr. apply address_decodes; [exact Hv|apply hash160_wfb]. Qed.
