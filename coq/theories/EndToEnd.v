(* C01 end to end on the composed model: index -> driver -> fetch at (file, offset) -> parse -> evaluate -> CSV rows, for every laid-out
   chain of well-formed blocks: the delivered list is exactly the parsed abstract blocks of heights s..max, so the CSV rows are the
   renderings of the serialised fields (with C02 and C03 as the two middle steps). *)
From RBP Require Import Bytes Hashes Wire Block BlockP Render Index Model ModelP StoreP CsvP.
From RBP Require Drive.

Lemma list_of_keys_and_values {A} (l:list (N * A)) (F:N -> A) :
  (forall h b, In (h, b) l -> b = F h) -> l = map (fun h => (h, F h)) (map fst l).
Proof.
  induction l as [|[h b] r IH]; intro H; [reflexivity|]. cbn [map fst]. rewrite (H h b (or_introl eq_refl)). f_equal.
  apply IH. intros h' b' Hin. apply H. now right.
Qed.

(* a chain laid out in a data directory: for every height of the range the index names a position whose plaintext view holds
   size prefix ++ serialised block (whatever precedes or follows it) *)
Definition laid_out (c:coin) (d:datadir) (ci:chain_index) (s:N) (chain:N -> ablock) (size:N -> N) : Prop :=
  forall h, s <= h <= ci_max ci -> exists rec f rest,
    hm_get h (ci_idx ci) = Some rec /\ find (fun f => f_num f =? r_file rec) (d_files d) = Some f /\ 4 <= r_off rec /\
    plain_from d f (r_off rec - 4) = Some (le_encode 4 (size h) ++ ser_block (chain h) ++ rest) /\ size h < 2^32 /\ wf_block c (chain h) = true.

Theorem delivered_are_the_parsed_blocks c d o ci chain size :
  range_ok (o_range o) = true -> d_files d <> [] -> new_index (d_index d) (o_range o) = Ok ci -> o_verify o = false -> d_xor d <> Some [] ->
  let s := o_start (o_range o) in s <= ci_max ci + 1 -> laid_out c d ci s chain size ->
  exists r, run_case c d o = Run r /\ r_fail r = None /\ last_height r = ci_max ci /\
    r_delivered r = map (fun h => (h, eval_block c (parsed_block (size h) (chain h)))) (Drive.heights s (N.to_nat (ci_max ci + 1 - s))).
Proof.
  intros Hr Hf Hci Hv Hk s Hs HL.
  assert (Hget : forall h, s <= h <= ci_max ci -> get_block c d (o_verify o) ci h = Some (inl (eval_block c (parsed_block (size h) (chain h))))).
  { intros h Hh. destruct (HL h Hh) as (rec & f & rest & Hrec & Hfind & Hoff & Hplain & Hsz & Hwf).
    unfold get_block. rewrite Hrec, Hv. now rewrite (fetch_block_placed c d rec f (size h) (chain h) rest Hfind Hoff Hk Hplain Hsz Hwf). }
  destruct (run_delivers_range c d o ci Hr Hf Hci Hs) as (r & Hrun & _ & Hfail & Hcur & Hkeys & Hvals).
  { intros h Hh. eexists. apply (Hget h Hh). }
  exists r. split; [exact Hrun|]. split; [exact Hfail|]. split; [unfold last_height; rewrite Hcur; lia|].
  fold s in Hkeys. rewrite <- Hkeys. apply list_of_keys_and_values. intros h b Hin.
  pose proof (Hvals h b Hin) as G. assert (Hh : s <= h <= ci_max ci).
  { assert (In h (map fst (r_delivered r))) by (apply in_map_iff; exists (h, b); split; [reflexivity|exact Hin]). rewrite Hkeys in H. apply Drive.heights_In in H. lia. }
  rewrite (Hget h Hh) in G. now inversion G.
Qed.

(* hence: the CSV writes of the run are the renderings of those parsed blocks, in height order; the file names carry s and max *)
Corollary csv_of_laid_out_chain c d o ci chain size :
  range_ok (o_range o) = true -> d_files d <> [] -> new_index (d_index d) (o_range o) = Ok ci -> o_verify o = false -> d_xor d <> Some [] ->
  let s := o_start (o_range o) in s <= ci_max ci + 1 -> laid_out c d ci s chain size ->
  exists r, run_case c d o = Run r /\ r_fail r = None /\ last_height r = ci_max ci /\
    csv_writes (r_delivered r) = flat_map (fun h => csv_block_writes (h, eval_block c (parsed_block (size h) (chain h)))) (Drive.heights s (N.to_nat (ci_max ci + 1 - s))).
Proof.
  intros Hr Hf Hci Hv Hk s Hs HL. destruct (delivered_are_the_parsed_blocks c d o ci chain size Hr Hf Hci Hv Hk Hs HL) as (r & A & B & C & D).
  exists r. repeat split; try assumption. rewrite D. unfold csv_writes. now rewrite flat_map_concat_map, map_map, <- flat_map_concat_map.
Qed.
(* counts of a parsed well-formed block equal the numbers of parsed elements: the premise of "totals = rows written" holds for every delivered block *)
Lemma parsed_block_counts_consistent c size b : counts_consistent (eval_block c (parsed_block size b)).
Proof.
  unfold counts_consistent, eval_block, parsed_block. cbn [y_blk y_txs b_txcount b_txs vval]. rewrite !map_length. split; [reflexivity|].
  apply Forall_forall. intros t Ht. apply in_map_iff in Ht as (rt & <- & Hrt). apply in_map_iff in Hrt as (at_ & <- & _).
  unfold n_inputs, n_outputs, eval_tx, parsed_tx. cbn [x_raw x_outs tx_incount tx_outcount tx_inputs tx_outputs vval]. rewrite !map_length. split; reflexivity.
Qed.
