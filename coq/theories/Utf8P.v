(* C16 / C14: what "valid UTF-8" and "invalid sequences replaced by U+FFFD" mean, independently of the decoder.
   A code point is a Unicode scalar value (0..0x10FFFF without the surrogates D800..DFFF); `encode` is the UTF-8 encoding of the Unicode
   standard (table 3-6).  Theorems: the strict validity test of the model (String::from_utf8) accepts exactly the concatenations of encoded
   scalar values; the lossy decoder (String::from_utf8_lossy) is the identity on them, always produces such a concatenation, and leaves a
   valid prefix untouched. *)
From RBP Require Import Bytes Utf8.
From Coq Require Import Lia ZArith.
Ltac Zify.zify_post_hook ::= Z.div_mod_to_equations.
Local Open Scope N_scope.

Definition valid_cp (cp:N) : bool := (cp <? 0xD800) || ((0xE000 <=? cp) && (cp <=? 0x10FFFF)).
Definition encode (cp:N) : bytes :=
  if cp <? 0x80 then [cp]
  else if cp <? 0x800 then [0xc0 + cp / 64; 0x80 + cp mod 64]
  else if cp <? 0x10000 then [0xe0 + cp / 4096; 0x80 + (cp / 64) mod 64; 0x80 + cp mod 64]
  else [0xf0 + cp / 262144; 0x80 + (cp / 4096) mod 64; 0x80 + (cp / 64) mod 64; 0x80 + cp mod 64].
Definition encode_all (cps:list N) : bytes := flat_map encode cps.

Lemma encode_nonempty cp : encode cp <> [].
Proof. unfold encode. destruct (cp <? 0x80); [discriminate|]. destruct (cp <? 0x800); [discriminate|]. destruct (cp <? 0x10000); discriminate. Qed.
Example FFFD_is_encode : FFFD = encode 0xFFFD /\ valid_cp 0xFFFD = true.
Proof. split; reflexivity. Qed.

(* ---------- one unfolding of the decoder, with the local helpers spelled out ---------- *)
Definition good (pre rest:bytes) : bytes * bool := (pre ++ fst (lossy rest), snd (lossy rest)).
Definition bad (rest:bytes) : bytes * bool := (FFFD ++ fst (lossy rest), true).
Lemma lossy_eq b r : lossy (b :: r) =
    if b <? 128 then good [b] r else
    let w := width b in
    if w =? 2 then
      match r with c1 :: r1 => if cont c1 then good [b; c1] r1 else bad r | [] => (FFFD, true) end
    else if w =? 3 then
      match r with
      | c1 :: r1 => if ok3 b c1 then
                      match r1 with c2 :: r2 => if cont c2 then good [b; c1; c2] r2 else bad r1 | [] => (FFFD, true) end
                    else bad r
      | [] => (FFFD, true) end
    else if w =? 4 then
      match r with
      | c1 :: r1 => if ok4 b c1 then
                      match r1 with
                      | c2 :: r2 => if cont c2 then
                                      match r2 with c3 :: r3 => if cont c3 then good [b; c1; c2; c3] r3 else bad r2 | [] => (FFFD, true) end
                                    else bad r1
                      | [] => (FFFD, true) end
                    else bad r
      | [] => (FFFD, true) end
    else bad r.
Proof.
  unfold good, bad. cbn [lossy].
  destruct (b <? 128); [destruct (lossy r); reflexivity|]. cbv zeta.
  destruct (width b =? 2).
  { destruct r as [|c1 r1]; [reflexivity|]. destruct (cont c1); [destruct (lossy r1); reflexivity|destruct (lossy (c1 :: r1)); reflexivity]. }
  destruct (width b =? 3).
  { destruct r as [|c1 r1]; [reflexivity|]. destruct (ok3 b c1); [|destruct (lossy (c1 :: r1)); reflexivity].
    destruct r1 as [|c2 r2]; [reflexivity|]. destruct (cont c2); [destruct (lossy r2); reflexivity|destruct (lossy (c2 :: r2)); reflexivity]. }
  destruct (width b =? 4).
  { destruct r as [|c1 r1]; [reflexivity|]. destruct (ok4 b c1); [|destruct (lossy (c1 :: r1)); reflexivity].
    destruct r1 as [|c2 r2]; [reflexivity|]. destruct (cont c2); [|destruct (lossy (c2 :: r2)); reflexivity].
    destruct r2 as [|c3 r3]; [reflexivity|]. destruct (cont c3); [destruct (lossy r3); reflexivity|destruct (lossy (c3 :: r3)); reflexivity]. }
  destruct (lossy r); reflexivity.
Qed.

(* ---------- the decoder on an encoded scalar value ---------- *)
Lemma lossy_encode cp r : valid_cp cp = true -> lossy (encode cp ++ r) = good (encode cp) r.
Proof.
  unfold valid_cp, encode. intro Hv.
  destruct (N.ltb_spec cp 0x80) as [H1|H1].
  { cbn [app]. rewrite lossy_eq. replace (cp <? 128) with true by lia. reflexivity. }
  destruct (N.ltb_spec cp 0x800) as [H2|H2].
  { cbn [app]. rewrite lossy_eq. set (b := 0xc0 + cp / 64). set (c1 := 0x80 + cp mod 64).
    assert (Hb : 0xc2 <= b <= 0xdf) by (unfold b; lia). assert (Hc : 0x80 <= c1 <= 0xbf) by (unfold c1; lia).
    replace (b <? 128) with false by lia. unfold width, in_rng. replace ((0xc2 <=? b) && (b <=? 0xdf)) with true by lia. cbv zeta. cbn [N.eqb Pos.eqb].
    unfold cont. replace ((0x80 <=? c1) && (c1 <=? 0xbf)) with true by lia. reflexivity. }
  destruct (N.ltb_spec cp 0x10000) as [H3|H3].
  { cbn [app]. rewrite lossy_eq. set (b := 0xe0 + cp / 4096). set (c1 := 0x80 + (cp / 64) mod 64). set (c2 := 0x80 + cp mod 64).
    assert (Hb : 0xe0 <= b <= 0xef) by (unfold b; lia). assert (Hc1 : 0x80 <= c1 <= 0xbf) by (unfold c1; lia). assert (Hc2 : 0x80 <= c2 <= 0xbf) by (unfold c2; lia).
    replace (b <? 128) with false by lia. unfold width, in_rng. replace ((0xc2 <=? b) && (b <=? 0xdf)) with false by lia.
    replace ((0xe0 <=? b) && (b <=? 0xef)) with true by lia. cbv zeta. cbn [N.eqb Pos.eqb].
    assert (Hok : ok3 b c1 = true).
    { unfold ok3, in_rng. apply orb_true_iff.
      destruct (N.eq_dec (cp / 4096) 0) as [E0|N0].
      - left. apply orb_true_iff. left. apply orb_true_iff. left. assert (0xa0 <= c1) by (unfold c1; lia). apply andb_true_iff. split; [unfold b; lia|lia].
      - destruct (N.eq_dec (cp / 4096) 13) as [E13|N13].
        + left. apply orb_true_iff. right. assert (c1 <= 0x9f) by (unfold c1; lia). apply andb_true_iff. split; [unfold b; lia|lia].
        + destruct (N.ltb_spec (cp / 4096) 13) as [L|G].
          * left. apply orb_true_iff. left. apply orb_true_iff. right. apply andb_true_iff. split; [unfold b; lia|lia].
          * right. apply andb_true_iff. split; [unfold b; lia|lia]. }
    rewrite Hok. unfold cont. replace ((0x80 <=? c2) && (c2 <=? 0xbf)) with true by lia. reflexivity. }
  { cbn [app]. rewrite lossy_eq. set (b := 0xf0 + cp / 262144). set (c1 := 0x80 + (cp / 4096) mod 64). set (c2 := 0x80 + (cp / 64) mod 64). set (c3 := 0x80 + cp mod 64).
    assert (Hb : 0xf0 <= b <= 0xf4) by (unfold b; lia). assert (Hc1 : 0x80 <= c1 <= 0xbf) by (unfold c1; lia).
    assert (Hc2 : 0x80 <= c2 <= 0xbf) by (unfold c2; lia). assert (Hc3 : 0x80 <= c3 <= 0xbf) by (unfold c3; lia).
    replace (b <? 128) with false by lia. unfold width, in_rng. replace ((0xc2 <=? b) && (b <=? 0xdf)) with false by lia.
    replace ((0xe0 <=? b) && (b <=? 0xef)) with false by lia. replace ((0xf0 <=? b) && (b <=? 0xf4)) with true by lia. cbv zeta. cbn [N.eqb Pos.eqb].
    assert (Hok : ok4 b c1 = true).
    { unfold ok4, in_rng. apply orb_true_iff.
      destruct (N.eq_dec (cp / 262144) 0) as [E0|N0].
      - left. apply orb_true_iff. left. assert (0x90 <= c1) by (unfold c1; lia). apply andb_true_iff. split; [unfold b; lia|lia].
      - destruct (N.eq_dec (cp / 262144) 4) as [E4|N4].
        + right. assert (c1 <= 0x8f) by (unfold c1; lia). apply andb_true_iff. split; [unfold b; lia|lia].
        + left. apply orb_true_iff. right. apply andb_true_iff. split; [unfold b; lia|lia]. }
    rewrite Hok. unfold cont. replace ((0x80 <=? c2) && (c2 <=? 0xbf)) with true by lia. replace ((0x80 <=? c3) && (c3 <=? 0xbf)) with true by lia. reflexivity. }
Qed.

(* ---------- a chunk the decoder accepts is the encoding of a scalar value ---------- *)
Lemma dec1 b : b < 128 -> valid_cp b = true /\ encode b = [b].
Proof. intro H. unfold valid_cp, encode. replace (b <? 0x80) with true by lia. split; [lia|reflexivity]. Qed.
Lemma dec2 b c1 : width b = 2 -> cont c1 = true -> exists cp, valid_cp cp = true /\ encode cp = [b; c1].
Proof.
  unfold width, in_rng, cont. intros Hw Hc.
  destruct ((0xc2 <=? b) && (b <=? 0xdf)) eqn:E; [|destruct ((0xe0 <=? b) && (b <=? 0xef)); [discriminate|destruct ((0xf0 <=? b) && (b <=? 0xf4)); discriminate]].
  exists ((b - 0xc0) * 64 + (c1 - 0x80)). unfold valid_cp, encode.
  assert (0xc2 <= b <= 0xdf) by lia. assert (0x80 <= c1 <= 0xbf) by lia.
  set (cp := (b - 0xc0) * 64 + (c1 - 0x80)). assert (0x80 <= cp < 0x800) by (unfold cp; lia).
  replace (cp <? 0x80) with false by lia. replace (cp <? 0x800) with true by lia. split; [lia|].
  assert (cp / 64 = b - 0xc0) by (unfold cp; lia). assert (cp mod 64 = c1 - 0x80) by (unfold cp; lia).
  f_equal; [lia|]. f_equal. lia.
Qed.
Lemma width3 b : width b = 3 -> 0xe0 <= b <= 0xef.
Proof.
  unfold width, in_rng. destruct ((0xc2 <=? b) && (b <=? 0xdf)); [discriminate|]. destruct ((0xe0 <=? b) && (b <=? 0xef)) eqn:E; [lia|].
  destruct ((0xf0 <=? b) && (b <=? 0xf4)); discriminate.
Qed.
Lemma width4 b : width b = 4 -> 0xf0 <= b <= 0xf4.
Proof.
  unfold width, in_rng. destruct ((0xc2 <=? b) && (b <=? 0xdf)); [discriminate|]. destruct ((0xe0 <=? b) && (b <=? 0xef)); [discriminate|].
  destruct ((0xf0 <=? b) && (b <=? 0xf4)) eqn:E; [lia|discriminate].
Qed.
Lemma dec3 b c1 c2 : width b = 3 -> ok3 b c1 = true -> cont c2 = true -> exists cp, valid_cp cp = true /\ encode cp = [b; c1; c2].
Proof.
  intros Hw Hok Hc. apply width3 in Hw. unfold cont in Hc. assert (Hc2 : 0x80 <= c2 <= 0xbf) by lia.
  assert (Hc1 : 0x80 <= c1 <= 0xbf /\ (b = 0xe0 -> 0xa0 <= c1) /\ (b = 0xed -> c1 <= 0x9f)).
  { unfold ok3, in_rng in Hok. lia. }
  destruct Hc1 as (Hr & He0 & Hed).
  exists ((b - 0xe0) * 4096 + (c1 - 0x80) * 64 + (c2 - 0x80)). set (cp := (b - 0xe0) * 4096 + (c1 - 0x80) * 64 + (c2 - 0x80)).
  assert (Hq : cp / 4096 = b - 0xe0) by (unfold cp; lia).
  assert (Hm : (cp / 64) mod 64 = c1 - 0x80) by (unfold cp; lia).
  assert (Hl : cp mod 64 = c2 - 0x80) by (unfold cp; lia).
  assert (Hlo : 0x800 <= cp) by (unfold cp; destruct (N.eq_dec b 0xe0) as [->|]; [specialize (He0 eq_refl); lia|lia]).
  assert (Hhi : cp < 0x10000) by (unfold cp; lia).
  assert (Hsur : cp < 0xD800 \/ 0xE000 <= cp).
  { destruct (N.eq_dec b 0xed) as [->|]; [specialize (Hed eq_refl); left; unfold cp; lia|]. destruct (N.ltb_spec b 0xed); [left|right]; unfold cp; lia. }
  unfold valid_cp, encode. replace (cp <? 0x80) with false by lia. replace (cp <? 0x800) with false by lia. replace (cp <? 0x10000) with true by lia.
  split; [lia|]. rewrite Hq, Hm, Hl. f_equal; [lia|]. f_equal; [lia|]. f_equal. lia.
Qed.
Lemma dec4 b c1 c2 c3 : width b = 4 -> ok4 b c1 = true -> cont c2 = true -> cont c3 = true -> exists cp, valid_cp cp = true /\ encode cp = [b; c1; c2; c3].
Proof.
  intros Hw Hok Hc2' Hc3'. apply width4 in Hw. unfold cont in *. assert (Hc2 : 0x80 <= c2 <= 0xbf) by lia. assert (Hc3 : 0x80 <= c3 <= 0xbf) by lia.
  assert (Hc1 : 0x80 <= c1 <= 0xbf /\ (b = 0xf0 -> 0x90 <= c1) /\ (b = 0xf4 -> c1 <= 0x8f)).
  { unfold ok4, in_rng in Hok. lia. }
  destruct Hc1 as (Hr & Hf0 & Hf4).
  exists ((b - 0xf0) * 262144 + (c1 - 0x80) * 4096 + (c2 - 0x80) * 64 + (c3 - 0x80)).
  set (cp := (b - 0xf0) * 262144 + (c1 - 0x80) * 4096 + (c2 - 0x80) * 64 + (c3 - 0x80)).
  assert (Hq : cp / 262144 = b - 0xf0) by (unfold cp; lia).
  assert (Hm1 : (cp / 4096) mod 64 = c1 - 0x80) by (unfold cp; lia).
  assert (Hm2 : (cp / 64) mod 64 = c2 - 0x80) by (unfold cp; lia).
  assert (Hl : cp mod 64 = c3 - 0x80) by (unfold cp; lia).
  assert (Hlo : 0x10000 <= cp) by (unfold cp; destruct (N.eq_dec b 0xf0) as [->|]; [specialize (Hf0 eq_refl); lia|lia]).
  assert (Hhi : cp <= 0x10FFFF) by (unfold cp; destruct (N.eq_dec b 0xf4) as [->|]; [specialize (Hf4 eq_refl); lia|lia]).
  unfold valid_cp, encode. replace (cp <? 0x80) with false by lia. replace (cp <? 0x800) with false by lia. replace (cp <? 0x10000) with false by lia.
  split; [lia|]. rewrite Hq, Hm1, Hm2, Hl. f_equal; [lia|]. f_equal; [lia|]. f_equal; [lia|]. f_equal. lia.
Qed.

(* ---------- one step of the decoder: either an encoded scalar value is copied, or some bytes are replaced by U+FFFD ---------- *)
Lemma lossy_step l : l <> [] -> exists pre r, l = pre ++ r /\ pre <> [] /\
  ((exists cp, valid_cp cp = true /\ pre = encode cp /\ lossy l = good pre r) \/ lossy l = bad r).
Proof.
  destruct l as [|b r]; [congruence|]. intros _. rewrite lossy_eq.
  assert (End : forall pre, pre <> [] -> b :: r = pre ++ [] -> exists pre0 r0, b :: r = pre0 ++ r0 /\ pre0 <> [] /\
            ((exists cp, valid_cp cp = true /\ pre0 = encode cp /\ (FFFD, true) = good pre0 r0) \/ (FFFD, true) = bad r0)).
  { intros pre Hne E. exists pre, []. split; [exact E|]. split; [exact Hne|]. right. reflexivity. }
  destruct (N.ltb_spec b 128) as [H1|H1].
  { exists [b], r. split; [reflexivity|]. split; [discriminate|]. left. destruct (dec1 b H1) as [Hv He]. exists b. now rewrite He. }
  cbv zeta. destruct (N.eqb_spec (width b) 2) as [W2|W2].
  { destruct r as [|c1 r1]; [apply (End [b]); [discriminate|reflexivity]|].
    destruct (cont c1) eqn:C1.
    - exists [b; c1], r1. split; [reflexivity|]. split; [discriminate|]. left. destruct (dec2 b c1 W2 C1) as (cp & Hv & He). exists cp. now rewrite He.
    - exists [b], (c1 :: r1). split; [reflexivity|]. split; [discriminate|]. now right. }
  destruct (N.eqb_spec (width b) 3) as [W3|W3].
  { destruct r as [|c1 r1]; [apply (End [b]); [discriminate|reflexivity]|].
    destruct (ok3 b c1) eqn:O3; [|exists [b], (c1 :: r1); split; [reflexivity|]; split; [discriminate|]; now right].
    destruct r1 as [|c2 r2]; [apply (End [b; c1]); [discriminate|reflexivity]|].
    destruct (cont c2) eqn:C2.
    - exists [b; c1; c2], r2. split; [reflexivity|]. split; [discriminate|]. left. destruct (dec3 b c1 c2 W3 O3 C2) as (cp & Hv & He). exists cp. now rewrite He.
    - exists [b; c1], (c2 :: r2). split; [reflexivity|]. split; [discriminate|]. now right. }
  destruct (N.eqb_spec (width b) 4) as [W4|W4].
  { destruct r as [|c1 r1]; [apply (End [b]); [discriminate|reflexivity]|].
    destruct (ok4 b c1) eqn:O4; [|exists [b], (c1 :: r1); split; [reflexivity|]; split; [discriminate|]; now right].
    destruct r1 as [|c2 r2]; [apply (End [b; c1]); [discriminate|reflexivity]|].
    destruct (cont c2) eqn:C2; [|exists [b; c1], (c2 :: r2); split; [reflexivity|]; split; [discriminate|]; now right].
    destruct r2 as [|c3 r3]; [apply (End [b; c1; c2]); [discriminate|reflexivity]|].
    destruct (cont c3) eqn:C3.
    - exists [b; c1; c2; c3], r3. split; [reflexivity|]. split; [discriminate|]. left. destruct (dec4 b c1 c2 c3 W4 O4 C2 C3) as (cp & Hv & He). exists cp. now rewrite He.
    - exists [b; c1; c2], (c3 :: r3). split; [reflexivity|]. split; [discriminate|]. now right. }
  exists [b], r. split; [reflexivity|]. split; [discriminate|]. now right.
Qed.

(* ---------- the theorems ---------- *)
Lemma lossy_encode_all cps r : Forall (fun cp => valid_cp cp = true) cps -> lossy (encode_all cps ++ r) = good (encode_all cps) r.
Proof.
  induction cps as [|cp t IH]; intro HF.
  - unfold good. cbn. destruct (lossy r); reflexivity.
  - inversion HF as [|? ? Hv Ht]; subst. cbn [encode_all flat_map]. fold (encode_all t). rewrite <- app_assoc, (lossy_encode cp _ Hv).
    unfold good. rewrite (IH Ht). unfold good. cbn [fst snd]. now rewrite app_assoc.
Qed.

(* strict validity (String::from_utf8 succeeds) = the bytes are a concatenation of encoded Unicode scalar values *)
Theorem utf8_valid_iff l : utf8_valid l = true <-> exists cps, Forall (fun cp => valid_cp cp = true) cps /\ l = encode_all cps.
Proof.
  split.
  - remember (length l) as n eqn:Hn. revert l Hn. induction n as [n IH] using lt_wf_ind. intros l Hn Hv.
    destruct l as [|b r]; [exists []; split; [constructor|reflexivity]|].
    destruct (lossy_step (b :: r) ltac:(discriminate)) as (pre & rest & El & Hne & [(cp & Hcp & -> & Hl)|Hl]).
    + unfold utf8_valid in Hv. rewrite Hl in Hv. unfold good in Hv. cbn [snd] in Hv.
      assert (Hlen : (length rest < n)%nat).
      { subst n. rewrite El, app_length. pose proof (encode_nonempty cp). destruct (encode cp); [congruence|cbn; lia]. }
      destruct (IH (length rest) Hlen rest eq_refl Hv) as (cps & HF & ->).
      exists (cp :: cps). split; [constructor; assumption|]. exact El.
    + unfold utf8_valid in Hv. rewrite Hl in Hv. discriminate.
  - intros (cps & HF & ->). unfold utf8_valid. rewrite <- (app_nil_r (encode_all cps)), (lossy_encode_all cps [] HF). reflexivity.
Qed.

(* the lossy decoder copies valid text unchanged, and a valid prefix is never touched by what follows it *)
Theorem lossy_valid_prefix cps r : Forall (fun cp => valid_cp cp = true) cps -> from_utf8_lossy (encode_all cps ++ r) = encode_all cps ++ from_utf8_lossy r.
Proof. intro HF. unfold from_utf8_lossy. now rewrite (lossy_encode_all cps r HF). Qed.
Theorem lossy_identity_on_valid l : utf8_valid l = true -> from_utf8_lossy l = l.
Proof.
  intro Hv. apply utf8_valid_iff in Hv. destruct Hv as (cps & HF & ->).
  rewrite <- (app_nil_r (encode_all cps)) at 1. rewrite (lossy_valid_prefix cps [] HF). cbn. now rewrite app_nil_r.
Qed.

(* whatever the input, the printed text is valid UTF-8: scalar values of the input and U+FFFD, nothing else *)
Theorem lossy_output_is_scalars l : exists cps, Forall (fun cp => valid_cp cp = true) cps /\ from_utf8_lossy l = encode_all cps.
Proof.
  remember (length l) as n eqn:Hn. revert l Hn. induction n as [n IH] using lt_wf_ind. intros l Hn.
  destruct l as [|b r]; [exists []; split; [constructor|reflexivity]|].
  destruct (lossy_step (b :: r) ltac:(discriminate)) as (pre & rest & El & Hne & Hcase).
  assert (Hlen : (length rest < n)%nat) by (subst n; rewrite El, app_length; destruct pre; [congruence|cbn; lia]).
  destruct (IH (length rest) Hlen rest eq_refl) as (cps & HF & Hr).
  destruct Hcase as [(cp & Hcp & -> & Hl)|Hl]; unfold from_utf8_lossy in *; rewrite Hl.
  - exists (cp :: cps). split; [constructor; assumption|]. unfold good. cbn [fst encode_all flat_map]. now rewrite Hr.
  - exists (0xFFFD :: cps). split; [constructor; [reflexivity|assumption]|]. unfold bad. cbn [fst encode_all flat_map]. now rewrite Hr.
Qed.
Theorem lossy_output_valid l : utf8_valid (from_utf8_lossy l) = true.
Proof. apply utf8_valid_iff. apply lossy_output_is_scalars. Qed.

(* invalid input is really changed: a replacement happened iff the input is not valid *)
Theorem lossy_changes_iff_invalid l : from_utf8_lossy l = l <-> utf8_valid l = true.
Proof.
  split; [|apply lossy_identity_on_valid]. intro E. rewrite <- E. apply lossy_output_valid.
Qed.

(* examples from the Unicode standard (table 3-8, "U+FFFD for each maximal subpart"): 61 F1 80 80 E1 80 C2 62 80 63 80 BF 64 *)
Example unicode_3_8 : from_utf8_lossy [0x61; 0xF1; 0x80; 0x80; 0xE1; 0x80; 0xC2; 0x62; 0x80; 0x63; 0x80; 0xBF; 0x64]
  = [0x61] ++ FFFD ++ FFFD ++ FFFD ++ [0x62] ++ FFFD ++ [0x63] ++ FFFD ++ FFFD ++ [0x64].
Proof. vm_compute. reflexivity. Qed.
Example surrogate_rejected : utf8_valid [0xed; 0xa0; 0x80] = false /\ utf8_valid [0xf4; 0x90; 0x80; 0x80] = false /\ utf8_valid [0xc0; 0xaf] = false /\ utf8_valid [0xe0; 0x80; 0x80] = false.
Proof. vm_compute. repeat split. Qed.

(* ---------- what the opreturn callback prints, on both evaluation paths, for valid text ---------- *)
From RBP Require Import Hashes Base58 Bech32 ScriptCustom CustomTop ScriptBtc Wire Block Index Model OpReturnP.
Theorem opreturn_text_valid_payload c f d : pfits f d -> d <> [] -> utf8_valid d = true ->
  e_tag (eval_script c (0x6a :: enc_push f d)) = 0 /\ e_text (eval_script c (0x6a :: enc_push f d)) = d.
Proof.
  intros Hf Hne Hv. destruct (is_btc c) eqn:Eb.
  - rewrite (eval_script_btc_opreturn c f d Eb Hf). cbn [e_tag e_text]. now rewrite Hv.
  - rewrite (eval_script_fork_opreturn c f d Eb Hf Hne). cbn [e_tag e_text]. split; [reflexivity|now apply lossy_identity_on_valid].
Qed.
(* fork coins: whatever the payload, the printed text is valid UTF-8 and keeps every valid prefix of the payload *)
Theorem opreturn_text_fork c f d : is_btc c = false -> pfits f d -> d <> [] ->
  utf8_valid (e_text (eval_script c (0x6a :: enc_push f d))) = true.
Proof. intros Eb Hf Hne. rewrite (eval_script_fork_opreturn c f d Eb Hf Hne). cbn [e_text]. apply lossy_output_valid. Qed.
