(* Model: mirror of script/mod.rs eval_from_bytes_bitcoin over the rust-bitcoin 0.32.5 predicates it calls
   (OP_RETURN payload = the single push after OP_RETURN, else bytes[2..]; local is_bare_multisig). C05 / C14 / C16 *)
From RBP Require Import Bytes Hashes Base58 Utf8 Bech32 Segwit.

(* ---- rust-bitcoin Instructions iterator ---- *)
Inductive instr := IPush (d:bytes) | IOp (c:N).
Inductive inext := INone | IErr | ISome (i:instr) (rest:bytes).
Definition take (n:N) (l:bytes) : inext :=
  if N.of_nat (length l) <? n then IErr else ISome (IPush (firstn (N.to_nat n) l)) (skipn (N.to_nat n) l).
Definition inext_of (l:bytes) : inext :=
  match l with
  | [] => INone
  | b :: r =>
    if b <=? 0x4b then take b r
    else if b =? 0x4c then (if (length r <? 1)%nat then IErr else take (le_decode (firstn 1 r)) (skipn 1 r))
    else if b =? 0x4d then (if (length r <? 2)%nat then IErr else take (le_decode (firstn 2 r)) (skipn 2 r))
    else if b =? 0x4e then (if (length r <? 4)%nat then IErr else take (le_decode (firstn 4 r)) (skipn 4 r))
    else ISome (IOp b) r
  end.
Definition pushnum (c:N) : option N := if (0x51 <=? c) && (c <=? 0x60) then Some (c - 0x50) else None.

(* script/mod.rs is_bare_multisig: OP_m <push>{n} OP_n OP_CHECKMULTISIG with 1 <= m <= n <= 16; `keys` is a usize *)
Fixpoint ms_loop (fuel:nat) (l:bytes) (keys:N) (required:N) : option bytes :=
  (* Some rest: the key list ended with the matching OP_n, rest follows; None: return false *)
  match fuel with O => None | S f =>
    match inext_of l with
    | ISome (IPush _) rest => ms_loop f rest (keys + 1) required
    | ISome (IOp c) rest => match pushnum c with
                            | Some p => if (p =? keys) && (required <=? keys) then Some rest else None
                            | None => None end
    | IErr => None
    | INone => None
    end end.
Definition is_multisig (l:bytes) : bool :=
  match inext_of l with
  | ISome (IOp c) rest =>
    match pushnum c with
    | None => false
    | Some required =>
      match ms_loop (S (length rest)) rest 0 required with
      | None => false
      | Some rest2 =>
        match inext_of rest2 with
        | ISome (IOp 0xae) rest3 => match inext_of rest3 with INone => true | _ => false end
        | _ => false end
      end
    end
  | _ => false
  end.

(* ---- exact-shape predicates ---- *)
Definition nthb (l:bytes) (i:nat) : N := nth i l 0.
Definition len (l:bytes) := length l.
Definition is_p2pkh l := (len l =? 25)%nat && (nthb l 0 =? 0x76) && (nthb l 1 =? 0xa9) && (nthb l 2 =? 0x14) && (nthb l 23 =? 0x88) && (nthb l 24 =? 0xac).
Definition is_p2sh l := (len l =? 23)%nat && (nthb l 0 =? 0xa9) && (nthb l 1 =? 0x14) && (nthb l 22 =? 0x87).
Definition p2pk_key l : option bytes :=
  if (len l =? 67)%nat && (nthb l 0 =? 65) && (nthb l 66 =? 0xac) then Some (firstn 65 (skipn 1 l))
  else if (len l =? 35)%nat && (nthb l 0 =? 33) && (nthb l 34 =? 0xac) then Some (firstn 33 (skipn 1 l)) else None.
Definition witness_version l : option N :=
  if ((4 <=? len l) && (len l <=? 42))%nat then
    let v := nthb l 0 in let p := nthb l 1 in
    if (p <? 2) || (40 <? p) then None
    else if negb (N.of_nat (len l - 2) =? p) then None
    else if v =? 0 then Some 0 else pushnum v
  else None.
Definition is_p2wpkh l := (len l =? 22)%nat && (match witness_version l with Some 0 => true | _ => false end) && (nthb l 1 =? 0x14).
Definition is_p2wsh l := (len l =? 34)%nat && (match witness_version l with Some 0 => true | _ => false end) && (nthb l 1 =? 0x20).
Definition is_p2tr l := (len l =? 34)%nat && (match witness_version l with Some 1 => true | _ => false end) && (nthb l 1 =? 0x20).

(* opcodes::Class for ClassifyContext::Legacy: ReturnOp or IllegalOp *)
Definition return_or_illegal (c:N) : bool :=
  (c =? 0x65) || (c =? 0x66) || (c =? 0xff)
  || in_rng 0x7e 0x81 c || in_rng 0x83 0x86 c || in_rng 0x8d 0x8e c || in_rng 0x95 0x99 c
  || (c =? 0x6a) || (c =? 0x50) || (c =? 0x89) || (c =? 0x8a) || (c =? 0x62) || (0xba <=? c).

(* ---- bech32 / bech32m segwit address ---- *)
(* ---- eval_from_bytes_bitcoin ---- *)
Inductive bpattern := BOpReturn (d:bytes) | BMultiSig | BP2PK | BP2PKH | BP2SH | BP2WPKH | BP2WSH | BWitnessProgram | BP2TR | BUnspendable | BNotRecognised.
Record net := { pkh_ver : N; sh_ver : N; hrp : list N }.
Definition mainnet := {| pkh_ver := 0; sh_ver := 5; hrp := [98; 99] |}.
Definition testnet := {| pkh_ver := 0x6f; sh_ver := 0xc4; hrp := [116; 98] |}.

Definition address_from_script (n:net) (l:bytes) : option (list N) :=
  if is_p2pkh l then Some (hash160_to_address (pkh_ver n) (firstn 20 (skipn 3 l)))
  else if is_p2sh l then Some (hash160_to_address (sh_ver n) (firstn 20 (skipn 2 l)))
  else match witness_version l with
       | Some v => let prog := skipn 2 l in
                   if (v =? 0) && negb ((len prog =? 20)%nat || (len prog =? 32)%nat) then None   (* InvalidSegwitV0Length *)
                   else Some (segwit_addr (hrp n) v prog)
       | None => None end.

(* OP_RETURN payload (script/mod.rs:132-141) *)
Definition opreturn_payload (l:bytes) : bytes :=
  match inext_of (skipn 1 l) with
  | ISome (IPush d) rest => match inext_of rest with INone => d | _ => skipn 2 l end
  | _ => skipn 2 l end.
Definition eval_btc (n:net) (l:bytes) : bpattern * option (list N) :=
  match l with
  | 0x6a :: _ => let d := opreturn_payload l in (BOpReturn (if utf8_valid d then d else []), None)
  | c :: _ =>
    if return_or_illegal c then (BUnspendable, None) else
    let addr := address_from_script n l in
    match p2pk_key l with
    | Some k => (BP2PK, Some (public_key_to_addr (pkh_ver n) k))
    | None =>
      if is_p2pkh l then (BP2PKH, addr) else if is_p2sh l then (BP2SH, addr)
      else if is_p2wpkh l then (BP2WPKH, addr) else if is_p2wsh l then (BP2WSH, addr)
      else if is_p2tr l then (BP2TR, addr)
      else match witness_version l with
           | Some _ => (BWitnessProgram, addr)
           | None => if is_multisig l then (BMultiSig, addr) else (BNotRecognised, addr)
           end
    end
  | [] => (BNotRecognised, None)
  end.
