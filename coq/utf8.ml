
(** val negb : bool -> bool **)

let negb = function
| true -> false
| false -> true

(** val fst : ('a1 * 'a2) -> 'a1 **)

let fst = function
| (x, _) -> x

(** val snd : ('a1 * 'a2) -> 'a2 **)

let snd = function
| (_, y) -> y

(** val app : 'a1 list -> 'a1 list -> 'a1 list **)

let rec app l m =
  match l with
  | [] -> m
  | a :: l1 -> a :: (app l1 m)

type comparison =
| Eq
| Lt
| Gt

type positive =
| XI of positive
| XO of positive
| XH

type n =
| N0
| Npos of positive

module Pos =
 struct
  (** val compare_cont : comparison -> positive -> positive -> comparison **)

  let rec compare_cont r x y =
    match x with
    | XI p ->
      (match y with
       | XI q -> compare_cont r p q
       | XO q -> compare_cont Gt p q
       | XH -> Gt)
    | XO p ->
      (match y with
       | XI q -> compare_cont Lt p q
       | XO q -> compare_cont r p q
       | XH -> Gt)
    | XH -> (match y with
             | XH -> r
             | _ -> Lt)

  (** val compare : positive -> positive -> comparison **)

  let compare =
    compare_cont Eq

  (** val eqb : positive -> positive -> bool **)

  let rec eqb p q =
    match p with
    | XI p0 -> (match q with
                | XI q0 -> eqb p0 q0
                | _ -> false)
    | XO p0 -> (match q with
                | XO q0 -> eqb p0 q0
                | _ -> false)
    | XH -> (match q with
             | XH -> true
             | _ -> false)
 end

module N =
 struct
  (** val compare : n -> n -> comparison **)

  let compare n0 m =
    match n0 with
    | N0 -> (match m with
             | N0 -> Eq
             | Npos _ -> Lt)
    | Npos n' -> (match m with
                  | N0 -> Gt
                  | Npos m' -> Pos.compare n' m')

  (** val eqb : n -> n -> bool **)

  let eqb n0 m =
    match n0 with
    | N0 -> (match m with
             | N0 -> true
             | Npos _ -> false)
    | Npos p -> (match m with
                 | N0 -> false
                 | Npos q -> Pos.eqb p q)

  (** val leb : n -> n -> bool **)

  let leb x y =
    match compare x y with
    | Gt -> false
    | _ -> true

  (** val ltb : n -> n -> bool **)

  let ltb x y =
    match compare x y with
    | Lt -> true
    | _ -> false
 end

type bytes = n list

(** val cont : n -> bool **)

let cont c =
  (&&) (N.leb (Npos (XO (XO (XO (XO (XO (XO (XO XH)))))))) c)
    (N.leb c (Npos (XI (XI (XI (XI (XI (XI (XO XH)))))))))

(** val inr : n -> n -> n -> bool **)

let inr lo hi c =
  (&&) (N.leb lo c) (N.leb c hi)

(** val ok3 : n -> n -> bool **)

let ok3 b c =
  (||)
    ((||)
      ((||)
        ((&&) (N.eqb b (Npos (XO (XO (XO (XO (XO (XI (XI XH)))))))))
          (inr (Npos (XO (XO (XO (XO (XO (XI (XO XH)))))))) (Npos (XI (XI (XI
            (XI (XI (XI (XO XH)))))))) c))
        ((&&)
          (inr (Npos (XI (XO (XO (XO (XO (XI (XI XH)))))))) (Npos (XO (XO (XI
            (XI (XO (XI (XI XH)))))))) b)
          (inr (Npos (XO (XO (XO (XO (XO (XO (XO XH)))))))) (Npos (XI (XI (XI
            (XI (XI (XI (XO XH)))))))) c)))
      ((&&) (N.eqb b (Npos (XI (XO (XI (XI (XO (XI (XI XH)))))))))
        (inr (Npos (XO (XO (XO (XO (XO (XO (XO XH)))))))) (Npos (XI (XI (XI
          (XI (XI (XO (XO XH)))))))) c)))
    ((&&)
      (inr (Npos (XO (XI (XI (XI (XO (XI (XI XH)))))))) (Npos (XI (XI (XI (XI
        (XO (XI (XI XH)))))))) b)
      (inr (Npos (XO (XO (XO (XO (XO (XO (XO XH)))))))) (Npos (XI (XI (XI (XI
        (XI (XI (XO XH)))))))) c))

(** val ok4 : n -> n -> bool **)

let ok4 b c =
  (||)
    ((||)
      ((&&) (N.eqb b (Npos (XO (XO (XO (XO (XI (XI (XI XH)))))))))
        (inr (Npos (XO (XO (XO (XO (XI (XO (XO XH)))))))) (Npos (XI (XI (XI
          (XI (XI (XI (XO XH)))))))) c))
      ((&&)
        (inr (Npos (XI (XO (XO (XO (XI (XI (XI XH)))))))) (Npos (XI (XI (XO
          (XO (XI (XI (XI XH)))))))) b)
        (inr (Npos (XO (XO (XO (XO (XO (XO (XO XH)))))))) (Npos (XI (XI (XI
          (XI (XI (XI (XO XH)))))))) c)))
    ((&&) (N.eqb b (Npos (XO (XO (XI (XO (XI (XI (XI XH)))))))))
      (inr (Npos (XO (XO (XO (XO (XO (XO (XO XH)))))))) (Npos (XI (XI (XI (XI
        (XO (XO (XO XH)))))))) c))

(** val width : n -> n **)

let width b =
  if inr (Npos (XO (XI (XO (XO (XO (XO (XI XH)))))))) (Npos (XI (XI (XI (XI
       (XI (XO (XI XH)))))))) b
  then Npos (XO XH)
  else if inr (Npos (XO (XO (XO (XO (XO (XI (XI XH)))))))) (Npos (XI (XI (XI
            (XI (XO (XI (XI XH)))))))) b
       then Npos (XI XH)
       else if inr (Npos (XO (XO (XO (XO (XI (XI (XI XH)))))))) (Npos (XO (XO
                 (XI (XO (XI (XI (XI XH)))))))) b
            then Npos (XO (XO XH))
            else N0

(** val fFFD : bytes **)

let fFFD =
  (Npos (XI (XI (XI (XI (XO (XI (XI XH)))))))) :: ((Npos (XI (XI (XI (XI (XI
    (XI (XO XH)))))))) :: ((Npos (XI (XO (XI (XI (XI (XI (XO
    XH)))))))) :: []))

(** val lossy : bytes -> bytes * bool **)

let rec lossy l =
  let bad = fun rest -> let (t, _) = lossy rest in ((app fFFD t), true) in
  let good = fun pre rest -> let (t, e) = lossy rest in ((app pre t), e) in
  (match l with
   | [] -> ([], false)
   | b :: r ->
     if N.ltb b (Npos (XO (XO (XO (XO (XO (XO (XO XH))))))))
     then good (b :: []) r
     else let w = width b in
          if N.eqb w (Npos (XO XH))
          then (match r with
                | [] -> (fFFD, true)
                | c1 :: r1 ->
                  if cont c1 then good (b :: (c1 :: [])) r1 else bad r)
          else if N.eqb w (Npos (XI XH))
               then (match r with
                     | [] -> (fFFD, true)
                     | c1 :: r1 ->
                       if ok3 b c1
                       then (match r1 with
                             | [] -> (fFFD, true)
                             | c2 :: r2 ->
                               if cont c2
                               then good (b :: (c1 :: (c2 :: []))) r2
                               else bad r1)
                       else bad r)
               else if N.eqb w (Npos (XO (XO XH)))
                    then (match r with
                          | [] -> (fFFD, true)
                          | c1 :: r1 ->
                            if ok4 b c1
                            then (match r1 with
                                  | [] -> (fFFD, true)
                                  | c2 :: r2 ->
                                    if cont c2
                                    then (match r2 with
                                          | [] -> (fFFD, true)
                                          | c3 :: r3 ->
                                            if cont c3
                                            then good
                                                   (b :: (c1 :: (c2 :: (c3 :: []))))
                                                   r3
                                            else bad r2)
                                    else bad r1)
                            else bad r)
                    else bad r)

(** val from_utf8_lossy : bytes -> bytes **)

let from_utf8_lossy l =
  fst (lossy l)

(** val utf8_valid : bytes -> bool **)

let utf8_valid l =
  negb (snd (lossy l))
