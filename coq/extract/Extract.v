(* Extraction of the executable model for the correspondence check. ExtrOcamlBasic only: bool, option, list, prod, unit,
   sumbool, sumor are mapped to OCaml's; N, positive, nat stay the extracted inductives; no Extract Constant. *)
From RBP Require Import Bytes Hashes Base58 Utf8 Wire Block Render ScriptCustom CustomTop ScriptBtc Index Model Reader.
From RBP Require Merkle Drive Utxo Stats OutProto Published.
From RBPGen Require SrcGen.
Require Extraction. Require Import ExtrOcamlBasic.
(* uniquely named entry points (extraction renames clashing identifiers with numeric suffixes otherwise) *)
Definition x_run_case := run_case.
Definition x_last_height := last_height.
Definition x_eval_script := eval_script.
Definition x_csv_writes := csv_writes.
Definition x_csv_totals := csv_totals.
Definition x_utxo_final := utxo_final.
Definition x_unspent_row := unspent_row.
Definition x_unspent_totals := unspent_totals.
Definition x_balances_final := balances_final.
Definition x_balance_row := balance_row.
Definition x_opreturn_lines := opreturn_lines.
Definition x_stats_run := stats_run.
Definition x_mean := Stats.mean.
Definition x_base_reward := Stats.base_reward.
Definition x_open_trace := open_trace.
Definition x_out_run := out_run.
Definition x_unspent_writes := unspent_writes.
Definition x_balances_writes := balances_writes.
Definition x_unspent_header := UNSPENT_HEADER.
Definition x_balances_header := BALANCES_HEADER.
Definition x_merkle_root := Merkle.merkle_root H2.
Definition x_decode_record := decode_record.
Definition x_admitted := admitted.
Definition x_parse_blk_index := parse_blk_index.
Definition x_read_block := read_block.
Definition x_block_hash := block_hash.
Definition x_txid := txid.
Definition x_raw_tx := raw_tx.
Definition x_reader_run := Reader.run.
Definition x_reader_fresh := Reader.fresh.
Definition x_reader_ref_run := Reader.ref_run.
Definition x_reader_plain := Reader.plain.
Definition x_heights := Drive.heights.
Definition x_coin_of_name := coin_of_name.
Definition x_csv_stems := SrcGen.csv_stems.
Definition x_unspent_stem := SrcGen.unspent_stem.
Definition x_balances_stem := SrcGen.balances_stem.
Definition x_final_name := final_name.
Definition x_tmp_name := tmp_name.
Extraction "model.ml" x_run_case x_last_height x_eval_script x_csv_writes x_csv_totals x_utxo_final x_unspent_row x_unspent_totals
  x_balances_final x_balance_row x_opreturn_lines x_stats_run x_mean x_base_reward x_open_trace x_out_run x_unspent_writes
  x_balances_writes x_unspent_header x_balances_header x_merkle_root x_decode_record x_admitted x_parse_blk_index x_read_block
  x_block_hash x_txid x_raw_tx x_reader_run x_reader_fresh x_reader_ref_run x_reader_plain x_heights x_coin_of_name x_csv_stems x_unspent_stem x_balances_stem x_final_name x_tmp_name.
