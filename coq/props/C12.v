(* C12 — AuxPoW headers are skipped exactly, leaving block hash and txs unaffected. Pinned statements only: each theorem is closed by `exact` of a lemma proved in theories/. *)
From RBP Require Import Bytes Hashes Wire Block BlockP Render Index IndexP Model ModelP StoreP CsvP CbP FrameP.
From RBP Require Drive Merkle Utxo Stats OutProto Reader Published Misc.

Theorem C12_block_roundtrip_with_section :
  forall (c : coin) (size : N) (b : ablock) (rest : list N), wf_block c b = true -> read_block c size (ser_block b ++ rest) = Ok (parsed_block size b, rest).
Proof. exact read_block_ser. Qed.

Theorem C12_section_irrelevant :
  forall (c c0 : coin) (size : N) (b : ablock) (a : aaux) (rest rest0 : list N), ab_aux b = Some a -> wf_block c b = true -> let b0 := {| ab_header := ab_header b; ab_aux := None; ab_cw := ab_cw b; ab_txs := ab_txs b |} in wf_block c0 b0 = true -> exists blk blk0 : block, read_block c size (ser_block b ++ rest) = Ok (blk, rest) /\ read_block c0 size (ser_block b0 ++ rest0) = Ok (blk0, rest0) /\ b_header blk = b_header blk0 /\ b_txs blk = b_txs blk0 /\ block_hash blk = block_hash blk0.
Proof. exact auxpow_irrelevant. Qed.

Theorem C12_auxpow_roundtrip :
  forall (a : aaux) (rest : list N), wf_aux a = true -> read_auxpow (ser_aux a ++ rest) = Ok (tt, rest).
Proof. exact read_auxpow_ser. Qed.

Theorem C12_no_threshold_no_section :
  forall (c : coin) (size : N), auxpow_version c = None -> forall (s : bytes) (b : block) (rest : bytes), read_block c size s = Ok (b, rest) -> b_aux b = false.
Proof. exact no_threshold_no_section. Qed.

Theorem C12_section_iff_threshold :
  forall (c : coin) (t size : N) (s : bytes) (b : block) (rest : bytes), auxpow_version c = Some t -> read_block c size s = Ok (b, rest) -> b_aux b = (t <=? h_version (b_header b)).
Proof. exact section_iff_threshold. Qed.

Theorem C12_published_thresholds :
  map (fun e : list N * (N * N * list N * option N) => (fst e, snd (snd e))) Published.coins = [([98; 105; 116; 99; 111; 105; 110], None); ([100; 111; 103; 101; 99; 111; 105; 110], Some 6422786); ([108; 105; 116; 101; 99; 111; 105; 110], None); ([109; 121; 114; 105; 97; 100; 99; 111; 105; 110], None); ([110; 97; 109; 101; 99; 111; 105; 110], Some 65793); ([110; 111; 116; 101; 98; 108; 111; 99; 107; 99; 104; 97; 105; 110], None); ([116; 101; 115; 116; 110; 101; 116; 51], None); ([117; 110; 111; 98; 116; 97; 110; 105; 117; 109], None)].
Proof. exact published_thresholds. Qed.

Theorem C12_rows_independent_of_section :
  forall (c : coin) (h : N) (b b' : block), b_size b = b_size b' -> b_header b = b_header b' -> b_txs b = b_txs b' -> csv_block_writes (h, eval_block c b) = csv_block_writes (h, eval_block c b').
Proof. exact rows_independent_of_section. Qed.

Theorem C12_utxo_and_lines_independent :
  forall (c : coin) (h : N) (b b' : block), b_txs b = b_txs b' -> utxo_events [(h, eval_block c b)] = utxo_events [(h, eval_block c b')] /\ opreturn_lines [(h, eval_block c b)] = opreturn_lines [(h, eval_block c b')].
Proof. exact utxo_and_lines_independent_of_section. Qed.

Print Assumptions C12_block_roundtrip_with_section.
Print Assumptions C12_section_irrelevant.
Print Assumptions C12_auxpow_roundtrip.
Print Assumptions C12_no_threshold_no_section.
Print Assumptions C12_section_iff_threshold.
Print Assumptions C12_published_thresholds.
Print Assumptions C12_rows_independent_of_section.
Print Assumptions C12_utxo_and_lines_independent.
