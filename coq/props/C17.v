(* C17 — open blk files stay bounded by the files overlapping the current height. Pinned statements only: each theorem is closed by `exact` of a lemma proved in theories/. *)
From RBP Require Import Bytes Hashes Wire Block Index Model ModelP.
From RBP Require Drive Merkle Utxo Stats OutProto Reader Published Misc.

Theorem C17_open_invariant :
  forall (file_of maxh : N -> N) (dom : N -> Prop), (forall h : N, dom h -> h <= maxh (file_of h)) -> (forall h' h : N, dom h' -> dom h -> maxh (file_of h') = h -> file_of h = file_of h') -> forall (n : nat) (s : N) (o : Drive.openset), (forall i : nat, (i < n)%nat -> dom (s + N.of_nat i)) -> Drive.inv file_of maxh dom o s -> Drive.inv file_of maxh dom (Drive.visits file_of maxh o s n) (s + N.of_nat n).
Proof. exact Drive.open_invariant. Qed.

Theorem C17_open_span :
  forall (file_of maxh : N -> N) (dom : N -> Prop), (forall h : N, dom h -> h <= maxh (file_of h)) -> (forall h' h : N, dom h' -> dom h -> maxh (file_of h') = h -> file_of h = file_of h') -> forall (n : nat) (s f : N), (forall i : nat, (i < n)%nat -> dom (s + N.of_nat i)) -> In f (Drive.visits file_of maxh [] s n) -> (exists h' : N, dom h' /\ f = file_of h') /\ s + N.of_nat n <= maxh f.
Proof. exact Drive.open_span. Qed.

Theorem C17_open_nodup :
  forall (file_of maxh : N -> N) (n : nat) (s : N) (o : list N), NoDup o -> NoDup (Drive.visits file_of maxh o s n).
Proof. exact Drive.visits_nodup. Qed.

Theorem C17_disjoint_spans_one_open :
  forall (file_of maxh : N -> N) (dom : N -> Prop), (forall h : N, dom h -> h <= maxh (file_of h)) -> (forall h' h : N, dom h' -> dom h -> maxh (file_of h') = h -> file_of h = file_of h') -> forall lo : N -> N, (forall h : N, dom h -> lo (file_of h) <= h) -> (forall h h' : N, dom h -> dom h' -> file_of h <> file_of h' -> maxh (file_of h) < lo (file_of h') \/ maxh (file_of h') < lo (file_of h)) -> forall (n : nat) (s : N), (forall i : nat, (i < n)%nat -> dom (s + N.of_nat i)) -> (length (Drive.visits file_of maxh [] s n) <= 1)%nat.
Proof. exact Drive.disjoint_spans_one_open. Qed.

Theorem C17_model_trace_is_visits :
  forall (ci : chain_index) (n : nat) (s : N) (o : Drive.openset), last (map snd (open_trace ci o (Drive.heights s n))) o = Drive.visits (file_of_height ci) (maxh_of_file ci) o s n.
Proof. exact open_trace_last. Qed.

Theorem C17_model_trace_heights :
  forall (ci : chain_index) (hs : list N) (o : Drive.openset), map fst (open_trace ci o hs) = hs.
Proof. exact open_trace_heights. Qed.

Theorem C17_model_maxh_bounds :
  forall (kvs : list (bytes * bytes)) (o : range) (ci : chain_index), new_index kvs o = Ok ci -> forall h : N, in_run o ci h -> h <= maxh_of_file ci (file_of_height ci h).
Proof. exact model_maxh_ok. Qed.

Theorem C17_model_maxh_attained :
  forall (kvs : list (bytes * bytes)) (o : range) (ci : chain_index), new_index kvs o = Ok ci -> forall h' h : N, in_run o ci h' -> in_run o ci h -> maxh_of_file ci (file_of_height ci h') = h -> file_of_height ci h = file_of_height ci h'.
Proof. exact model_maxh_attained. Qed.

Theorem C17_model_open_invariant :
  forall (kvs : list (bytes * bytes)) (o : range) (ci : chain_index), new_index kvs o = Ok ci -> forall (n : nat) (s : N), (forall i : nat, (i < n)%nat -> in_run o ci (s + N.of_nat i)) -> forall f : N, In f (Drive.visits (file_of_height ci) (maxh_of_file ci) [] s n) -> s + N.of_nat n <= maxh_of_file ci f.
Proof. exact model_open_invariant. Qed.

Theorem C17_index_keys_unique :
  forall (kvs : list (bytes * bytes)) (o : range) (ci : chain_index), new_index kvs o = Ok ci -> NoDup (map fst (ci_full ci)).
Proof. exact full_nodup. Qed.

Print Assumptions C17_open_invariant.
Print Assumptions C17_open_span.
Print Assumptions C17_open_nodup.
Print Assumptions C17_disjoint_spans_one_open.
Print Assumptions C17_model_trace_is_visits.
Print Assumptions C17_model_trace_heights.
Print Assumptions C17_model_maxh_bounds.
Print Assumptions C17_model_maxh_attained.
Print Assumptions C17_model_open_invariant.
Print Assumptions C17_index_keys_unique.
