(* C01 — csvdump reproduces every on-disk block, tx, input and output field exactly. Pinned statements only: each theorem is closed by `exact` of a lemma proved in theories/. *)
From RBP Require Import Bytes Hashes Wire Block BlockP Render Index Model ModelP StoreP CsvP EndToEnd AddrClean OutIdx.
From RBP Require Drive Merkle Utxo Stats OutProto Reader Published Misc.

Theorem C01_compactsize_roundtrip :
  forall (w : cs_width) (n : N) (r : list N), cs_fits w n = true -> read_cs (cs_enc w n ++ r) = Ok ({| vval := n; vraw := cs_enc w n |}, r).
Proof. exact read_cs_enc. Qed.

Theorem C01_tx_roundtrip :
  forall (t : atx) (rest : list N), wf_tx t = true -> read_tx (ser_tx_disk t ++ rest) = Ok (parsed_tx t, rest).
Proof. exact read_tx_ser. Qed.

Theorem C01_txid_is_stripped_hash :
  forall t : atx, txid (parsed_tx t) = sha256d (ser_tx_stripped t).
Proof. exact txid_is_stripped_hash. Qed.

Theorem C01_block_roundtrip :
  forall (c : coin) (size : N) (b : ablock) (rest : list N), wf_block c b = true -> read_block c size (ser_block b ++ rest) = Ok (parsed_block size b, rest).
Proof. exact read_block_ser. Qed.

Theorem C01_block_hash_is_header_hash :
  forall (c : coin) (size : N) (b : ablock), wf_block c b = true -> block_hash (parsed_block size b) = sha256d (firstn 80 (ser_block b)).
Proof. exact block_hash_is_header_hash. Qed.

Theorem C01_one_row_per_item :
  forall delivered : list (N * eblock), length (rows_of 0 (csv_writes delivered)) = length delivered /\ length (rows_of 1 (csv_writes delivered)) = sum_nat (fun hb : N * eblock => length (y_txs (snd hb))) delivered /\ length (rows_of 2 (csv_writes delivered)) = sum_nat (fun hb : N * eblock => sum_nat n_inputs (y_txs (snd hb))) delivered /\ length (rows_of 3 (csv_writes delivered)) = sum_nat (fun hb : N * eblock => sum_nat n_outputs (y_txs (snd hb))) delivered.
Proof. exact csv_row_counts. Qed.

Theorem C01_rows_in_chain_order :
  forall (i : nat) (a b : list (N * eblock)), rows_of i (csv_writes (a ++ b)) = rows_of i (csv_writes a) ++ rows_of i (csv_writes b).
Proof. exact csv_rows_chain_order. Qed.

Theorem C01_totals_equal_rows :
  forall delivered : list (N * eblock), Forall (fun hb : N * eblock => counts_consistent (snd hb)) delivered -> csv_totals delivered = (N.of_nat (length (rows_of 1 (csv_writes delivered))), N.of_nat (length (rows_of 2 (csv_writes delivered))), N.of_nat (length (rows_of 3 (csv_writes delivered)))).
Proof. exact csv_totals_are_row_counts. Qed.

Theorem C01_row_fields_recoverable :
  forall fs : list (list N), fs <> [] -> Forall clean fs -> fields_of_row (row fs) = fs.
Proof. exact fields_of_row_row. Qed.

Theorem C01_hex_invertible :
  forall l : bytes, wfb l = true -> unhex (hex l) = l.
Proof. exact hex_inv. Qed.

Theorem C01_hex_lowercase :
  forall l : bytes, wfb l = true -> Forall (fun c : N => 48 <= c <= 57 \/ 97 <= c <= 102) (hex l).
Proof. exact hex_lowercase. Qed.

Theorem C01_hex_length :
  forall l : bytes, length (hex l) = (2 * length l)%nat.
Proof. exact hex_length. Qed.

Theorem C01_decimal_invertible :
  forall n : N, n < 2 ^ 64 -> undec (dec n) = n.
Proof. exact dec_inv. Qed.

Theorem C01_hex_field_clean :
  forall l : bytes, wfb l = true -> clean (hex l).
Proof. exact hex_clean. Qed.

Theorem C01_decimal_field_clean :
  forall n : N, clean (dec n).
Proof. exact dec_clean. Qed.

Theorem C01_end_to_end_delivered :
  forall (c : coin) (d : datadir) (o : opts) (ci : chain_index) (chain : N -> ablock) (size : N -> N), range_ok (o_range o) = true -> d_files d <> [] -> new_index (d_index d) (o_range o) = Ok ci -> o_verify o = false -> d_xor d <> Some [] -> let s := o_start (o_range o) in s <= ci_max ci + 1 -> laid_out c d ci s chain size -> exists r : result, run_case c d o = Run r /\ r_fail r = None /\ last_height r = ci_max ci /\ r_delivered r = map (fun h : N => (h, eval_block c (parsed_block (size h) (chain h)))) (Drive.heights s (N.to_nat (ci_max ci + 1 - s))).
Proof. exact delivered_are_the_parsed_blocks. Qed.

Theorem C01_end_to_end_csv :
  forall (c : coin) (d : datadir) (o : opts) (ci : chain_index) (chain : N -> ablock) (size : N -> N), range_ok (o_range o) = true -> d_files d <> [] -> new_index (d_index d) (o_range o) = Ok ci -> o_verify o = false -> d_xor d <> Some [] -> let s := o_start (o_range o) in s <= ci_max ci + 1 -> laid_out c d ci s chain size -> exists r : result, run_case c d o = Run r /\ r_fail r = None /\ last_height r = ci_max ci /\ csv_writes (r_delivered r) = flat_map (fun h : N => csv_block_writes (h, eval_block c (parsed_block (size h) (chain h)))) (Drive.heights s (N.to_nat (ci_max ci + 1 - s))).
Proof. exact csv_of_laid_out_chain. Qed.

Theorem C01_parsed_counts_consistent :
  forall (c : coin) (size : N) (b : ablock), counts_consistent (eval_block c (parsed_block size b)).
Proof. exact parsed_block_counts_consistent. Qed.

Theorem C01_address_never_contains_separator :
  forall (c : coin) (script : bytes) (a : list N), e_addr (eval_script c script) = Some a -> clean a.
Proof. exact address_clean. Qed.

Theorem C01_tx_out_row_splits_into_its_fields :
  forall (c : coin) (tid : list N) (i : N) (o : txout), wfb (out_script o) = true -> clean tid -> fields_of_row (out_row tid i (o, eval_script c (out_script o))) = [tid; dec i; dec (out_value o); hex (out_script o); match e_addr (eval_script c (out_script o)) with | Some s => s | None => [] end].
Proof. exact out_row_fields. Qed.

Theorem C01_kth_output_row_carries_index_k :
  forall (tid : list N) (outs : list (txout * escript)) (k : nat) (oe : txout * escript), nth_error outs k = Some oe -> N.of_nat k < 2 ^ 32 -> nth_error (out_rows tid 0 outs) k = Some (out_row tid (N.of_nat k) oe).
Proof. exact out_rows_index. Qed.

Theorem C01_kth_output_row_any_start :
  forall (tid : list N) (outs : list (txout * escript)) (i : N) (k : nat) (oe : txout * escript), nth_error outs k = Some oe -> nth_error (out_rows tid i outs) k = Some (out_row tid ((i + N.of_nat k) mod 2 ^ 32) oe).
Proof. exact out_rows_nth. Qed.

Print Assumptions C01_compactsize_roundtrip.
Print Assumptions C01_tx_roundtrip.
Print Assumptions C01_txid_is_stripped_hash.
Print Assumptions C01_block_roundtrip.
Print Assumptions C01_block_hash_is_header_hash.
Print Assumptions C01_one_row_per_item.
Print Assumptions C01_rows_in_chain_order.
Print Assumptions C01_totals_equal_rows.
Print Assumptions C01_row_fields_recoverable.
Print Assumptions C01_hex_invertible.
Print Assumptions C01_hex_lowercase.
Print Assumptions C01_hex_length.
Print Assumptions C01_decimal_invertible.
Print Assumptions C01_hex_field_clean.
Print Assumptions C01_decimal_field_clean.
Print Assumptions C01_end_to_end_delivered.
Print Assumptions C01_end_to_end_csv.
Print Assumptions C01_parsed_counts_consistent.
Print Assumptions C01_address_never_contains_separator.
Print Assumptions C01_tx_out_row_splits_into_its_fields.
Print Assumptions C01_kth_output_row_carries_index_k.
Print Assumptions C01_kth_output_row_any_start.
