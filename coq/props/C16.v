(* C16 — opreturn prints exactly the non-empty UTF-8 payloads, in chain order. Pinned statements only: each theorem is closed by `exact` of a lemma proved in theories/. *)
From RBP Require Import Bytes Hashes Base58 Bech32 Utf8 Wire Block BlockP ScriptCustom CustomTop ScriptCustomP ScriptBtc ScriptBtcP Index Model OpReturnP FrameP Utf8P.
From RBP Require Drive Merkle Utxo Stats OutProto Reader Published Misc.

Theorem C16_btc_payload_is_the_push :
  forall (f : pform) (d : bytes), pfits f d -> opreturn_payload (106 :: enc_push f d) = d.
Proof. exact opreturn_payload_single_push. Qed.

Theorem C16_btc_opreturn_verdict :
  forall (n : net) (f : pform) (d : bytes), pfits f d -> eval_btc n (106 :: enc_push f d) = (BOpReturn (if utf8_valid d then d else []), None).
Proof. exact eval_btc_opreturn. Qed.

Theorem C16_btc_opreturn_iff_first_byte :
  forall (n : net) (l : bytes), (exists d : bytes, fst (eval_btc n l) = BOpReturn d) <-> (exists r : list N, l = 106 :: r).
Proof. exact eval_btc_opreturn_iff. Qed.

Theorem C16_fork_tokens :
  forall (f : pform) (d : bytes), pfits f d -> d <> [] -> toks (length (106 :: enc_push f d)) (106 :: enc_push f d) = Some [TOp 106; TData d].
Proof. exact toks_opreturn_push. Qed.

Theorem C16_fork_opreturn_verdict :
  forall (f : pform) (d : bytes) (v : N), pfits f d -> d <> [] -> eval_custom (106 :: enc_push f d) v = (POpReturn (from_utf8_lossy d), None).
Proof. exact eval_custom_opreturn. Qed.

Theorem C16_lines_in_chain_order :
  forall delivered : list (N * eblock), opreturn_lines delivered = flat_map (fun hb : N * eblock => flat_map (fun t : etx => flat_map (output_lines (fst hb) (x_id t)) (x_outs t)) (y_txs (snd hb))) delivered.
Proof. exact opreturn_lines_def. Qed.

Theorem C16_non_opreturn_silent :
  forall (h : N) (tid : bytes) (oe : txout * escript), e_tag (snd oe) <> 0 -> output_lines h tid oe = [].
Proof. exact non_opreturn_silent. Qed.

Theorem C16_empty_text_silent :
  forall (h : N) (tid : bytes) (oe : txout * escript), e_text (snd oe) = [] -> output_lines h tid oe = [].
Proof. exact empty_text_silent. Qed.

Theorem C16_prints_text :
  forall (h : N) (tid : bytes) (oe : txout * escript), e_tag (snd oe) = 0 -> e_text (snd oe) <> [] -> output_lines h tid oe = [(h, tid, e_text (snd oe))].
Proof. exact opreturn_prints_text. Qed.

Theorem C16_eval_script_btc :
  forall (c : coin) (f : pform) (d : bytes), is_btc c = true -> pfits f d -> eval_script c (106 :: enc_push f d) = {| e_tag := 0; e_addr := None; e_text := if utf8_valid d then d else [] |}.
Proof. exact eval_script_btc_opreturn. Qed.

Theorem C16_eval_script_fork :
  forall (c : coin) (f : pform) (d : bytes), is_btc c = false -> pfits f d -> d <> [] -> eval_script c (106 :: enc_push f d) = {| e_tag := 0; e_addr := None; e_text := from_utf8_lossy d |}.
Proof. exact eval_script_fork_opreturn. Qed.

Theorem C16_push_forms :
  forall (f : pform) (d : bytes) (rest : list N), pfits f d -> inext_of (enc_push f d ++ rest) = ISome (IPush d) rest.
Proof. exact inext_push. Qed.

Theorem C16_valid_utf8_is_scalar_values :
  forall l : bytes, utf8_valid l = true <-> (exists cps : list N, Forall (fun cp : N => valid_cp cp = true) cps /\ l = encode_all cps).
Proof. exact utf8_valid_iff. Qed.

Theorem C16_lossy_identity_on_valid :
  forall l : bytes, utf8_valid l = true -> from_utf8_lossy l = l.
Proof. exact lossy_identity_on_valid. Qed.

Theorem C16_lossy_valid_prefix :
  forall cps r : list N, Forall (fun cp : N => valid_cp cp = true) cps -> from_utf8_lossy (encode_all cps ++ r) = encode_all cps ++ from_utf8_lossy r.
Proof. exact lossy_valid_prefix. Qed.

Theorem C16_lossy_output_valid :
  forall l : bytes, utf8_valid (from_utf8_lossy l) = true.
Proof. exact lossy_output_valid. Qed.

Theorem C16_lossy_output_is_scalars :
  forall l : bytes, exists cps : list N, Forall (fun cp : N => valid_cp cp = true) cps /\ from_utf8_lossy l = encode_all cps.
Proof. exact lossy_output_is_scalars. Qed.

Theorem C16_lossy_changes_iff_invalid :
  forall l : bytes, from_utf8_lossy l = l <-> utf8_valid l = true.
Proof. exact lossy_changes_iff_invalid. Qed.

Theorem C16_valid_payload_printed_verbatim :
  forall (c : coin) (f : pform) (d : bytes), pfits f d -> d <> [] -> utf8_valid d = true -> e_tag (eval_script c (106 :: enc_push f d)) = 0 /\ e_text (eval_script c (106 :: enc_push f d)) = d.
Proof. exact opreturn_text_valid_payload. Qed.

Theorem C16_fork_text_is_valid :
  forall (c : coin) (f : pform) (d : bytes), is_btc c = false -> pfits f d -> d <> [] -> utf8_valid (e_text (eval_script c (106 :: enc_push f d))) = true.
Proof. exact opreturn_text_fork. Qed.

Print Assumptions C16_btc_payload_is_the_push.
Print Assumptions C16_btc_opreturn_verdict.
Print Assumptions C16_btc_opreturn_iff_first_byte.
Print Assumptions C16_fork_tokens.
Print Assumptions C16_fork_opreturn_verdict.
Print Assumptions C16_lines_in_chain_order.
Print Assumptions C16_non_opreturn_silent.
Print Assumptions C16_empty_text_silent.
Print Assumptions C16_prints_text.
Print Assumptions C16_eval_script_btc.
Print Assumptions C16_eval_script_fork.
Print Assumptions C16_push_forms.
Print Assumptions C16_valid_utf8_is_scalar_values.
Print Assumptions C16_lossy_identity_on_valid.
Print Assumptions C16_lossy_valid_prefix.
Print Assumptions C16_lossy_output_valid.
Print Assumptions C16_lossy_output_is_scalars.
Print Assumptions C16_lossy_changes_iff_invalid.
Print Assumptions C16_valid_payload_printed_verbatim.
Print Assumptions C16_fork_text_is_valid.
