(* C03 — a block is read from the file and offset its index record names, wherever it is. Pinned statements only: each theorem is closed by `exact` of a lemma proved in theories/. *)
From RBP Require Import Bytes Hashes Wire Block BlockP Render Index IndexP Model ModelP StoreP CsvP.
From RBP Require Drive Merkle Utxo Stats OutProto Reader Published Misc.

Theorem C03_core_varint_roundtrip :
  forall (n : N) (rest : list N), n <= MAX64 -> read_varint (enc_varint n ++ rest) = Ok (n, rest).
Proof. exact read_varint_enc. Qed.

Theorem C03_index_record_decode :
  forall (key : list N) (version height status ntx file pos undo : N) (tail : bytes), length key = 32%nat -> version <= MAX64 -> height <= MAX64 -> status <= MAX64 -> ntx <= MAX64 -> file <= MAX64 -> pos <= MAX64 -> decode_record key (enc_record version height status ntx file pos undo tail) = Ok {| r_hash := key; r_height := height; r_status := status; r_file := if has status Published.file_mask then file else 0; r_off := if has status Published.pos_mask then pos else 0 |}.
Proof. exact decode_record_enc. Qed.

Theorem C03_blk_name_parses :
  forall (n : N) (k : nat), n <= MAX64 -> parse_blk_index (Published.blk_prefix ++ repeat 48 k ++ dec n ++ Published.blk_ext) = Some n.
Proof. exact blk_name_parses. Qed.

Theorem C03_non_blk_name_prefix :
  forall name : list N, starts_with Published.blk_prefix name = None -> parse_blk_index name = None.
Proof. exact non_blk_name_prefix. Qed.

Theorem C03_non_blk_name_suffix :
  forall name : list N, starts_with (rev Published.blk_ext) (rev name) = None -> parse_blk_index name = None.
Proof. exact non_blk_name_suffix. Qed.

Theorem C03_non_b_key_ignored :
  forall (k : list N) (v : bytes) (r : list (list N * bytes)) (m : hmap), match k with | [] | 98 :: _ => False | _ => True end -> load_index ((k, v) :: r) m = load_index r m.
Proof. exact non_b_key_ignored. Qed.

Theorem C03_block_at_recorded_position :
  forall (c : coin) (d : datadir) (rec : irec) (f : blkfile) (size : N) (b : ablock) (rest : list N), find (fun f0 : blkfile => f_num f0 =? r_file rec) (d_files d) = Some f -> 4 <= r_off rec -> d_xor d <> Some [] -> plain_from d f (r_off rec - 4) = Some (le_encode 4 size ++ ser_block b ++ rest) -> size < 2 ^ 32 -> wf_block c b = true -> fetch_block c d rec = inl (parsed_block size b).
Proof. exact fetch_block_placed. Qed.

Theorem C03_layout_independent :
  forall (c : coin) (d1 d2 : datadir) (v : bool) (ci1 ci2 : chain_index) (s : N), ci_max ci1 = ci_max ci2 -> (forall h : N, s <= h <= ci_max ci1 -> get_block c d1 v ci1 h = get_block c d2 v ci2 h) -> forall fuel : nat, Drive.drive eblock failure (get_block c d1 v ci1) fuel true (ci_max ci1) s [] = Drive.drive eblock failure (get_block c d2 v ci2) fuel true (ci_max ci2) s [].
Proof. exact layout_independent. Qed.

Theorem C03_xor_view :
  forall (k : bytes) (files : list blkfile) (idx : list (bytes * bytes)) (f : blkfile) (p : N), plain_from {| d_files := map (obfuscate_file k) files; d_index := idx; d_xor := Some k |} (obfuscate_file k f) p = plain_from {| d_files := files; d_index := idx; d_xor := None |} f p.
Proof. exact plain_from_obfuscated. Qed.

Print Assumptions C03_core_varint_roundtrip.
Print Assumptions C03_index_record_decode.
Print Assumptions C03_blk_name_parses.
Print Assumptions C03_non_blk_name_prefix.
Print Assumptions C03_non_blk_name_suffix.
Print Assumptions C03_non_b_key_ignored.
Print Assumptions C03_block_at_recorded_position.
Print Assumptions C03_layout_independent.
Print Assumptions C03_xor_view.
