(* C11 — XOR-obfuscated block files yield the same result as plaintext ones. Pinned statements only: each theorem is closed by `exact` of a lemma proved in theories/. *)
From RBP Require Import Bytes Hashes Wire Block BlockP Render Index IndexP Model ModelP StoreP CsvP XorP.
From RBP Require Drive Merkle Utxo Stats OutProto Reader Published Misc.

Theorem C11_xor_reader_refines :
  forall (F : Reader.file) (BUFSZ : nat) (key : option (list N)) (ops : list Reader.op) (x : Reader.xr), (0 < BUFSZ)%nat -> Reader.xinv F x -> Reader.run F BUFSZ key x (Reader.ok_prefix (Reader.plain F key) (Reader.xabs x) ops) = Reader.ref_run (Reader.plain F key) (Reader.xabs x) ops.
Proof. exact Reader.xor_reader_refines. Qed.

Theorem C11_unxor_involutive :
  forall (k : bytes) (p : N) (l : bytes), unxor k p (unxor k p l) = l.
Proof. exact unxor_involutive. Qed.

Theorem C11_plain_view_same :
  forall (k : bytes) (files : list blkfile) (idx : list (bytes * bytes)) (f : blkfile) (p : N), plain_from {| d_files := map (obfuscate_file k) files; d_index := idx; d_xor := Some k |} (obfuscate_file k f) p = plain_from {| d_files := files; d_index := idx; d_xor := None |} f p.
Proof. exact plain_from_obfuscated. Qed.

Theorem C11_fetch_same :
  forall (c : coin) (k : list N) (files : list blkfile) (idx : list (bytes * bytes)) (rec : irec), k <> [] -> fetch_block c {| d_files := map (obfuscate_file k) files; d_index := idx; d_xor := Some k |} rec = fetch_block c {| d_files := files; d_index := idx; d_xor := None |} rec.
Proof. exact fetch_block_obfuscated. Qed.

Theorem C11_get_block_same :
  forall (c : coin) (k : list N) (files : list blkfile) (idx : list (bytes * bytes)) (v : bool) (ci : chain_index) (h : N), k <> [] -> get_block c {| d_files := map (obfuscate_file k) files; d_index := idx; d_xor := Some k |} v ci h = get_block c {| d_files := files; d_index := idx; d_xor := None |} v ci h.
Proof. exact get_block_obfuscated. Qed.

Theorem C11_run_same :
  forall (c : coin) (k : list N) (files : list blkfile) (idx : list (bytes * bytes)) (o : opts), k <> [] -> run_case c {| d_files := map (obfuscate_file k) files; d_index := idx; d_xor := Some k |} o = run_case c {| d_files := files; d_index := idx; d_xor := None |} o.
Proof. exact run_case_obfuscated. Qed.

Theorem C11_byte_at_offset :
  forall (k : list N) (p : N) (l : list N) (i : nat), (i < length l)%nat -> nth i (Reader.xor_from k p l) 0 = N.lxor (nth i l 0) (Reader.kbyte k (p + N.of_nat i)).
Proof. exact xor_from_nth. Qed.

Theorem C11_key_repeats_from_offset_0 :
  forall (k : list N) (p : N) (l : list N), k <> [] -> Reader.xor_from k (p + N.of_nat (length k)) l = Reader.xor_from k p l.
Proof. exact xor_from_period. Qed.

Theorem C11_all_zero_key_is_identity :
  forall (k : list N) (p : N) (l : list N), Forall (fun b : N => b = 0) k -> Reader.xor_from k p l = l.
Proof. exact xor_from_zero_key. Qed.

Theorem C11_zero_key_byte_leaves_plaintext :
  forall (k : list N) (p : N) (l : list N) (i : nat), (i < length l)%nat -> Reader.kbyte k (p + N.of_nat i) = 0 -> nth i (Reader.xor_from k p l) 0 = nth i l 0.
Proof. exact xor_from_zero_byte. Qed.

Theorem C11_zero_prefix :
  forall (k : list N) (z : nat) (l : list N), (z <= length k)%nat -> Forall (fun b : N => b = 0) (firstn z k) -> (length l <= z)%nat -> Reader.xor_from k 0 l = l.
Proof. exact xor_from_zero_prefix. Qed.

Print Assumptions C11_xor_reader_refines.
Print Assumptions C11_unxor_involutive.
Print Assumptions C11_plain_view_same.
Print Assumptions C11_fetch_same.
Print Assumptions C11_get_block_same.
Print Assumptions C11_run_same.
Print Assumptions C11_byte_at_offset.
Print Assumptions C11_key_repeats_from_offset_0.
Print Assumptions C11_all_zero_key_is_identity.
Print Assumptions C11_zero_key_byte_leaves_plaintext.
Print Assumptions C11_zero_prefix.
