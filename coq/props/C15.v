(* C15 — every simplestats figure equals an independent recomputation over the range. Pinned statements only: each theorem is closed by `exact` of a lemma proved in theories/. *)
From RBP Require Import Bytes Model.
From RBP Require Drive Merkle Utxo Stats OutProto Reader Published Misc.

Theorem C15_counts_volume_fees_sizes_gaps :
  forall bs : list Stats.sblock, let a := Stats.run bs in Stats.a_blocks a = N.of_nat (length bs) /\ Stats.a_tx a = Stats.sum Stats.k_txcount bs /\ Stats.a_in a = Stats.sum (fun ht : N * Stats.stx => Stats.t_incount (snd ht)) (Stats.all_txs bs) /\ Stats.a_out a = Stats.sum (fun ht : N * Stats.stx => Stats.t_outcount (snd ht)) (Stats.all_txs bs) /\ Stats.a_vol a = Stats.sum (fun ht : N * Stats.stx => Stats.tx_value (snd ht)) (Stats.all_txs bs) /\ Stats.a_fee a = Stats.sum Stats.fee_of (Stats.all_txs bs) /\ Stats.a_sizes a = map Stats.k_size bs /\ Stats.a_gaps a = Stats.gaps_spec None (map Stats.k_time bs).
Proof. exact Stats.run_spec. Qed.

Theorem C15_first_max :
  forall (A : Type) (key : A -> N) (x : A) (l : list A), exists (k' : N) (x' : A), fold_left (Stats.upd A key) (x :: l) None = Some (k', x') /\ Stats.is_first_max A key (x :: l) k' x'.
Proof. exact Stats.first_max_spec. Qed.

Theorem C15_biggest_value_is_first_max :
  forall bs : list Stats.sblock, Stats.a_bigv (Stats.run bs) = option_map Stats.rec_of (fold_left (Stats.upd (N * Stats.stx) (fun ht : N * Stats.stx => Stats.tx_value (snd ht))) (Stats.all_txs bs) None).
Proof. exact Stats.biggest_value_spec. Qed.

Theorem C15_biggest_size_is_first_max :
  forall bs : list Stats.sblock, Stats.a_bigs (Stats.run bs) = option_map Stats.rec_of (fold_left (Stats.upd (N * Stats.stx) (fun ht : N * Stats.stx => Stats.t_size (snd ht))) (Stats.all_txs bs) None).
Proof. exact Stats.biggest_size_spec. Qed.

Theorem C15_types_count_and_first_occurrence :
  forall (bs : list Stats.sblock) (p : N), Stats.lookup p (Stats.a_types (Stats.run bs)) = (if Stats.count_tag p (Stats.all_outs bs) =? 0 then None else Some (Stats.count_tag p (Stats.all_outs bs))) /\ Stats.lookup p (Stats.a_first (Stats.run bs)) = Stats.first_tag p (Stats.all_outs bs).
Proof. exact Stats.types_spec. Qed.

Theorem C15_base_reward :
  forall h : N, Stats.base_reward h = (if 64 <=? h / 210000 then 0 else 5000000000 / 2 ^ (h / 210000)).
Proof. exact Stats.base_reward_spec. Qed.

Theorem C15_mean_exact :
  forall l : list N, Stats.mean l = (Stats.sum (fun x : N => x) l, N.of_nat (length l)).
Proof. exact Stats.mean_spec. Qed.

Print Assumptions C15_counts_volume_fees_sizes_gaps.
Print Assumptions C15_first_max.
Print Assumptions C15_biggest_value_is_first_max.
Print Assumptions C15_biggest_size_is_first_max.
Print Assumptions C15_types_count_and_first_occurrence.
Print Assumptions C15_base_reward.
Print Assumptions C15_mean_exact.
