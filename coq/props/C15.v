(* C15 — every simplestats figure equals an independent recomputation over the range. Pinned statements only: each theorem is closed by `exact` of a lemma proved in theories/. *)
From RBP Require Import Bytes Model.
From RBP Require Drive Merkle Utxo Stats OutProto Reader Published Misc.

Theorem C15_counts_volume_fees_sizes_gaps :
  forall bs : list Stats.sblock, let a := Stats.run bs in Stats.a_blocks a = N.of_nat (length bs) /\ Stats.a_tx a = Stats.sum Stats.k_txcount bs /\ Stats.a_in a = Stats.sum (fun ht : N * Stats.stx => Stats.t_incount (snd ht)) (Stats.all_txs bs) /\ Stats.a_out a = Stats.sum (fun ht : N * Stats.stx => Stats.t_outcount (snd ht)) (Stats.all_txs bs) /\ Stats.a_vol a = Stats.sum (fun ht : N * Stats.stx => Stats.tx_value (snd ht)) (Stats.all_txs bs) /\ Stats.a_fee a = Stats.sum Stats.fee_of (Stats.all_txs bs) /\ Stats.a_sizes a = map Stats.k_size bs /\ Stats.a_gaps a = Stats.gaps_spec None (map Stats.k_time bs).
Proof. exact Stats.run_spec. Qed.

Theorem C15_first_max :
  forall (A : Type) (key : A -> N) (x : A) (l : list A), exists (k' : N) (x' : A), fold_left (Stats.upd A key) (x :: l) None = Some (k', x') /\ Stats.is_first_max A key (x :: l) k' x'.
Proof. exact Stats.first_max_spec. Qed.

Print Assumptions C15_counts_volume_fees_sizes_gaps.
Print Assumptions C15_first_max.
