(* C05 — Bitcoin/testnet3: every output script gets the reference type and address. Pinned statements only: each theorem is closed by `exact` of a lemma proved in theories/. *)
From RBP Require Import Bytes Hashes Codec Base58 Bech32 Segwit Utf8 ScriptCustom CustomTop ScriptCustomP ScriptBtc ScriptBtcP ScriptBtcSpec Wire Block Index Model OpReturnP MultisigP ScriptBtcComplete.
From RBP Require Drive Merkle Utxo Stats OutProto Reader Published Misc.

Theorem C05_p2pkh_shape :
  forall l : bytes, is_p2pkh l = true <-> (exists h : list N, length h = 20%nat /\ l = [118; 169; 20] ++ h ++ [136; 172]).
Proof. exact is_p2pkh_shape. Qed.

Theorem C05_p2sh_shape :
  forall l : bytes, is_p2sh l = true <-> (exists h : list N, length h = 20%nat /\ l = [169; 20] ++ h ++ [135]).
Proof. exact is_p2sh_shape. Qed.

Theorem C05_p2pk_shape :
  forall l k : bytes, p2pk_key l = Some k <-> (length k = 33%nat \/ length k = 65%nat) /\ l = [N.of_nat (length k)] ++ k ++ [172].
Proof. exact p2pk_shape. Qed.

Theorem C05_templates_exclusive :
  forall l : bytes, (is_p2pkh l = true -> is_p2sh l = false /\ p2pk_key l = None /\ witness_version l = None) /\ (is_p2sh l = true -> p2pk_key l = None /\ witness_version l = None) /\ (p2pk_key l <> None -> witness_version l = None).
Proof. exact ScriptBtcP.templates_exclusive. Qed.

Theorem C05_p2pkh_verdict :
  forall (n : net) (h : list N), length h = 20%nat -> eval_btc n ([118; 169; 20] ++ h ++ [136; 172]) = (BP2PKH, Some (hash160_to_address (pkh_ver n) h)).
Proof. exact p2pkh_verdict. Qed.

Theorem C05_p2sh_verdict :
  forall (n : net) (h : list N), length h = 20%nat -> eval_btc n ([169; 20] ++ h ++ [135]) = (BP2SH, Some (hash160_to_address (sh_ver n) h)).
Proof. exact p2sh_verdict. Qed.

Theorem C05_p2pk_verdict :
  forall (n : net) (k : list N), length k = 33%nat \/ length k = 65%nat -> eval_btc n ([N.of_nat (length k)] ++ k ++ [172]) = (BP2PK, Some (hash160_to_address (pkh_ver n) (hash160 k))).
Proof. exact p2pk_verdict. Qed.

Theorem C05_witness_verdict :
  forall (net : net) (v : N) (prog : list N), v <= 16 -> (2 <= length prog <= 40)%nat -> eval_btc net ([wit_opcode v; N.of_nat (length prog)] ++ prog) = (wit_type v (length prog), if wit_has_address v (length prog) then Some (segwit_addr (hrp net) v prog) else None).
Proof. exact witness_verdict. Qed.

Theorem C05_unspendable_verdict :
  forall (n : net) (c : N) (r : list N), c <> 106 -> return_or_illegal c = true -> eval_btc n (c :: r) = (BUnspendable, None).
Proof. exact unspendable_verdict. Qed.

Theorem C05_opcode_table_sweep :
  forallb (fun c : N => eqb (return_or_illegal c) (existsb (N.eqb c) unspendable_first_bytes)) (map N.of_nat (seq 0 256)) = true.
Proof. exact opcode_table_sweep. Qed.

Theorem C05_opreturn_verdict :
  forall (n : net) (f : pform) (d : bytes), pfits f d -> eval_btc n (106 :: enc_push f d) = (BOpReturn (if utf8_valid d then d else []), None).
Proof. exact eval_btc_opreturn. Qed.

Theorem C05_opreturn_iff_first_byte :
  forall (n : net) (l : bytes), (exists d : bytes, fst (eval_btc n l) = BOpReturn d) <-> (exists r : list N, l = 106 :: r).
Proof. exact eval_btc_opreturn_iff. Qed.

Theorem C05_empty_script :
  forall n : net, eval_btc n [] = (BNotRecognised, None).
Proof. exact empty_script_verdict. Qed.

Theorem C05_network_prefixes :
  (pkh_ver mainnet, sh_ver mainnet, hrp mainnet) = (0, 5, [98; 99]) /\ (pkh_ver testnet, sh_ver testnet, hrp testnet) = (111, 196, [116; 98]).
Proof. exact network_prefixes. Qed.

Theorem C05_p2pkh_address_decodes :
  forall (n : net) (h : bytes), pkh_ver n < 256 -> wfb h = true -> length h = 20%nat -> exists a : list N, eval_btc n ([118; 169; 20] ++ h ++ [136; 172]) = (BP2PKH, Some a) /\ b58check_decode a = Some (pkh_ver n :: h).
Proof. exact p2pkh_address_decodes. Qed.

Theorem C05_p2sh_address_decodes :
  forall (n : net) (h : bytes), sh_ver n < 256 -> wfb h = true -> length h = 20%nat -> exists a : list N, eval_btc n ([169; 20] ++ h ++ [135]) = (BP2SH, Some a) /\ b58check_decode a = Some (sh_ver n :: h).
Proof. exact p2sh_address_decodes. Qed.

Theorem C05_p2pk_address_decodes :
  forall (n : net) (k : list N), pkh_ver n < 256 -> length k = 33%nat \/ length k = 65%nat -> exists a : list N, eval_btc n ([N.of_nat (length k)] ++ k ++ [172]) = (BP2PK, Some a) /\ b58check_decode a = Some (pkh_ver n :: hash160 k).
Proof. exact p2pk_address_decodes. Qed.

Theorem C05_witness_address_decodes :
  forall (net : net) (v : N) (prog : list N), v <= 16 -> (2 <= length prog <= 40)%nat -> wfb prog = true -> wit_has_address v (length prog) = true -> exists a : list N, snd (eval_btc net ([wit_opcode v; N.of_nat (length prog)] ++ prog)) = Some a /\ segwit_decode (hrp net) a = Some (v, prog).
Proof. exact witness_address_decodes. Qed.

Theorem C05_base58check_roundtrip :
  forall p : bytes, wfb p = true -> b58check_decode (b58check_encode p) = Some p.
Proof. exact b58check_roundtrip. Qed.

Theorem C05_segwit_roundtrip :
  forall (hrp : list N) (ver : N) (prog : bytes), ver < 32 -> wfb prog = true -> segwit_decode hrp (segwit_addr hrp ver prog) = Some (ver, prog).
Proof. exact segwit_roundtrip. Qed.

Theorem C05_regroup_roundtrip :
  forall prog : bytes, wfb prog = true -> ungroup (regroup prog) = Some prog.
Proof. exact ungroup_regroup. Qed.

Theorem C05_bech32_checksum_valid :
  forall (const : N) (vs : list N), N.shiftr const 30 = 0 -> polymod (vs ++ checksum const vs) = const.
Proof. exact checksum_valid. Qed.

Theorem C05_segwit_checksum_valid :
  forall (hrp : list N) (ver : N) (prog : bytes), polymod (hrp_expand hrp ++ (ver :: regroup prog) ++ checksum (bconst ver) (hrp_expand hrp ++ ver :: regroup prog)) = bconst ver.
Proof. exact segwit_checksum_valid. Qed.

Theorem C05_b58_digits_roundtrip :
  forall bs : bytes, wfb bs = true -> b58_undigits (b58_digits bs) = bs.
Proof. exact b58_digits_roundtrip. Qed.

Theorem C05_sha256_output_is_bytes :
  forall msg : list N, wfb (sha256 msg) = true.
Proof. exact sha256_wfb. Qed.

Theorem C05_hash160_output_is_bytes :
  forall msg : list N, wfb (hash160 msg) = true.
Proof. exact hash160_wfb. Qed.

Theorem C05_multisig_shape_accepted :
  forall (m : N) (keys : list (pform * bytes)), Forall (fun fk : pform * bytes => pfits (fst fk) (snd fk)) keys -> 1 <= m -> m <= N.of_nat (length keys) -> N.of_nat (length keys) <= 16 -> is_multisig (ms_script m keys) = true.
Proof. exact is_multisig_of_shape. Qed.

Theorem C05_multisig_verdict :
  forall (net : net) (m : N) (keys : list (pform * bytes)), Forall (fun fk : pform * bytes => pfits (fst fk) (snd fk)) keys -> 1 <= m -> m <= N.of_nat (length keys) -> N.of_nat (length keys) <= 16 -> eval_btc net (ms_script m keys) = (BMultiSig, None).
Proof. exact multisig_verdict. Qed.

Theorem C05_address_only_for_address_types :
  forall (n : net) (l : bytes) (a : list N), snd (eval_btc n l) = Some a -> In (fst (eval_btc n l)) [BP2PK; BP2PKH; BP2SH; BP2WPKH; BP2WSH; BP2TR; BWitnessProgram].
Proof. exact address_only_for_address_types. Qed.

Theorem C05_not_recognised_has_no_address :
  forall (n : net) (l : bytes), fst (eval_btc n l) = BNotRecognised -> snd (eval_btc n l) = None.
Proof. exact not_recognised_has_no_address. Qed.

Theorem C05_multisig_iff :
  forall (n : net) (l : bytes), wfb l = true -> fst (eval_btc n l) = BMultiSig <-> (exists (m : N) (keys : list (pform * bytes)), Forall (fun fk : pform * bytes => pfits (fst fk) (snd fk)) keys /\ 1 <= m /\ m <= N.of_nat (length keys) /\ N.of_nat (length keys) <= 16 /\ l = ms_script m keys).
Proof. exact multisig_iff. Qed.

Theorem C05_is_multisig_iff :
  forall l : bytes, wfb l = true -> is_multisig l = true <-> (exists (m : N) (keys : list (pform * bytes)), Forall (fun fk : pform * bytes => pfits (fst fk) (snd fk)) keys /\ 1 <= m /\ m <= N.of_nat (length keys) /\ N.of_nat (length keys) <= 16 /\ l = ms_script m keys).
Proof. exact is_multisig_iff. Qed.

Theorem C05_p2pkh_iff :
  forall (n : net) (l : bytes), fst (eval_btc n l) = BP2PKH <-> (exists h : list N, length h = 20%nat /\ l = [118; 169; 20] ++ h ++ [136; 172]).
Proof. exact p2pkh_iff. Qed.

Theorem C05_p2sh_iff :
  forall (n : net) (l : bytes), fst (eval_btc n l) = BP2SH <-> (exists h : list N, length h = 20%nat /\ l = [169; 20] ++ h ++ [135]).
Proof. exact p2sh_iff. Qed.

Theorem C05_p2pk_iff :
  forall (n : net) (l : bytes), fst (eval_btc n l) = BP2PK <-> (exists k : list N, (length k = 33%nat \/ length k = 65%nat) /\ l = [N.of_nat (length k)] ++ k ++ [172]).
Proof. exact p2pk_iff. Qed.

Theorem C05_witness_iff :
  forall (n : net) (l : bytes), fst (eval_btc n l) = BP2WPKH \/ fst (eval_btc n l) = BP2WSH \/ fst (eval_btc n l) = BP2TR \/ fst (eval_btc n l) = BWitnessProgram <-> (exists (v : N) (prog : list N), v <= 16 /\ (2 <= length prog <= 40)%nat /\ l = [wit_opcode v; N.of_nat (length prog)] ++ prog).
Proof. exact witness_iff. Qed.

Theorem C05_witness_type_exact :
  forall (n : net) (v : N) (prog : list N), v <= 16 -> (2 <= length prog <= 40)%nat -> fst (eval_btc n ([wit_opcode v; N.of_nat (length prog)] ++ prog)) = wit_type v (length prog).
Proof. exact witness_type_exact. Qed.

Theorem C05_unspendable_iff :
  forall (n : net) (l : bytes), fst (eval_btc n l) = BUnspendable <-> (exists (c : N) (r : list N), l = c :: r /\ c <> 106 /\ return_or_illegal c = true).
Proof. exact unspendable_iff. Qed.

Theorem C05_not_recognised_iff :
  forall (n : net) (l : bytes), wfb l = true -> fst (eval_btc n l) = BNotRecognised <-> (forall r : list N, l <> 106 :: r) /\ (forall (c : N) (r : list N), l = c :: r -> return_or_illegal c = false) /\ (forall k : list N, length k = 33%nat \/ length k = 65%nat -> l <> [N.of_nat (length k)] ++ k ++ [172]) /\ (forall h : list N, length h = 20%nat -> l <> [118; 169; 20] ++ h ++ [136; 172]) /\ (forall h : list N, length h = 20%nat -> l <> [169; 20] ++ h ++ [135]) /\ ~ witness_shaped l /\ (forall (m : N) (keys : list (pform * bytes)), Forall (fun fk : pform * bytes => pfits (fst fk) (snd fk)) keys -> 1 <= m -> m <= N.of_nat (length keys) -> N.of_nat (length keys) <= 16 -> l <> ms_script m keys).
Proof. exact not_recognised_iff. Qed.

Theorem C05_verdict_branch :
  forall (n : net) (l : bytes), match fst (eval_btc n l) with | BOpReturn _ => exists r : list N, l = 106 :: r | BMultiSig => is_multisig l = true /\ witness_version l = None | BP2PK => exists k : bytes, p2pk_key l = Some k | BP2PKH => is_p2pkh l = true /\ p2pk_key l = None | BP2SH => is_p2sh l = true | BP2WPKH => is_p2wpkh l = true | BP2WSH => is_p2wsh l = true | BWitnessProgram => (exists v : N, witness_version l = Some v) /\ is_p2wpkh l = false /\ is_p2wsh l = false /\ is_p2tr l = false | BP2TR => is_p2tr l = true | BUnspendable => exists (c : N) (r : list N), l = c :: r /\ c <> 106 /\ return_or_illegal c = true | BNotRecognised => l = [] \/ (exists (c : N) (r : list N), l = c :: r /\ c <> 106 /\ return_or_illegal c = false) /\ p2pk_key l = None /\ is_p2pkh l = false /\ is_p2sh l = false /\ witness_version l = None /\ is_multisig l = false end.
Proof. exact eval_btc_type_inv. Qed.

Print Assumptions C05_p2pkh_shape.
Print Assumptions C05_p2sh_shape.
Print Assumptions C05_p2pk_shape.
Print Assumptions C05_templates_exclusive.
Print Assumptions C05_p2pkh_verdict.
Print Assumptions C05_p2sh_verdict.
Print Assumptions C05_p2pk_verdict.
Print Assumptions C05_witness_verdict.
Print Assumptions C05_unspendable_verdict.
Print Assumptions C05_opcode_table_sweep.
Print Assumptions C05_opreturn_verdict.
Print Assumptions C05_opreturn_iff_first_byte.
Print Assumptions C05_empty_script.
Print Assumptions C05_network_prefixes.
Print Assumptions C05_p2pkh_address_decodes.
Print Assumptions C05_p2sh_address_decodes.
Print Assumptions C05_p2pk_address_decodes.
Print Assumptions C05_witness_address_decodes.
Print Assumptions C05_base58check_roundtrip.
Print Assumptions C05_segwit_roundtrip.
Print Assumptions C05_regroup_roundtrip.
Print Assumptions C05_bech32_checksum_valid.
Print Assumptions C05_segwit_checksum_valid.
Print Assumptions C05_b58_digits_roundtrip.
Print Assumptions C05_sha256_output_is_bytes.
Print Assumptions C05_hash160_output_is_bytes.
Print Assumptions C05_multisig_shape_accepted.
Print Assumptions C05_multisig_verdict.
Print Assumptions C05_address_only_for_address_types.
Print Assumptions C05_not_recognised_has_no_address.
Print Assumptions C05_multisig_iff.
Print Assumptions C05_is_multisig_iff.
Print Assumptions C05_p2pkh_iff.
Print Assumptions C05_p2sh_iff.
Print Assumptions C05_p2pk_iff.
Print Assumptions C05_witness_iff.
Print Assumptions C05_witness_type_exact.
Print Assumptions C05_unspendable_iff.
Print Assumptions C05_not_recognised_iff.
Print Assumptions C05_verdict_branch.
