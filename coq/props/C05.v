(* C05 — Bitcoin/testnet3: every output script gets the reference type and address. Pinned statements only: each theorem is closed by `exact` of a lemma proved in theories/. *)
From RBP Require Import Bytes Hashes Base58 Bech32 Utf8 ScriptCustom CustomTop ScriptCustomP ScriptBtc ScriptBtcP.
From RBP Require Drive Merkle Utxo Stats OutProto Reader Published Misc.

Theorem C05_p2pkh_shape :
  forall l : bytes, is_p2pkh l = true <-> (exists h : list N, length h = 20%nat /\ l = [118; 169; 20] ++ h ++ [136; 172]).
Proof. exact is_p2pkh_shape. Qed.

Theorem C05_p2sh_shape :
  forall l : bytes, is_p2sh l = true <-> (exists h : list N, length h = 20%nat /\ l = [169; 20] ++ h ++ [135]).
Proof. exact is_p2sh_shape. Qed.

Theorem C05_p2pk_shape :
  forall l k : bytes, p2pk_key l = Some k <-> (length k = 33%nat \/ length k = 65%nat) /\ l = [N.of_nat (length k)] ++ k ++ [172].
Proof. exact p2pk_shape. Qed.

Theorem C05_templates_exclusive :
  forall l : bytes, (is_p2pkh l = true -> is_p2sh l = false /\ p2pk_key l = None /\ witness_version l = None) /\ (is_p2sh l = true -> p2pk_key l = None /\ witness_version l = None) /\ (p2pk_key l <> None -> witness_version l = None).
Proof. exact ScriptBtcP.templates_exclusive. Qed.

Theorem C05_bech32_checksum_valid :
  forall (const : N) (vs : list N), N.shiftr const 30 = 0 -> polymod (vs ++ checksum const vs) = const.
Proof. exact checksum_valid. Qed.

Theorem C05_b58_digits_roundtrip :
  forall bs : bytes, wfb bs = true -> b58_undigits (b58_digits bs) = bs.
Proof. exact b58_digits_roundtrip. Qed.

Print Assumptions C05_p2pkh_shape.
Print Assumptions C05_p2sh_shape.
Print Assumptions C05_p2pk_shape.
Print Assumptions C05_templates_exclusive.
Print Assumptions C05_bech32_checksum_valid.
Print Assumptions C05_b58_digits_roundtrip.
