(* C06 — fork coins: scripts are tokenised by Bitcoin push rules and typed by template. Pinned statements only: each theorem is closed by `exact` of a lemma proved in theories/. *)
From RBP Require Import Bytes Hashes Codec Base58 Bech32 Segwit Utf8 ScriptCustom CustomTop ScriptCustomP ScriptBtc ScriptBtcP ScriptBtcSpec Wire Block Index Model OpReturnP ScriptBtcComplete ForkGrammar.
From RBP Require Drive Merkle Utxo Stats OutProto Reader Published Misc.

Theorem C06_ip_machine_is_structural_tokenizer :
  forall (f : nat) (bs : list N) (ip : nat) (acc : list tok), (ip <= length bs)%nat -> (length bs - ip <= f)%nat -> eval_loop f bs ip acc = res_of_opt acc (toks f (skipn ip bs)).
Proof. exact eval_loop_toks. Qed.

Theorem C06_eval_total :
  forall bs : bytes, eval bs = res_of_opt [] (toks (length bs) bs).
Proof. exact eval_total. Qed.

Theorem C06_never_panics :
  forall bs : bytes, eval bs <> Panic /\ eval bs <> Overflow.
Proof. exact eval_never_panics. Qed.

Theorem C06_template_match_shape :
  forall (tpl : list (option N)) (ts : list tok), match_template ts tpl = true <-> (exists ds : list bytes, length ds = slots tpl /\ ts = fill tpl ds).
Proof. exact match_template_shape. Qed.

Theorem C06_templates_exclusive :
  forall (ts : list tok) (i j : nat), (i < length Published.templates)%nat -> (j < length Published.templates)%nat -> match_template ts (snd (nth i Published.templates (0, []))) = true -> match_template ts (snd (nth j Published.templates (0, []))) = true -> i = j.
Proof. exact ScriptCustomP.templates_exclusive. Qed.

Theorem C06_cascade_order_irrelevant :
  forall (ts : list tok) (i : nat), (i < length Published.templates)%nat -> match_template ts (snd (nth i Published.templates (0, []))) = true -> first_match ts Published.templates = Some (fst (nth i Published.templates (0, []))).
Proof. exact first_match_is_the_match. Qed.

Theorem C06_no_match_not_recognised :
  forall (ts : list tok) (v : N), first_match ts Published.templates = None -> classify ts v = (PNotRecognised, None).
Proof. exact no_match_not_recognised. Qed.

Theorem C06_p2pkh :
  forall (ts : list tok) (v : N), first_match ts Published.templates = Some 3 -> exists h : bytes, ts = [TOp 118; TOp 169; TData h; TOp 136; TOp 172] /\ classify ts v = (PP2PKH, Some (hash160_to_address v h)).
Proof. exact p2pkh_spec. Qed.

Theorem C06_p2pk :
  forall (ts : list tok) (v : N), first_match ts Published.templates = Some 2 -> exists k : bytes, ts = [TData k; TOp 172] /\ classify ts v = (PP2PK, Some (hash160_to_address v (hash160 k))).
Proof. exact p2pk_spec. Qed.

Theorem C06_p2sh :
  forall (ts : list tok) (v : N), first_match ts Published.templates = Some 4 -> exists h : bytes, ts = [TOp 169; TData h; TOp 135] /\ classify ts v = (PP2SH, Some (hash160_to_address 5 h)).
Proof. exact p2sh_spec. Qed.

Theorem C06_opreturn :
  forall (ts : list tok) (v : N), first_match ts Published.templates = Some 0 -> exists d : bytes, ts = [TOp 106; TData d] /\ classify ts v = (POpReturn (from_utf8_lossy d), None).
Proof. exact opreturn_spec. Qed.

Theorem C06_multisig_2of3 :
  forall (ts : list tok) (v : N), first_match ts Published.templates = Some 1 -> exists a b c : bytes, ts = [TOp 82; TData a; TData b; TData c; TOp 83; TOp 174] /\ classify ts v = (PMultiSig, None).
Proof. exact multisig_spec. Qed.

Theorem C06_data_slot_nonempty :
  forall (f : nat) (l : bytes) (ts : list tok), toks f l = Some ts -> Forall (fun t : tok => match t with | TOp _ => True | TData d => d <> [] end) ts.
Proof. exact toks_data_nonempty. Qed.

Theorem C06_never_error :
  forall (bs : bytes) (v : N), fst (eval_custom bs v) <> PError /\ eval bs <> Panic /\ eval bs <> Overflow.
Proof. exact eval_custom_total. Qed.

Theorem C06_truncated_push_not_recognised :
  forall (bs : list N) (v : N), toks (length bs) bs = None -> eval_custom bs v = (PNotRecognised, None).
Proof. exact truncated_push_not_recognised. Qed.

Theorem C06_verdict_of_tokens :
  forall (bs : list N) (v : N) (ts : list tok), toks (length bs) bs = Some ts -> eval_custom bs v = classify ts v.
Proof. exact eval_custom_is_classify_of_tokens. Qed.

Theorem C06_b58_digits_roundtrip :
  forall bs : bytes, wfb bs = true -> b58_undigits (b58_digits bs) = bs.
Proof. exact b58_digits_roundtrip. Qed.

Theorem C06_address_decodes :
  forall (version : N) (h : bytes), version < 256 -> wfb h = true -> b58check_decode (hash160_to_address version h) = Some (version :: h).
Proof. exact address_decodes. Qed.

Theorem C06_p2pk_address_decodes :
  forall (version : N) (pk : bytes), version < 256 -> b58check_decode (public_key_to_addr version pk) = Some (version :: hash160 pk).
Proof. exact Base58.p2pk_address_decodes. Qed.

Theorem C06_base58check_roundtrip :
  forall p : bytes, wfb p = true -> b58check_decode (b58check_encode p) = Some p.
Proof. exact b58check_roundtrip. Qed.

Theorem C06_push_forms_tokenise :
  forall (f : pform) (d : bytes), pfits f d -> d <> [] -> toks (length (106 :: enc_push f d)) (106 :: enc_push f d) = Some [TOp 106; TData d].
Proof. exact toks_opreturn_push. Qed.

Theorem C06_address_only_for_address_types :
  forall (bs : bytes) (v : N) (a : list N), snd (eval_custom bs v) = Some a -> In (fst (eval_custom bs v)) [PP2PKH; PP2PK; PP2SH].
Proof. exact fork_address_only_for_address_types. Qed.

Theorem C06_tokeniser_is_push_grammar :
  forall (l : bytes) (ts : list tok), wfb l = true -> tokenise l = Some ts <-> (exists its : list item, Forall item_ok its /\ l = enc_items its /\ ts = sem its).
Proof. exact tokenise_iff. Qed.

Theorem C06_verdict_of_items :
  forall (its : list item) (v : N), Forall item_ok its -> eval_custom (enc_items its) v = classify (sem its) v.
Proof. exact fork_verdict_of_items. Qed.

Theorem C06_not_a_push_sequence_not_recognised :
  forall (bs : bytes) (v : N), wfb bs = true -> (forall its : list item, Forall item_ok its -> bs <> enc_items its) -> eval_custom bs v = (PNotRecognised, None).
Proof. exact fork_not_items_not_recognised. Qed.

Theorem C06_noop_irrelevant :
  forall (a : list item) (c : N) (b : list item) (v : N), Forall item_ok a -> Forall item_ok b -> 78 < c -> is_noop c = true -> eval_custom (enc_items (a ++ ItOp c :: b)) v = eval_custom (enc_items (a ++ b)) v.
Proof. exact noop_irrelevant. Qed.

Theorem C06_push_form_irrelevant :
  forall (a : list item) (f1 f2 : pform) (d : bytes) (b : list item) (v : N), Forall item_ok a -> Forall item_ok b -> pfits f1 d -> pfits f2 d -> d <> [] -> eval_custom (enc_items (a ++ ItPush f1 d :: b)) v = eval_custom (enc_items (a ++ ItPush f2 d :: b)) v.
Proof. exact push_form_irrelevant. Qed.

Theorem C06_p2pkh_bytes :
  forall (f : pform) (h : bytes) (v : N), pfits f h -> h <> [] -> eval_custom ([118; 169] ++ enc_push f h ++ [136; 172]) v = (PP2PKH, Some (hash160_to_address v h)).
Proof. exact fork_p2pkh_bytes. Qed.

Theorem C06_p2sh_bytes :
  forall (f : pform) (h : bytes) (v : N), pfits f h -> h <> [] -> eval_custom ([169] ++ enc_push f h ++ [135]) v = (PP2SH, Some (hash160_to_address 5 h)).
Proof. exact fork_p2sh_bytes. Qed.

Theorem C06_p2pk_bytes :
  forall (f : pform) (k : bytes) (v : N), pfits f k -> k <> [] -> eval_custom (enc_push f k ++ [172]) v = (PP2PK, Some (public_key_to_addr v k)).
Proof. exact fork_p2pk_bytes. Qed.

Theorem C06_multisig_bytes :
  forall (f1 f2 f3 : pform) (a b c : bytes) (v : N), pfits f1 a -> pfits f2 b -> pfits f3 c -> a <> [] -> b <> [] -> c <> [] -> eval_custom ([82] ++ enc_push f1 a ++ enc_push f2 b ++ enc_push f3 c ++ [83; 174]) v = (PMultiSig, None).
Proof. exact fork_multisig_bytes. Qed.

Theorem C06_empty_push_in_slot :
  forall (f : pform) (v : N), eval_custom ([118; 169] ++ enc_push f [] ++ [136; 172]) v = (PNotRecognised, None).
Proof. exact fork_p2pkh_empty_push_not_recognised. Qed.

Print Assumptions C06_ip_machine_is_structural_tokenizer.
Print Assumptions C06_eval_total.
Print Assumptions C06_never_panics.
Print Assumptions C06_template_match_shape.
Print Assumptions C06_templates_exclusive.
Print Assumptions C06_cascade_order_irrelevant.
Print Assumptions C06_no_match_not_recognised.
Print Assumptions C06_p2pkh.
Print Assumptions C06_p2pk.
Print Assumptions C06_p2sh.
Print Assumptions C06_opreturn.
Print Assumptions C06_multisig_2of3.
Print Assumptions C06_data_slot_nonempty.
Print Assumptions C06_never_error.
Print Assumptions C06_truncated_push_not_recognised.
Print Assumptions C06_verdict_of_tokens.
Print Assumptions C06_b58_digits_roundtrip.
Print Assumptions C06_address_decodes.
Print Assumptions C06_p2pk_address_decodes.
Print Assumptions C06_base58check_roundtrip.
Print Assumptions C06_push_forms_tokenise.
Print Assumptions C06_address_only_for_address_types.
Print Assumptions C06_tokeniser_is_push_grammar.
Print Assumptions C06_verdict_of_items.
Print Assumptions C06_not_a_push_sequence_not_recognised.
Print Assumptions C06_noop_irrelevant.
Print Assumptions C06_push_form_irrelevant.
Print Assumptions C06_p2pkh_bytes.
Print Assumptions C06_p2sh_bytes.
Print Assumptions C06_p2pk_bytes.
Print Assumptions C06_multisig_bytes.
Print Assumptions C06_empty_push_in_slot.
