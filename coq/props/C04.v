(* C04 — only active-chain blocks are delivered; stale and header-only records never are. Pinned statements only: each theorem is closed by `exact` of a lemma proved in theories/. *)
From RBP Require Import Bytes Hashes Wire Block BlockP Render Index IndexP Model ModelP StoreP CsvP C04Class.
From RBP Require Drive Merkle Utxo Stats OutProto Reader Published Misc.

Theorem C04_last_admitted_per_height :
  forall (kvs : list (bytes * bytes)) (m m' : hmap) (h : N), load_index kvs m = Ok m' -> hm_get h m' = last_admitted h kvs (hm_get h m).
Proof. exact load_index_last. Qed.

Theorem C04_header_only_not_admitted :
  forall r : irec, N.land (r_status r) Published.status_mask = 0 -> admitted r = false.
Proof. exact header_only_not_admitted. Qed.

Theorem C04_status_byte_sweep :
  forallb (fun s : N => eqb (has s Published.status_mask) (N.testbit s 2 || N.testbit s 3)) (map N.of_nat (seq 0 256)) = true.
Proof. exact admitted_status_byte. Qed.

Theorem C04_header_only_never_displaces :
  forall (kvs : list (bytes * bytes)) (idx : hmap) (h : N) (key v : bytes) (rec : irec), load_index kvs [] = Ok idx -> decode_record key v = Ok rec -> N.land (r_status rec) Published.status_mask = 0 -> forall kvs1 kvs2 : list (list N * bytes), kvs = kvs1 ++ (98 :: key, v) :: kvs2 -> hm_get h idx = last_admitted h (kvs1 ++ kvs2) None.
Proof. exact header_only_never_displaces. Qed.

Theorem C04_unique_admitted_is_kept :
  forall (kvs : list (bytes * bytes)) (idx : hmap) (h : N) (a : irec), load_index kvs [] = Ok idx -> last_admitted h kvs None = Some a -> hm_get h idx = Some a.
Proof. exact unique_admitted_is_kept. Qed.

Theorem C04_partial :
  forall (kvs : list (bytes * bytes)) (idx : hmap) (active : N -> option irec), load_index kvs [] = Ok idx -> (forall h : N, last_admitted h kvs None = active h) -> forall h : N, hm_get h idx = active h.
Proof. exact C04_partial. Qed.

Theorem C04_refuted :
  exists (kvs : list (bytes * bytes)) (idx : hmap) (r : irec), load_index (sort_kv kvs) [] = Ok idx /\ hm_get 2 idx = Some r /\ r_hash r = hashB /\ r_off r = 300.
Proof. exact C04_refuted. Qed.

Theorem C04_greatest_key_wins :
  forall (kvs : list (bytes * bytes)) (idx : hmap) (h : N) (kv : bytes * bytes), sorted_keys kvs -> load_index kvs [] = Ok idx -> In kv kvs -> admitted_at h kv = true -> (forall kv' : bytes * bytes, In kv' kvs -> admitted_at h kv' = true -> key_leb (fst kv') (fst kv) = true) -> hm_get h idx = rec_of kv.
Proof. exact greatest_key_wins. Qed.

Theorem C04_outside_class_active_chain :
  forall (kvs : list (bytes * bytes)) (idx : hmap) (active : N -> option (bytes * bytes)), sorted_keys kvs -> load_index kvs [] = Ok idx -> (forall (h : N) (kv : bytes * bytes), active h = Some kv -> In kv kvs /\ admitted_at h kv = true /\ (forall kv' : bytes * bytes, In kv' kvs -> admitted_at h kv' = true -> key_leb (fst kv') (fst kv) = true)) -> (forall h : N, active h = None -> forall kv : bytes * bytes, In kv kvs -> admitted_at h kv = false) -> forall h : N, hm_get h idx = match active h with | Some kv => rec_of kv | None => None end.
Proof. exact C04_outside_class. Qed.

Theorem C04_inside_class_competitor :
  forall (kvs : list (bytes * bytes)) (idx : hmap) (h : N) (act comp : bytes * bytes), sorted_keys kvs -> load_index kvs [] = Ok idx -> In act kvs -> In comp kvs -> admitted_at h comp = true -> (forall kv' : bytes * bytes, In kv' kvs -> admitted_at h kv' = true -> key_leb (fst kv') (fst comp) = true) -> rec_of comp <> rec_of act -> hm_get h idx <> rec_of act.
Proof. exact C04_inside_class. Qed.

Theorem C04_model_order_is_sorted :
  forall l : list (bytes * bytes), NoDup (map fst l) -> sorted_keys (sort_kv l).
Proof. exact sort_kv_sorted. Qed.

Print Assumptions C04_last_admitted_per_height.
Print Assumptions C04_header_only_not_admitted.
Print Assumptions C04_status_byte_sweep.
Print Assumptions C04_header_only_never_displaces.
Print Assumptions C04_unique_admitted_is_kept.
Print Assumptions C04_partial.
Print Assumptions C04_refuted.
Print Assumptions C04_greatest_key_wins.
Print Assumptions C04_outside_class_active_chain.
Print Assumptions C04_inside_class_competitor.
Print Assumptions C04_model_order_is_sorted.
