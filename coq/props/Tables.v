(* Obligation shared by all properties: the constant tables the properties specify (coin parameters, Bitcoin Core status bits, script
   templates, address versions, reward schedule, blk file name literals), regenerated from /repo/src on this run, equal the published
   ones the theorems are stated over.  (A table whose source shape was not recognised is an alias of the published value in SrcGen.v and
   is reported by the check as tied by correspondence only; buffer sizes, file stems, header texts and the opreturn line format are not
   specified by any property: the model reads them from SrcGen.) *)
From RBP Require Published.
From RBPGen Require SrcGen.
Theorem srcgen_tables_ok :
  SrcGen.coins = Published.coins /\
  (SrcGen.BLOCK_VALID_CHAIN, SrcGen.BLOCK_HAVE_DATA, SrcGen.BLOCK_HAVE_UNDO, SrcGen.status_mask, SrcGen.file_mask, SrcGen.pos_mask)
   = (Published.BLOCK_VALID_CHAIN, Published.BLOCK_HAVE_DATA, Published.BLOCK_HAVE_UNDO, Published.status_mask, Published.file_mask, Published.pos_mask) /\
  SrcGen.templates = Published.templates /\ SrcGen.p2sh_version = Published.p2sh_version /\ SrcGen.addr_slots = Published.addr_slots /\
  (SrcGen.reward, SrcGen.halving_interval, SrcGen.halving_cap) = (Published.reward, Published.halving_interval, Published.halving_cap) /\
  SrcGen.blk_prefix = Published.blk_prefix /\ SrcGen.blk_ext = Published.blk_ext.
Proof. repeat split; vm_compute; reflexivity. Qed.
Print Assumptions srcgen_tables_ok.
