(* Obligation shared by all properties: the constant tables regenerated from /repo/src on this run equal the published ones
   the theorems are stated over. *)
From RBP Require Published.
From RBPGen Require SrcGen.
Theorem srcgen_tables_ok :
  SrcGen.srcgen_failed = false /\
  SrcGen.coins = Published.coins /\
  (SrcGen.BLOCK_VALID_CHAIN, SrcGen.BLOCK_HAVE_DATA, SrcGen.BLOCK_HAVE_UNDO, SrcGen.status_mask, SrcGen.file_mask, SrcGen.pos_mask)
   = (Published.BLOCK_VALID_CHAIN, Published.BLOCK_HAVE_DATA, Published.BLOCK_HAVE_UNDO, Published.status_mask, Published.file_mask, Published.pos_mask) /\
  SrcGen.templates = Published.templates /\ SrcGen.p2sh_version = Published.p2sh_version /\ SrcGen.addr_slots = Published.addr_slots /\
  (SrcGen.reward, SrcGen.halving_interval, SrcGen.halving_cap) = (Published.reward, Published.halving_interval, Published.halving_cap) /\
  SrcGen.reader_bufsize = Published.reader_bufsize /\ SrcGen.blk_prefix = Published.blk_prefix /\ SrcGen.blk_ext = Published.blk_ext /\
  SrcGen.writer_caps = Published.writer_caps /\ SrcGen.csv_stems = Published.csv_stems /\
  SrcGen.unspent_stem = Published.unspent_stem /\ SrcGen.balances_stem = Published.balances_stem /\
  SrcGen.unspent_header = Published.unspent_header /\ SrcGen.balances_header = Published.balances_header /\
  SrcGen.opreturn_format = Published.opreturn_format.
Proof. repeat split; vm_compute; reflexivity. Qed.
Print Assumptions srcgen_tables_ok.
