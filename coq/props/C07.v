(* C07 — unspentcsvdump lists exactly the unspent, address-bearing outputs of the range. Pinned statements only: each theorem is closed by `exact` of a lemma proved in theories/. *)
From RBP Require Import Bytes Hashes Wire Block BlockP Render Index IndexP Model ModelP StoreP CsvP CbP AddrClean RowsP.
From RBP Require Drive Merkle Utxo Stats OutProto Reader Published Misc.

Theorem C07_final_is_last_touch :
  forall (delivered : list (N * eblock)) (k : bytes), Utxo.lookup bytes uval beqb k (utxo_final delivered) = Utxo.last_touch bytes uval beqb k (utxo_events delivered) None.
Proof. exact utxo_final_last_touch. Qed.

Theorem C07_nothing_listed_twice :
  forall delivered : list (N * eblock), NoDup (map fst (utxo_final delivered)).
Proof. exact utxo_final_nodup. Qed.

Theorem C07_listed_iff :
  forall (delivered : list (N * eblock)) (k : bytes) (v : uval), Utxo.lookup bytes uval beqb k (utxo_final delivered) = Some v <-> (exists before after : list (Utxo.event bytes uval), utxo_events delivered = before ++ Utxo.Create bytes uval k v :: after /\ forallb (fun e : Utxo.event bytes uval => negb (Utxo.touches bytes uval beqb k e)) after = true).
Proof. exact utxo_listed_iff. Qed.

Theorem C07_history_in_chain_order :
  forall a b : list (N * eblock), utxo_events (a ++ b) = utxo_events a ++ utxo_events b.
Proof. exact utxo_events_app. Qed.

Theorem C07_only_address_bearing :
  forall (tid : bytes) (h : N) (outs : list (txout * escript)) (i : N) (k : bytes) (v : uval), In (Utxo.Create bytes uval k v) (create_events tid h i outs) -> exists (o : txout) (e : escript) (a : list N) (j : N), In (o, e) outs /\ e_addr e = Some a /\ v = (h, out_value o, a) /\ k = ukey tid j.
Proof. exact create_events_addr. Qed.

Theorem C07_key_decode :
  forall (t : list N) (i : N), length t = 32%nat -> firstn 32 (ukey t i) = t /\ le_decode (skipn 32 (ukey t i)) = i mod 2 ^ 32.
Proof. exact ukey_decode. Qed.

Theorem C07_key_injective :
  forall (t : list N) (i : N) (t' : list N) (i' : N), length t = 32%nat -> length t' = 32%nat -> ukey t i = ukey t' i' -> t = t' /\ i mod 2 ^ 32 = i' mod 2 ^ 32.
Proof. exact ukey_injective. Qed.

Theorem C07_generic_last_touch :
  forall (K V : Type) (keqb : K -> K -> bool), (forall a b : K, reflect (a = b) (keqb a b)) -> forall (k : K) (evs : list (Utxo.event K V)), Utxo.lookup K V keqb k (Utxo.run K V keqb evs) = Utxo.last_touch K V keqb k evs None.
Proof. exact Utxo.fold_last_touch. Qed.

Theorem C07_address_never_contains_separator :
  forall (c : coin) (script : bytes) (a : list N), e_addr (eval_script c script) = Some a -> clean a.
Proof. exact address_clean. Qed.

Theorem C07_listed_row_splits_into_its_fields :
  forall (c : coin) (blocks : list (N * block)) (k : bytes) (h v : N) (a : list N), Utxo.lookup bytes uval beqb k (utxo_final (map (fun hb : N * block => (fst hb, eval_block c (snd hb))) blocks)) = Some (h, v, a) -> fields_of_row (unspent_row (k, (h, v, a))) = [hash_str (firstn 32 k); dec (le_decode (skipn 32 k)); dec h; dec v; a] /\ (exists (t : rawtx) (j : N), k = ukey (txid t) j /\ firstn 32 k = txid t).
Proof. exact listed_row_fields. Qed.

Theorem C07_row_fields :
  forall (k : list N) (h v : N) (a : list N), wfb (firstn 32 k) = true -> clean a -> fields_of_row (unspent_row (k, (h, v, a))) = [hash_str (firstn 32 k); dec (le_decode (skipn 32 k)); dec h; dec v; a].
Proof. exact unspent_row_fields. Qed.

Print Assumptions C07_final_is_last_touch.
Print Assumptions C07_nothing_listed_twice.
Print Assumptions C07_listed_iff.
Print Assumptions C07_history_in_chain_order.
Print Assumptions C07_only_address_bearing.
Print Assumptions C07_key_decode.
Print Assumptions C07_key_injective.
Print Assumptions C07_generic_last_touch.
Print Assumptions C07_address_never_contains_separator.
Print Assumptions C07_listed_row_splits_into_its_fields.
Print Assumptions C07_row_fields.
