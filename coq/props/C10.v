(* C10 — exit status 0 means complete, final-named output; any failure leaves none. Pinned statements only: each theorem is closed by `exact` of a lemma proved in theories/. *)
From RBP Require Import Bytes Model CsvP NamesP HistoryP.
From RBP Require Drive Merkle Utxo Stats OutProto Reader Published Misc.

Theorem C10_failure_no_final :
  forall (cap : nat) (L : N) (ws : list OutProto.wr) (rows : list (nat * bytes)) (trace : list OutProto.osop) (s : OutProto.fs), OutProto.run cap L ws rows = (trace, 1) -> (forall f : OutProto.name, In f (OutProto.finals ws) -> ~ In f (OutProto.tmps ws)) -> forall f : OutProto.name, In f (OutProto.finals ws) -> OutProto.fs_get f (OutProto.apply_trace s trace) = OutProto.fs_get f s.
Proof. exact OutProto.failure_no_final. Qed.

Theorem C10_success_complete :
  forall (cap : nat) (L : N) (ws : list OutProto.wr) (rows : list (nat * bytes)) (trace : list OutProto.osop) (s : OutProto.fs), (0 < cap)%nat -> OutProto.run cap L ws rows = (trace, 0) -> NoDup (OutProto.tmps ws ++ OutProto.finals ws) -> OutProto.fresh_writers ws -> exists ws' : list OutProto.wr, OutProto.tmps ws' = OutProto.tmps ws /\ OutProto.finals ws' = OutProto.finals ws /\ Forall (fun w : OutProto.wr => OutProto.fs_get (OutProto.w_final w) (OutProto.apply_trace s trace) = Some (OutProto.w_logical w) /\ OutProto.fs_get (OutProto.tmp (OutProto.w_bw w)) (OutProto.apply_trace s trace) = None) ws' /\ (forall g : OutProto.name, ~ In g (OutProto.tmps ws ++ OutProto.finals ws) -> OutProto.fs_get g (OutProto.apply_trace s trace) = OutProto.fs_get g s) /\ map OutProto.w_logical ws' = fold_left (fun (ls : list bytes) (r : nat * bytes) => OutProto.app_at (fst r) (snd r) ls) rows (map OutProto.w_logical ws).
Proof. exact OutProto.success_complete. Qed.

Theorem C10_success_content :
  forall (cap : nat) (L : N) (ws : list OutProto.wr) (rows : list (nat * bytes)) (trace : list OutProto.osop) (s : OutProto.fs), (0 < cap)%nat -> OutProto.run cap L ws rows = (trace, 0) -> NoDup (OutProto.tmps ws ++ OutProto.finals ws) -> OutProto.fresh_writers ws -> (forall r : nat * bytes, In r rows -> (fst r < length ws)%nat) -> forall j : nat, (j < length ws)%nat -> OutProto.fs_get (nth j (OutProto.finals ws) 0) (OutProto.apply_trace s trace) = Some (OutProto.data_for j rows) /\ OutProto.fs_get (nth j (OutProto.tmps ws) 0) (OutProto.apply_trace s trace) = None.
Proof. exact OutProto.success_content. Qed.

Theorem C10_crash_prefix_safe :
  forall (cap : nat) (L : N) (ws : list OutProto.wr) (rows : list (nat * bytes)) (trace : list OutProto.osop) (code : OutProto.exitcode) (s : OutProto.fs) (n : nat), (0 < cap)%nat -> OutProto.run cap L ws rows = (trace, code) -> NoDup (OutProto.tmps ws ++ OutProto.finals ws) -> OutProto.fresh_writers ws -> exists ws' : list OutProto.wr, OutProto.finals ws' = OutProto.finals ws /\ Forall (fun w : OutProto.wr => let s' := OutProto.apply_trace s (firstn n trace) in OutProto.fs_get (OutProto.w_final w) s' = OutProto.fs_get (OutProto.w_final w) s \/ OutProto.fs_get (OutProto.w_final w) s' = Some (OutProto.w_logical w)) ws'.
Proof. exact OutProto.crash_prefix_safe. Qed.

Theorem C10_input_error_aborts_before_completion :
  forall (B E : Type) (get : N -> option (B + E)) (blk : N -> B) (fuel : nat) (s maxh f : N) (e : E) (acc : list (N * B)), (forall h : N, s <= h < f -> get h = Some (inl (blk h))) -> get f = Some (inr e) -> s <= f <= maxh -> (N.to_nat (f - s) < fuel)%nat -> Drive.drive B E get fuel true maxh s acc = (acc ++ map (fun h : N => (h, blk h)) (Drive.heights s (N.to_nat (f - s))), f, Some (f, e)).
Proof. exact Drive.drive_stops_at_first_error. Qed.

Theorem C10_file_is_its_rows :
  forall (i : nat) (ws : list (nat * bytes)), OutProto.data_for i ws = concat (rows_of i ws).
Proof. exact data_for_rows. Qed.

Theorem C10_final_name_never_tmp_name :
  forall (st : bytes) (s e : N) (st' : bytes), final_name st s e <> tmp_name st'.
Proof. exact final_name_not_tmp. Qed.

Theorem C10_csv_names_distinct :
  forall s e : N, s < 2 ^ 64 -> e < 2 ^ 64 -> NoDup (map tmp_name SrcGen.csv_stems ++ map (fun st : bytes => final_name st s e) SrcGen.csv_stems).
Proof. exact csv_names_distinct. Qed.

Theorem C10_names_distinct_for_any_stems :
  forall (stems : list bytes) (s e : N), NoDup stems -> Forall no_dash stems -> s < 2 ^ 64 -> e < 2 ^ 64 -> NoDup (map tmp_name stems ++ map (fun st : bytes => final_name st s e) stems).
Proof. exact names_distinct. Qed.

Theorem C10_later_run_of_the_same_names_wins :
  forall (cap : nat) (L : N) (ws : list OutProto.wr) (rows1 rows2 : list (nat * bytes)) (tr1 : list OutProto.osop) (e1 : OutProto.exitcode) (tr2 : list OutProto.osop) (s : OutProto.fs), (0 < cap)%nat -> OutProto.run cap L ws rows1 = (tr1, e1) -> OutProto.run cap L ws rows2 = (tr2, 0) -> NoDup (OutProto.tmps ws ++ OutProto.finals ws) -> OutProto.fresh_writers ws -> (forall r : nat * bytes, In r rows2 -> (fst r < length ws)%nat) -> forall j : nat, (j < length ws)%nat -> OutProto.fs_get (nth j (OutProto.finals ws) 0) (OutProto.apply_trace (OutProto.apply_trace s tr1) tr2) = Some (OutProto.data_for j rows2).
Proof. exact later_run_wins. Qed.

Print Assumptions C10_failure_no_final.
Print Assumptions C10_success_complete.
Print Assumptions C10_success_content.
Print Assumptions C10_crash_prefix_safe.
Print Assumptions C10_input_error_aborts_before_completion.
Print Assumptions C10_file_is_its_rows.
Print Assumptions C10_final_name_never_tmp_name.
Print Assumptions C10_csv_names_distinct.
Print Assumptions C10_names_distinct_for_any_stems.
Print Assumptions C10_later_run_of_the_same_names_wins.
