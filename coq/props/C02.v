(* C02 — exactly the blocks of heights start..min(end,tip) are delivered, once, ascending. Pinned statements only. *)
From RBP Require Import Bytes Index Model ModelP Render NamesP.
From RBP Require Drive.

(* max_height = min(--end, highest indexed height); the index kept for the run agrees with the full one on start-1..max *)
Theorem C02_max_height kvs o ci : new_index kvs o = Ok ci ->
  exists idx, load_index (sort_kv kvs) [] = Ok idx /\ idx <> [] /\ ci_full ci = idx /\
    ci_max ci = (match o_end o with Some e => N.min e (hm_max idx) | None => hm_max idx end) /\
    ci_idx ci = (if is_default o then idx else filter (fun e => in_range (o_start o) (ci_max ci) (fst e)) idx).
Proof. exact (new_index_spec kvs o ci). Qed.

(* every height of s..max readable  ==>  delivered heights are exactly s, s+1, .., max (ascending, each once),
   the run completes, on_complete receives max, and every delivered block is the one stored for its height *)
Theorem C02_delivers_exact_range c d o ci :
  range_ok (o_range o) = true -> d_files d <> [] -> new_index (d_index d) (o_range o) = Ok ci ->
  let s := o_start (o_range o) in
  s <= ci_max ci + 1 ->
  (forall h, s <= h <= ci_max ci -> exists b, get_block c d (o_verify o) ci h = Some (inl b)) ->
  exists r, run_case c d o = Run r /\ r_ci r = ci /\ r_fail r = None /\ r_cur r = ci_max ci + 1 /\
    map fst (r_delivered r) = Drive.heights s (N.to_nat (ci_max ci + 1 - s)) /\
    (forall h b, In (h, b) (r_delivered r) -> get_block c d (o_verify o) ci h = Some (inl b)).
Proof. exact (run_delivers_range c d o ci). Qed.

Theorem C02_heights_are_the_range s n h : In h (Drive.heights s n) <-> s <= h < s + N.of_nat n.
Proof. exact (Drive.heights_In s n h). Qed.
Theorem C02_heights_once s n : NoDup (Drive.heights s n).
Proof. exact (heights_nodup s n). Qed.

(* the generic loop: inclusive upper bound (repaired code) vs the pinned tree's exclusive bound, which skips the tip (finding F1) *)
Theorem C02_loop_inclusive B E get blk : forall fuel s maxh acc,
  (forall h, s <= h <= maxh -> get h = Some (inl (blk h))) -> s <= maxh + 1 -> (N.to_nat (maxh + 1 - s) < fuel)%nat ->
  Drive.drive B E get fuel true maxh s acc = (acc ++ map (fun h => (h, blk h)) (Drive.heights s (N.to_nat (maxh + 1 - s))), maxh + 1, None).
Proof. exact (Drive.drive_inclusive B E get blk). Qed.
Theorem C02_refuted_on_pinned_tree B E get blk : forall fuel s maxh acc,
  (forall h, s <= h <= maxh -> get h = Some (inl (blk h))) -> s <= maxh -> (N.to_nat (maxh - s) < fuel)%nat ->
  Drive.drive B E get fuel false maxh s acc = (acc ++ map (fun h => (h, blk h)) (Drive.heights s (N.to_nat (maxh - s))), maxh, None).
Proof. exact (Drive.drive_exclusive_skips_tip B E get blk). Qed.

(* blocks outside the range never contribute: the loop's result only depends on the block source inside s..max *)
Theorem C02_outside_never_read B E (g1 g2 : N -> option (B + E)) : forall fuel incl maxh s acc,
  (forall h, s <= h <= maxh -> g1 h = g2 h) -> Drive.drive B E g1 fuel incl maxh s acc = Drive.drive B E g2 fuel incl maxh s acc.
Proof. exact (Drive.drive_ext B E g1 g2). Qed.

(* a range run sees, at every height it processes, exactly the block the whole-chain run sees there (trimming is invisible) *)
Theorem C02_range_sees_same_blocks c d v kvs o o0 ci ci0 h :
  new_index kvs o = Ok ci -> new_index kvs o0 = Ok ci0 -> is_default o0 = true ->
  o_start o <= h <= ci_max ci -> get_block c d v ci h = get_block c d v ci0 h.
Proof. exact (get_block_range_same c d v kvs o o0 ci ci0 h). Qed.

(* per-block outputs (csvdump rows, opreturn lines): the result for a sub-list of blocks is the corresponding slice *)
Theorem C02_csv_range_is_slice (p:N * eblock -> bool) delivered :
  csv_writes (filter p delivered) = flat_map (fun hb => if p hb then csv_block_writes hb else []) delivered.
Proof. exact (csv_writes_slice p delivered). Qed.
Theorem C02_opreturn_range_is_slice (p:N * eblock -> bool) delivered :
  opreturn_lines (filter p delivered) = flat_map (fun hb => if p hb then opreturn_lines [hb] else []) delivered.
Proof. exact (opreturn_lines_slice p delivered). Qed.

Theorem C02_names_carry_start_and_last_height :
  forall (st : bytes) (s e : N) (st' : bytes) (s' e' : N), no_dash st -> no_dash st' -> s < 2 ^ 64 -> e < 2 ^ 64 -> s' < 2 ^ 64 -> e' < 2 ^ 64 -> final_name st s e = final_name st' s' e' -> st = st' /\ s = s' /\ e = e'.
Proof. exact final_name_inj. Qed.

Print Assumptions C02_max_height.
Print Assumptions C02_delivers_exact_range.
Print Assumptions C02_heights_are_the_range.
Print Assumptions C02_heights_once.
Print Assumptions C02_loop_inclusive.
Print Assumptions C02_refuted_on_pinned_tree.
Print Assumptions C02_outside_never_read.
Print Assumptions C02_range_sees_same_blocks.
Print Assumptions C02_csv_range_is_slice.
Print Assumptions C02_opreturn_range_is_slice.
Print Assumptions C02_names_carry_start_and_last_height.
