(* C13 — output depends only on data directory and options, never on scheduling or reruns (partial: runtime not modelled). Pinned statements only: each theorem is closed by `exact` of a lemma proved in theories/. *)
From RBP Require Import Bytes Model Misc Hashes Base58 Utf8 Wire Block Render ScriptCustom CustomTop ScriptBtc Index ParP HistoryP BalanceP.
From RBP Require Drive Merkle Utxo Stats OutProto Reader Published Misc.

Theorem C13_indexed_collect_any_order :
  forall (A B : Type) (f : A -> B) (d : B) (da : A) (order : list nat) (l : list A), (forall i : nat, (i < length l)%nat <-> In i order) -> collect A B f d da order l = map f l.
Proof. exact Misc.collect_any_order. Qed.

Theorem C13_prestate_independent :
  forall (cap : nat) (L : N) (ws : list OutProto.wr) (rows : list (nat * bytes)) (trace : list OutProto.osop) (s : OutProto.fs), (0 < cap)%nat -> OutProto.run cap L ws rows = (trace, 0) -> NoDup (OutProto.tmps ws ++ OutProto.finals ws) -> OutProto.fresh_writers ws -> (forall r : nat * bytes, In r rows -> (fst r < length ws)%nat) -> forall j : nat, (j < length ws)%nat -> OutProto.fs_get (nth j (OutProto.finals ws) 0) (OutProto.apply_trace s trace) = Some (OutProto.data_for j rows) /\ OutProto.fs_get (nth j (OutProto.tmps ws) 0) (OutProto.apply_trace s trace) = None.
Proof. exact OutProto.success_content. Qed.

Theorem C13_failure_touches_no_final :
  forall (cap : nat) (L : N) (ws : list OutProto.wr) (rows : list (nat * bytes)) (trace : list OutProto.osop) (s : OutProto.fs), OutProto.run cap L ws rows = (trace, 1) -> (forall f : OutProto.name, In f (OutProto.finals ws) -> ~ In f (OutProto.tmps ws)) -> forall f : OutProto.name, In f (OutProto.finals ws) -> OutProto.fs_get f (OutProto.apply_trace s trace) = OutProto.fs_get f s.
Proof. exact OutProto.failure_no_final. Qed.

Theorem C13_result_independent_of_folder_content :
  forall (cap : nat) (L : N) (ws : list OutProto.wr) (rows : list (nat * bytes)) (trace : list OutProto.osop) (s : OutProto.fs), (0 < cap)%nat -> OutProto.run cap L ws rows = (trace, 0) -> NoDup (OutProto.tmps ws ++ OutProto.finals ws) -> OutProto.fresh_writers ws -> (forall r : nat * bytes, In r rows -> (fst r < length ws)%nat) -> forall j : nat, (j < length ws)%nat -> OutProto.fs_get (nth j (OutProto.finals ws) 0) (OutProto.apply_trace s trace) = Some (OutProto.data_for j rows) /\ OutProto.fs_get (nth j (OutProto.tmps ws) 0) (OutProto.apply_trace s trace) = None.
Proof. exact OutProto.success_content. Qed.

Theorem C13_outputs_in_any_order :
  forall (c : coin) (dflt_out : txout) (dflt : txout * escript) (oo : list nat) (t : rawtx), complete_order (length (tx_outputs t)) oo -> eval_tx_in_order c dflt_out dflt oo t = eval_tx c t.
Proof. exact eval_tx_any_order. Qed.

Theorem C13_block_in_any_nested_order :
  forall (c : coin) (dflt_out : txout) (dflt : txout * escript) (dflt_tx : rawtx) (dflt_etx : etx) (ot : list nat) (oo : nat -> list nat) (b : block), complete_order (length (b_txs b)) ot -> (forall (i : nat) (t : rawtx), nth_error (b_txs b) i = Some t -> complete_order (length (tx_outputs t)) (oo i)) -> eval_block_in_order c dflt_out dflt dflt_tx dflt_etx ot oo b = eval_block c b.
Proof. exact eval_block_any_order. Qed.

Theorem C13_success_after_any_history :
  forall (cap : nat) (L : N) (ws : list OutProto.wr) (rows : list (nat * bytes)) (trace : list OutProto.osop) (hist : list (list OutProto.osop)) (s : OutProto.fs), (0 < cap)%nat -> OutProto.run cap L ws rows = (trace, 0) -> NoDup (OutProto.tmps ws ++ OutProto.finals ws) -> OutProto.fresh_writers ws -> (forall r : nat * bytes, In r rows -> (fst r < length ws)%nat) -> forall j : nat, (j < length ws)%nat -> OutProto.fs_get (nth j (OutProto.finals ws) 0) (OutProto.apply_trace (after_history s hist) trace) = Some (OutProto.data_for j rows) /\ OutProto.fs_get (nth j (OutProto.tmps ws) 0) (OutProto.apply_trace (after_history s hist) trace) = None.
Proof. exact success_after_any_history. Qed.

Theorem C13_same_result_in_any_two_folders :
  forall (cap : nat) (L : N) (ws : list OutProto.wr) (rows : list (nat * bytes)) (trace : list OutProto.osop) (s1 s2 : OutProto.fs), (0 < cap)%nat -> OutProto.run cap L ws rows = (trace, 0) -> NoDup (OutProto.tmps ws ++ OutProto.finals ws) -> OutProto.fresh_writers ws -> (forall r : nat * bytes, In r rows -> (fst r < length ws)%nat) -> forall j : nat, (j < length ws)%nat -> OutProto.fs_get (nth j (OutProto.finals ws) 0) (OutProto.apply_trace s1 trace) = OutProto.fs_get (nth j (OutProto.finals ws) 0) (OutProto.apply_trace s2 trace).
Proof. exact same_result_in_any_two_folders. Qed.

Theorem C13_later_run_wins :
  forall (cap : nat) (L : N) (ws : list OutProto.wr) (rows1 rows2 : list (nat * bytes)) (tr1 : list OutProto.osop) (e1 : OutProto.exitcode) (tr2 : list OutProto.osop) (s : OutProto.fs), (0 < cap)%nat -> OutProto.run cap L ws rows1 = (tr1, e1) -> OutProto.run cap L ws rows2 = (tr2, 0) -> NoDup (OutProto.tmps ws ++ OutProto.finals ws) -> OutProto.fresh_writers ws -> (forall r : nat * bytes, In r rows2 -> (fst r < length ws)%nat) -> forall j : nat, (j < length ws)%nat -> OutProto.fs_get (nth j (OutProto.finals ws) 0) (OutProto.apply_trace (OutProto.apply_trace s tr1) tr2) = Some (OutProto.data_for j rows2).
Proof. exact later_run_wins. Qed.

Theorem C13_balances_any_iteration_order :
  forall (m m' : list (bytes * uval)) (a : list N), Permutation.Permutation m m' -> Utxo.bal_lookup (list N) beqb a (balances_final m) = Utxo.bal_lookup (list N) beqb a (balances_final m').
Proof. exact balances_any_iteration_order. Qed.

Print Assumptions C13_indexed_collect_any_order.
Print Assumptions C13_prestate_independent.
Print Assumptions C13_failure_touches_no_final.
Print Assumptions C13_result_independent_of_folder_content.
Print Assumptions C13_outputs_in_any_order.
Print Assumptions C13_block_in_any_nested_order.
Print Assumptions C13_success_after_any_history.
Print Assumptions C13_same_result_in_any_two_folders.
Print Assumptions C13_later_run_wins.
Print Assumptions C13_balances_any_iteration_order.
