(* C14 — no script or witness content can abort a run or disturb other rows. Pinned statements only: each theorem is closed by `exact` of a lemma proved in theories/. *)
From RBP Require Import Bytes Hashes Base58 Bech32 Utf8 Wire Block BlockP ScriptCustom CustomTop ScriptCustomP ScriptBtc ScriptBtcP Index Model OpReturnP FrameP.
From RBP Require Drive Merkle Utxo Stats OutProto Reader Published Misc.

Theorem C14_fork_eval_total :
  forall (bs : bytes) (v : N), fst (eval_custom bs v) <> PError /\ eval bs <> Panic /\ eval bs <> Overflow.
Proof. exact eval_custom_total. Qed.

Theorem C14_fork_tokenizer_never_panics :
  forall bs : bytes, eval bs <> Panic /\ eval bs <> Overflow.
Proof. exact eval_never_panics. Qed.

Theorem C14_witness_frame :
  forall (t : atx) (w : option (list (cs_width * list (cs_width * bytes)))), parsed_tx (with_witness t w) = parsed_tx t /\ ser_tx_stripped (with_witness t w) = ser_tx_stripped t /\ txid (parsed_tx (with_witness t w)) = txid (parsed_tx t).
Proof. exact witness_frame. Qed.

Theorem C14_out_script_frame :
  forall (t : atx) (k : nat) (w : cs_width) (x : bytes), let p := parsed_tx t in let p' := parsed_tx (with_oscript t k w x) in tx_version p' = tx_version p /\ tx_locktime p' = tx_locktime p /\ tx_incount p' = tx_incount p /\ tx_inputs p' = tx_inputs p /\ tx_outcount p' = tx_outcount p /\ tx_outputs p' = upd k (set_out_script w x) (tx_outputs p).
Proof. exact out_script_frame. Qed.

Theorem C14_in_script_frame :
  forall (t : atx) (k : nat) (w : cs_width) (x : bytes), let p := parsed_tx t in let p' := parsed_tx (with_iscript t k w x) in tx_version p' = tx_version p /\ tx_locktime p' = tx_locktime p /\ tx_incount p' = tx_incount p /\ tx_outputs p' = tx_outputs p /\ tx_outcount p' = tx_outcount p /\ tx_inputs p' = upd k (set_in_script w x) (tx_inputs p).
Proof. exact in_script_frame. Qed.

Theorem C14_eval_is_per_output :
  forall (c : coin) (t : rawtx) (j : nat) (d : txout * escript), nth j (x_outs (eval_tx c t)) d = nth j (map (fun o : txout => (o, eval_script c (out_script o))) (tx_outputs t)) d.
Proof. exact eval_is_per_output. Qed.

Theorem C14_other_outputs_unaffected :
  forall (c : coin) (p : rawtx) (k : nat) (w : cs_width) (x : bytes) (j : nat) (d : txout * escript), k <> j -> nth j (map (fun o : txout => (o, eval_script c (out_script o))) (upd k (set_out_script w x) (tx_outputs p))) d = nth j (map (fun o : txout => (o, eval_script c (out_script o))) (tx_outputs p)) d.
Proof. exact other_outputs_unaffected. Qed.

Theorem C14_tx_roundtrip_any_scripts :
  forall (t : atx) (rest : list N), wf_tx t = true -> read_tx (ser_tx_disk t ++ rest) = Ok (parsed_tx t, rest).
Proof. exact read_tx_ser. Qed.

Print Assumptions C14_fork_eval_total.
Print Assumptions C14_fork_tokenizer_never_panics.
Print Assumptions C14_witness_frame.
Print Assumptions C14_out_script_frame.
Print Assumptions C14_in_script_frame.
Print Assumptions C14_eval_is_per_output.
Print Assumptions C14_other_outputs_unaffected.
Print Assumptions C14_tx_roundtrip_any_scripts.
