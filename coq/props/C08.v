(* C08 — balances lists each address once with the sum of its unspent outputs. Pinned statements only: each theorem is closed by `exact` of a lemma proved in theories/. *)
From RBP Require Import Bytes Hashes Wire Block BlockP Render Index IndexP Model ModelP StoreP CsvP CbP BalanceP RowsP.
From RBP Require Drive Merkle Utxo Stats OutProto Reader Published Misc.

Theorem C08_balance_is_sum :
  forall (m : list (bytes * uval)) (a : list N), Utxo.bal_lookup (list N) beqb a (balances_final m) = (if Utxo.owns (list N) beqb a (owned_values m) then Some (Utxo.sum_for (list N) beqb a (owned_values m)) else None).
Proof. exact balances_final_spec. Qed.

Theorem C08_one_row_per_address :
  forall m : list (bytes * uval), NoDup (map fst (balances_final m)).
Proof. exact balances_final_nodup. Qed.

Theorem C08_generic_sum :
  forall (A : Type) (aeqb : A -> A -> bool), (forall a b : A, reflect (a = b) (aeqb a b)) -> forall (vals : list (A * N)) (a : A), Utxo.bal_lookup A aeqb a (Utxo.balances A aeqb vals) = (if Utxo.owns A aeqb a vals then Some (Utxo.sum_for A aeqb a vals) else None).
Proof. exact Utxo.balances_spec. Qed.

Theorem C08_utxo_set_is_C07 :
  forall (delivered : list (N * eblock)) (k : bytes), Utxo.lookup bytes uval beqb k (utxo_final delivered) = Utxo.last_touch bytes uval beqb k (utxo_events delivered) None.
Proof. exact utxo_final_last_touch. Qed.

Theorem C08_balances_conserve_value :
  forall m : list (bytes * uval), total (list N) (balances_final m) = unspent_total m.
Proof. exact balances_conserve_value. Qed.

Theorem C08_any_iteration_order :
  forall (m m' : list (bytes * uval)) (a : list N), Permutation.Permutation m m' -> Utxo.bal_lookup (list N) beqb a (balances_final m) = Utxo.bal_lookup (list N) beqb a (balances_final m').
Proof. exact balances_any_iteration_order. Qed.

Theorem C08_addresses_are_owners :
  forall (m : list (bytes * uval)) (a : list N), In a (map fst (balances_final m)) <-> (exists (k : bytes) (h v : N), In (k, (h, v, a)) m).
Proof. exact balances_addresses_are_owners. Qed.

Theorem C08_rows_le_unspent_rows :
  forall m : list (bytes * uval), (length (balances_final m) <= length m)%nat.
Proof. exact balances_rows_le_unspent_rows. Qed.

Theorem C08_listed_row_splits_into_its_fields :
  forall (c : coin) (blocks : list (N * block)) (a : list N) (s : N), In (a, s) (balances_final (utxo_final (map (fun hb : N * block => (fst hb, eval_block c (snd hb))) blocks))) -> fields_of_row (balance_row (a, s)) = [a; dec s].
Proof. exact listed_balance_row_fields. Qed.

Print Assumptions C08_balance_is_sum.
Print Assumptions C08_one_row_per_address.
Print Assumptions C08_generic_sum.
Print Assumptions C08_utxo_set_is_C07.
Print Assumptions C08_balances_conserve_value.
Print Assumptions C08_any_iteration_order.
Print Assumptions C08_addresses_are_owners.
Print Assumptions C08_rows_le_unspent_rows.
Print Assumptions C08_listed_row_splits_into_its_fields.
