(* C09 — --verify accepts exactly the chains whose merkle roots and prev-hash links hold. Pinned statements only: each theorem is closed by `exact` of a lemma proved in theories/. *)
From RBP Require Import Bytes Hashes Wire Block BlockP Render Index IndexP Model ModelP StoreP CsvP CbP FrameP VerifyFrame VerifyBind.
From RBP Require MerkleP Drive Merkle Utxo Stats OutProto Reader Published Misc.

Theorem C09_merkle_loop_is_spec :
  forall l : list bytes, l <> [] -> exists r : bytes, Merkle.merkle_root H2 l = Ok r /\ Merkle.merkle_spec H2 (S (length l)) l = Some r.
Proof. exact merkle_loop_is_spec. Qed.

Theorem C09_verify_iff :
  forall (c : coin) (idx : hmap) (b : eblock) (h : N), y_txs b <> [] -> h = 0 \/ hm_get (h - 1) idx <> None -> verify_block c idx b h = None <-> Merkle.merkle_spec H2 (S (length (y_txs b))) (map x_id (y_txs b)) = Some (h_merkle (b_header (y_blk b))) /\ (h = 0 -> y_hash b = genesis c) /\ (h <> 0 -> option_map r_hash (hm_get (h - 1) idx) = Some (h_prev (b_header (y_blk b)))).
Proof. exact verify_block_iff. Qed.

Theorem C09_merkle_checked_first :
  forall (c : coin) (idx : hmap) (b : eblock) (h : N) (r : bytes), Merkle.merkle_root H2 (map x_id (y_txs b)) = Ok r -> r <> h_merkle (b_header (y_blk b)) -> verify_block c idx b h = Some (FErr EMerkle).
Proof. exact verify_block_merkle_first. Qed.

Theorem C09_stops_at_first_failure :
  forall (B E : Type) (get : N -> option (B + E)) (blk : N -> B) (fuel : nat) (s maxh f : N) (e : E) (acc : list (N * B)), (forall h : N, s <= h < f -> get h = Some (inl (blk h))) -> get f = Some (inr e) -> s <= f <= maxh -> (N.to_nat (f - s) < fuel)%nat -> Drive.drive B E get fuel true maxh s acc = (acc ++ map (fun h : N => (h, blk h)) (Drive.heights s (N.to_nat (f - s))), f, Some (f, e)).
Proof. exact Drive.drive_stops_at_first_error. Qed.

Theorem C09_accepts_consistent_chain :
  forall (c : coin) (d : datadir) (o : opts) (ci : chain_index), range_ok (o_range o) = true -> d_files d <> [] -> new_index (d_index d) (o_range o) = Ok ci -> let s := o_start (o_range o) in s <= ci_max ci + 1 -> (forall h : N, s <= h <= ci_max ci -> exists b : eblock, get_block c d (o_verify o) ci h = Some (inl b)) -> exists r : result, run_case c d o = Run r /\ r_ci r = ci /\ r_fail r = None /\ r_cur r = ci_max ci + 1 /\ map fst (r_delivered r) = Drive.heights s (N.to_nat (ci_max ci + 1 - s)) /\ (forall (h : N) (b : eblock), In (h, b) (r_delivered r) -> get_block c d (o_verify o) ci h = Some (inl b)).
Proof. exact run_delivers_range. Qed.

Theorem C09_btc_genesis_hash :
  Some (sha256d btc_genesis_header) = option_map genesis (coin_of_name [98; 105; 116; 99; 111; 105; 110]).
Proof. exact btc_genesis_hash. Qed.

Theorem C09_btc_genesis_merkle :
  Merkle.merkle_root H2 [[59; 163; 237; 253; 122; 123; 18; 178; 122; 199; 44; 62; 103; 118; 143; 97; 127; 200; 27; 195; 136; 138; 81; 50; 58; 159; 184; 170; 75; 30; 94; 74]] = Ok (firstn 32 (skipn 36 btc_genesis_header)).
Proof. exact btc_genesis_merkle. Qed.

Theorem C09_bad_prev_rejected :
  forall (c : coin) (idx : hmap) (b : eblock) (h : N) (p : irec), h <> 0 -> hm_get (h - 1) idx = Some p -> h_prev (b_header (y_blk b)) <> r_hash p -> Merkle.merkle_root H2 (map x_id (y_txs b)) = Ok (h_merkle (b_header (y_blk b))) -> verify_block c idx b h = Some (FErr EPrev).
Proof. exact bad_prev_rejected. Qed.

Theorem C09_bad_genesis_rejected :
  forall (c : coin) (idx : hmap) (b : eblock), y_hash b <> genesis c -> Merkle.merkle_root H2 (map x_id (y_txs b)) = Ok (h_merkle (b_header (y_blk b))) -> verify_block c idx b 0 = Some (FErr EGenesis).
Proof. exact bad_genesis_rejected. Qed.

Theorem C09_changed_root_rejected :
  forall (c : coin) (idx : hmap) (b : eblock) (h : N) (r : bytes), Merkle.merkle_root H2 (map x_id (y_txs b)) = Ok r -> r <> h_merkle (b_header (y_blk b)) -> verify_block c idx b h <> None.
Proof. exact changed_root_rejected. Qed.

Theorem C09_witness_not_covered :
  forall (c : coin) (idx : hmap) (b b' : eblock) (h : N), map x_id (y_txs b) = map x_id (y_txs b') -> b_header (y_blk b) = b_header (y_blk b') -> y_hash b = y_hash b' -> verify_block c idx b h = verify_block c idx b' h.
Proof. exact verify_depends_on_txids_only. Qed.

Theorem C09_witness_frame :
  forall (t : atx) (w : option (list (cs_width * list (cs_width * bytes)))), parsed_tx (with_witness t w) = parsed_tx t /\ ser_tx_stripped (with_witness t w) = ser_tx_stripped t /\ txid (parsed_tx (with_witness t w)) = txid (parsed_tx t).
Proof. exact witness_frame. Qed.

Theorem C09_verdict_depends_on_txids_header_hash_only :
  forall (c : coin) (idx : hmap) (b1 b2 : eblock) (h : N), map x_id (y_txs b1) = map x_id (y_txs b2) -> b_header (y_blk b1) = b_header (y_blk b2) -> y_hash b1 = y_hash b2 -> verify_block c idx b1 h = verify_block c idx b2 h.
Proof. exact verify_block_frame. Qed.

Theorem C09_verdict_ignores_stored_size :
  forall (c : coin) (idx : hmap) (b : eblock) (h sz : N), verify_block c idx (with_size b sz) h = verify_block c idx b h.
Proof. exact verify_ignores_stored_size. Qed.

Theorem C09_accepted_bodies_collide :
  forall (c : coin) (idx : hmap) (b b' : eblock) (h : N), b_header (y_blk b) = b_header (y_blk b') -> length (y_txs b) = length (y_txs b') -> map x_id (y_txs b) <> map x_id (y_txs b') -> verify_block c idx b h = None -> verify_block c idx b' h = None -> MerkleP.collision H2.
Proof. exact accepted_bodies_collide. Qed.

Theorem C09_accepted_body_unique_without_collision :
  forall (c : coin) (idx : hmap) (b b' : eblock) (h : N), ~ MerkleP.collision H2 -> b_header (y_blk b) = b_header (y_blk b') -> length (y_txs b) = length (y_txs b') -> verify_block c idx b h = None -> verify_block c idx b' h = None -> map x_id (y_txs b) = map x_id (y_txs b').
Proof. exact accepted_body_unique. Qed.

Theorem C09_mutated_body_accepted :
  forall (c : coin) (idx : hmap) (b b' : eblock) (h : N) (l : list bytes) (x : bytes), l <> [] -> Nat.odd (length l) = false -> map x_id (y_txs b) = l ++ [x] -> map x_id (y_txs b') = l ++ [x; x] -> b_header (y_blk b) = b_header (y_blk b') -> y_hash b = y_hash b' -> verify_block c idx b' h = verify_block c idx b h.
Proof. exact mutated_body_accepted. Qed.

Theorem C09_merkle_collision_extraction :
  forall (H2 : bytes -> bytes -> bytes) (l l' : list bytes) (r : bytes), length l = length l' -> l <> l' -> Merkle.merkle_root H2 l = Ok r -> Merkle.merkle_root H2 l' = Ok r -> MerkleP.collision H2.
Proof. exact MerkleP.merkle_root_collision. Qed.

Theorem C09_merkle_dup_tail :
  forall (H2 : bytes -> bytes -> bytes) (l : list bytes) (x : bytes), l <> [] -> Nat.odd (length l) = false -> forall f : nat, Merkle.merkle_spec H2 (S f) (l ++ [x]) = Merkle.merkle_spec H2 (S f) (l ++ [x; x]).
Proof. exact MerkleP.merkle_dup_tail_same_root. Qed.

Theorem C09_merkle_small_three :
  forall (H2 : bytes -> bytes -> bytes) (a b c : bytes), Merkle.merkle_root H2 [a; b; c] = Ok (H2 (H2 a b) (H2 c c)).
Proof. exact MerkleP.merkle_three. Qed.

Print Assumptions C09_merkle_loop_is_spec.
Print Assumptions C09_verify_iff.
Print Assumptions C09_merkle_checked_first.
Print Assumptions C09_stops_at_first_failure.
Print Assumptions C09_accepts_consistent_chain.
Print Assumptions C09_btc_genesis_hash.
Print Assumptions C09_btc_genesis_merkle.
Print Assumptions C09_bad_prev_rejected.
Print Assumptions C09_bad_genesis_rejected.
Print Assumptions C09_changed_root_rejected.
Print Assumptions C09_witness_not_covered.
Print Assumptions C09_witness_frame.
Print Assumptions C09_verdict_depends_on_txids_header_hash_only.
Print Assumptions C09_verdict_ignores_stored_size.
Print Assumptions C09_accepted_bodies_collide.
Print Assumptions C09_accepted_body_unique_without_collision.
Print Assumptions C09_mutated_body_accepted.
Print Assumptions C09_merkle_collision_extraction.
Print Assumptions C09_merkle_dup_tail.
Print Assumptions C09_merkle_small_three.
