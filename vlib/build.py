"""Build steps shared by setup and every check: repo binaries (from /repo's working tree, hooks on), Coq development,
extraction, OCaml driver, LevelDB writer. Everything lives under /verif/.cache (git-ignored)."""
import os, subprocess, sys, time, shutil, hashlib

VERIF = os.path.dirname(os.path.dirname(os.path.abspath(__file__)))
REPO = os.environ.get('VERIF_REPO', '/repo')
CACHE = os.path.join(VERIF, '.cache')
GUARD = 'rusty_blockparser_verif'
ENV = dict(os.environ, CARGO_NET_OFFLINE='true')

def sh(cmd, cwd=None, env=None, timeout=3600, check=True):
    p = subprocess.run(cmd, cwd=cwd, env=env or ENV, stdout=subprocess.PIPE, stderr=subprocess.STDOUT, timeout=timeout, shell=isinstance(cmd, str))
    out = p.stdout.decode(errors='replace')
    if check and p.returncode != 0:
        raise BuildError('command failed: %s\n%s' % (cmd, out[-4000:]))
    return p.returncode, out

class BuildError(Exception):
    pass

def repo_binary(release=False):
    """cargo build of /repo's current working tree with the hook cfg; returns the path of the binary."""
    os.makedirs(CACHE, exist_ok=True)
    # one target directory per source tree: cargo keeps the uplifted target/debug/<binary> of whichever package it built last, so two trees sharing a target directory
    # (a scratch worktree used through VERIF_REPO, then /repo again) would leave a stale binary under the shared name
    tgt = os.path.join(CACHE, 'target-hook' if REPO == '/repo' else 'target-hook-' + hashlib.sha1(REPO.encode()).hexdigest()[:8])
    env = dict(ENV, RUSTFLAGS='--cfg ' + GUARD, CARGO_TARGET_DIR=tgt)
    cmd = ['cargo', 'build', '--offline', '--quiet'] + (['--release'] if release else [])
    if os.environ.get('VERIF_COVERAGE'):      # tools/coverage.sh: source-based coverage of /repo/src under the checks (nightly toolchain has llvm-cov / llvm-profdata)
        tgt = os.path.join(CACHE, 'target-cov'); env = dict(ENV, RUSTFLAGS='--cfg ' + GUARD + ' -C instrument-coverage', CARGO_TARGET_DIR=tgt); cmd = ['cargo', '+nightly'] + cmd[1:]
    global HOOKS_OK, HOOKS_ERROR
    try:
        sh(cmd, cwd=REPO, env=env, timeout=1800)
    except BuildError as e:
        # The guarded hook code (src/verif_hooks.rs and the cfg'd accessors) no longer compiles against the tree - e.g. an internal function it calls was renamed.
        # That is not a property violation: fall back to the plain build (guard off); the in-process correspondences are skipped and reported, the black-box ones remain.
        HOOKS_OK = False; HOOKS_ERROR = str(e)[-1500:]
        tgt = tgt.replace('target-hook', 'target-plain')
        sh(cmd, cwd=REPO, env=dict(ENV, CARGO_TARGET_DIR=tgt), timeout=1800)
    return os.path.join(tgt, 'release' if release else 'debug', 'rusty-blockparser')
HOOKS_OK = True; HOOKS_ERROR = ''

def ldbw():
    src = os.path.join(VERIF, 'tools', 'ldbw')
    tgt = os.path.join(CACHE, 'target-ldbw')
    binp = os.path.join(tgt, 'release', 'ldbw')
    if not os.path.exists(binp) or os.path.getmtime(binp) < os.path.getmtime(os.path.join(src, 'src', 'main.rs')):
        sh(['cargo', 'build', '--offline', '--quiet', '--release'], cwd=src, env=dict(ENV, CARGO_TARGET_DIR=tgt), timeout=1800)
    return binp

COQ = os.path.join(VERIF, 'coq')
def coq_make(targets=None, jobs=16):
    """Full .vo build (never -vos) of the requested targets (default: everything in _CoqProject). Returns (ok, log)."""
    if not os.path.exists(os.path.join(COQ, 'Makefile.coq')) or os.path.getmtime(os.path.join(COQ, 'Makefile.coq')) < os.path.getmtime(os.path.join(COQ, '_CoqProject')):
        sh(['coq_makefile', '-f', '_CoqProject', '-o', 'Makefile.coq'], cwd=COQ)
    cmd = ['timeout', '1500', 'make', '-f', 'Makefile.coq', '-j%d' % jobs] + (targets or [])
    rc, out = sh(cmd, cwd=COQ, check=False, timeout=1600)
    return rc == 0, out

def driver():
    """Extract the model (coqc on extract/Extract.v) and compile the OCaml driver when anything is newer than the binary."""
    od = os.path.join(VERIF, 'ocaml'); wd = os.path.join(CACHE, 'ocaml'); os.makedirs(wd, exist_ok=True)
    binp = os.path.join(wd, 'driver')
    deps = [os.path.join(COQ, 'theories', f) for f in os.listdir(os.path.join(COQ, 'theories')) if f.endswith('.vo')]
    deps += [os.path.join(COQ, 'extract', 'Extract.v'), os.path.join(od, 'driver.ml')]
    if os.path.exists(binp) and all(os.path.getmtime(d) <= os.path.getmtime(binp) for d in deps):
        return binp
    sh(['timeout', '600', 'coqc', '-Q', os.path.join(COQ, 'theories'), 'RBP', '-Q', os.path.join(COQ, 'gen'), 'RBPGen', os.path.join(COQ, 'extract', 'Extract.v')], cwd=wd)
    shutil.copy(os.path.join(od, 'driver.ml'), wd)
    sh(['ocamlfind', 'ocamlopt', '-O3', '-w', '-a', 'model.mli', 'model.ml', 'driver.ml', '-o', 'driver'], cwd=wd)
    return binp

if __name__ == '__main__':
    t = time.time()
    what = sys.argv[1:] or ['all']
    if 'all' in what or 'coq' in what:
        ok, out = coq_make()
        if not ok: print(out[-6000:]); sys.exit(1)
        print('coq ok %.0fs' % (time.time() - t))
    if 'all' in what or 'driver' in what: print(driver())
    if 'all' in what or 'ldbw' in what: print(ldbw())
    if 'all' in what or 'repo' in what: print(repo_binary()); 
    if 'all' in what or 'release' in what: print(repo_binary(True))
    print('build done in %.0fs' % (time.time() - t))
