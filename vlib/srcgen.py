"""Translator for constant tables: /repo/src -> coq/gen/SrcGen.v (regenerated on every run, written only when changed).
Deliberately dumb: regular expressions over the known shapes. A table whose shape is no longer recognised is NOT guessed: SrcGen.v then aliases the
published value for that table and the table is listed as unrecognised (the tie for it is the correspondence check alone on this run); a recognised
table with a different value makes props/Tables.v fail for the tables the properties specify. Tables no property specifies (buffer sizes, file stems,
header texts, the opreturn line format) are read by the model from SrcGen, so they simply follow the source."""
import os, re, sys
from . import build

OPCODES = {'OP_DUP': 0x76, 'OP_HASH160': 0xa9, 'OP_EQUALVERIFY': 0x88, 'OP_CHECKSIG': 0xac, 'OP_EQUAL': 0x87, 'OP_RETURN': 0x6a,
           'OP_CHECKMULTISIG': 0xae, 'OP_VERIFY': 0x69, 'OP_CHECKSIGVERIFY': 0xad, 'OP_CHECKMULTISIGVERIFY': 0xaf, 'OP_DROP': 0x75,
           'OP_NOP': 0x61, 'OP_HASH256': 0xaa, 'OP_SHA256': 0xa8, 'OP_RIPEMD160': 0xa6, 'OP_SWAP': 0x7c, 'OP_OVER': 0x78, 'OP_2DUP': 0x6e,
           'OP_PUSHBYTES_0': 0x00, 'OP_PUSHNUM_NEG1': 0x4f}
OPCODES.update({'OP_PUSHNUM_%d' % i: 0x50 + i for i in range(1, 17)})
PATTERN_TAG = {'OpReturn': 0, 'Pay2MultiSig': 1, 'Pay2PublicKey': 2, 'Pay2PublicKeyHash': 3, 'Pay2ScriptHash': 4}

def _read(rel):
    with open(os.path.join(build.REPO, 'src', rel)) as f: return f.read()
def _nolinecomments(s): return re.sub(r'(?m)^\s*//.*$', '', s)
def _coqstr(s): return '[' + '; '.join(str(b) for b in s.encode()) + ']'
def _num(x):
    x = x.replace('_', '').strip()
    return int(x, 16) if x.lower().startswith('0x') else int(x)
def _product(expr):
    v = 1
    for part in expr.split('*'): v *= _num(part)
    return v

def GROUP_OF(msg):
    for key, g in (('coin', 'coins'), ('aux', 'coins'), ('BLOCK_', 'status'), ('mask', 'status'), ('status filter', 'status'), ('record field', 'status'), ('template', 'templates'), ('opcode', 'templates'),
                   ('eval_script_pattern', 'templates'), ('p2sh', 'address'), ('p2pkh', 'address'), ('p2pk', 'address'), ('get_base_reward', 'reward'), ('READER_BUFSIZE', 'reader_bufsize'),
                   ('blk name', 'blk_names'), ('csvdump cap', 'writer_caps'), ('unspent writer', 'unspent_writer'), ('balances writer', 'balances_writer'), ('csvdump stems', 'csv_stems'),
                   ('unspent header', 'unspent_header'), ('balances header', 'balances_header'), ('opreturn format', 'opreturn_format')):
        if key in msg: return g
    return 'shape'          # a shape check without a table of its own (key filter, dispatch, seek(offset - 4), rename shape)

def extract():
    fails = []; out = {}
    class _F(list):
        def append(self, msg, group=None): list.append(self, (group or GROUP_OF(msg), msg))
    fails = _F()
    # ---- types.rs: coins ----
    t = _nolinecomments(_read('blockchain/parser/types.rs'))
    t = re.sub(r'/\*.*?\*/', '', t, flags=re.S)
    names = dict(re.findall(r'"(\w+)"\s*=>\s*Ok\(CoinType::from\((\w+)\)\)', t))
    coins = []
    for cli, struct in names.items():
        m = re.search(r'impl Coin for %s \{(.*?)\n\}' % struct, t, re.S)
        if not m: fails.append('coin impl ' + struct); continue
        body = m.group(1)
        mg = re.search(r'fn magic\(&self\) -> u32 \{\s*(0x[0-9a-fA-F]+)\s*\}', body)
        vi = re.search(r'fn version_id\(&self\) -> u8 \{\s*(0x[0-9a-fA-F]+)\s*\}', body)
        ge = re.search(r'fn genesis\(&self\) -> sha256d::Hash \{\s*sha256d::Hash::from_str\(\s*"([0-9a-f]{64})"\s*,?\s*\)\s*\.unwrap\(\)\s*\}', body)
        au = re.search(r'fn aux_pow_activation_version\(&self\) -> Option<u32> \{\s*Some\((0x[0-9a-fA-F]+|\d+)\)\s*\}', body)
        if 'aux_pow_activation_version' in body and not au: fails.append('aux shape ' + struct)
        if not (mg and vi and ge): fails.append('coin fields ' + struct); continue
        coins.append((cli, _num(mg.group(1)), _num(vi.group(1)), ge.group(1), _num(au.group(1)) if au else None))
    if len(coins) != 8: fails.append('expected 8 coins, found %d' % len(coins))
    if not re.search(r'fn aux_pow_activation_version\(&self\) -> Option<u32> \{\s*None\s*\}', t): fails.append('default aux')
    out['coins'] = sorted(coins)
    # ---- index.rs ----
    ix = _nolinecomments(_read('blockchain/parser/index.rs'))
    consts = {k: _num(v) for k, v in re.findall(r'const (BLOCK_\w+): u64 = (\d+);', ix)}
    for k in ('BLOCK_VALID_CHAIN', 'BLOCK_HAVE_DATA', 'BLOCK_HAVE_UNDO'):
        if k not in consts: fails.append(k)
    m = re.search(r'if record\.status & \(([\w| ]+)\) > 0 \{\s*block_index\.insert\(record\.height, record\);', ix)
    if m: out['status_mask'] = sum(consts.get(x.strip(), 0) for x in m.group(1).split('|')) if all(x.strip() in consts for x in m.group(1).split('|')) else fails.append('mask names')
    else: fails.append('status filter shape')
    m1 = re.search(r'let blk_index = if status & \(([\w| ]+)\) > 0 \{\s*read_varint\(&mut reader\)\?\s*\} else \{\s*0\s*\};', ix)
    m2 = re.search(r'let data_offset = if status & (\w+) > 0 \{\s*read_varint\(&mut reader\)\?\s*\} else \{\s*0\s*\};', ix)
    if m1 and m2 and all(x.strip() in consts for x in m1.group(1).split('|')) and m2.group(1) in consts:
        out['file_mask'] = sum(consts[x.strip()] for x in m1.group(1).split('|')); out['pos_mask'] = consts[m2.group(1)]
    else: fails.append('record field conditions')
    if not re.search(r"\*data\.first\(\)\.unwrap\(\) == b'b'", ix): fails.append("'b' key filter")
    out['consts'] = consts
    # ---- custom.rs templates ----
    cu = _nolinecomments(_read('blockchain/proto/script/custom.rs'))
    m = re.search(r'fn eval_script_pattern\(elements: &\[StackElement\]\) -> ScriptPattern \{(.*?)\n    \}\n', cu, re.S)
    templates = []
    if not m: fails.append('eval_script_pattern')
    else:
        body = re.sub(r'/\*.*?\*/', '', m.group(1), flags=re.S)
        for var, arr, ret in re.findall(r'let (\w+) = \[(.*?)\];\s*if ScriptEvaluator::match_stack_pattern\(elements, &\1\) \{\s*return (.*?);\s*\}', body, re.S):
            slots = []
            for el in re.findall(r'StackElement::(Op\(all::(\w+)\)|Data\(Vec::new\(\)\))', arr):
                if el[0].startswith('Data'): slots.append(None)
                elif el[1] in OPCODES: slots.append(OPCODES[el[1]])
                else: fails.append('opcode ' + el[1]); slots.append(0)
            if len(slots) != arr.count('StackElement::'): fails.append('template elements ' + var)
            mret = re.match(r'ScriptPattern::(\w+)$', ret.strip())
            if mret: tag = mret.group(1)
            elif 'ScriptPattern::OpReturn(String::from_utf8_lossy(&data).into_owned())' in ret and 'elements[1].data()' in ret: tag = 'OpReturn'
            else: fails.append('template return ' + var); tag = None
            if tag not in PATTERN_TAG: fails.append('template tag %s' % tag)
            else: templates.append((PATTERN_TAG[tag], slots))
        if not body.rstrip().endswith('ScriptPattern::NotRecognised'): fails.append('template fallthrough')
    out['templates'] = templates
    m = re.search(r'ScriptPattern::Pay2ScriptHash => \{\s*let h160 = stack\.elements\[(\d+)\]\.data\(\)\?;\s*EvaluatedScript \{\s*address: Some\(hash_160_to_address\(&h160, (\d+)\)\)', cu)
    if m: out['p2sh_version'] = int(m.group(2)); out['p2sh_slot'] = int(m.group(1))
    else: fails.append('p2sh version')
    m = re.search(r'ScriptPattern::Pay2PublicKeyHash => \{\s*let h160 = stack\.elements\[(\d+)\]\.data\(\)\?;\s*EvaluatedScript \{\s*address: Some\(hash_160_to_address\(&h160, version_id\)\)', cu)
    if m: out['p2pkh_slot'] = int(m.group(1))
    else: fails.append('p2pkh address')
    m = re.search(r'ScriptPattern::Pay2PublicKey => \{\s*let pub_key = stack\.elements\[(\d+)\]\.data\(\)\?;\s*EvaluatedScript \{\s*address: Some\(public_key_to_addr\(&pub_key, version_id\)\)', cu)
    if m: out['p2pk_slot'] = int(m.group(1))
    else: fails.append('p2pk address')
    # ---- script/mod.rs dispatch ----
    sm = _nolinecomments(_read('blockchain/proto/script/mod.rs'))
    m = re.search(r'match version_id \{\s*0x00 \| 0x6f => eval_from_bytes_bitcoin\(bytes, version_id\),\s*_ => eval_from_bytes_custom\(bytes, version_id\),', sm)
    if not m: fails.append('eval_from_bytes dispatch')
    m = re.search(r'0x00 => Network::Bitcoin,\s*0x6f => Network::Testnet,', sm)
    if not m: fails.append('network selection')
    # ---- block.rs reward ----
    bl = _nolinecomments(_read('blockchain/proto/block.rs'))
    m = re.search(r'let halvings = block_height / (\d+);\s*if halvings >= (\d+) \{\s*return 0;\s*\}\s*\(([\d *]+)\) >> halvings', bl)
    if m: out['halving_interval'] = int(m.group(1)); out['halving_cap'] = int(m.group(2)); out['reward'] = _product(m.group(3))
    else: fails.append('get_base_reward shape')
    # ---- blkfile.rs ----
    bf = _nolinecomments(_read('blockchain/parser/blkfile.rs'))
    m = re.search(r'const READER_BUFSIZE: usize = ([\d *]+);', bf)
    if m: out['reader_bufsize'] = _product(m.group(1))
    else: fails.append('READER_BUFSIZE')
    m = re.search(r'BlkFile::parse_blk_index\(file_name, "(\w+)", "([.\w]+)"\)', bf)
    if m: out['blk_prefix'] = m.group(1); out['blk_ext'] = m.group(2)
    else: fails.append('blk name literals')
    if not re.search(r'reader\.seek\(SeekFrom::Start\(offset - 4\)\)\?;', bf): fails.append('seek(offset - 4)')
    # ---- callbacks ----
    cd = _nolinecomments(_read('callbacks/csvdump.rs'))
    m = re.search(r'let cap = (\d+);', cd);
    if m: out['csv_cap'] = int(m.group(1))
    else: fails.append('csvdump cap')
    stems = re.findall(r'dump_folder\.join\("(\w+)\.csv\.tmp"\)', cd)
    m = re.search(r'for f in \[([^\]]+)\]', cd)
    loop = re.findall(r'"(\w+)"', m.group(1)) if m else []
    if stems != loop or len(stems) != 4: fails.append('csvdump stems %s vs %s' % (stems, loop))
    out['csv_stems'] = stems
    if not re.search(r'format!\("\{\}\.csv\.tmp", f\)\),\s*self\.dump_folder\s*\.as_path\(\)\s*\.join\(format!\("\{\}-\{\}-\{\}\.csv", f, self\.start_height, block_height\)\)', cd): fails.append('csvdump rename shape')
    un = _nolinecomments(_read('callbacks/unspentcsvdump.rs'))
    m = re.search(r'create_writer\((\d+), dump_folder\.join\("(\w+)\.csv\.tmp"\)\)', un)
    if m: out['unspent_cap'] = int(m.group(1)); out['unspent_stem'] = m.group(2)
    else: fails.append('unspent writer')
    m = re.search(r'"\{\};\{\};\{\};\{\};\{\}\\n",\s*"(\w+)", "(\w+)", "(\w+)", "(\w+)", "(\w+)"', un)
    if m: out['unspent_header'] = ';'.join(m.groups())
    else: fails.append('unspent header')
    ba = _nolinecomments(_read('callbacks/balances.rs'))
    m = re.search(r'create_writer\((\d+), dump_folder\.join\("(\w+)\.csv\.tmp"\)\)', ba)
    if m: out['balances_cap'] = int(m.group(1)); out['balances_stem'] = m.group(2)
    else: fails.append('balances writer')
    m = re.search(r'format!\("\{\};\{\}\\n", "(\w+)", "(\w+)"\)', ba)
    if m: out['balances_header'] = ';'.join(m.groups())
    else: fails.append('balances header')
    op = _nolinecomments(_read('callbacks/opreturn.rs'))
    m = re.search(r'println!\(\s*"([^"]+)",\s*block_height, &tx\.hash, data\s*\);', op)
    if m: out['opreturn_format'] = m.group(1)
    else: fails.append('opreturn format')
    out['fails'] = fails
    return out

def render(t):
    bad = {g for g, _ in t['fails']}
    L = []
    a = L.append
    a('(* GENERATED by vlib/srcgen.py from /repo/src on every run. Do not edit. *)')
    a('From Coq Require Import List NArith Bool.\nFrom RBP Require Published.\nImport ListNotations.\nOpen Scope N_scope.')
    for g, f in t['fails']: a('(* unrecognised [%s]: %s *)' % (g, f.replace('*)', '* )')))
    def table(group, text, names):
        """the literal read from the source when the group was recognised, otherwise an alias of the published value (listed as unrecognised)"""
        if group in bad or text is None: a('\n'.join('Definition %s := Published.%s.' % (n, n) for n in names))
        else: a(text)
    def hexbytes(h): return '[' + '; '.join(str(b) for b in bytes.fromhex(h)[::-1]) + ']'
    a('(* coins: name, magic, version_id, genesis hash (internal byte order), AuxPoW activation version *)')
    table('coins', 'Definition coins : list (list N * (N * N * list N * option N)) := [\n' +
          ';\n'.join('  (%s, (%d, %d, %s, %s))' % (_coqstr(n), mg, v, hexbytes(g), 'Some %d' % au if au is not None else 'None') for n, mg, v, g, au in t.get('coins', [])) + '\n].', ['coins'])
    c = t.get('consts', {})
    ok_status = all(k in c for k in ('BLOCK_VALID_CHAIN', 'BLOCK_HAVE_DATA', 'BLOCK_HAVE_UNDO')) and all(isinstance(t.get(k), int) for k in ('status_mask', 'file_mask', 'pos_mask'))
    table('status', ('Definition BLOCK_VALID_CHAIN : N := %d.\nDefinition BLOCK_HAVE_DATA : N := %d.\nDefinition BLOCK_HAVE_UNDO : N := %d.\nDefinition status_mask : N := %d.\nDefinition file_mask : N := %d.\nDefinition pos_mask : N := %d.'
                     % (c['BLOCK_VALID_CHAIN'], c['BLOCK_HAVE_DATA'], c['BLOCK_HAVE_UNDO'], t['status_mask'], t['file_mask'], t['pos_mask'])) if ok_status else None,
          ['BLOCK_VALID_CHAIN', 'BLOCK_HAVE_DATA', 'BLOCK_HAVE_UNDO', 'status_mask', 'file_mask', 'pos_mask'])
    a('(* fork-coin templates in cascade order: pattern tag, slots (None = data) *)')
    table('templates', 'Definition templates : list (N * list (option N)) := [\n' +
          ';\n'.join('  (%d, [%s])' % (tag, '; '.join('None' if s is None else 'Some %d' % s for s in slots)) for tag, slots in t.get('templates', [])) + '\n].', ['templates'])
    ok_addr = all(k in t for k in ('p2sh_version', 'p2pkh_slot', 'p2pk_slot', 'p2sh_slot'))
    table('address', ('Definition p2sh_version : N := %d.\nDefinition addr_slots : N * N * N := (%d, %d, %d).' % (t['p2sh_version'], t['p2pkh_slot'], t['p2pk_slot'], t['p2sh_slot'])) if ok_addr else None, ['p2sh_version', 'addr_slots'])
    ok_rew = all(k in t for k in ('reward', 'halving_interval', 'halving_cap'))
    table('reward', ('Definition reward : N := %d.\nDefinition halving_interval : N := %d.\nDefinition halving_cap : N := %d.' % (t['reward'], t['halving_interval'], t['halving_cap'])) if ok_rew else None, ['reward', 'halving_interval', 'halving_cap'])
    table('blk_names', ('Definition blk_prefix : list N := %s.\nDefinition blk_ext : list N := %s.' % (_coqstr(t['blk_prefix']), _coqstr(t['blk_ext']))) if 'blk_prefix' in t else None, ['blk_prefix', 'blk_ext'])
    a('(* ---- not specified by any property: the model follows the source ---- *)')
    table('reader_bufsize', ('Definition reader_bufsize : N := %d.' % t['reader_bufsize']) if 'reader_bufsize' in t else None, ['reader_bufsize'])
    ok_caps = all(k in t for k in ('csv_cap', 'unspent_cap', 'balances_cap')) and not ({'unspent_writer', 'balances_writer'} & bad)
    table('writer_caps', ('Definition writer_caps : N * N * N := (%d, %d, %d).' % (t['csv_cap'], t['unspent_cap'], t['balances_cap'])) if ok_caps else None, ['writer_caps'])
    table('csv_stems', ('Definition csv_stems : list (list N) := [%s].' % '; '.join(_coqstr(s) for s in t.get('csv_stems', []))) if len(t.get('csv_stems', [])) == 4 else None, ['csv_stems'])
    table('unspent_writer', ('Definition unspent_stem : list N := %s.' % _coqstr(t['unspent_stem'])) if 'unspent_stem' in t else None, ['unspent_stem'])
    table('balances_writer', ('Definition balances_stem : list N := %s.' % _coqstr(t['balances_stem'])) if 'balances_stem' in t else None, ['balances_stem'])
    table('unspent_header', ('Definition unspent_header : list N := %s.' % _coqstr(t['unspent_header'])) if 'unspent_header' in t else None, ['unspent_header'])
    table('balances_header', ('Definition balances_header : list N := %s.' % _coqstr(t['balances_header'])) if 'balances_header' in t else None, ['balances_header'])
    table('opreturn_format', ('Definition opreturn_format : list N := %s.' % _coqstr(t['opreturn_format'])) if 'opreturn_format' in t else None, ['opreturn_format'])
    return '\n'.join(L) + '\n'

def regenerate():
    """returns (recognised everything?, detail); writes coq/gen/SrcGen.v when changed"""
    try:
        t = extract()
    except Exception as e:
        t = dict(fails=[(g, 'exception: %r' % e) for g in ('coins', 'status', 'templates', 'address', 'reward', 'blk_names', 'reader_bufsize', 'writer_caps', 'csv_stems', 'unspent_writer',
                                                            'balances_writer', 'unspent_header', 'balances_header', 'opreturn_format')])
    txt = render(t)
    d = os.path.join(build.COQ, 'gen'); os.makedirs(d, exist_ok=True)
    p = os.path.join(d, 'SrcGen.v')
    if not os.path.exists(p) or open(p).read() != txt:
        with open(p, 'w') as f: f.write(txt)
    return (not t['fails']), '; '.join('%s: %s' % gf for gf in t['fails'])

if __name__ == '__main__':
    ok, detail = regenerate()
    print('srcgen', 'ok: every shape recognised' if ok else 'shapes not recognised (published values aliased): ' + detail)
