"""Builders for synthetic blockchains, blk file layouts, LevelDB block-index records and whole test cases.
A Case is handed both to the real binary (materialised as a data directory) and to the extracted Coq model (as text)."""
import hashlib, struct, os, subprocess, shutil

def sha256(b): return hashlib.sha256(b).digest()
def dsha(b): return sha256(sha256(b))
def hash160(b):
    return hashlib.new('ripemd160', sha256(b)).digest()

def cs(n, width=None):
    """CompactSize; width in {1,3,5,9} forces a (possibly non-canonical) encoding."""
    if width is None:
        width = 1 if n < 0xfd else 3 if n <= 0xffff else 5 if n <= 0xffffffff else 9
    if width == 1:
        assert n < 0xfd; return bytes([n])
    if width == 3: return b'\xfd' + struct.pack('<H', n)
    if width == 5: return b'\xfe' + struct.pack('<I', n)
    return b'\xff' + struct.pack('<Q', n)

def core_varint(n):
    """Bitcoin Core WriteVarInt (MSB base-128 with the -1 carry)."""
    out = []; first = True
    while True:
        out.append((n & 0x7f) | (0 if first else 0x80)); first = False
        if n <= 0x7f: break
        n = (n >> 7) - 1
    return bytes(reversed(out))

class Tx:
    """inputs: [(txid32, index, script, seq)]; outputs: [(value, script)]; witness: None or list (per input) of list of items.
    widths: optional dict with forced CompactSize widths: 'in', 'out', ('isl', i), ('osl', i), ('wc', i), ('wl', i, j)"""
    def __init__(self, inputs, outputs, version=1, locktime=0, witness=None, widths=None):
        self.inputs, self.outputs, self.version, self.locktime, self.witness = inputs, outputs, version, locktime, witness
        self.widths = widths or {}
        w = self.widths.get
        body_in = cs(len(inputs), w('in')) + b''.join(t + struct.pack('<I', i) + cs(len(s), w(('isl', k))) + s + struct.pack('<I', q)
                                                       for k, (t, i, s, q) in enumerate(inputs))
        body_out = cs(len(outputs), w('out')) + b''.join(struct.pack('<Q', v) + cs(len(s), w(('osl', k))) + s for k, (v, s) in enumerate(outputs))
        self.stripped = struct.pack('<I', version) + body_in + body_out + struct.pack('<I', locktime)
        if witness is None:
            self.disk = self.stripped
        else:
            wit = b''.join(cs(len(st), w(('wc', i))) + b''.join(cs(len(it), w(('wl', i, j))) + it for j, it in enumerate(st)) for i, st in enumerate(witness))
            self.disk = struct.pack('<I', version) + b'\x00\x01' + body_in + body_out + wit + struct.pack('<I', locktime)
        self.txid = dsha(self.stripped)

def coinbase_tx(height, outputs, extra=b'', **kw):
    return Tx([(b'\x00' * 32, 0xffffffff, struct.pack('<I', height) + extra, 0xffffffff)], outputs, **kw)

def merkle(hs):
    hs = list(hs)
    while len(hs) > 1:
        if len(hs) % 2: hs.append(hs[-1])
        hs = [dsha(hs[i] + hs[i + 1]) for i in range(0, len(hs), 2)]
    return hs[0]

def header(version, prev, mroot, time, bits, nonce):
    return struct.pack('<I', version) + prev + mroot + struct.pack('<III', time, bits, nonce)

class Block:
    def __init__(self, prev, txs, version=1, time=1231006505, bits=0x1d00ffff, nonce=0, auxpow=b'', mroot=None, count_width=None):
        self.txs = txs; self.prev = prev; self.version = version; self.time = time; self.bits = bits; self.nonce = nonce
        self.mroot = mroot if mroot is not None else (merkle([t.txid for t in txs]) if txs else b'\x00' * 32)
        self.header = header(version, prev, self.mroot, time, bits, nonce)
        self.auxpow = auxpow; self.count_bytes = cs(len(txs), count_width)
        self.raw = self.header + auxpow + self.count_bytes + b''.join(t.disk for t in txs)
        self.hash = dsha(self.header)

def auxpow_section(parent_coinbase, b1_hashes, b2_hashes, parent_header=None, block_hash=None, masks=(0, 0), widths=(None, None)):
    return (parent_coinbase.disk + (block_hash or b'\x11' * 32)
            + cs(len(b1_hashes), widths[0]) + b''.join(b1_hashes) + struct.pack('<I', masks[0])
            + cs(len(b2_hashes), widths[1]) + b''.join(b2_hashes) + struct.pack('<I', masks[1])
            + (parent_header or b'\x22' * 80))

def index_value(version, height, status, ntx, nfile, datapos, undopos, hdr):
    v = core_varint(version) + core_varint(height) + core_varint(status) + core_varint(ntx)
    if status & (8 | 16): v += core_varint(nfile)
    if status & 8: v += core_varint(datapos)
    if status & 16: v += core_varint(undopos)
    return v + hdr

# ---- coins (cross-checked against types.rs by tools/srcgen.py) ----
COINS = {
    'bitcoin':        dict(ver=0x00, aux=None,     magic=0xd9b4bef9, genesis='000000000019d6689c085ae165831e934ff763ae46a2a6c172b3f1b60a8ce26f'),
    'testnet3':       dict(ver=0x6f, aux=None,     magic=0x0709110b, genesis='000000000933ea01ad0ee984209779baaec3ced90fa3f408719526f8d77f4943'),
    'namecoin':       dict(ver=0x34, aux=0x10101,  magic=0xfeb4bef9, genesis='000000000062b72c5e2ceb45fbc8587e807c155b0da735e6483dfba2f0a9c770'),
    'litecoin':       dict(ver=0x30, aux=None,     magic=0xdbb6c0fb, genesis='12a765e31ffd4059bada1e25190f6e98c99d9714d334efa41a195a7e7e04bfe2'),
    'dogecoin':       dict(ver=0x1e, aux=0x620102, magic=0xc0c0c0c0, genesis='1a91e3dace36e2be3bf030a65679fe821aa1d6ef92e7c9902eb318182c355691'),
    'myriadcoin':     dict(ver=0x32, aux=None,     magic=0xee7645af, genesis='00000ffde4c020b5938441a0ea3d314bf619eff0b38f32f78f7583cffa1ea485'),
    'unobtanium':     dict(ver=0x82, aux=None,     magic=0x03b5d503, genesis='000004c2fc5fffb810dccc197d603690099a68305232e552d96ccbe8e2c52b75'),
    'noteblockchain': dict(ver=0x35, aux=None,     magic=0xe3ede5f4, genesis='270f3e7b185c412d57ba913d10658df54f15201a67d736cb4071a4ec4eb54836'),
}

P2PKH = lambda h: b'\x76\xa9\x14' + h + b'\x88\xac'
P2SH = lambda h: b'\xa9\x14' + h + b'\x87'
def push(d):
    n = len(d)
    if n <= 75: return bytes([n]) + d
    if n <= 255: return b'\x4c' + bytes([n]) + d
    if n <= 65535: return b'\x4d' + struct.pack('<H', n) + d
    return b'\x4e' + struct.pack('<I', n) + d

STATUS_ACTIVE = 0x1d   # VALID_SCRIPTS(5) | HAVE_DATA(8) | HAVE_UNDO(16)

class Case:
    """coin, blk files (nfile -> list of (offset, bytes) extents, plaintext), index records, options.
    `name_of`: optional nfile -> file name (default blk%05d.dat); `extra_files`: name -> bytes written verbatim."""
    def __init__(self, cid, coin='bitcoin'):
        self.id = str(cid); self.coin = coin
        self.files = {}; self.records = []; self.xor = None
        self.start = 0; self.end = None; self.verify = False
        self.name_of = {}; self.extra_files = {}; self.in_domain = True
        self.meta = {}
    # -- building --
    def put_block(self, nfile, blk_raw, pad=b'', magic=None, at=None, size=None):
        """appends (or places at absolute offset `at`) pad + magic + size + block; returns the data offset recorded in the index"""
        magic = struct.pack('<I', COINS[self.coin]['magic']) if magic is None else magic
        exts = self.files.setdefault(nfile, [])
        if size is not None:      # a stored length prefix that is not the length of the block that follows
            rec = pad + magic + struct.pack('<I', size) + blk_raw
            if at is None:
                if exts: o, d = exts[-1]; exts[-1] = (o, d + rec); return o + len(d) + len(pad) + 8
                exts.append((0, rec)); return len(pad) + 8
            exts.append((at, rec)); return at + len(pad) + 8
        if at is None:
            if exts: o, d = exts[-1]; exts[-1] = (o, d + pad + magic + struct.pack('<I', len(blk_raw)) + blk_raw); return o + len(d) + len(pad) + 8
            exts.append((0, pad + magic + struct.pack('<I', len(blk_raw)) + blk_raw)); return len(pad) + 8
        exts.append((at, pad + magic + struct.pack('<I', len(blk_raw)) + blk_raw)); return at + len(pad) + 8
    def add_record(self, blk, height, nfile, off, status=STATUS_ACTIVE, ntx=None, version=1, undopos=0):
        self.records.append((b'b' + blk.hash, index_value(version, height, status, len(blk.txs) if ntx is None else ntx, nfile, off, undopos, blk.header)))
    def add_raw(self, k, v): self.records.append((k, v))
    def simple_layout(self, blocks, nfile=0, start_height=0):
        for h, b in enumerate(blocks):
            off = self.put_block(nfile, b.raw); self.add_record(b, start_height + h, nfile, off)
        return self
    # -- model text --
    def model_text(self, want):
        c = COINS[self.coin]
        out = ['case ' + self.id,
               'coin ' + self.coin,
               'opts %d %s %d' % (self.start, self.end if self.end is not None else '-', 1 if self.verify else 0),
               'want ' + ' '.join(want),
               'xor ' + ('-' if self.xor is None else ('empty' if self.xor == b'' else self.xor.hex()))]
        for n, exts in self.files.items():
            for o, d in exts:
                if self.xor:      # the model receives the bytes as they are on disk
                    k = self.xor; kl = len(k); d = bytes(b ^ k[(o + i) % kl] for i, b in enumerate(d))
                out.append('file %d %d %s' % (n, o, d.hex() if d else '-'))
        for k, v in self.records: out.append('rec %s %s' % (k.hex(), v.hex()) if v else 'rec %s' % k.hex())
        out.append('end')
        return '\n'.join(out) + '\n'
    # -- data directory --
    def materialise(self, path, ldbw_bin):
        shutil.rmtree(path, ignore_errors=True); os.makedirs(path)      # (a nested case is materialised after the blk files of the outer one, see below)
        for n, exts in self.files.items():
            name = self.name_of.get(n, 'blk%05d.dat' % n)
            with open(os.path.join(path, name), 'wb') as f:
                for o, d in exts:
                    if self.xor:
                        k = self.xor; kl = len(k)
                        d = bytes(b ^ k[(o + i) % kl] for i, b in enumerate(d))
                    f.seek(o); f.write(d)
        if self.xor is not None:
            kind = getattr(self, 'xor_link', None)
            if kind is None:
                with open(os.path.join(path, 'xor.dat'), 'wb') as f: f.write(self.xor)
            else:
                # the key file lives elsewhere under another name; xor.dat is an absolute or a relative symbolic link to it
                os.makedirs(os.path.join(path, 'keys'), exist_ok=True)
                with open(os.path.join(path, 'keys', 'mainnet-blocks.key'), 'wb') as f: f.write(self.xor)
                os.symlink(os.path.join(path, 'keys', 'mainnet-blocks.key') if kind == 'abs' else os.path.join('keys', 'mainnet-blocks.key'), os.path.join(path, 'xor.dat'))
        if getattr(self, 'nested', None) is not None:
            # a leftover sub-directory `blocks` holding a complete older data directory of its own (index and blk files): it is not named by any record of THIS index
            self.nested.materialise(os.path.join(path, 'blocks'), ldbw_bin)
        for name, data in self.extra_files.items():
            p = os.path.join(path, name); os.makedirs(os.path.dirname(p), exist_ok=True)
            with open(p, 'wb') as f: f.write(data)
        for name, target in getattr(self, 'symlinks', {}).items():
            # directory entries that are symbolic links: dangling ones (named by no record) must be ignored; a blk file reached through a link must be read through it
            os.symlink(target, os.path.join(path, name))
        for n in getattr(self, 'linked_files', ()):       # the blk file itself lives in a sub-directory, the data directory holds a symlink to it
            name = self.name_of.get(n, 'blk%05d.dat' % n); os.makedirs(os.path.join(path, 'elsewhere'), exist_ok=True)
            os.rename(os.path.join(path, name), os.path.join(path, 'elsewhere', name)); os.symlink(os.path.join(path, 'elsewhere', name), os.path.join(path, name))
        p = subprocess.run([ldbw_bin, os.path.join(path, 'index')], input='\n'.join(k.hex() + ' ' + v.hex() for k, v in self.records).encode(), capture_output=True)
        if p.returncode != 0: raise RuntimeError('ldbw failed: ' + p.stderr.decode()[:500])
    def args(self):
        a = ['-c', getattr(self, 'coin_spelling', None) or self.coin]
        if self.verify: a.append('--verify')
        if self.start: a += ['-s', str(self.start)]
        if self.end is not None: a += ['-e', str(self.end)]
        return a
    def describe(self):
        d = dict(id=self.id, coin=self.coin, start=self.start, end=self.end, verify=self.verify, xor=(self.xor.hex() if self.xor is not None else None),
                 files={str(n): [(o, len(d)) for o, d in e] for n, e in self.files.items()}, records=len(self.records), in_domain=self.in_domain)
        d.update(self.meta); return d
    def dump(self, path):
        """replay file: the model text is a complete description of the case"""
        with open(path, 'w') as f:
            f.write('# replay case; coin-name %s\n' % self.coin)
            for n, name in self.name_of.items(): f.write('# name %d %s\n' % (n, name))
            if getattr(self, 'path_component', None) is not None: f.write('# path %s\n' % (self.path_component or '.'))      # directory names the data directory is placed under
            f.write(self.model_text([]))

def load_case(path):
    c = None; names = {}; pathc = None
    for line in open(path):
        t = line.split()
        if not t: continue
        if t[0] == '#':
            if len(t) > 2 and t[1] == 'replay' : coin = t[-1]
            if len(t) > 3 and t[1] == 'name': names[int(t[2])] = t[3]
            if len(t) > 2 and t[1] == 'path': pathc = '' if t[2] == '.' else t[2]
            continue
        if t[0] == 'case':
            c = Case(t[1], coin); c.name_of = names
            if pathc is not None: c.path_component = pathc
        elif t[0] == 'opts': c.start = int(t[1]); c.end = None if t[2] == '-' else int(t[2]); c.verify = t[3] == '1'
        elif t[0] == 'xor': c.xor = None if t[1] == '-' else (b'' if t[1] == 'empty' else bytes.fromhex(t[1]))
        elif t[0] == 'file':
            o = int(t[2]); d = b'' if t[3] == '-' else bytes.fromhex(t[3])
            if c.xor: k = c.xor; d = bytes(b ^ k[(o + i) % len(k)] for i, b in enumerate(d))      # replay files hold disk bytes
            c.files.setdefault(int(t[1]), []).append((o, d))
        elif t[0] == 'rec': c.records.append((bytes.fromhex(t[1]), bytes.fromhex(t[2]) if len(t) > 2 else b''))
    return c
