"""Check driver shared by all properties: builds, proof obligations, exploration bookkeeping, verdict, evidence."""
import os, sys, json, re, time, random, subprocess, traceback, shutil
from . import build, run
from .chain import Case, load_case

VERIF = build.VERIF
COQ = build.COQ
ALLOWED_AXIOMS = set()      # every property theorem is expected to be closed under the global context

TRUSTED_BASE = [
    'Coq 8.16.1 kernel incl. vm_compute (no native_compute); theorems closed under the global context (Print Assumptions checked on every run)',
    'hand-written Gallina mirror of the Rust code; faithfulness is what the correspondence check tests (extracted model vs binary built from /repo working tree)',
    'extraction: ExtrOcamlBasic only (Extract Inductive for bool, option, list, prod, unit, sumbool, sumor); no Extract Constant; ocamlfind ocamlopt 4.13.1',
    'ocaml/driver.ml (hex/decimal conversion and printing), python3 harness (vlib), tools/ldbw + rusty-leveldb 3.0.2 (writes the index the parser reads)',
    'vlib/srcgen.py: regular expressions read the literals the compiler reads (constant tables regenerated from /repo/src on every run; an unrecognised shape is reported, the published value aliased, never guessed)',
    'modelled, not verified: rusty-leveldb internals (model receives the key/value set and sorts it bytewise), std/seek_bufread below the mirrored logic, kernel (rename, close, EFBIG), rayon, rust-bitcoin beyond the mirrored predicates, clap, logging',
]

class Checker:
    def __init__(self, prop, tier, seed, level='proof'):
        self.prop = prop; self.tier = tier; self.seed = seed; self.level = level
        self.rng = random.Random(seed * 1000003 + sum(map(ord, prop)))
        self.t0 = time.time()
        self.obligations = []      # (name, ok, detail)
        self.evaluations = 0; self.nontrivial_keys = set(); self.samples = []; self.distribution = {}
        self.violations = []       # dicts: kind, case/replay, detail, in_domain
        self.known = []            # (finding id, text)
        self.checker_cmds = []
        self.rule = ''; self.explanation = ''; self.exhaustive = None
        self.extra = {}
        self.tools = None
        self.replay_dir = os.path.join(VERIF, 'replays'); os.makedirs(self.replay_dir, exist_ok=True)
        self.findings = json.load(open(os.path.join(VERIF, 'known_findings.json')))['findings'] if os.path.exists(os.path.join(VERIF, 'known_findings.json')) else []

    # ---------- builds and proof obligations ----------
    def prepare(self, release=False):
        from . import srcgen
        ok, detail = srcgen.regenerate()
        # A source shape the translator no longer recognises is not a broken obligation: nothing is guessed, SrcGen.v aliases the published value for that table, and the
        # tie for it on this run is the correspondence check alone (reported here and in the evidence). A recognised table with a different value makes props/Tables.v fail.
        self.extra['translator'] = 'every source shape recognised' if ok else 'shapes not recognised on this run (published values aliased; these tables are tied by the correspondence only): ' + detail
        if not ok: print('NOTE: translator: ' + self.extra['translator'][:600])
        self.obligation('srcgen: coq/gen/SrcGen.v regenerated from /repo/src', True, detail)
        okc, log = build.coq_make()
        self.checker_cmds.append('cd /verif/coq && make -f Makefile.coq -j16   (coq_makefile from _CoqProject; full .vo build)')
        self.coq_ok = okc; self.coq_log = log
        if not okc:
            # build what can be built so that the model still runs: theories only
            m = re.findall(r'File "\./([^"]+)", line (\d+)', log)
            self.obligation('coq development builds', False, 'first error: %s\n%s' % (m[:1], log[-1500:]))
        self.tools = run.Tools(release=release)

    def obligation(self, name, ok, detail=''):
        self.obligations.append((name, bool(ok), detail))

    def check_props_file(self, theorem_names):
        """Recompile props/<prop>.v, make sure every property theorem is there, Qed-closed and closed under the global context."""
        f = os.path.join(COQ, 'props', self.prop + '.v')
        src = open(f).read()
        cmd = ['timeout', '900', 'coqc', '-Q', 'theories', 'RBP', '-Q', 'gen', 'RBPGen', '-Q', 'props', 'RBPProps', 'props/%s.v' % self.prop]
        self.checker_cmds.append('cd /verif/coq && ' + ' '.join(cmd[2:]))
        p = subprocess.run(cmd, cwd=COQ, capture_output=True)
        out = p.stdout.decode(errors='replace') + p.stderr.decode(errors='replace')
        compiled = p.returncode == 0
        # split the output per Print Assumptions: coqc prints results in order
        results = re.findall(r'(Closed under the global context|Axioms:(?:\n(?!Closed under|Axioms:).*)*)', out)
        printed = re.findall(r'Print Assumptions (\w+)\.', src)
        for i, name in enumerate(theorem_names):
            in_src = re.search(r'\b(Theorem|Corollary|Lemma)\s+%s\b' % re.escape(name), src) is not None
            pa = name in printed
            res = results[printed.index(name)] if compiled and pa and printed.index(name) < len(results) else None
            closed = res == 'Closed under the global context'
            if res and not closed:
                axioms = set(re.findall(r'^\s*([\w.]+)\s*:', res, re.M))
                closed = axioms <= ALLOWED_AXIOMS
            self.obligation('theorem %s: stated in props/%s.v, Qed reached, Print Assumptions within the allow-list' % (name, self.prop),
                            compiled and in_src and pa and closed, '' if compiled else out[-1500:])
        self.obligation('props/%s.v contains nothing but the pinned theorems (no Admitted/admit/Axiom)' % self.prop,
                        not re.search(r'\b(Admitted|admit|Axiom|Parameter|Conjecture|Hypothesis|Variable)\b', strip_comments(src)))
        return compiled

    def coqchk(self):
        """thorough tier: independent re-check of the property object and everything it depends on; axioms must be none"""
        cmd = ['timeout', '1500', 'coqchk', '-silent', '-o', '-Q', 'theories', 'RBP', '-Q', 'gen', 'RBPGen', '-Q', 'props', 'RBPProps', 'RBPProps.' + self.prop]
        self.checker_cmds.append('cd /verif/coq && ' + ' '.join(cmd[2:]))
        p = subprocess.run(cmd, cwd=COQ, capture_output=True)
        out = p.stdout.decode(errors='replace') + p.stderr.decode(errors='replace')
        ok = p.returncode == 0 and re.search(r'Axioms:\s*<none>', out) is not None
        self.extra['coqchk'] = ' '.join(out.split())[-400:]
        self.obligation('coqchk -o RBPProps.%s: re-checked by the independent checker, axioms <none>' % self.prop, ok, out[-800:])

    def scan_sources(self):
        bad = []
        for root, _, files in os.walk(COQ):
            for fn in files:
                if not fn.endswith('.v'): continue
                path = os.path.join(root, fn); txt = strip_comments(open(path).read())
                for pat in (r'\bAdmitted\b', r'\badmit\b', r'\bAxiom\b', r'\bParameter\b', r'\bConjecture\b', r'\bAdmit Obligations\b', r'Unset Guard', r'bypass_check', r'type-in-type', r'impredicative-set', r'Unset Universe Checking', r'Unset Positivity'):
                    if re.search(pat, txt): bad.append('%s: %s' % (os.path.relpath(path, COQ), pat))
                # Variable/Hypothesis outside a section
                depth = 0
                for line in txt.split('\n'):
                    s = line.strip()
                    if re.match(r'(Section|Module)\s+\w+', s) and not re.match(r'Module\s+\w+\s*:=', s): depth += 1
                    elif re.match(r'End\s+\w+\s*\.', s): depth -= 1
                    elif depth == 0 and re.match(r'(Variable|Variables|Hypothesis|Hypotheses|Context)\b', s): bad.append('%s: %s outside a section' % (fn, s[:40]))
        proj = open(os.path.join(COQ, '_CoqProject')).read()
        if re.search(r'-arg|-type-in-type|-impredicative-set|-vos|-vok', proj): bad.append('_CoqProject passes extra flags')
        self.obligation('source scan: no Admitted/admit/Axiom/Parameter/Conjecture, no Variable/Hypothesis outside sections, no disabled kernel checks', not bad, '; '.join(bad[:10]))

    # ---------- exploration bookkeeping ----------
    def count(self, key, n=1): self.distribution[key] = self.distribution.get(key, 0) + n
    def evaluated(self, n=1): self.evaluations += n
    def nontrivial(self, key): self.nontrivial_keys.add(key)
    def sample(self, s, limit=6):
        if len(self.samples) < limit: self.samples.append(s)

    def disagreement(self, what, detail, case=None, in_domain=True, finding_class=None, extra_replay=None):
        """A case on which implementation and model (mirror) differ."""
        tag = '%s_%s_%d' % (self.prop, re.sub(r'\W', '_', str(case.id if case is not None else what))[:40], len(self.violations))
        path = os.path.join(self.replay_dir, tag + '.replay')
        with open(path, 'w') as f:
            f.write('# property %s\n# what: %s\n# in_domain: %s\n' % (self.prop, what, in_domain))
            for line in str(detail).split('\n'): f.write('# diff: %s\n' % line[:2000])
            if extra_replay: f.write(extra_replay if extra_replay.endswith('\n') else extra_replay + '\n')
        if case is not None:
            with open(path, 'a') as f:
                f.write('# replay case; coin-name %s\n' % case.coin)
                for n, name in case.name_of.items(): f.write('# name %d %s\n' % (n, name))
                f.write('# callbacks %s\n' % ','.join(case.meta.get('cbs', [])))
                f.write(case.model_text([]))
        self.violations.append(dict(what=what, detail=str(detail)[:3000], replay=path, in_domain=in_domain))

    def known_finding(self, fid, text):
        if (fid, text) not in self.known: self.known.append((fid, text))

    def open_finding(self, fid):
        for f in self.findings:
            if f['id'] == fid and f['property'] == self.prop and f['status'] == 'open': return f
        return None

    # ---------- verdict ----------
    def finish(self):
        wall = time.time() - self.t0
        if run.RETRIES: self.extra['runs_repeated_after_timeout'] = [list(x) for x in run.RETRIES[:20]]      # see run.run_impl (rusty-leveldb iterator spin)
        self.extra['rotations'] = dict(runs_as_unprivileged_user=run.ROT['as_user'], runs_after_prior_run_in_dump_folder=run.ROT['prior'], runs_below_foreign_client_path_names=run.ROT['path_name'], unprivileged_user_available=(run._DROP.get(65534)))
        failed_obl = [(n, d) for n, ok, d in self.obligations if not ok]
        lines = []
        for fid, text in self.known: lines.append('KNOWN-FINDING: property=%s %s' % (self.prop, text))
        indom = [v for v in self.violations if v['in_domain']]
        outdom = [v for v in self.violations if not v['in_domain']]
        rc = 0
        if indom:
            rc = 1
            for v in indom[:5]: lines.append('VIOLATION property=%s replay=%s' % (self.prop, v['replay']))
        elif outdom or failed_obl:
            rc = 1
            path = os.path.join(self.replay_dir, '%s_unproved.replay' % self.prop)
            with open(path, 'w') as f:
                f.write('# property %s is no longer shown to hold; no failing input was found by the search of this run\n' % self.prop)
                for n, d in failed_obl: f.write('# obligation that no longer checks: %s\n#   %s\n' % (n, str(d)[:1500].replace('\n', '\n#   ')))
                for v in outdom: f.write('# correspondence that no longer checks (input outside the theorem\'s domain): %s -> %s\n#   %s\n' % (v['what'], v['replay'], v['detail'][:800].replace('\n', ' ')))
            lines.append('VIOLATION property=%s replay=%s no-failing-input-found' % (self.prop, path))
        ev = dict(property_id=self.prop, tier=self.tier, seed=self.seed, level=self.level, wall_s=round(wall, 2), violations=len(self.violations),
                  assumptions=self.extra.pop('assumptions', []),
                  coverage=dict(obligations=len(self.obligations), discharged=sum(1 for _, ok, _ in self.obligations if ok),
                                obligation_list=[dict(name=n, ok=ok) for n, ok, _ in self.obligations],
                                checker_cmd='; '.join(dict.fromkeys(self.checker_cmds)) or 'none', trusted_base=TRUSTED_BASE,
                                evaluations=self.evaluations, distinct_nontrivial=len(self.nontrivial_keys), rule=self.rule,
                                samples=self.samples or ['(no generated cases in this run)'], distribution=self.distribution,
                                explanation=self.explanation, known_findings=[t for _, t in self.known], **({'exhaustive': self.exhaustive} if self.exhaustive is not None else {}), **self.extra))
        os.makedirs(os.path.join(VERIF, 'evidence'), exist_ok=True)
        with open(os.path.join(VERIF, 'evidence', self.prop + '.json'), 'w') as f: json.dump(ev, f, indent=1, default=str)
        for l in lines: print(l)
        print('%s tier=%s seed=%d obligations %d/%d evaluations=%d nontrivial=%d disagreements=%d wall=%.0fs' % (
            self.prop, self.tier, self.seed, sum(1 for _, ok, _ in self.obligations if ok), len(self.obligations), self.evaluations, len(self.nontrivial_keys), len(self.violations), wall))
        for n, d in failed_obl: print('  FAILED obligation: %s %s' % (n, str(d)[:600]))
        for v in self.violations[:8]: print('  disagreement (%s): %s | %s' % ('in domain' if v['in_domain'] else 'outside domain', v['what'], v['detail'][:500]))
        if self.tools: self.tools.cleanup()
        return rc


def run_corpus(ck):
    """corpus/<prop>.txt: single-line requests (script/mean/reward/record/blkname) kept from earlier findings; hook vs model, run before the generated cases"""
    path = os.path.join(VERIF, 'corpus', ck.prop + '.txt')
    if not os.path.exists(path): return 0
    if not run.hooks_ok(ck): return 0
    from .chain import COINS
    n = 0
    for line in open(path):
        t = line.split()
        if not t or t[0].startswith('#'): continue
        req = line.strip(); n += 1
        b = run.model_lines(ck.tools, [req])[0]
        if t[0] == 'script':
            a = run.hook_lines(ck.tools, 'script-eval', ['%02x %s' % (COINS[t[1]]['ver'], t[2] if len(t) > 2 else '-')])[0]
            a = '|'.join(['ScriptError' if x.startswith('ScriptError') else x for x in a.split('|')[:1]] + a.split('|')[1:]); ok = a == b
        elif t[0] == 'mean':
            a = run.hook_lines(ck.tools, 'get-mean', [' '.join(t[1:])])[0]; sm, cnt = map(int, b.split()); ok = (not a.startswith('PANIC')) and float(a) == (float(sm) / cnt if cnt else 0.0)
        elif t[0] == 'reward': a = run.hook_lines(ck.tools, 'base-reward', [t[1]])[0]; ok = a == b
        elif t[0] == 'record':
            a = run.hook_lines(ck.tools, 'index-record', [' '.join(t[1:])])[0]; a = 'panic' if a.startswith('PANIC') else ('err' if a.startswith('err') else a); ok = a == b
        elif t[0] == 'blkname': a = run.hook_lines(ck.tools, 'blk-name', [t[1]])[0]; ok = a == b
        else: continue
        ck.evaluated(); ck.count('corpus')
        if not ok: ck.disagreement('corpus entry', 'request=%s impl=%s model=%s' % (req[:200], a[:200], b[:200]), None, in_domain=True, extra_replay=req)
    return n

def pinned(prop):
    return json.load(open(os.path.join(COQ, 'props', 'PINNED.json')))[prop]

def strip_comments(src):
    out = []; depth = 0; i = 0
    while i < len(src):
        if src.startswith('(*', i): depth += 1; i += 2
        elif src.startswith('*)', i) and depth: depth -= 1; i += 2
        else:
            if depth == 0: out.append(src[i])
            i += 1
    return ''.join(out)

PRIOR = {'bitcoin': 'testnet3', 'testnet3': 'bitcoin', 'litecoin': 'dogecoin', 'dogecoin': 'litecoin', 'namecoin': 'dogecoin'}

def compare_cases(ck, cases, cbs_of, want=None, release=False, nontrivial=None, sample=None, workers=12):
    """Standard exploration step: model on all cases (sharded), implementation per case (thread pool), record disagreements.
    cbs_of(case) -> list of callbacks; nontrivial(case, model) -> key or None."""
    from concurrent.futures import ThreadPoolExecutor
    allw = ['csv', 'unspent', 'balances', 'opreturn', 'stats', 'opens']
    # generic rotation of dimensions no property depends on, so that every property's cases also run under them: verbosity (default, -v, -vv), an earlier run's results in the dump folder, an unprivileged user, and an XOR-obfuscated
    # directory (the model un-XORs like the code; C11 proves and tests the equivalence itself). A module opts out per case with meta['fixed'] = True.
    rot = random.Random(ck.seed * 7919 + len(cases))
    for i, c in enumerate(cases):
        if c.meta.get('fixed'): continue
        if not hasattr(c, 'verbosity') and i % 4 >= 2: c.verbosity = i % 4 - 1
        if c.xor is None and i % 7 == 5: c.xor = bytes(rot.randrange(1, 256) for _ in range(rot.choice([8, 8, 3, 2])))
        if i % 5 == 3 and not hasattr(c, 'prior_coin'): c.prior_coin = PRIOR.get(c.coin, 'litecoin')      # an earlier run with another coin left its results in the dump folder
        if i % 6 == 4 and not hasattr(c, 'as_user'): c.as_user = 65534                                    # the parser runs as a user who can read but does not own the blk files
    models = run.run_model(ck.tools, cases, (lambda c: [w for w in allw if w in cbs_of(c) or w == 'opens']) if want is None else want)
    def one(c):
        try:
            return c, run.compare_case(ck.tools, c, models[c.id], cbs_of(c), release=release), None
        except Exception as e:
            return c, None, traceback.format_exc()
    with ThreadPoolExecutor(workers) as ex:
        results = list(ex.map(one, cases))
    for c, res, err in results:
        ck.evaluated(); c.meta['cbs'] = cbs_of(c)
        if err: ck.disagreement('harness error on case ' + c.id, err, c, in_domain=False); continue
        for cb, diffs, r in res:
            ck.count('runs:' + cb)
            if diffs: ck.disagreement('%s on case %s (%s)' % (cb, c.id, c.coin), '\n'.join(diffs), c, in_domain=c.in_domain)
        if nontrivial:
            k = nontrivial(c, models[c.id])
            if k is not None: ck.nontrivial(k)
        if sample: ck.sample(sample(c, models[c.id]))
    return models, results
