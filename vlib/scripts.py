"""Script streams for C05 / C06 / C14 / C16 and an independent reference (the property text transcribed in python)."""
import hashlib, struct
from .chain import push, P2PKH, P2SH, sha256, dsha, hash160, COINS
from .gen import rb, utf8_text

# ---------------- independent reference: encodings ----------------
B58 = '123456789ABCDEFGHJKLMNPQRSTUVWXYZabcdefghijkmnopqrstuvwxyz'
def b58encode(b):
    n = int.from_bytes(b, 'big'); s = ''
    while n: n, r = divmod(n, 58); s = B58[r] + s
    return '1' * (len(b) - len(b.lstrip(b'\0'))) + s
def b58decode(s):
    n = 0
    for ch in s: n = n * 58 + B58.index(ch)
    pad = len(s) - len(s.lstrip('1'))
    return b'\0' * pad + n.to_bytes((n.bit_length() + 7) // 8, 'big')
def b58check(payload): return b58encode(payload + dsha(payload)[:4])
def b58check_decode(s):
    raw = b58decode(s)
    if len(raw) < 5 or dsha(raw[:-4])[:4] != raw[-4:]: return None
    return raw[:-4]
CHARSET = 'qpzry9x8gf2tvdw0s3jn54khce6mua7l'
def _polymod(values):
    G = [0x3b6a57b2, 0x26508e6d, 0x1ea119fa, 0x3d4233dd, 0x2a1462b3]; chk = 1
    for v in values:
        b = chk >> 25; chk = (chk & 0x1ffffff) << 5 ^ v
        for i in range(5): chk ^= G[i] if ((b >> i) & 1) else 0
    return chk
def _hrp_expand(h): return [ord(x) >> 5 for x in h] + [0] + [ord(x) & 31 for x in h]
def _convertbits(data, frm, to, pad=True):
    acc = 0; bits = 0; ret = []; maxv = (1 << to) - 1
    for v in data:
        acc = (acc << frm) | v; bits += frm
        while bits >= to: bits -= to; ret.append((acc >> bits) & maxv)
    if pad:
        if bits: ret.append((acc << (to - bits)) & maxv)
    elif bits >= frm or ((acc << (to - bits)) & maxv): return None
    return ret
def segwit_encode(hrp, ver, prog):
    data = [ver] + _convertbits(prog, 8, 5); const = 1 if ver == 0 else 0x2bc830a3
    pm = _polymod(_hrp_expand(hrp) + data + [0] * 6) ^ const
    return hrp + '1' + ''.join(CHARSET[d] for d in data + [(pm >> 5 * (5 - i)) & 31 for i in range(6)])
def segwit_decode(addr):
    """-> (hrp, ver, prog) or None; checks the checksum constant against the version (BIP-350)"""
    if addr.lower() != addr or '1' not in addr: return None
    pos = addr.rfind('1'); hrp = addr[:pos]; data = [CHARSET.find(c) for c in addr[pos + 1:]]
    if -1 in data or len(data) < 7: return None
    c = _polymod(_hrp_expand(hrp) + data); ver = data[0]
    if c != (1 if ver == 0 else 0x2bc830a3): return None
    prog = _convertbits(data[1:-6], 5, 8, False)
    if prog is None: return None
    return hrp, ver, bytes(prog)

# ---------------- independent reference: tokenisation by Bitcoin push rules ----------------
def tokenize(s):
    """-> list of ('op', byte) / ('data', bytes), or None when a push runs past the end"""
    out = []; i = 0; n = len(s)
    while i < n:
        c = s[i]; i += 1
        if c <= 75: ln = c
        elif c == 0x4c:
            if i + 1 > n: return None
            ln = s[i]; i += 1
        elif c == 0x4d:
            if i + 2 > n: return None
            ln = int.from_bytes(s[i:i + 2], 'little'); i += 2
        elif c == 0x4e:
            if i + 4 > n: return None
            ln = int.from_bytes(s[i:i + 4], 'little'); i += 4
        else: out.append(('op', c)); continue
        if i + ln > n: return None
        out.append(('push', c, s[i:i + ln])); i += ln
    return out

NOOPS = {0x61} | set(range(0xb0, 0xba))
def ref_fork(s, ver):
    """C06 reference -> (type, address or None, op_return payload bytes or None)"""
    t = tokenize(s)
    if t is None: return ('NotRecognised', None, None)
    toks = []
    for x in t:
        if x[0] == 'push':
            if len(x[2]) > 0: toks.append(('data', x[2]))
            elif x[1] not in NOOPS: toks.append(('op', x[1]))        # zero-length push = opcode token
        elif x[1] not in NOOPS: toks.append(x)
    shape = [k if k == 'data' else v for k, v in toks]
    if shape == [0x76, 0xa9, 'data', 0x88, 0xac]: return ('Pay2PublicKeyHash', b58check(bytes([ver]) + toks[2][1]), None)
    if shape == ['data', 0xac]: return ('Pay2PublicKey', b58check(bytes([ver]) + hash160(toks[0][1])), None)
    if shape == [0xa9, 'data', 0x87]: return ('Pay2ScriptHash', b58check(b'\x05' + toks[1][1]), None)
    if shape == [0x6a, 'data']: return ('OpReturn', None, toks[1][1].decode('utf-8', errors='replace').encode())
    if shape == [0x52, 'data', 'data', 'data', 0x53, 0xae]: return ('Pay2MultiSig', None, None)
    return ('NotRecognised', None, None)

ILLEGAL_OR_RETURN = ({0x65, 0x66, 0xff, 0x6a, 0x50, 0x89, 0x8a, 0x62} | set(range(0x7e, 0x82)) | set(range(0x83, 0x87)) | {0x8d, 0x8e} | set(range(0x95, 0x9a)) | set(range(0xba, 0x100)))
def ref_btc(s, testnet):
    """C05 / C16 reference -> (type, address or None, payload or None)"""
    pkh, sh, hrp = (0x6f, 0xc4, 'tb') if testnet else (0x00, 0x05, 'bc')
    if not s: return ('NotRecognised', None, None)
    if s[0] == 0x6a:
        t = tokenize(s[1:])
        payload = t[0][2] if (t is not None and len(t) == 1 and t[0][0] == 'push') else None
        if payload is None:
            # not "OP_RETURN <one push>": the property leaves the printed text open; the type is still OpReturn
            return ('OpReturn', None, 'any')
        try: payload.decode('utf-8'); return ('OpReturn', None, payload)
        except UnicodeDecodeError: return ('OpReturn', None, b'')
    if s[0] in ILLEGAL_OR_RETURN: return ('Unspendable', None, None)
    n = len(s)
    if n in (35, 67) and s[0] == n - 2 and s[-1] == 0xac: return ('Pay2PublicKey', b58check(bytes([pkh]) + hash160(s[1:-1])), None)
    if n == 25 and s[:3] == b'\x76\xa9\x14' and s[23:] == b'\x88\xac': return ('Pay2PublicKeyHash', b58check(bytes([pkh]) + s[3:23]), None)
    if n == 23 and s[:2] == b'\xa9\x14' and s[22] == 0x87: return ('Pay2ScriptHash', b58check(bytes([sh]) + s[2:22]), None)
    if 4 <= n <= 42 and (s[0] == 0 or 0x51 <= s[0] <= 0x60) and 2 <= s[1] <= 40 and s[1] == n - 2:
        ver = 0 if s[0] == 0 else s[0] - 0x50; prog = s[2:]
        if ver == 0 and len(prog) == 20: return ('Pay2WitnessPublicKeyHash', segwit_encode(hrp, 0, prog), None)
        if ver == 0 and len(prog) == 32: return ('Pay2WitnessScriptHash', segwit_encode(hrp, 0, prog), None)
        if ver == 1 and len(prog) == 32: return ('Pay2Taproot', segwit_encode(hrp, 1, prog), None)
        if ver == 0: return ('WitnessProgram', None, None)        # v0 with an illegal length has no address
        return ('WitnessProgram', segwit_encode(hrp, ver, prog), None)
    t = tokenize(s)
    if t is not None and len(t) >= 4 and t[0][0] == 'op' and 0x51 <= t[0][1] <= 0x60 and t[-1] == ('op', 0xae) and t[-2][0] == 'op' and 0x51 <= t[-2][1] <= 0x60 \
       and all(x[0] == 'push' for x in t[1:-2]):
        m = t[0][1] - 0x50; nn = t[-2][1] - 0x50
        if nn == len(t) - 3 and 1 <= m <= nn <= 16: return ('Pay2MultiSig', None, None)
    return ('NotRecognised', None, None)

def ref(s, coin):
    v = COINS[coin]['ver']
    return ref_btc(s, coin == 'testnet3') if coin in ('bitcoin', 'testnet3') else ref_fork(s, v)

def check_address(s, coin, typ, addr):
    """property-level: a reported address decodes (valid checksum, network prefix) to the hash / program embedded in the script. -> problem string or None"""
    if addr is None: return None
    btc = coin in ('bitcoin', 'testnet3')
    if addr.startswith(('bc1', 'tb1')) and btc:
        d = segwit_decode(addr)
        if d is None: return 'bech32 address does not decode / bad checksum'
        hrp, ver, prog = d
        if hrp != ('tb' if coin == 'testnet3' else 'bc'): return 'wrong hrp'
        if len(s) < 2 or prog != s[2:] or ver != (0 if s[0] == 0 else s[0] - 0x50): return 'address does not carry the witness program of the script'
        return None
    p = b58check_decode(addr)
    if p is None or len(p) < 2 or (btc and len(p) != 21): return 'base58check address does not decode / bad checksum'
    ver = COINS[coin]['ver']; shv = (0xc4 if coin == 'testnet3' else 0x05)
    if typ == 'Pay2ScriptHash': want_ver = shv
    else: want_ver = ver
    if p[0] != want_ver: return 'wrong version byte %#x' % p[0]
    if p[1:] not in s and p[1:] != hash160(_first_push(s) or b''): return 'address hash is neither embedded in the script nor HASH160 of its key'
    return None
def _first_push(s):
    t = tokenize(s)
    if not t: return None
    for x in t:
        if x[0] == 'push' and len(x[2]) > 0: return x[2]
    return None

# ---------------- generators ----------------
PUSH_LENS = [0, 1, 2, 20, 32, 33, 65, 75, 76, 77, 255, 256, 300, 520, 521]
def push_form(d, form):
    n = len(d)
    if form == 'direct': return bytes([n]) + d if n <= 75 else None
    if form == 'pd1': return b'\x4c' + bytes([n]) + d if n <= 255 else None
    if form == 'pd2': return b'\x4d' + struct.pack('<H', n) + d if n <= 65535 else None
    return b'\x4e' + struct.pack('<I', n) + d

def keys_zoo(r):
    return [b'\x02' + rb(r, 32), b'\x03' + rb(r, 32), b'\x04' + rb(r, 64), b'\x06' + rb(r, 64), b'\x07' + rb(r, 64), b'\x00' * 33, b'\x00' * 65, b'\x05' + rb(r, 32),
            (b'this is not a public key at all.....')[:33], b'\xff' * 65, b'\x02' + b'\x00' * 31 + b'\x05', bytes.fromhex('0279be667ef9dcbbac55a06295ce870b07029bfcdb2dce28d959f2815b16f81798')]

def templates(r):
    """instances of every standard shape with random payloads: list of (tag, bytes)"""
    out = [('p2pkh', P2PKH(rb(r, 20))), ('p2sh', P2SH(rb(r, 20))), ('p2wpkh', b'\x00\x14' + rb(r, 20)), ('p2wsh', b'\x00\x20' + rb(r, 32)), ('p2tr', b'\x51\x20' + rb(r, 32)),
           ('opret', b'\x6a' + push(utf8_text(r, 20))), ('ms_1of1', b'\x51' + push(b'\x02' + rb(r, 32)) + b'\x51\xae'),
           ('ms_2of3', b'\x52' + b''.join(push(b'\x03' + rb(r, 32)) for _ in range(3)) + b'\x53\xae'), ('p2pkh_nonstd_len', b'\x76\xa9\x15' + rb(r, 21) + b'\x88\xac')]
    for k in keys_zoo(r): out.append(('p2pk', bytes([len(k)]) + k + b'\xac'))
    return out

def stream(r, n_random, thorough=False):
    """list of (tag, script bytes)"""
    S = []
    T = templates(r)
    S += T
    # one-byte mutations, truncations, extensions of every template
    for tag, s in T:
        for pos in range(len(s)):
            if thorough or pos < 4 or pos >= len(s) - 3 or r.random() < 0.15:
                m = bytearray(s); m[pos] ^= r.choice([1, 0x80, 0xff]); S.append((tag + ':mut', bytes(m)))
        for cut in range(len(s)):
            if thorough or cut < 4 or cut >= len(s) - 3 or r.random() < 0.1: S.append((tag + ':trunc', s[:cut]))
        S += [(tag + ':ext', s + b'\x00'), (tag + ':ext', s + b'\x61'), (tag + ':ext', s + rb(r, 3)), (tag + ':pre', b'\x61' + s), (tag + ':pre', b'\x00' + s)]
    # all 256 opcodes: alone, leading, between a push and OP_CHECKSIG
    for c in range(256):
        S += [('op:alone', bytes([c])), ('op:lead', bytes([c]) + rb(r, 4)), ('op:mid', b'\x21' + b'\x02' + rb(r, 32) + bytes([c]) + b'\xac'), ('op:lead20', bytes([c, 0x14]) + rb(r, 20))]
    # witness grid: version 0..16 x program length 1..42 (legal 2..40)
    for v in list(range(0, 17)) + [17, 0x4f, 0x61]:
        op = 0 if v == 0 else (0x50 + v if v <= 17 else v)
        for ln in range(1, 43): S.append(('witness', bytes([op, ln]) + rb(r, ln)))
        S += [('witness:badlen', bytes([op, 20]) + rb(r, 21)), ('witness:badlen', bytes([op, 32]) + rb(r, 31)), ('witness:pd1', bytes([op, 0x4c, 20]) + rb(r, 20))]
    # multisig grid
    key = lambda: push(b'\x02' + rb(r, 32))
    for m in range(0, 18):
        for n in range(0, 18):
            mo = 0 if m == 0 else 0x50 + m; no = 0 if n == 0 else 0x50 + n
            S.append(('ms_grid', bytes([mo]) + b''.join(key() for _ in range(n)) + bytes([no, 0xae])))
    for n in [1, 2, 3, 15, 16, 17, 20, 255, 256, 257, 300]:
        S.append(('ms_many', b'\x51' + b'\x00' * n + b'\x51\xae')); S.append(('ms_many', b'\x51' + b'\x01\x07' * n + bytes([0x50 + min(n, 16), 0xae])))
        S.append(('ms_many', b'\x51' + b'\x00' * n))
    for bad in [0xac, 0x00, 0x61, 0x4f, 0xae, 0xff]:
        S.append(('ms_badn', b'\x51' + key() + key() + bytes([bad, 0xae]))); S.append(('ms_badn', b'\x52' + key() + key() + bytes([0x52, bad])))
    S += [('ms_wrongn', b'\x51' + key() + key() + b'\x53\xae'), ('ms_wrongn', b'\x53' + key() + key() + b'\x52\xae'), ('ms_trailing', b'\x51' + key() + b'\x51\xae\x61'),
          ('ms_trunc', b'\x51' + key() + b'\x51'), ('ms_pd', b'\x51' + b'\x4c\x21\x02' + rb(r, 32) + b'\x51\xae'), ('ms_badpush', b'\x51\x21' + rb(r, 5) + b'\x51\xae')]
    # every opcode in a key slot of a multisig frame (non-push items are not keys: OP_0..OP_16, OP_1NEGATE, OP_RESERVED, NOPs, ...), first / middle / last slot
    for c in range(256):
        if 1 <= c <= 0x4e: continue       # direct pushes and PUSHDATA are covered by the slot forms below
        S += [('ms_slotop', b'\x51' + key() + bytes([c]) + b'\x52\xae'), ('ms_slotop', b'\x51' + bytes([c]) + key() + b'\x52\xae'),
              ('ms_slotop', b'\x52' + key() + bytes([c]) + key() + b'\x53\xae'), ('ms_slotop', b'\x51' + bytes([c]) + b'\x51\xae')]
    # fixed witness programs that implementations are known to special-case (pay-to-anchor) and their neighbours; BIP173/BIP350 test-vector programs
    for w in ['51024e73', '51024e74', '51024f73', '52024e73', '60024e73', '00024e73', '51034e7300', '51024e7361', '5102734e', '4e73', '51014e', '5128' + '4e73' * 20,
              '0014751e76e8199196d454941c45d1b3a323f1433bd6', '00201863143c14c5166804bd19203356da136c985678cd4d27a1b8c6329604903262', '5210751e76e8199196d454941c45d1b3a323',
              '6002751e', '5128751e76e8199196d454941c45d1b3a323f1433bd6751e76e8199196d454941c45d1b3a323f1433bd6', '512079be667ef9dcbbac55a06295ce870b07029bfcdb2dce28d959f2815b16f81798']:
        S.append(('witness:fixed', bytes.fromhex(w)))
    # the same 20 bytes under several templates back to back (a verdict remembered per hash / per payload would leak from one script to the next)
    for _ in range(6):
        h = rb(r, 20); k33 = b'\x02' + rb(r, 32)
        S += [('samehash', P2PKH(h)), ('samehash', P2SH(h)), ('samehash', b'\x00\x14' + h), ('samehash', P2PKH(h)), ('samehash', b'\x6a\x14' + h), ('samehash', P2SH(h)),
              ('samehash', b'\x21' + k33 + b'\xac'), ('samehash', b'\x51\x21' + k33 + b'\x51\xae'), ('samehash', b'\x21' + k33 + b'\xac')]
    # name-operation prefixes as Namecoin writes them (OP_1 <name hash> OP_2DROP / OP_2 <name> <rand> <value> OP_2DROP OP_2DROP / OP_3 <name> <value> OP_2DROP OP_DROP) in front of
    # every template: not one of the five token sequences on any fork coin, a bare witness-version look-alike on bitcoin
    for tag, tpl in [('p2pkh', P2PKH(rb(r, 20))), ('p2sh', P2SH(rb(r, 20))), ('p2pk', b'\x21\x02' + rb(r, 32) + b'\xac'), ('opret', b'\x6a\x04data')]:
        S += [('nameop:' + tag, b'\x51' + push(rb(r, 20)) + b'\x6d' + tpl), ('nameop:' + tag, b'\x52' + push(b'd/name') + push(rb(r, 8)) + push(b'{}') + b'\x6d\x6d' + tpl),
              ('nameop:' + tag, b'\x53' + push(b'd/name') + push(b'{"ip":"1.2.3.4"}') + b'\x6d\x75' + tpl), ('nameop:' + tag, b'\x51\x61' + tpl), ('nameop:' + tag, b'\x51\x75' + tpl)]
    # push forms in every template slot, zero-length and huge pushes, truncated at every position (incl. inside the length field)
    slots = {'p2pkh': (b'\x76\xa9', b'\x88\xac'), 'p2pk': (b'', b'\xac'), 'p2sh': (b'\xa9', b'\x87'), 'opret': (b'\x6a', b''), 'ms23': (b'\x52' + key() + key(), b'\x53\xae')}
    for name, (pre, post) in slots.items():
        for ln in PUSH_LENS + ([65535, 65536] if thorough else [65535]):
            if ln > 600 and name in ('p2pkh', 'p2sh'): continue      # Base58 of a 64 KiB payload is quadratic in the extracted model (binary N arithmetic); covered up to 521 bytes
            d = rb(r, ln) if name != 'opret' else utf8_text(r, ln)
            for form in ['direct', 'pd1', 'pd2', 'pd4']:
                p = push_form(d, form)
                if p is None: continue
                s = pre + p + post; S.append(('slot:%s:%s' % (name, form), s))
                hdr = len(pre) + {'direct': 1, 'pd1': 2, 'pd2': 3, 'pd4': 5}[form]
                for cut in range(len(pre), min(len(s), hdr + 3)): S.append(('slot:trunc', s[:cut]))
                if ln: S.append(('slot:trunc', s[:len(pre) + len(p) - 1]))
        S.append(('slot:pd4_huge', pre + b'\x4e\xff\xff\xff\xff' + rb(r, 10) + post)); S.append(('slot:pd4_huge', pre + b'\x4e\x00\x00\x00\x80' + post))
    # no-op insertions at every position of every fork template
    for tag, s in [('p2pkh', P2PKH(rb(r, 20))), ('p2pk', b'\x21\x02' + rb(r, 32) + b'\xac'), ('p2sh', P2SH(rb(r, 20))), ('opret', b'\x6a\x04abcd'), ('ms23', b'\x52' + key() + key() + key() + b'\x53\xae')]:
        t = tokenize(s); bounds = [0]; i = 0
        for x in t: i += 1 if x[0] == 'op' else (len(push(x[2]))); bounds.append(i)
        for b in bounds:
            for nop in [0x61, 0xb0, 0xb1, 0xb2, 0xb3, 0xb4, 0xb5, 0xb6, 0xb7, 0xb8, 0xb9, 0xba, 0x00, 0x4f]: S.append(('nop:%s' % tag, s[:b] + bytes([nop]) + s[b:]))
    # OP_RETURN payload grid: lengths x push forms x utf-8 validity
    for ln in [0, 1, 5, 40, 75, 76, 80, 200, 255, 256, 300, 1000, 3000]:
        for form in ['direct', 'pd1', 'pd2', 'pd4']:
            for kind in ['ascii', 'utf8', 'bad', 'nl']:
                if kind == 'ascii': d = bytes(r.randrange(32, 127) for _ in range(ln))
                elif kind == 'utf8': d = utf8_text(r, ln)
                elif kind == 'nl': d = (b'line\nheight: 7 txid: ' + b'ab' * 31 + b'    data: x\n' * 40)[:ln]
                else: d = bytes([r.choice([0x80, 0xc0, 0xc1, 0xf5, 0xff, 0xed])]) * min(ln, 1) + rb(r, max(0, ln - 1)) if ln else b''
                if kind == 'bad' and ln >= 3 and r.random() < 0.5: d = utf8_text(r, ln - 3) + r.choice([b'\xed\xa0\x80', b'\xf4\x90\x80', b'\xe0\x80\x80', b'\xc0\xaf\x41'])
                p = push_form(d, form)
                if p is not None: S.append(('opret:%s:%s' % (form, kind), b'\x6a' + p))
    S += [('opret:shape', b'\x6a'), ('opret:shape', b'\x6a\x6a'), ('opret:shape', b'\x6a\x51'), ('opret:shape', b'\x6a\x04abcd\x04efgh'), ('opret:shape', b'\x6a\x04abcd\x61'),
          ('opret:shape', b'\x6a\x61\x04abcd'), ('opret:shape', b'\x6a\x4c'), ('opret:shape', b'\x6a\x4c\x05ab'), ('opret:shape', b'\x6a\x05ab'), ('opret:shape', b'\x6a\x00'), ('opret:shape', b'\x6a\x4f'),
          ('opret:shape', b'\x6a\x4d\x01'), ('opret:shape', b'\x6a\x4e\x01\x00\x00')]
    # long scripts around the 10000-byte script size limit
    for ln in ([9999, 10000, 10001, 12345] if thorough else [10000, 10001]):
        S += [('long', b'\x76' * ln), ('long', b'\x4d' + struct.pack('<H', ln - 3) + rb(r, ln - 3))]
        if thorough or ln == 10001: S += [('long', P2PKH(rb(r, 20)) + b'\x61' * (ln - 25)), ('long', b'\x76' + rb(r, ln - 1))]
    # random token sequences and random bytes
    ops = [0x00, 0x4f, 0x51, 0x52, 0x53, 0x60, 0x61, 0x6a, 0x76, 0x87, 0x88, 0xa9, 0xac, 0xae, 0xb1, 0xba, 0xff]
    for _ in range(n_random):
        k = r.randrange(1, 8); s = b''
        for _ in range(k):
            s += bytes([r.choice(ops)]) if r.random() < 0.5 else push_form(rb(r, r.choice([0, 1, 20, 32, 33, 65, 80])), r.choice(['direct', 'pd1', 'pd2', 'pd4'])) or b''
        S.append(('random_tokens', s))
    for _ in range(n_random // 2): S.append(('random_bytes', rb(r, r.choice([0, 1, 2, 5, 25, 100, 1000]))))
    if thorough: S += [('random_big', rb(r, 100000)), ('random_big', b'\x4e' + struct.pack('<I', 99990) + rb(r, 99990))]
    return S
