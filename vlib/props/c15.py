"""C15 — every simplestats figure equals an independent recomputation over the range."""
from fractions import Fraction
from ..chain import *
from .. import gen, core, run, scripts
THEOREMS = core.pinned('C15')
NEEDS_RELEASE = True

def stats_chain(r, coin, nb, mode):
    """mode: 'ties' (in-block and cross-block ties for both maxima), 'times' (non-monotonic timestamps incl. 0 and 2^32-1), 'zero' (all values 0), 'types' (every script type), 'big' (huge values; the range total stays below 2^64: beyond it the u64 accumulators of the code overflow, outside the property's domain)"""
    blocks = []; prev = b'\x00' * 32; t = 1300000000
    kinds = ['p2pkh', 'p2sh', 'p2pk33', 'p2pk65', 'p2wpkh', 'p2wsh', 'p2tr', 'witness_other', 'opret_small', 'opret_bad_utf8', 'opret_empty', 'multisig', 'multisig_2of3', 'random', 'unspendable', 'empty', 'truncated_push']
    for h in range(nb):
        val = (lambda: 0) if mode == 'zero' else (lambda: r.choice([0, 1, 546, r.randrange(10**10), 50 * 10**8, 50 * 10**8 + 1, 25 * 10**8, 2**56])) if mode == 'big' else (lambda: r.choice([0, 1, 5 * 10**9, 5 * 10**9 + 7, r.randrange(10**9)]))
        cbv = r.choice([0, 1, 50 * 10**8 - 1, 50 * 10**8, 50 * 10**8 + 12345, 25 * 10**8 + 5, 2**40]) if mode != 'zero' else 0
        txs = [coinbase_tx(h, [(cbv, gen.script_zoo(r, r.choice(kinds))[1]), (val(), gen.script_zoo(r, r.choice(kinds))[1])], extra=gen.rb(r, 2))]
        if mode in ('big', 'types') and h % 2 == 1:
            # coinbase input scripts of 0, 1, 2, 100, 101 and 300 bytes: what makes a coinbase is its single null outpoint, not the length of its script
            sl = [0, 1, 2, 100, 101, 300][(h // 2 + nb) % 6]
            txs[0] = Tx([(b'\x00' * 32, 0xffffffff, gen.rb(r, sl), 0xffffffff)], txs[0].outputs)
        ntx = r.randrange(0, 4)
        for j in range(ntx):
            outs = [(val(), gen.script_zoo(r, r.choice(kinds) if mode == 'types' or r.random() < 0.5 else 'p2pkh')[1]) for _ in range(r.randrange(1, 4))]
            ins = [(gen.rb(r, 32), r.randrange(4), gen.rb(r, r.choice([0, 10])), 0xffffffff) for _ in range(r.randrange(1, 3))]
            wit = [[gen.rb(r, 9)] for _ in ins] if r.random() < 0.3 else None
            txs.append(Tx(ins, outs, witness=wit))
        if mode == 'ties' and h % 2 == 1:
            # two transactions of the same value AND the same stripped size in one block, both beating everything so far; and a repeat in a later block
            big = 10**12 + h // 2
            for _ in range(2): txs.append(Tx([(gen.rb(r, 32), 1, b'\x00' * (150 + h), 5)], [(big, P2PKH(gen.rb(r, 20)))]))
        if mode == 'ties' and h % 2 == 0:
            # the largest transaction of the block uses over-long CompactSize encodings (its size is the size of its bytes on disk without witness data)
            wd = {'in': r.choice([3, 5, 9]), 'out': r.choice([3, 5, 9]), ('isl', 0): r.choice([3, 5, 9]), ('osl', 0): r.choice([3, 5, 9])}
            txs.append(Tx([(gen.rb(r, 32), 1, b'\x00' * (400 + h), 5)], [(3, P2PKH(gen.rb(r, 20)))], widths=wd, witness=([[gen.rb(r, 600)]] if h % 4 == 0 else None)))
        if mode == 'ties' and h == 1:
            # the size record is held by a transaction whose script length sits exactly on a CompactSize width boundary (252 / 253 / 65535 / 65536)
            ln = [65535, 65536, 253, 252][(nb + len(blocks)) % 4]
            txs.append(Tx([(gen.rb(r, 32), 1, b'', 5)], [(4, b'\x6a' + gen.rb(r, ln - 1))]))
        if mode == 'types' and h == 0:
            # a coinbase-looking tx that is NOT the first tx, and near-coinbase inputs
            txs.append(Tx([(b'\x00' * 32, 0xffffffff, b'\x01', 0)], [(60 * 10**8, P2PKH(gen.rb(r, 20)))]))
            txs.append(Tx([(b'\x00' * 32, 0xfffffffe, b'\x01', 0)], [(70 * 10**8, P2PKH(gen.rb(r, 20)))]))
            txs.append(Tx([(b'\x00' * 32, 0xffffffff, b'\x01', 0), (gen.rb(r, 32), 0, b'', 0)], [(80 * 10**8, P2PKH(gen.rb(r, 20)))]))
        if mode == 'times': t = r.choice([0, 0, 1, 5, 2**32 - 1, 2**32 - 1, 2**31, t, t + 600, t - 600])
        else: t = t + r.randrange(1, 2000)
        b = Block(prev, txs, time=t % 2**32); blocks.append(b); prev = b.hash
    return blocks

def explore(ck):
    r = ck.rng; quick = ck.tier == 'quick'
    ck.rule = ('simplestats on chains built for: ties of both maxima inside one block and across blocks, non-monotonic timestamps incl. 0 and 2^32-1 (clamped gaps, sums beyond 2^32), all-zero values, deterministic gap and stored-size sums of 2..3 times 2^32, a coinbase paying 2^63 units and more (fee arithmetic is unsigned 64-bit), a script type holding 1 of 26 001 outputs (shares that round to 0.00 % and 100.00 %), every '
               'script type incl. first occurrences (and all of them in one range: the longest report), huge values, coinbase look-alikes, a largest transaction with over-long CompactSize encodings, ranges, heights at, next to and between the halving boundaries 210000*k and 13 440 000 (index windows starting there); every figure of the report is parsed and compared with '
               'the model (integers exactly, means as exact rationals within the printed rounding); get_mean and get_base_reward additionally through their hooks (sums around 2^32 and 2^53, every halving '
               'index 0..70), debug and release profile. Non-trivial: >= 2 blocks and >= 2 script types and (a tie for a maximum or a sum >= 2^32); distinct by case.')
    cases = []
    modes = ['ties', 'times', 'zero', 'types', 'big']
    n = 15 if quick else 120
    for i in range(n):
        coin = gen.ALL_COINS[i % 8]; mode = modes[i % 5]
        blocks = stats_chain(r, coin, r.randrange(2, 8), mode)
        c = Case('st%d' % i, coin).simple_layout(blocks, start_height=0)
        if i % 4 == 3 and len(blocks) > 2: c.start = 1; c.end = r.choice([None, len(blocks) - 1])
        c.meta.update(mode=mode); cases.append(c)
    # every script type in one range (the report is at its longest: 11 type entries), on bitcoin and on a fork coin
    for coin in ('bitcoin', 'testnet3', 'litecoin'):
        kinds_all = ['p2pkh', 'p2sh', 'p2pk33', 'p2pk65', 'p2wpkh', 'p2wsh', 'p2tr', 'witness_other', 'opret_small', 'multisig', 'multisig_2of3', 'random', 'unspendable', 'empty']
        blocks = []; prev = b'\x00' * 32
        for h in range(4):
            txs = [coinbase_tx(h, [(50 * 10**8, gen.script_zoo(r, 'p2pkh')[1])], extra=gen.rb(r, 2))]
            txs.append(Tx([(gen.rb(r, 32), 0, b'', 0)], [(1000 + i, gen.script_zoo(r, kd)[1]) for i, kd in enumerate(kinds_all[h::4] + kinds_all[:2])]))
            b = Block(prev, txs, time=1300000000 + 600 * h); blocks.append(b); prev = b.hash
        c = Case('alltypes_' + coin, coin).simple_layout(blocks); c.meta.update(mode='types'); cases.append(c)
    # sums of the per-block samples beyond 2^32 (the means are defined over the exact sums): timestamp gaps of nearly 2^32 seconds several times in a range, and stored block sizes near 2^32
    for k, coin in enumerate(('bitcoin', 'dogecoin') if quick else gen.ALL_COINS):
        times = [1, 2**32 - 1, 5, 2**32 - 1, 1, 2**31, 2**32 - 1, 2**32 - 1][:5 + k % 4]
        blocks = []; prev = b'\x00' * 32
        for h, t_ in enumerate(times):
            b = Block(prev, [coinbase_tx(h, [(50 * 10**8, gen.script_zoo(r, 'p2pkh')[1]), (h, gen.script_zoo(r, 'p2sh')[1])], extra=gen.rb(r, 2))], time=t_); blocks.append(b); prev = b.hash
        c = Case('gaps%d' % k, coin).simple_layout(blocks); c.meta.update(mode='bigsum'); cases.append(c)
        c = Case('sizes%d' % k, coin); c.meta.update(mode='bigsum')
        for h, b in enumerate(blocks[:4]):
            off = c.put_block(0, b.raw, size=[2**32 - 1, 2**31 + 5, 2**32 - 2, 3][h]); c.add_record(b, h, 0, off)      # the stored length prefix is what the block size figure reports
        cases.append(c)
    # coinbase outputs at and above 2^63 (legal on disk; the fee figure is first output - subsidy in unsigned 64-bit arithmetic): one such coinbase per chain so that the totals stay below 2^64
    for k, (coin, v_) in enumerate([('bitcoin', 0xC000000000000000), ('litecoin', 2**63), ('dogecoin', 2**63 + 25 * 10**8), ('testnet3', 2**64 - 1 - 200 * 10**8)][: (2 if quick else 4)] if not quick else [('bitcoin', 0xC000000000000000), ('litecoin', 2**63 + 25 * 10**8)]):
        prev = b'\x00' * 32; blocks = []
        for h in range(3):
            outs = [(v_ if h == 1 else 50 * 10**8 + 7 * h, gen.script_zoo(r, 'p2pkh')[1]), (h, gen.script_zoo(r, 'p2sh')[1])]
            b = Block(prev, [coinbase_tx(h, outs, extra=gen.rb(r, 2)), Tx([(gen.rb(r, 32), 0, b'', 0)], [(1000 + h, gen.script_zoo(r, 'p2pkh')[1])])], time=1300000000 + 600 * h); blocks.append(b); prev = b.hash
        c = Case('bigfee%d' % k, coin).simple_layout(blocks); c.meta.update(mode='bigfee'); cases.append(c)
    # a share below 0.005 % and one above 99.995 %: more than 20 000 outputs of one type and a single output of another (the share is count/total*100 rounded to two decimals, whatever it rounds to)
    for k, (coin, nmany) in enumerate([('litecoin', 26000)] if quick else [('litecoin', 26000), ('bitcoin', 20001), ('namecoin', 40000)]):
        prev = b'\x00' * 32; blocks = []
        b = Block(prev, [coinbase_tx(0, [(50 * 10**8, gen.script_zoo(r, 'p2pkh')[1])]), Tx([(gen.rb(r, 32), 0, b'', 0)], [(1, b'\x51')] * nmany)], time=1300000000); blocks.append(b)
        b = Block(b.hash, [coinbase_tx(1, [(50 * 10**8, b'\x51'), (0, b'\x51')])], time=1300000600); blocks.append(b)
        c = Case('skew%d' % k, coin).simple_layout(blocks); c.meta.update(mode='skew'); cases.append(c)
    # height windows around halvings and the 64th halving
    for kw, H in enumerate([209999, 210001, 420000, 630005, 13439999, 13440000] if quick else [1, 210001, 250000, 630005, 6930001, 209999, 210000, 419999, 420000, 6929999, 6930000, 13229999, 13439999, 13440000, 13440001, 14000000]):
        # the schedule of the property (50 coins, halved every 210 000 heights) applies to every coin: two coins per window, all eight coins at heights >= 210 000
        for hcoin in (gen.ALL_COINS[(2 * kw) % 8], gen.ALL_COINS[(2 * kw + 1) % 8]):
            blocks = stats_chain(r, hcoin, 3, 'big')
            c = Case('hw%d_%s' % (H, hcoin), hcoin).simple_layout(blocks, start_height=H - 1); c.start = H; c.meta.update(mode='halving'); cases.append(c)
    def nontrivial(c, m):
        st = m['stat']
        if not st: return None
        big = int(st['meansize'][0]) >= 2**32 or int(st['meangap'][0]) >= 2**32
        return c.id if (int(st['blocks'][0]) >= 2 and len(m['stattype']) >= 2 and (c.meta['mode'] in ('ties', 'halving', 'skew') or big)) else None
    models, results = core.compare_cases(ck, cases, lambda c: ['stats'], nontrivial=nontrivial,
                                         sample=lambda c, m: dict(case=c.id, coin=c.coin, mode=c.meta['mode'], start=c.start, end=c.end, model={k: v for k, v in m['stat'].items()}, types=m['stattype'][:4]))
    # release profile on a subset (wrap-around instead of overflow panics)
    sub = cases[::3]
    from concurrent.futures import ThreadPoolExecutor
    def one(c): return c, run.compare_case(ck.tools, c, models[c.id], ['stats'], release=True)
    with ThreadPoolExecutor(12) as ex:
        for c, res in ex.map(one, sub):
            ck.evaluated(); ck.count('release runs')
            for cb, diffs, rr in res:
                if diffs: ck.disagreement('stats [release] on ' + c.id, '\n'.join(diffs), c, in_domain=True)
    for c in cases: ck.count('mode:' + c.meta['mode'])
    # ---- hooks: get_mean ----
    if not run.hooks_ok(ck): return
    lists = [[], [0], [1], [2**32 - 1], [2**32 - 1, 1], [2**32 - 1] * 3, [5, 2**32 - 1, 7, 2**32 - 1, 9, 11], [2**31] * 4, [1, 2, 3, 4], [2**32 - 1] * 2100000 if not quick else [2**32 - 1] * 3000, [3] * 7]
    for _ in range(40 if quick else 400): lists.append([r.choice([0, 1, 600, 2**32 - 1, r.getrandbits(32)]) for _ in range(r.randrange(1, 40))])
    reqs = [' '.join(map(str, l)) for l in lists]
    for rel in (False, True):
        impl = run.hook_lines(ck.tools, 'get-mean', reqs, release=rel); mod = run.model_lines(ck.tools, ['mean ' + q for q in reqs])
        for l, a, b in zip(lists, impl, mod):
            ck.evaluated(); ck.count('get_mean lists')
            s, n = map(int, b.split())
            if s != sum(l) or n != len(l): ck.disagreement('model mean differs from the exact sum/count', '%s vs %s/%s' % (b, sum(l), len(l)), None, in_domain=False)
            exact = 0.0 if n == 0 else float(s) / float(n)          # f64 division of the exactly representable operands (sum < 2^53)
            ok = (not a.startswith('PANIC')) and float(a) == exact
            if not ok: ck.disagreement('get_mean%s' % (' [release]' if rel else ''), 'list(len %d, sum %d) impl=%s exact=%r' % (n, s, a, exact), None, in_domain=True, extra_replay='mean ' + ' '.join(map(str, l[:50])))
            if s >= 2**32: ck.nontrivial(('mean', s, n))
    # ---- hooks: get_base_reward, every halving index and its boundaries ----
    hs = sorted({k * 210000 + d for k in range(0, 72) for d in (-1, 0, 1) if k * 210000 + d >= 0} | {2**32, 2**63, 2**64 - 1})
    for rel in (False, True):
        impl = run.hook_lines(ck.tools, 'base-reward', [str(h) for h in hs], release=rel); mod = run.model_lines(ck.tools, ['reward %d' % h for h in hs])
        for h, a, b in zip(hs, impl, mod):
            ck.evaluated(); ck.count('base reward heights')
            want = (50 * 10**8) >> (h // 210000) if h // 210000 < 64 else 0
            if a != b or int(b) != want: ck.disagreement('base reward at height %d%s' % (h, ' [release]' if rel else ''), 'impl=%s model=%s definition=%d' % (a, b, want), None, in_domain=True, extra_replay='reward %d' % h)
    ck.extra['halvings_exhaustive'] = '0..71'

def replay(ck, path):
    rc = 0
    for line in open(path):
        t = line.split()
        if t[:1] == ['mean']:
            a = run.hook_lines(ck.tools, 'get-mean', [' '.join(t[1:])])[0]; b = run.model_lines(ck.tools, [line.strip()])[0]; s, n = map(int, b.split())
            print('replay mean: impl=%s model=%s' % (a, b)); rc |= int(a.startswith('PANIC') or float(a) != (float(s) / n if n else 0.0))
        if t[:1] == ['reward']:
            a = run.hook_lines(ck.tools, 'base-reward', [t[1]])[0]; b = run.model_lines(ck.tools, [line.strip()])[0]; print('replay reward: impl=%s model=%s' % (a, b)); rc |= int(a != b)
    if any(l.startswith('case ') for l in open(path)):
        c = load_case(path); m = run.run_model(ck.tools, [c], ['stats'])[c.id]
        for cb, diffs, r in run.compare_case(ck.tools, c, m, ['stats']):
            print('replay %s: %s' % (cb, 'agrees' if not diffs else 'DIFFERS: ' + ' | '.join(diffs)[:1500])); rc |= bool(diffs)
    return int(rc)
