"""C16 — opreturn prints exactly the non-empty UTF-8 payloads, in chain order."""
from ..chain import *
from .. import gen, core, run, scripts
from . import c05
THEOREMS = core.pinned('C16')
replay = c05.replay

def payloads(r):
    out = []
    for ln in [0, 1, 5, 40, 49, 50, 51, 75, 76, 80, 200, 247, 248, 249, 250, 251, 252, 253, 255, 256, 300, 1000, 3000]:
        for form in ['direct', 'pd1', 'pd2', 'pd4']:
            for kind in ['ascii', 'utf8', 'bad', 'nl', 'special', 'pad']:
                if kind == 'ascii': d = bytes(r.randrange(32, 127) for _ in range(ln))
                elif kind == 'pad':
                    # fixed-width payloads filled up with NUL / blank / tab bytes at the end or the start, and payloads made of nothing else: printed exactly, none dropped
                    if ln == 0 or ln > 300: continue
                    padb = bytes([r.choice([0, 0, 0x20, 0x09])]); npad = r.choice([1, 2, ln // 2, ln])
                    body = bytes(r.randrange(33, 127) for _ in range(ln - min(npad, ln)))
                    d = (body + padb * ln)[:ln] if r.random() < 0.7 else (padb * min(npad, ln) + body)[:ln]
                elif kind == 'special':
                    # valid UTF-8 made of code points a decoder may treat specially: U+FFFD itself, BOM, noncharacters, NUL, the ends of the scalar ranges
                    cps = [0xFFFD, 0xFEFF, 0xFFFE, 0xFFFF, 0, 0x7f, 0x80, 0x7ff, 0x800, 0xd7ff, 0xe000, 0x10000, 0x10ffff, 0x1b, 0x0d]
                    d = b''
                    while True:
                        e = chr(r.choice(cps)).encode()
                        if len(d) + len(e) > ln: break
                        d += e
                    d += b'.' * (ln - len(d))
                elif kind == 'utf8': d = gen.utf8_text(r, ln) if ln not in (50, 51, 80) else b'b' * (ln - 2) + 'é'.encode()      # a two-byte character ending exactly at offset ln
                elif kind == 'nl': d = (b'two\nlines\n\nheight: 3         txid: ' + b'0' * 63 + b'    data: fake (63 hex digits: the harness splits stdout on the exact line prefix)')[:ln]
                else: d = (bytes([r.choice([0x80, 0xc0, 0xf5, 0xff])]) + gen.rb(r, ln))[:ln]
                p = scripts.push_form(d, form)
                if p is not None: out.append(('%s/%s/%d' % (form, kind, ln), b'\x6a' + p, d, kind))
    return out

def explore(ck):
    r = ck.rng; quick = ck.tier == 'quick'
    ck.rule = ('opreturn runs on chains whose outputs carry OP_RETURN <one push> for every push form (direct, PUSHDATA1/2/4, minimal and non-minimal) x payload length 0..3000 x {ASCII, multi-byte UTF-8, '
               'invalid UTF-8, embedded newlines and look-alike lines, valid text made of U+FFFD / BOM / noncharacters / NUL / range ends, text padded with (or made of nothing but) NUL, blank or tab bytes}, several OP_RETURN outputs per transaction, OP_RETURN outputs that are not a single push, mixed with every other script type, '
               'x bitcoin/testnet3/fork coins x ranges x verbosity (default and -vv), runs printing more than 128 KiB of lines, and runs that fail inside the last block (the lines of the blocks before it must have been printed); the printed lines (height, txid, payload bytes) are compared with the model and with the property evaluated by the python reference '
               '(printed iff single push, non-empty and - on bitcoin/testnet3 - valid UTF-8; fork coins print the lossy text). Non-trivial: >= 1 printed and >= 1 suppressed OP_RETURN output in the '
               'same run; distinct by case.')
    P = payloads(r)
    cases = []
    coins = ['bitcoin', 'testnet3', 'litecoin', 'dogecoin', 'namecoin', 'unobtanium']
    per = 40
    chunks = [P[i:i + per] for i in range(0, len(P), per)]
    if quick: chunks = chunks[::2]
    for k, chunk in enumerate(chunks):
        coin = coins[k % len(coins)]
        blocks = []; prev = b'\x00' * 32; items = list(chunk); r.shuffle(items)
        others = [gen.script_zoo(r, kd)[1] for kd in ['p2pkh', 'p2sh', 'p2pk33', 'p2wpkh', 'multisig', 'random', 'unspendable', 'empty', 'opret_multi', 'nop_p2pkh']]
        h = 0
        while items:
            txs = [coinbase_tx(h, [(50 * 10**8, P2PKH(gen.rb(r, 20))), (0, items.pop()[1])] if items else [(1, b'\x51')])]
            for _ in range(r.randrange(1, 3)):
                outs = []
                for _ in range(r.randrange(1, 5)):
                    if items and r.random() < 0.7: outs.append((0, items.pop()[1]))
                    else: outs.append((r.randrange(1000), r.choice(others)))
                txs.append(Tx([(gen.rb(r, 32), 0, b'', 0)], outs))
            b = Block(prev, txs, time=1400000000 + h); blocks.append(b); prev = b.hash; h += 1
        c = Case('o%d' % k, coin).simple_layout(blocks)
        if k % 3 == 2 and len(blocks) > 2: c.start = 1; c.end = len(blocks) - 2
        if k % 4 == 1 and len(blocks) > 2 and c.end is None:      # (a case with --end below the last block would never reach the cut)
            # the blk file ends inside the last block: the run fails there, the lines of the earlier blocks have been printed
            o, dta = c.files[0][-1]; c.files[0][-1] = (o, dta[:len(dta) - len(blocks[-1].raw) // 2]); c.meta['cut'] = True
        if k % 3 == 1: c.verbosity = 1          # -v
        if k % 3 == 0: c.verbosity = 2          # -vv: debug/trace output interleaved with the lines must change neither the lines nor the exit status
        c.meta['blocks'] = blocks; cases.append(c)
    # more than 128 KiB of printed lines in one run (any buffering of the lines that is not flushed line by line would interleave with the log output on the same stream)
    for k2, (coin, vb) in enumerate([('bitcoin', 0), ('litecoin', 1)]):
        blocks = []; prev = b'\x00' * 32
        for h in range(30):
            txs = [coinbase_tx(h, [(50 * 10**8, P2PKH(gen.rb(r, 20)))])] + [Tx([(gen.rb(r, 32), 0, b'', 0)], [(0, b'\x6a' + push(('note %d/%d/%d ' % (h, j, o)).encode() + b'ab' * 40)) for o in range(10)]) for j in range(4)]
            b = Block(prev, txs, time=1400000000 + h); blocks.append(b); prev = b.hash
        c = Case('bigout%d' % k2, coin).simple_layout(blocks); c.verbosity = vb; c.meta['blocks'] = blocks; cases.append(c)
    def nontrivial(c, m):
        printed = len(m['opret']); total = sum(1 for b in c.meta['blocks'] for t in b.txs for v, s in t.outputs if s[:1] == b'\x6a')
        return c.id if printed and total > printed else None
    models, results = core.compare_cases(ck, cases, lambda c: ['opreturn'], nontrivial=nontrivial,
                                         sample=lambda c, m: dict(case=c.id, coin=c.coin, start=c.start, end=c.end, printed_lines=len(m['opret']), first=[(h, t[:12], p[:40]) for h, t, p in m['opret'][:3]]))
    # the property, from the generator's side: expected lines by the python reference
    for c in cases:
        m = models[c.id]
        if c.meta.get('cut'):
            ck.count('runs failing inside the last block: %d lines printed before' % min(len(m['opret']), 1))
            if m['status'][0] != 'error': ck.disagreement('model does not fail on the cut case ' + c.id, str(m['status']), c, in_domain=False)
        if m['status'][0] != 'done': continue
        exp = []
        lo = c.start; hi = c.end if c.end is not None else len(c.meta['blocks']) - 1
        for h, b in enumerate(c.meta['blocks']):
            if not (lo <= h <= min(hi, len(c.meta['blocks']) - 1)): continue
            for t in b.txs:
                for v, s in t.outputs:
                    typ, addr, pay = scripts.ref(s, c.coin)
                    if typ == 'OpReturn' and pay not in (None, b'', 'any'): exp.append((str(h), t.txid[::-1].hex(), pay.hex()))
                    elif typ == 'OpReturn' and pay == 'any': exp.append(None)           # unconstrained by the property
        got = list(m['opret'])
        # compare ignoring the unconstrained outputs: every constrained expected line must appear in order, and every model line must be expected or unconstrained
        want = [e for e in exp if e is not None]
        if None not in exp:
            if got != want: ck.disagreement('model lines differ from the reference on ' + c.id, 'model=%s reference=%s' % (got[:3], want[:3]), c, in_domain=False)
        else:
            it = iter(got)
            if not all(any(g == w for g in it) for w in want): ck.disagreement('model lines miss reference lines on ' + c.id, '', c, in_domain=False)
    # in-process volume on the payload grid through the hook (both paths)
    c05.run_stream(ck, ('bitcoin', 'litecoin'), [(t, s) for t, s, d, k in P] + [(t, s) for t, s in scripts.stream(r, 20) if t.startswith('opret')])
