"""C01 — csvdump reproduces every on-disk block, tx, input and output field exactly."""
import struct
from ..chain import *
from .. import gen, core, run

THEOREMS = core.pinned('C01')

U32 = [0, 1, 2**31, 2**32 - 1]
U64 = [0, 1, 2**63, 2**64 - 1]

def boundary_tx(r, feature, big):
    """a transaction exercising one boundary feature; returns (Tx, tags)"""
    rb = lambda n: gen.rb(r, n)
    def inp(slen=None): return (rb(32), r.choice(U32 + [r.getrandbits(32)]), rb(r.choice([0, 1, 20, 107]) if slen is None else slen), r.choice(U32 + [r.getrandbits(32)]))
    def out(slen=None): return (r.choice(U64 + [r.getrandbits(64)]), rb(r.choice([0, 1, 25, 34]) if slen is None else slen))
    ins = [inp() for _ in range(r.randrange(1, 3))]; outs = [out() for _ in range(r.randrange(1, 3))]; wit = None; widths = {}
    tags = [feature]
    if feature == 'plain': pass
    elif feature == 'in_count':
        n = r.choice([252, 253, 254, 1025, 2049] + ([65535, 65536] if big else [])); ins = [(rb(32), i & 0xffffffff, b'', 0) for i in range(n)]; tags.append('in=%d' % n)
    elif feature == 'out_count':
        n = r.choice([252, 253, 254, 1024, 1025, 2049, 4100] + ([65535, 65536] if big else [])); outs = [(i, b'') for i in range(n)]; tags.append('out=%d' % n)
    elif feature == 'script_len':
        n = r.choice([0, 1, 75, 76, 252, 253, 254, 255, 256, 65535, 65536] + ([70000] if big else []))
        if r.random() < 0.5: ins[0] = inp(n)
        else: outs[0] = out(n)
        tags.append('slen=%d' % n)
    elif feature == 'segwit':
        wit = []
        for _ in ins:
            k = r.choice([0, 1, 2, 253]); wit.append([rb(r.choice([0, 1, 252, 253, 300, 520, 521, 600, 10000]) if k < 100 else 1) for _ in range(k)])
        if big and r.random() < 0.3: wit[0] = [rb(70000)]
        tags.append('stack=%s' % [len(s) for s in wit])
    elif feature == 'noncanonical':
        widths = {'in': r.choice([3, 5, 9]), 'out': r.choice([1, 3, 5, 9]), ('isl', 0): r.choice([3, 5, 9]), ('osl', 0): r.choice([3, 5, 9])}
        if r.random() < 0.5: wit = [[rb(3)] for _ in ins]; widths[('wc', 0)] = r.choice([3, 5, 9]); widths[('wl', 0, 0)] = r.choice([3, 5, 9])
        tags.append('widths')
    elif feature == 'extremes':
        ins = [(b'\xff' * 32, 2**32 - 1, rb(2), 2**32 - 1), (b'\x00' * 32, 0, b'', 0)]; outs = [(2**64 - 1, rb(3)), (0, b'')]
    t = Tx(ins, outs, version=r.choice(U32 + [2]), locktime=r.choice(U32 + [500000]), witness=wit, widths=widths)
    return t, tags

def explore(ck):
    r = ck.rng; quick = ck.tier == 'quick'
    ck.rule = ('generated chains over the 8 coins, --verify on/off (on: block 0 is the coin\'s real genesis block), each transaction built around one feature: '
               'input/output count 252/253/254/1024/1025/2049/4100 (65535/65536 thorough), script length 0,1,75,76,252..256,65535,65536 (70000 thorough), segwit with stacks of 0,1,2,253 items '
               'and item lengths 0,1,252,253,300,520,521,600,10000 (70000 thorough), non-canonical CompactSize widths for every count/length, u32/u64 extremes, byte-identical (coinbase and other) transactions in several blocks, XOR-obfuscated directories (key with a zero byte), stored length prefixes 0 / len-1 / len+9 / 2^32-1 (reported as stored), --start > 0, blocks alternating between two files with each block at the offset where its predecessor ended in the other file; tx counts 1,2,3,252..254; '
               'compared: the four CSV files byte for byte, names, totals, exit status. Non-trivial: a boundary-width count/length or a segwit transaction; distinct by feature tags.')
    feats = ['plain', 'in_count', 'out_count', 'script_len', 'segwit', 'noncanonical', 'extremes']
    ncases = 40 if quick else 240
    cases = []
    for i in range(ncases):
        coin = gen.ALL_COINS[i % 8]; verify = (i % 3 == 0) and coin in gen.GENESIS
        big = (not quick) and i % 16 == 5
        nb = r.randrange(1, 4) if i % 7 != 3 else 3; blocks = []; prev = b'\x00' * 32; tags = []
        for h in range(nb):
            if h == 0 and verify: b = gen.GENESIS[coin]; blocks.append(b); prev = b.hash; continue
            ntx = r.choice([1, 1, 2, 3]) if not (i % 10 == 7 and h == nb - 1) else r.choice([252, 253, 254])
            txs = [coinbase_tx(h, [(50 * 10**8, P2PKH(gen.rb(r, 20)))])]
            if i % 7 == 3:      # byte-identical coinbase transactions at several heights (as in Bitcoin blocks 91722/91880), and a non-coinbase transaction repeated in a later block
                txs = [coinbase_tx(0, [(50 * 10**8, P2PKH(b'\x11' * 20))])]; tags.append('dup-txid')
                if h > 0 and len(blocks[0].txs) > 1 and not (verify): txs.append(blocks[0].txs[1])
            for j in range(1, ntx):
                if ntx > 100: t = Tx([(gen.rb(r, 32), j, b'', 0)], [(j, b'\x51')]); tg = ['txcount=%d' % ntx]
                else: t, tg = boundary_tx(r, feats[(i + j + h) % len(feats)], big)
                txs.append(t); tags += tg
            if ntx == 1:
                t, tg = boundary_tx(r, feats[(i + h) % len(feats)], big); txs.append(t); tags += tg
            thr = COINS[coin]['aux']; ver = r.choice(U32 + [2]); aux = b''
            if thr is not None and ver >= thr:
                aux = auxpow_section(Tx([(b'\x00' * 32, 0xffffffff, b'\x01', 1)], [(1, b'\x51')]), [gen.rb(r, 32)], [], gen.rb(r, 80))
            b = Block(prev, txs, version=ver, time=r.choice(U32 + [1231006505]), bits=r.choice(U32), nonce=r.choice(U32), auxpow=aux,
                      count_width=(r.choice([3, 5, 9]) if 'widths' in tags and r.random() < 0.5 else None))
            blocks.append(b); prev = b.hash
        c = Case('c%d' % i, coin)
        if i % 5 == 2:      # an obfuscated directory (C11 explores keys and layouts; here: the field-exactness of C01 must not depend on the directory being plaintext)
            key = bytearray(gen.rb(r, 8)); key[r.randrange(8)] = 0 if i % 2 else key[0]; c.xor = bytes(key); tags.append('xor')
        if i % 6 == 4:      # the stored length prefix is reported as it is stored, whatever the length of the block that follows it
            for h, b in enumerate(blocks):
                sz = [None, 0, len(b.raw) + 9, 2**32 - 1, len(b.raw) - 1, 1][(h + i // 6) % 6]
                off = c.put_block(0, b.raw, size=sz, pad=gen.rb(r, r.choice([0, 3]))); c.add_record(b, h, 0, off)
            tags.append('odd-size-prefix')
        elif i % 9 == 8 and len(blocks) >= 2:
            # blocks stored out of height order over two files, every block at the offset where the block of the preceding height ended in the OTHER file
            # (each file holds padding so that offset(h+1) = offset(h) + size(h) + 8 across files)
            pos = 0
            for h, b in enumerate(blocks):
                f = h % 2; cur = sum(len(d) for o, d in c.files.get(f, []))
                off = c.put_block(f, b.raw, pad=bytes(max(0, pos - cur))) ; c.add_record(b, h, f, off); pos = off + len(b.raw)
            tags.append('cross-file-contiguous')
        else: c.simple_layout(blocks)
        if i % 8 == 5 and len(blocks) >= 2 and not verify: c.start = r.randrange(1, len(blocks)); tags.append('start>0')
        c.verify = verify; c.meta['tags'] = sorted(set(tags)); c.meta['cbs'] = ['csv']
        cases.append(c)
    # totals of four digits with a zero-padded group (1005 outputs, 2007 inputs): the printed totals are compared digit for digit with the rows written
    tb = [None]
    tb[0] = Block(b'\x00' * 32, [coinbase_tx(0, [(1, b'\x51')])] + [Tx([(gen.rb(r, 32), j, b'', 0) for j in range(223)], [(j, b'') for j in range(111 if q_ else 116)]) for q_ in [1, 1, 1, 1, 1, 0, 0, 0, 1]])
    tc = Case('totals1005', 'bitcoin').simple_layout(tb); tc.meta['tags'] = ['totals>=1000']; tc.meta['cbs'] = ['csv']; cases.append(tc)
    def nontrivial(c, m):
        t = [x for x in c.meta['tags'] if x not in ('plain', 'extremes')]
        return (c.coin, tuple(t)) if t else None
    core.compare_cases(ck, cases, lambda c: ['csv'], nontrivial=nontrivial,
                       sample=lambda c, m: dict(case=c.id, coin=c.coin, verify=c.verify, features=c.meta['tags'], blocks=len(c.records), model_status=m['status'],
                                                rows=[len(m['csv'][i]) for i in range(4)], totals=m['csvtotals']))
    for c in cases:
        for t in c.meta['tags']: ck.count('feature:' + t.split('=')[0])
        ck.count('coin:' + c.coin); ck.count('verify:%s' % c.verify)
    # ---- in-process: BlockchainRead::read_block through the parse-block hook vs the Coq mirror: every generated block, plus truncations and byte mutations
    #      (both sides must agree on success/failure, consumed length, header fields, txids and the re-serialised bytes that are hashed) ----
    if not run.hooks_ok(ck): return
    reqs = []
    for i in range(30 if quick else 300):
        coin = gen.ALL_COINS[i % 8]; t, tg = boundary_tx(r, feats[i % len(feats)], False)
        thr = COINS[coin]['aux']; ver = r.choice(U32 + [2] + ([thr, thr - 1, thr + 1] if thr else []))
        aux = auxpow_section(Tx([(b'\x00' * 32, 0xffffffff, b'\x01', 1)], [(1, b'\x51')]), [gen.rb(r, 32) for _ in range(r.choice([0, 1, 33]))], [], gen.rb(r, 80)) if (thr is not None and ver >= thr) else b''
        b = Block(gen.rb(r, 32), [coinbase_tx(i, [(5, b'\x51')]), t], version=ver, auxpow=aux)
        raws = [b.raw, b.raw + gen.rb(r, 5)] + [b.raw[:r.randrange(0, len(b.raw))] for _ in range(3)]
        m = bytearray(b.raw); m[r.randrange(len(m))] ^= 1 << r.randrange(8); raws.append(bytes(m))
        for k, raw in enumerate(raws):
            if len(raw) < 200000: reqs.append((coin, len(b.raw), raw, k == 0))      # k == 0: the well-formed block itself; the others are truncated / extended / bit-flipped
    impl = run.hook_lines(ck.tools, 'parse-block', ['%s %d %s' % (c_, sz, raw.hex() if raw else '-') for c_, sz, raw, wf in reqs])
    mod = run.model_lines(ck.tools, ['block %s %d %s' % (c_, sz, raw.hex() if raw else '-') for c_, sz, raw, wf in reqs])
    for (c_, sz, raw, wf), a, b in zip(reqs, impl, mod):
        ck.evaluated(); ck.count('parse-block hook requests')
        a2 = 'err' if a.startswith('err') else ('panic' if a.startswith(('PANIC', 'ABORT')) else a)
        # allocation of an absurd count / length (Vec::with_capacity of a corrupted CompactSize: capacity overflow panic or allocation-failure abort) is not modelled:
        # on a malformed block a panic/abort of the implementation is counted, not compared; on the well-formed block itself everything must agree
        if a2 == 'panic' and not wf: ck.count('parse-block: implementation panics/aborts on a malformed block (allocation of an absurd count, not modelled)'); continue
        if a2 != b: ck.disagreement('read_block on %s (%d bytes)' % (c_, len(raw)), 'impl=%s model=%s' % (a[:300], b[:300]), None, in_domain=wf, extra_replay='block %s %d %s' % (c_, sz, raw.hex()))

