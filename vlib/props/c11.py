"""C11 — XOR-obfuscated block files yield the same result as plaintext ones."""
import copy
from ..chain import *
from .. import gen, core, run
THEOREMS = core.pinned('C11')

def big_field_chain(r, coin, sizes):
    """blocks whose transactions carry single fields (scriptSig / scriptPubKey / witness item) of the given sizes followed by further fields"""
    blocks = []; prev = b'\x00' * 32
    for h, sz in enumerate(sizes):
        txs = [coinbase_tx(h, [(50 * 10**8, P2PKH(gen.rb(r, 20)))])]
        kind = h % 3
        if kind == 0: txs.append(Tx([(gen.rb(r, 32), 1, gen.rb(r, sz), 7)], [(5, P2PKH(gen.rb(r, 20))), (6, b'\x51')]))
        elif kind == 1: txs.append(Tx([(gen.rb(r, 32), 1, b'\x51', 7)], [(5, gen.rb(r, sz)), (6, P2PKH(gen.rb(r, 20)))]))
        else: txs.append(Tx([(gen.rb(r, 32), 1, b'', 7)], [(6, P2PKH(gen.rb(r, 20)))], witness=[[gen.rb(r, sz), gen.rb(r, 5)]]))
        b = Block(prev, txs, time=1300000000 + h); blocks.append(b); prev = b.hash
    return blocks

def explore(ck):
    r = ck.rng; quick = ck.tier == 'quick'
    ck.rule = ('chains written XOR-ed with keys of length 1..256 (8 most often; 64 always; lengths 3,5,6,7,12,13 always present; all-zero keys, xor.dat as an absolute / relative symbolic link to a key file of another name, keys with one zero byte, keys whose first 8 bytes are zero and the rest not; keys with a zero prefix of 1/4/5/8 bytes on plain layouts whose files begin with the magic; a blk file that is a symbolic link into a directory without xor.dat) and as plaintext; layouts with out-of-order blocks '
               '(backward seeks), offsets not multiples of the key length, block starts at 32768*k +- {0,1,3}, single fields of 32768/40000/70000/131073 bytes followed by further fields, '
               'and a block beyond 4 GiB (sparse) with non-power-of-two key lengths; verbosity default/-v/-vv, --verify --start 1 on part of the cases; outputs of all five callbacks of the obfuscated directory = plaintext directory = model. '
               'Plus in-process: XorReader over seek_bufread::BufReader with arbitrary buffer sizes and short-read patterns vs the Coq mirror (Reader.v). '
               'Non-trivial: key present and (>= 1 backward seek or a field >= 32 KiB or an offset >= 4 GiB or a zero prefix in the key); distinct by (layout kind, key length).')
    cases = []
    keylens = [1, 2, 3, 4, 5, 6, 7, 8, 64, 8, 9, 12, 13, 16, 31, 32, 63, 65, 100, 255, 256]
    n = 14 if quick else 90
    for i in range(n):
        coin = gen.ALL_COINS[i % 8]; kl = keylens[i % len(keylens)]
        key = bytes(kl) if i % 9 == 4 else gen.rb(r, kl)
        if i % 9 == 1: k_ = bytearray(key); k_[r.randrange(kl)] = 0; key = bytes(k_)                       # one zero byte inside an otherwise random key
        if i % 9 == 6: kl = max(kl, 12); key = bytes(8) + bytes(x | 1 for x in gen.rb(r, kl - 8))             # first 8 bytes zero, the rest not
        if i % 9 == 8: key = bytes(kl - 1) + b'\x5a'                                                          # all zero but the last byte
        kind = ['shuffled', 'bigfield', 'boundary', 'huge'][i % 4]
        if kind == 'huge' and i % 8 == 3: kl = [3, 5, 12, 13, 6, 7][(i // 8) % 6]; key = gen.rb(r, kl)
        c = Case('x%d' % i, coin); c.xor = key; c.meta.update(kind=kind, keylen=kl, zero=(key == bytes(kl)))
        if kind == 'shuffled':
            blocks = gen.random_chain(r, coin, r.randrange(4, 9), max_tx=3); order = list(range(len(blocks))); r.shuffle(order); offs = {}
            for h in order: offs[h] = (h % 2, c.put_block(h % 2, blocks[h].raw, pad=gen.rb(r, r.randrange(0, 13))))
            for h in range(len(blocks)): c.add_record(blocks[h], h, *offs[h])
            c.meta['backward'] = sum(1 for h in range(1, len(blocks)) if offs[h][0] == offs[h - 1][0] and offs[h][1] < offs[h - 1][1])
        elif kind == 'bigfield':
            blocks = big_field_chain(r, coin, [[70000, 32768, 40000, 131073][(i // 4) % 4], 100, r.choice([32767, 32769, 65536, 70000])]); c.simple_layout(blocks); c.meta['maxfield'] = 131073
        elif kind == 'boundary':
            blocks = gen.random_chain(r, coin, 4, max_tx=2); offs = {}
            for h, b in enumerate(blocks):
                target = 32768 * (h + 1) + r.choice([-3, -1, 0, 1, 3]); cur = sum(len(d) for o, d in c.files.get(0, []))
                offs[h] = (0, c.put_block(0, b.raw, pad=bytes(max(0, target - 8 - cur))))
            order = [2, 0, 3, 1]
            for h in range(4): c.add_record(blocks[order[h]], h, *offs[order[h]])   # height order != physical order: backward seeks
            blocks2 = [blocks[order[h]] for h in range(4)]
            # heights need a consistent chain only with --verify; not used here
            c.meta['backward'] = 2
        else:
            blocks = gen.random_chain(r, coin, 5, max_tx=2); offs = {}
            spots = [8, 2**32 + 1000003, 70001, 5 * 2**30 + 77, 2**32 + 12]
            for h, b in enumerate(blocks): offs[h] = (0, c.put_block(0, b.raw, at=spots[h] - 8 if h else None))
            # blocks must not overlap: spots are far apart
            for h in range(5): c.add_record(blocks[h], h, *offs[h])
            c.meta['huge'] = True
        if i < 4 or (not quick and i % 9 == 6):
            # the zero prefix of a key is a dimension of its own: on a plain layout (every file begins with a block, i.e. with the magic at offset 0) a key whose first
            # z bytes are zero leaves the first z bytes of every file as they are in plaintext - whatever the file starts with, the key applies to the whole file
            z = [4, 8, 1, 5][i % 4]; kz = [8, 12, 8, 16][i % 4]
            cz = Case('xz%d' % i, gen.ALL_COINS[(i * 3) % 8]); cz.xor = bytes(z) + bytes(x | 1 for x in gen.rb(r, kz - z))
            cz.simple_layout(gen.random_chain(r, cz.coin, 5, max_tx=2)); cz.meta.update(kind='zero-prefix', keylen=kz, zero=False, zprefix=z, cbs=['csv', 'stats'], fixed=True); cases.append(cz)
            pz = copy.copy(cz); pz.id = cz.id + 'p'; pz.xor = None; pz.meta = dict(cz.meta, plain=True); cases.append(pz)
        if kind == 'shuffled' and i % 8 == 4: c.linked_files = [0]     # blk00000.dat is an absolute symbolic link into a directory that holds no xor.dat: the key of the data directory applies
        if i % 5 == 2: c.xor_link = 'abs' if i % 2 else 'rel'          # xor.dat is a symbolic link to a key file with another name
        c.verbosity = i % 3                                             # default, -v, -vv (debug output about the key must not matter)
        if kind == 'shuffled' and i % 8 == 0: c.verify = True; c.start = 1        # --verify --start 1 on an obfuscated, consistent chain
        c.meta['cbs'] = ['csv'] if (quick and i % 3) else ['csv', 'unspent', 'balances', 'opreturn', 'stats']
        cases.append(c)
        p = copy.copy(c); p.id = c.id + 'p'; p.xor = None; p.meta = dict(c.meta, plain=True, fixed=True); c.meta['fixed'] = True; cases.append(p)
    def nontrivial(c, m):
        if c.xor is None: return None
        if c.meta.get('backward') or c.meta.get('maxfield') or c.meta.get('huge') or c.meta.get('zprefix'): return (c.meta['kind'], c.meta['keylen'], c.meta['zero'])
    models, results = core.compare_cases(ck, cases, lambda c: c.meta['cbs'], nontrivial=nontrivial,
                                         sample=lambda c, m: dict(case=c.id, coin=c.coin, kind=c.meta['kind'], key=(c.xor.hex() if c.xor is not None else None), model_status=m['status'],
                                                                  backward_seeks=c.meta.get('backward', 0)))
    # obfuscated and plaintext runs of the model agree (sanity instance of C11_run_same)
    for c in cases:
        if c.xor is not None:
            a, b = models[c.id], models[c.id + 'p']
            if (a['status'], a['csv'], a['unspent'], a['opret']) != (b['status'], b['csv'], b['unspent'], b['opret']):
                ck.disagreement('model: obfuscated and plaintext directory differ on ' + c.id, '', c, in_domain=False)
        ck.count('kind:' + c.meta['kind']); ck.count('keylen:%d' % c.meta['keylen']) if c.xor is not None else None
    # ---- in-process: XorReader<BufReader<_>> against the Coq mirror ----
    if not run.hooks_ok(ck): return
    lines = []
    for i in range(150 if quick else 1500):
        size = r.choice([0, 1, 5, 40, 200, 1000]); data = gen.rb(r, size)
        key = r.choice(['-', gen.rb(r, r.choice([1, 2, 3, 5, 8, 13])).hex(), '00' * 8, 'ab00cd', '00' * 8 + gen.rb(r, 3).hex(), gen.rb(r, 3).hex() + '00' + gen.rb(r, 4).hex()])
        bufsz = r.choice([1, 2, 3, 7, 16, 64, 4096]); chunks = r.choice(['-', '1', '3,1', '2,5,1', '100'])
        ops = []; 
        for _ in range(r.randrange(1, 12)):
            if r.random() < 0.45: ops.append('s%d' % r.choice([0, 1, r.randrange(0, size + 3), max(0, size - 1)]))
            else: ops.append('r%d' % r.choice([0, 1, 2, 4, r.randrange(0, 40), bufsz, bufsz + 1, size]))
        lines.append('%s %s %d %s %s' % (data.hex() if data else '-', key, bufsz, chunks, ','.join(ops)))
    impl = run.hook_lines(ck.tools, 'xor-reader', lines); mod = run.model_lines(ck.tools, ['xor ' + l for l in lines])
    for l, a, b in zip(lines, impl, mod):
        ck.evaluated(); ck.count('reader op sequences')
        # the mirror stops at the first failed read (as the parser does); compare up to and including the first E
        cut = lambda s: s.split(',')[:(s.split(',').index('E') + 1) if 'E' in s.split(',') else None]
        if cut(a) != cut(b): ck.disagreement('XorReader op sequence', 'req=%s impl=%s model=%s' % (l[:300], a[:300], b[:300]), None, in_domain=True, extra_replay='xor ' + l)
        elif ('s' in l.split()[-1]) and l.split()[1] != '-': ck.nontrivial(('reader', l.split()[2], l.split()[3], len(l.split()[1])))

def replay(ck, path):
    rc = 0
    for line in open(path):
        if line.startswith('xor ') and len(line.split()) == 6:
            a = run.hook_lines(ck.tools, 'xor-reader', [line[4:].strip()])[0]; b = run.model_lines(ck.tools, [line.strip()])[0]
            print('replay reader: impl=%s model=%s' % (a[:400], b[:400])); rc |= (a != b and not ('E' in a.split(',') and a.split(',')[:a.split(',').index('E') + 1] == b.split(',')[:a.split(',').index('E') + 1]))
    if any(l.startswith('case ') for l in open(path)):
        c = load_case(path); m = run.run_model(ck.tools, [c], ['csv', 'unspent', 'balances', 'opreturn', 'stats'])[c.id]
        for cb, diffs, r in run.compare_case(ck.tools, c, m, ['csv']):
            print('replay %s: %s' % (cb, 'agrees' if not diffs else 'DIFFERS: ' + ' | '.join(diffs)[:1500])); rc |= bool(diffs)
    return int(rc)
