"""C13 — output depends only on data directory and options, never on scheduling or reruns.
Level `other`: the order-independence of an indexed collect and the pre-state independence of the output protocol are Coq theorems;
rayon's scheduler, the kernel and rusty-leveldb are exercised (thread counts, contention, reruns), not proved."""
import os, hashlib, subprocess, shutil, copy, struct
from ..chain import *
from .. import gen, core, run
THEOREMS = core.pinned('C13')
LEVEL = 'other'

def wide_chain(r, coin, nblocks, quick=True):
    """blocks with hundreds of transactions / outputs so that the parallel iterators actually split the work; the same 20-byte hash under P2PKH, P2PK and P2SH templates next to each other"""
    blocks = []; prev = b'\x00' * 32
    hashes = [gen.rb(r, 20) for _ in range(12)]
    for h in range(nblocks):
        txs = [coinbase_tx(h, [(50 * 10**8, P2PKH(hashes[0]))])]
        for j in range(40 if quick else r.choice([40, 120])):
            outs = []
            for k in range(r.choice([1, 2, 2, 36]) if quick else r.choice([1, 2, 60])):
                hh = r.choice(hashes); outs.append((r.randrange(10**6), r.choice([P2PKH(hh), P2SH(hh), b'\x6a' + push(gen.utf8_text(r, 12)), P2PKH(hh)])))
            txs.append(Tx([(gen.rb(r, 32), 0, b'', 0)], outs))
        b = Block(prev, txs, time=1300000000 + h); blocks.append(b); prev = b.hash
    return blocks

def digest_dir(d):
    out = {}
    for n in sorted(os.listdir(d)):
        p = os.path.join(d, n)
        if os.path.isfile(p): out[n] = hashlib.sha256(open(p, 'rb').read()).hexdigest()
    return out

def dump_index(ck, dd):
    # the dumper iterates the database with rusty-leveldb too: same possible spin as in run.run_impl, same remedy
    for attempt in range(3):
        try: return subprocess.run([ck.tools.ldbw, 'dump', os.path.join(dd, 'index')], capture_output=True, timeout=120).stdout
        except subprocess.TimeoutExpired: run.RETRIES.append(('ldbw dump', dd, attempt))
    return b''

def explore(ck):
    r = ck.rng; quick = ck.tier == 'quick'
    ck.rule = ('the real binary on chains with 40-120 transactions per block and up to 60 outputs per transaction (the same hash under P2PKH and P2SH side by side), RAYON_NUM_THREADS in {1,2,3,8,16,64}, '
               'repeated runs sharing ONE data directory (index reopened) and ONE dump folder pre-seeded with stale *.tmp files longer than the new output and with earlier results, under CPU contention; sequences in which the data directory at one path is replaced by another chain after a failed or successful run (shared TMPDIR); plus a 48-block index with stale siblings at every third height and a range whose unspent/balances result is header-only, a --verify chain with blocks of 192 and 320 transactions, simplestats -vv with a slow and a fast stdout consumer, a run over 0..20 followed by --start 21 into the same dump folder; '
               'every run must equal the single model output (csvdump byte for byte, simplestats, opreturn lines, unspent/balances row sets); SHA-256 of blk*.dat / xor.dat and the dumped key/value '
               'set of the index must be the same before and after. Non-trivial: a block with >= 32 transactions or a transaction with >= 32 outputs; distinct by (case, threads, callback, run number).')
    ck.explanation = ('Proved in Coq: writing result i into slot i in any completion order equals the sequential map (collect_any_order), the model functions are pure, and the output protocol does not '
                      'depend on the initial dump-folder content (success_complete: for any initial folder, after exit 0 each final file holds exactly what was handed to its writer). Not proved, exercised: '
                      'rayon scheduling, the kernel, rusty-leveldb re-opening its log/manifest. This run: see distribution / samples.')
    cases = []
    for k in range(2 if quick else 6):
        coin = ['litecoin', 'bitcoin', 'dogecoin', 'testnet3', 'namecoin', 'unobtanium'][k]
        c = Case('p%d' % k, coin).simple_layout(wide_chain(r, coin, 2 if quick else 3, quick)); c.xor = gen.rb(r, 8) if k % 2 else None
        cases.append(c)
    # an index with stale siblings (data present, hash sorting before the active block: the active block wins) at every third height of a 48-block chain:
    # which record survives must not depend on how a parallel loader would split the records
    fb = gen.random_chain(r, 'bitcoin', 48, max_tx=1, script_kinds=['p2pkh', 'opret_small']); fc = Case('fork13', 'bitcoin').simple_layout(fb)
    for h in range(2, 48, 3):
        for _ in range(3000):
            sb = Block(fb[h].prev, [coinbase_tx(h, [(3, P2PKH(gen.rb(r, 20)))], extra=gen.rb(r, 4))], time=r.getrandbits(31), nonce=r.getrandbits(32))
            if sb.hash < fb[h].hash: off = fc.put_block(1, sb.raw); fc.add_record(sb, h, 1, off, status=0x1d); break
    cases.append(fc)
    # a range without any address-bearing output: unspent / balances consist of the header only and must still replace an earlier result of the same name
    from . import c07
    cases.append(Case('noaddr13', 'litecoin').simple_layout(c07.noaddr_history(r, 4)[0]))
    # --verify over blocks of 192 and 320 transactions (merkle levels wide enough for any parallel hashing scheme to split them), real genesis block
    from . import c09
    vb = c09.chain_with_counts(r, 'bitcoin', [1, 5, 320, 192, 2], True); vc = Case('verify13', 'bitcoin').simple_layout(vb); vc.verify = True; cases.append(vc)
    models = run.run_model(ck.tools, cases, ['csv', 'unspent', 'balances', 'opreturn', 'stats'])
    threads = [1, 2, 3, 8, 16, 64]
    for c in cases:
        m = models[c.id]
        dd = os.path.join(ck.tools.work, 'dd13_' + c.id); c.materialise(dd, ck.tools.ldbw)
        before = digest_dir(dd); idx_before = dump_index(ck, dd)
        out = os.path.join(ck.tools.work, 'out13_' + c.id); os.makedirs(out, exist_ok=True)
        # stale files: longer than anything this run writes, and earlier results under the final names
        stale = {}
        last = m['status'][2]
        for stem in sum((run.stems(cb_) for cb_ in ('csv', 'unspent', 'balances')), []):
            stale['%s.csv.tmp' % stem] = b'STALE;' * 400000
            stale['%s-0-%s.csv' % (stem, last)] = b'old result\n' * 1000          # an earlier result under the same final name: must be replaced
            stale['%s-0-99.csv' % stem] = b'unrelated earlier result\n'              # another run's result: must stay untouched
        # background load
        load = [subprocess.Popen(['sh', '-c', 'while :; do :; done']) for _ in range(8)]
        try:
            n = 0
            for rep in range(2 if quick else 4):
                for th in (threads if not quick else threads[rep::2]):
                    for cb in ['csv', 'unspent', 'balances', 'opreturn', 'stats']:
                        if quick and cb in ('balances',) and th not in (1, 8): continue
                        for name, data in stale.items():
                            with open(os.path.join(out, name), 'wb') as f: f.write(data)
                        if rep == 1: c.prior_coin = core.PRIOR.get(c.coin, 'litecoin')      # second round: an earlier run of the same range under another --coin has left results of the same names (and mostly the same lengths)
                        rr = run.run_impl(ck.tools, c, cb, datadir=dd, outdir=out if cb in run.NEEDS_DIR else None, env={'RAYON_NUM_THREADS': str(th)})
                        if rep == 1: del c.prior_coin
                        # only the files of this callback are compared
                        stems = run.stems().get(cb, [])
                        touched = [nm for nm, d in rr.files.items() if nm.endswith('-0-99.csv') and d != stale[nm]]
                        if touched: ck.disagreement('unrelated files of the dump folder were modified', str(touched), c, in_domain=True)
                        rr.files = {nm: d for nm, d in rr.files.items() if any(nm.startswith(s + '-') or nm == s + '.csv.tmp' for s in stems) and not nm.endswith('-0-99.csv')
                                    and not (nm.endswith('.tmp') and d == stale.get(nm))}
                        diffs = run.CMP[cb](rr, m, c)
                        ck.evaluated(); ck.count('threads:%d' % th); ck.count('callback:' + cb); n += 1
                        ck.nontrivial((c.id, th, cb, rep))
                        if diffs: ck.disagreement('%s with %d threads, run %d on %s' % (cb, th, rep, c.id), '\n'.join(diffs), c, in_domain=True)
        finally:
            for p in load: p.kill()
        after = digest_dir(dd); idx_after = dump_index(ck, dd)
        if before != after: ck.disagreement('blk*.dat / xor.dat modified by the runs on ' + c.id, '%s' % [k for k in before if before[k] != after.get(k)], c, in_domain=True)
        if idx_before != idx_after or not idx_before: ck.disagreement('key/value content of the block index changed on ' + c.id, 'before %d bytes, after %d bytes' % (len(idx_before), len(idx_after)), c, in_domain=True)
        ck.sample(dict(case=c.id, coin=c.coin, xor=bool(c.xor), runs=n, tx_per_block=[len(l) for l in [m['csv'][1]]], files_unchanged=(before == after), index_pairs=idx_before.count(b'\n')))
        shutil.rmtree(dd, ignore_errors=True); shutil.rmtree(out, ignore_errors=True)

    two_legs(ck, next(c for c in cases if c.id == 'fork13'))
    path_reuse(ck)
    slow_consumer(ck)

def path_reuse(ck):
    """sequences of runs over ONE data directory path and ONE temp directory, the content at the path being replaced in between: (1) a data directory A whose index has been written in several
    LevelDB sessions (high file numbers) - intact, or with a truncated record so that the run fails while loading the index; (2) the directory is removed and an unrelated chain B, written in
    one session, is put at the same path; (3) the run over B must give what B gives anywhere else (the model's output) - nothing of the earlier run may survive outside the dump folder"""
    r = ck.rng; root = os.path.join(ck.tools.work, 'reuse13'); P = os.path.join(root, 'node', 'blocks'); tmp = os.path.join(root, 'tmp')
    for variant in range(3 if ck.tier == 'quick' else 9):
        coin = gen.ALL_COINS[(variant * 3 + ck.seed) % 8]; shutil.rmtree(root, ignore_errors=True); os.makedirs(tmp)
        A = Case('reuseA%d' % variant, coin).simple_layout(gen.random_chain(r, coin, 6, max_tx=2))
        if variant % 3 == 0: k_, v_ = A.records[3]; A.records[3] = (k_, v_[:len(v_) // 2])          # truncated record: the index cannot be loaded
        A.materialise(P, ck.tools.ldbw)
        if variant % 3 == 2:
            with open(os.path.join(P, 'index', 'notes.txt'), 'wb') as f: f.write(b'stray file inside the index directory\n')
        for sess in range(3):       # further sessions: the same records again, one session each (file numbers grow; the key/value content stays the same)
            subprocess.run([ck.tools.ldbw, os.path.join(P, 'index')], input='\n'.join(k.hex() + ' ' + v.hex() for k, v in A.records[sess::3]).encode(), capture_output=True, timeout=120)
        cb = ['csv', 'unspent', 'balances'][variant % 3]
        ra = run.run_impl(ck.tools, A, cb, datadir=P, env={'TMPDIR': tmp})
        B = Case('reuseB%d' % variant, coin).simple_layout(gen.random_chain(r, coin, 8, max_tx=2)); B.meta['fixed'] = True
        mB = run.run_model(ck.tools, [B], ['csv', 'unspent', 'balances'])[B.id]
        B.materialise(P, ck.tools.ldbw)
        rb_ = run.run_impl(ck.tools, B, cb, datadir=P, env={'TMPDIR': tmp})
        ck.evaluated(); ck.count('runs over a path that held another data directory before (first run %s)' % ('failed' if ra.rc != 0 else 'succeeded')); ck.nontrivial(('reuse', variant))
        diffs = run.CMP[cb](rb_, mB, B)
        left = sorted(os.listdir(tmp))
        if left: diffs.append('files left in the temp directory: %s' % left[:5])
        if diffs: ck.disagreement('%s over a data directory put at a path where another one stood during an earlier %s run' % (cb, 'failed' if ra.rc != 0 else 'successful'), '\n'.join(diffs)[:1500], B, in_domain=True)
    shutil.rmtree(root, ignore_errors=True)

def two_legs(ck, base):
    """a sequence of runs sharing one dump folder: heights 0..20 first, then --start 21 into the same folder; the second result must be what it is in a fresh folder"""
    import copy
    leg1 = copy.copy(base); leg1.id = base.id + '_leg1'; leg1.meta = dict(base.meta); leg1.start = 0; leg1.end = 20      # (--end 0 would be rejected: --start must be lower than --end)
    leg2 = copy.copy(base); leg2.id = base.id + '_leg2'; leg2.meta = dict(base.meta); leg2.start = 21; leg2.end = None
    m2 = run.run_model(ck.tools, [leg2], ['unspent', 'balances', 'csv'])[leg2.id]
    for cb in ('unspent', 'balances', 'csv'):
        out = os.path.join(ck.tools.work, 'legs13_' + cb); os.makedirs(out, exist_ok=True)
        r1 = run.run_impl(ck.tools, leg1, cb, outdir=out); left = dict(r1.files)
        if r1.rc != 0 or not left: ck.disagreement('first leg of the two-leg sequence failed', 'rc=%s' % r1.rc, leg1, in_domain=False)
        r2 = run.run_impl(ck.tools, leg2, cb, outdir=out)
        ck.evaluated(); ck.count('two-leg sequences in one dump folder'); ck.nontrivial(('legs', cb))
        changed = [n for n, d in left.items() if r2.files.get(n) != d and not n.endswith('.tmp')]
        r2.files = {n: d for n, d in r2.files.items() if n not in left}
        diffs = run.CMP[cb](r2, m2, leg2)
        if changed: diffs.append('result files of the first run were modified by the second: %s' % changed)
        if diffs: ck.disagreement('%s --start 21 after a run over 0..20 in the same dump folder' % cb, '\n'.join(diffs)[:1500], leg2, in_domain=True)
        shutil.rmtree(out, ignore_errors=True)

def slow_consumer(ck):
    """simplestats -vv on a chain of several hundred blocks with stdout drained slowly (1 KiB every few milliseconds): the figures must not depend on how fast the consumer reads"""
    import threading, time as _t
    r = ck.rng; quick = ck.tier == 'quick'; hung = False
    n = 1500 if quick else 4000
    blocks = []; prev = b'\x00' * 32
    for h in range(n):
        b = Block(prev, [coinbase_tx(h, [(50 * 10**8, P2PKH(gen.rb(r, 20)))], extra=struct.pack('<I', h))], time=1300000000 + 600 * h); blocks.append(b); prev = b.hash
    c = Case('slow13', 'bitcoin').simple_layout(blocks)
    m = run.run_model(ck.tools, [c], ['stats'])[c.id]
    dd = os.path.join(ck.tools.work, 'dd13_slow'); c.materialise(dd, ck.tools.ldbw)
    for speed in ('fast', 'slow', 'slow-retry'):
        if speed == 'slow-retry':
            if not hung: break
            speed = 'slow'
        hung = False
        p = subprocess.Popen([ck.tools.bin, '-d', dd, '-vv'] + c.args() + ['simplestats'], stdout=subprocess.PIPE, stderr=subprocess.PIPE, env=dict(os.environ, RAYON_NUM_THREADS='4'))
        chunks = []; err = []
        if speed == 'slow':
            import fcntl
            try: fcntl.fcntl(p.stdout.fileno(), 1031, 4096)          # F_SETPIPE_SZ: a small pipe, so that the writer side really has to wait for the reader
            except OSError: pass
        te = threading.Thread(target=lambda: err.append(p.stderr.read())); te.start()
        t_start = _t.time()
        watchdog = threading.Timer(240, p.kill); watchdog.start()      # see run.run_impl: the index load can spin in rusty-leveldb; a killed run is repeated once
        while True:
            d = os.read(p.stdout.fileno(), 1024 if speed == 'slow' else 1 << 20)
            if not d: break
            chunks.append(d)
            if speed == 'slow': _t.sleep(0.008)
        p.wait(); te.join(); watchdog.cancel()
        if p.returncode == -9 and _t.time() - t_start > 200:
            hung = True; run.RETRIES.append(('slow13', 'stats', speed)); continue
        rr = run.ImplResult(); rr.rc = p.returncode; rr.stdout = b''.join(chunks); rr.stderr = err[0] if err else b''; rr.files = {}; rr.last = None; rr.error_height = None; rr.error_kind = None
        diffs = run.cmp_stats(rr, m, c); ck.evaluated(); ck.count('slow/fast stdout consumer runs'); ck.nontrivial(('slow13', speed))
        if diffs: ck.disagreement('simplestats -vv with a %s stdout consumer on %d blocks' % (speed, n), '\n'.join(diffs)[:1500], c, in_domain=True)
    shutil.rmtree(dd, ignore_errors=True)
