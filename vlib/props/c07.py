"""C07 — unspentcsvdump lists exactly the unspent, address-bearing outputs of the range.  (also the history generator of C08)"""
import itertools
from ..chain import *
from .. import gen, core, run
THEOREMS = core.pinned('C07')

def history(r, coin, nblocks, few_addresses=False, many_outputs=False, wide=False):
    """random spend history. Transactions are generated in dependency order and then placed in an arbitrary block order, so inputs may
    reference outputs of earlier blocks, of earlier txs of the same block, of LATER txs (forward references: they spend nothing that exists
    yet), unknown outpoints, or the same outpoint twice. Returns (blocks, tags)."""
    tags = set()
    keys = [gen.rb(r, 20) for _ in range(3 if few_addresses else 12)]
    pk = b'\x02' + gen.rb(r, 32)
    def script():
        k = r.randrange(12)
        if few_addresses:
            if k < 5: return P2PKH(r.choice(keys))
            if k < 7: return b'\x21' + pk + b'\xac'                       # P2PK ...
            if k < 9: return P2PKH(hash160(pk))                           # ... and P2PKH of the same key: same address
            if k < 10: return P2SH(r.choice(keys))
            return gen.script_zoo(r, r.choice(['opret_small', 'random', 'multisig', 'empty']))[1]
        if k < 6: return gen.script_zoo(r, r.choice(['p2pkh', 'p2sh', 'p2pk33', 'p2pk65', 'p2wpkh', 'p2wsh', 'p2tr', 'witness_other']))[1]
        return gen.script_zoo(r)[1]
    ntx = nblocks * r.randrange(1, 4) if not wide else nblocks * r.randrange(36, 48)      # wide: blocks of 36..47 transactions (forward references and re-created outpoints inside a big block)
    txs = []; pool = []
    for j in range(ntx):
        ins = []
        for _ in range(r.randrange(1, 4)):
            c = r.random()
            if pool and c < 0.7: op = r.choice(pool); 
            elif pool and c < 0.8: op = r.choice(pool); tags.add('double_reference')
            elif pool and c < 0.9:
                # an outpoint that exists nowhere but is a near miss of a live one: same index, txid equal in the first or in the last 16 bytes, or differing in one bit
                t_, i_ = r.choice(pool); k_ = r.randrange(3)
                t2 = t_[:16] + gen.rb(r, 16) if k_ == 0 else gen.rb(r, 16) + t_[16:] if k_ == 1 else bytes([t_[0] ^ 1]) + t_[1:]
                op = (t2, i_); tags.add('near_miss_outpoint')
            else: op = (gen.rb(r, 32), r.randrange(3)); tags.add('unknown_outpoint')
            ins.append((op[0], op[1], b'', 0xffffffff))
        if txs and r.random() < 0.25:      # sweep: consecutive inputs spend ALL outputs of one earlier transaction in index order (address-less ones included, often first)
            ft = r.choice(txs[-6:]); ins = [(ft.txid, i2, b'', 0xffffffff) for i2 in range(min(len(ft.outputs), 6))]; tags.add('sweep')
            if r.random() < 0.3: ins.reverse()
        if pool and r.random() < 0.12:      # the null outpoint (00..00:ffffffff) as FIRST input of a transaction with further inputs: only a single-input transaction of that shape is a coinbase
            ins = [(b'\x00' * 32, 0xffffffff, b'', 0xffffffff)] + [(o_[0], o_[1], b'', 0xffffffff) for o_ in r.sample(pool, min(len(pool), r.randrange(1, 3)))]; tags.add('null_first_input')
        nout = r.choice([1, 2, 3, 4]) if not (many_outputs and j == 1) else r.choice([256, 257, 300]); 
        if nout > 255: tags.add('>255 outputs')
        outs = [(r.choice([0, 1, 5000, r.randrange(10**9)]), script()) for _ in range(nout)]
        if nout >= 2 and r.random() < 0.4: outs[0] = (outs[0][0], r.choice([b'\x6a\x02hi', b'', b'\x51', b'\x76\xa9\x14' + gen.rb(r, 19)])); tags.add('addressless_first')
        wd = None
        if r.random() < 0.15:      # over-long CompactSize encodings: the txid (and so every later reference to this transaction) commits to them
            wd = {'in': r.choice([3, 5, 9]), 'out': r.choice([3, 5, 9]), ('isl', 0): r.choice([3, 5, 9]), ('osl', 0): r.choice([3, 5, 9])}; tags.add('noncanonical_widths')
        t = Tx(ins, outs, widths=wd); txs.append(t); pool += [(t.txid, i) for i in range(nout)]
        if nout > 255: pool += [(t.txid, 256), (t.txid, 0), (t.txid, 1)]
    order = list(range(ntx))
    if wide or r.random() < 0.5: r.shuffle(order); tags.add('shuffled_order')
    blocks = []; prev = b'\x00' * 32; per = [order[i::nblocks] for i in range(nblocks)]
    dup_cb = Tx([(b'\x00' * 32, 0xffffffff, b'\x01\x02', 0xffffffff)], [(50 * 10**8, script() if not few_addresses else P2PKH(keys[0]))]) if r.random() < 0.4 else None
    for h in range(nblocks):
        if dup_cb is not None and h in (0, nblocks - 1): cb = dup_cb; tags.add('duplicate_txid')
        else: cb = coinbase_tx(h, [(50 * 10**8, script())], extra=gen.rb(r, 2))
        b = Block(prev, [cb] + [txs[j] for j in per[h]], time=1300000000 + h); blocks.append(b); prev = b.hash
    return blocks, tags

def oracle_unspent(csv_model, first_height=None):
    """the property's definition evaluated over the csvdump rows of the model (tx_in / tx_out in chain order)"""
    # rows: transactions (txid;hashBlock;..), tx_in (txid;prev;idx;..), tx_out (txid;idx;value;script;address), blocks (hash;height;..)
    height_of_block = {l.split(';')[0]: int(l.split(';')[1]) for l in csv_model[0]}
    tx_order = [(l.split(';')[0], height_of_block[l.split(';')[1]]) for l in csv_model[1]]
    ins = {}; outs = {}
    # rows of one txid are contiguous per occurrence; duplicates (same txid twice) must be kept apart: walk in order
    i_in = 0; i_out = 0; utxo = {}
    for txid, h in tx_order:
        while i_in < len(csv_model[2]) and csv_model[2][i_in].split(';')[0] == txid:
            f = csv_model[2][i_in].split(';'); utxo.pop((f[1], int(f[2])), None); i_in += 1
            if i_in < len(csv_model[2]) and csv_model[2][i_in - 1].split(';')[0] != csv_model[2][i_in].split(';')[0]: break
        k = 0
        while i_out < len(csv_model[3]) and csv_model[3][i_out].split(';')[0] == txid and int(csv_model[3][i_out].split(';')[1]) == k:
            f = csv_model[3][i_out].split(';')
            if f[4]: utxo[(txid, int(f[1]))] = (h, f[2], f[4])
            i_out += 1; k += 1
    return sorted('%s;%d;%d;%s;%s' % (t, i, h, v, a) for (t, i), (h, v, a) in utxo.items())

def refund_history(r, variant):
    """address A loses its last unspent output, is funded again (before or after a never-seen address appears), then a brand-new address B is paid while A still owns outputs;
    interleaved with an address whose outputs are all spent at the end"""
    A, B, C, D = (P2PKH(gen.rb(r, 20)) for _ in range(4))
    t1 = Tx([(gen.rb(r, 32), 0, b'', 0)], [(20 * 10**8, A), (5, C)])
    t2 = Tx([(t1.txid, 0, b'', 0)], [(20 * 10**8, C)])                               # A emptied
    t3 = Tx([(t2.txid, 0, b'', 0)], [(12 * 10**8, A), (8 * 10**8, A if variant % 2 else C)])      # A funded again, no new address in between
    t4 = Tx([(t3.txid, 1, b'', 0)], [(50 * 10**8, B), (1, D)] if variant < 2 else [(1, D), (50 * 10**8, B)])   # brand-new addresses while A still owns outputs
    t5 = Tx([(t4.txid, 1 if variant < 2 else 0, b'', 0)], [(0, b'\x6a\x01x')])      # D emptied for good
    seq = [t1, t2, t3, t4, t5]; blocks = []; prev = b'\x00' * 32
    cuts = [[0, 2, 4, 5], [0, 1, 2, 3, 4, 5], [0, 5], [0, 3, 5]][variant % 4]
    for h in range(len(cuts) - 1):
        b = Block(prev, [coinbase_tx(h, [(50 * 10**8, C)], extra=gen.rb(r, 2))] + seq[cuts[h]:cuts[h + 1]], time=1300000000 + h); blocks.append(b); prev = b.hash
    return blocks, {'refund', 'variant%d' % variant}

def noaddr_history(r, nb):
    """no output of the range bears an address: the dumps consist of the header only (and must still be written)"""
    blocks = []; prev = b'\x00' * 32
    for h in range(nb):
        txs = [coinbase_tx(h, [(50 * 10**8, b'\x6a\x02hi')], extra=gen.rb(r, 2))] + [Tx([(gen.rb(r, 32), 0, b'', 0)], [(5, r.choice([b'', b'\x51', b'\x6a', gen.rb(r, 7)]))]) for _ in range(r.randrange(0, 3))]
        b = Block(prev, txs, time=1300000000 + h); blocks.append(b); prev = b.hash
    return blocks, {'no_address_at_all'}

def long_history(r, nb, variant):
    """a long, thin chain (one coinbase per block, a few spends): byte-identical coinbase transactions - so identical txids - more than 100 and more than 200 blocks apart,
    the earlier one still unspent / already spent when the later one appears, and the re-created output spent later together with a young one"""
    blocks = []; prev = b'\x00' * 32; cb = {}
    dups = {104 + variant: 3, 150: 7, 205 + variant: 50}
    for h in range(nb):
        t = cb[dups[h]] if h in dups and dups[h] in cb else coinbase_tx(h, [(50 * 10**8 + h, P2PKH(bytes([h % 251 + 1]) * 20))], extra=gen.rb(r, 2)); cb[h] = t; txs = [t]
        if h == 60: txs.append(Tx([(cb[50].txid, 0, b'', 0)], [(7, P2PKH(b'\xee' * 20))]))                                   # the first copy of the coinbase of block 50 is spent long before its twin appears
        if h == 160: txs.append(Tx([(cb[7].txid, 0, b'', 0), (cb[159].txid, 0, b'', 0)], [(9, P2PKH(b'\xef' * 20))]))       # the re-created output (heights 7 and 150) is spent together with a young one
        if h % 37 == 5 and h > 5: txs.append(Tx([(cb[h - 4].txid, 0, b'', 0)], [(h, P2PKH(gen.rb(r, 20))), (1, b'\x6a\x01x')]))
        b = Block(prev, txs, time=1300000000 + h); blocks.append(b); prev = b.hash
    return blocks, {'long_chain', 'duplicate_txid_100+_blocks_apart'}

def make_cases(ck, n, few=False):
    r = ck.rng; cases = []
    for i in range(n):
        coin = gen.ALL_COINS[i % 8]; nb = r.randrange(2, 7)
        blocks, tags = history(r, coin, nb if i % 10 != 7 else 2, few_addresses=few, many_outputs=(i % 6 == 5), wide=(i % 10 == 7))
        if i % 10 == 7: nb = 2; tags.add('wide_blocks')
        if i % 10 == 4: blocks, tags = refund_history(r, i // 10); nb = len(blocks)
        if i % 10 == 9 and i < 20: blocks, tags = noaddr_history(r, nb)
        if i % 10 == 2 and i < 20: nb = [212, 108][i // 10]; blocks, tags = long_history(r, nb, i // 10)
        c = Case(('b' if few else 'u') + str(i), coin).simple_layout(blocks)
        if 'long_chain' in tags: c.start = i // 10
        elif i % 3 == 2 and 'refund' not in tags: c.start = r.randrange(0, nb); c.end = r.choice([None, r.randrange(c.start + 1, nb + 1)]); tags.add('range')
        if i % 10 == 6 and 'refund' not in tags:
            # the same history indexed at heights around 2^32 (creation heights are 64-bit in the dump)
            H0 = 2**32 - 2; c = Case(c.id, coin).simple_layout(blocks, start_height=H0); c.start = H0 + (1 if nb > 2 else 0); c.end = None; tags.add('heights>=2^32')
        if i % 4 == 1: c.verbosity = 1 + (i // 4) % 2; tags.add('-v' * c.verbosity if c.verbosity == 1 else '-vv')
        c.meta['tags'] = sorted(tags); cases.append(c)
    return cases

def small_histories(r, limit):
    """bounded-exhaustive: 2 blocks, block 1 = coinbase + two txs in both orders, each tx has one input chosen from a fixed pool
    {coinbase0:0, A:0, B:0, unknown} and one or two outputs (address-bearing or not)"""
    out = []
    cb0 = coinbase_tx(0, [(50, P2PKH(b'\x01' * 20))])
    pool_names = ['cb0', 'A', 'B', 'unknown']
    for ia, ib, oa, ob, swap in itertools.product(pool_names, pool_names, [1, 2], [(True,), (False,)], [False, True]):
        if ia == 'A' or ib == 'B': continue                                    # a tx cannot reference itself
        if ia == 'B' and ib == 'A': continue                                   # cyclic
        def mk(inp, nout, addr, other):
            ref = {'cb0': (cb0.txid, 0), 'unknown': (b'\x77' * 32, 0)}
            if other is not None: ref[other[0]] = (other[1].txid, 0)
            return Tx([(ref[inp][0], ref[inp][1], b'', 0)], [(7 + k, P2PKH(bytes([k + 2]) * 20) if (addr or k) else b'\x6a\x01\x00') for k in range(nout)])
        if ia == 'B': B = mk(ib, 1, ob[0], None); A = mk(ia, oa, True, ('B', B))
        else: A = mk(ia, oa, True, None); B = mk(ib, 1, ob[0], ('A', A))
        order = [B, A] if swap else [A, B]
        b0 = Block(b'\x00' * 32, [cb0]); b1 = Block(b0.hash, [coinbase_tx(1, [(50, P2PKH(b'\x09' * 20))])] + order)
        out.append(([b0, b1], 'A<-%s B<-%s outsA=%d addrB=%s order=%s' % (ia, ib, oa, ob[0], 'BA' if swap else 'AB')))
    r.shuffle(out)
    return out[:limit]

def explore(ck, cb='unspent', few=False):
    r = ck.rng; quick = ck.tier == 'quick'
    ck.rule = ('random spend histories (fan-in/out, same-block spends, forward references to outputs of later transactions, several inputs on one tx, blocks of 36..47 transactions in arbitrary order, the null outpoint as first of several inputs, transactions with over-long CompactSize encodings that are spent later, sweeps of all outputs of one transaction by consecutive inputs (address-less output first), unknown outpoints (random, and near misses of live ones: txid equal in 16 bytes or all but one bit, same index), double references, '
               'address-less outputs of every kind, ranges without any address-bearing output (header-only dump), spend-to-empty / refund / brand-new-address sequences, zero values, chains of 108 / 212 blocks with identical txids more than 100 and 200 blocks apart (earlier copy unspent / spent / re-created output spent with a young one), duplicate coinbase txids at different heights, > 255 outputs) x ranges (also at heights around 2^32, and as the second of two legs dumped into one folder) x 8 coins, plus bounded-exhaustive two-block histories over a '
               'fixed outpoint pool; the row set of the dump is compared with the model and with the property\'s definition evaluated over the csvdump rows. '
               'Non-trivial: >= 1 in-range spend of an in-range output; distinct by history.')
    cases = make_cases(ck, 30 if quick else 250, few=few)
    for k, (blocks, desc) in enumerate(small_histories(r, 40 if quick else 400)):
        c = Case('e%d' % k, 'bitcoin').simple_layout(blocks); c.meta['tags'] = ['exhaustive', desc]; cases.append(c)
    cbs = [cb, 'csv']
    def nontrivial(c, m):
        created = {(l.split(';')[0], l.split(';')[1]) for l in m['csv'][3] if l.split(';')[4]}
        spent = {(l.split(';')[1], l.split(';')[2]) for l in m['csv'][2]}
        return c.id if created & spent else None
    models, results = core.compare_cases(ck, cases, lambda c: cbs, nontrivial=nontrivial,
                                         sample=lambda c, m: dict(case=c.id, coin=c.coin, tags=c.meta['tags'], start=c.start, end=c.end, unspent_rows=len(m['unspent']), totals=m['unspenttotals']))
    # a long chain dumped in two legs into ONE dump folder: leg 1 = heights 0..s-1, leg 2 = --start s. The second leg's result must be what it is in a fresh folder
    # (outputs created below s are outside its range, whatever an earlier leg left next to it)
    import shutil, os
    for c in [x for x in cases if 2 <= x.start < 2**31][:6]:      # (a first leg 0..0 cannot be requested: --end must exceed --start)
        m = models[c.id]
        if m['status'][0] != 'done': continue
        out = os.path.join(ck.tools.work, 'legs_' + c.id); os.makedirs(out, exist_ok=True)
        leg1 = Case(c.id + '_leg1', c.coin); leg1.files = c.files; leg1.records = c.records; leg1.xor = c.xor; leg1.name_of = c.name_of; leg1.end = c.start - 1
        r1 = run.run_impl(ck.tools, leg1, cb, outdir=out)
        left = dict(r1.files)
        if r1.rc != 0 or not left: ck.count('two-leg: first leg produced nothing'); shutil.rmtree(out, ignore_errors=True); continue
        r2 = run.run_impl(ck.tools, c, cb, outdir=out)
        ck.evaluated(); ck.count('two-leg runs into one dump folder'); ck.nontrivial(('legs', c.id))
        changed = [n for n, d in left.items() if r2.files.get(n) != d and not n.endswith('.tmp')]
        r2.files = {n: d for n, d in r2.files.items() if n not in left}
        diffs = run.CMP[cb](r2, m, c)
        if changed: diffs.append('the first leg\'s result files were modified by the second leg: %s' % changed)
        if diffs: ck.disagreement('%s --start %d after an earlier leg 0..%d in the same dump folder (%s)' % (cb, c.start, c.start - 1, c.id), '\n'.join(diffs)[:1500], c, in_domain=True)
        shutil.rmtree(out, ignore_errors=True)
    for c in cases:
        m = models[c.id]
        if m['status'][0] != 'done': continue
        want = oracle_unspent(m['csv'])
        if sorted(m['unspent']) != want:
            ck.disagreement('model unspent set differs from the definition over the csv rows on ' + c.id, 'only model=%s only spec=%s' % (sorted(set(m['unspent']) - set(want))[:3], sorted(set(want) - set(m['unspent']))[:3]), c, in_domain=False)
        for t in c.meta['tags']:
            if not t.startswith('A<-'): ck.count('tag:' + t)
