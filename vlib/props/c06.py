"""C06 — fork coins: scripts are tokenised by Bitcoin push rules and typed by template."""
from .. import core, gen
from . import c05
THEOREMS = core.pinned('C06')
replay = c05.replay
def explore(ck):
    c05.explore(ck, coins=tuple(gen.FORK_COINS))
    ck.rule = 'fork coins (namecoin, litecoin, dogecoin, myriadcoin, unobtanium, noteblockchain): ' + ck.rule
