"""C12 — AuxPoW headers are skipped exactly, leaving block hash and txs unaffected."""
from ..chain import *
from .. import gen, core, run
THEOREMS = core.pinned('C12')

def versions_for(thr):
    below = [1, 2, thr - 1, thr - 0x100 if thr > 0x100 else 3]
    # at / above, with and without the merge-mining bit 0x100, high bits set
    above = [thr, thr + 1, thr + 2, 0xffffffff, thr | 0x100, (thr & ~0x100) + 0x200, 0x20000000 | thr, 0x20000000 | (thr & ~0x1ff), thr + 0x10000, 0x7fffffff, 0x80000000]
    return below, [v for v in above if v >= thr]

def explore(ck):
    r = ck.rng; quick = ck.tier == 'quick'
    ck.rule = ('namecoin/dogecoin chains whose blocks mix versions below the threshold {1,2,t-1,..} and at/above it {t,t+1,t+2,2^32-1, with and without bit 0x100, with high bits}; '
               'sections with merkle branches of length 0..40 incl. 32/33/34, 253, 300, legacy and segwit parent coinbase, CompactSize widths forced; the same blocks without sections on bitcoin '
               '(no threshold) must give identical header fields, txids and rows; six non-AuxPoW coins with high versions as negative control; --verify on part of the cases. '
               'Non-trivial: >= 1 block with and >= 1 block without a section in the same chain; distinct by (coin, versions, branch lengths).')
    cases = []
    n = 16 if quick else 120
    for i in range(n):
        coin = ['namecoin', 'dogecoin'][i % 2]; thr = COINS[coin]['aux']; below, above = versions_for(thr)
        nb = r.randrange(3, 7); blocks = []; plain = []; prev = b'\x00' * 32; prevp = b'\x00' * 32; vers = []; brs = []
        for h in range(nb):
            ver = r.choice(above) if (h % 2 == (i % 2)) else r.choice(below)
            if h == nb - 1 and i % 4 == 0: ver = r.choice(above)
            txs = [coinbase_tx(h, [(50 * 10**8, P2PKH(gen.rb(r, 20)))])] + [Tx([(gen.rb(r, 32), 0, gen.rb(r, 3), 1)], [(7, gen.script_zoo(r, 'p2sh')[1])]) for _ in range(r.randrange(0, 3))]
            aux = b''
            if ver >= thr:
                l1 = r.choice([0, 1, 2, 12, 31, 32, 33, 34, 40] + ([253, 300] if i % 5 == 0 else [])); l2 = r.choice([0, 0, 1, 5, 32, 33] + ([64] if i % 7 == 0 else []))
                pc = Tx([(b'\x00' * 32, 0xffffffff, gen.rb(r, r.choice([2, 40, 100])), 0xffffffff)], [(r.getrandbits(40), gen.rb(r, r.choice([0, 25, 67]))) for _ in range(r.randrange(1, 4))],
                        witness=([[gen.rb(r, 32)]] if r.random() < 0.4 else None), version=r.choice([1, 2]))
                aux = auxpow_section(pc, [gen.rb(r, 32) for _ in range(l1)], [gen.rb(r, 32) for _ in range(l2)], gen.rb(r, 80), gen.rb(r, 32), (r.getrandbits(32), r.getrandbits(32)),
                                     widths=(r.choice([None, None, 3, 5]) if l1 < 0xfd else None, None))
                brs.append((l1, l2))
            t = 1400000000 + 600 * h
            b = Block(prev, txs, version=ver, time=t, auxpow=aux); blocks.append(b); prev = b.hash
            vers.append(ver)
        c = Case('a%d' % i, coin).simple_layout(blocks); c.verify = (i % 3 == 1) ; c.start = 1 if c.verify else 0
        c.meta.update(versions=vers, branches=brs, mixed=(any(v >= thr for v in vers) and any(v < thr for v in vers)), cbs=['csv'] if quick else ['csv', 'unspent', 'stats'])
        cases.append(c)
        # the same blocks without sections on a coin without threshold
        c2 = Case('a%dp' % i, 'bitcoin'); prev2 = None
        for h, b in enumerate(blocks):
            nb_ = Block(b.prev, b.txs, version=b.version, time=b.time, bits=b.bits, nonce=b.nonce)
            off = c2.put_block(0, nb_.raw); c2.add_record(nb_, h, 0, off)
        c2.verify = c.verify; c2.start = c.start; c2.meta.update(twin=c.id, cbs=['csv']); cases.append(c2)
    # negative control: coins without AuxPoW, any version
    for i, coin in enumerate(['bitcoin', 'testnet3', 'litecoin', 'myriadcoin', 'unobtanium', 'noteblockchain']):
        blocks = []; prev = b'\x00' * 32
        for h, ver in enumerate([0x10101, 0x620102, 0xffffffff, 0x620103, 0x20000100]):
            b = Block(prev, [coinbase_tx(h, [(1, P2PKH(gen.rb(r, 20)))])], version=ver, time=1400000000 + h); blocks.append(b); prev = b.hash
        c = Case('neg%d' % i, coin).simple_layout(blocks); c.meta.update(cbs=['csv'], negative=True); cases.append(c)
    models, results = core.compare_cases(ck, cases, lambda c: c.meta['cbs'],
                                         nontrivial=lambda c, m: (c.coin, tuple(c.meta['versions']), tuple(c.meta['branches'])) if c.meta.get('mixed') else None,
                                         sample=lambda c, m: dict(case=c.id, coin=c.coin, versions=[hex(v) for v in c.meta.get('versions', [])], branches=c.meta.get('branches'), verify=c.verify, model_status=m['status']))
    # section-free twin: same block hashes, header fields and transactions (rows differ only in blocksize and addresses)
    for c in cases:
        if 'twin' in c.meta:
            a = models[c.meta['twin']]; b = models[c.id]
            strip = lambda rows: [';'.join(x for k, x in enumerate(l.split(';')) if k != 3) for l in rows]
            if strip(a['csv'][0]) != strip(b['csv'][0]) or a['csv'][1] != b['csv'][1] or a['csv'][2] != b['csv'][2]:
                ck.disagreement('model: rows with and without AuxPoW sections differ', '%s vs %s' % (c.meta['twin'], c.id), c, in_domain=False)
    for c in cases:
        for l1, l2 in c.meta.get('branches', []): ck.count('branch_len:%s' % ('>=33' if max(l1, l2) >= 33 else '<33'))
