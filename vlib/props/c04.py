"""C04 — only active-chain blocks are delivered; stale and header-only records never are."""
from ..chain import *
from .. import gen, core, run
THEOREMS = core.pinned('C04')

def grind(r, make, want_later_than):
    """builds competitor blocks until the hash sorts after (True) / before (False) the reference hash in LevelDB key order"""
    ref, later = want_later_than
    b = None
    for _ in range(3000):
        b = make()
        if (b.hash > ref) == later: return b, later
    return b, (b.hash > ref)          # the reference hash is extreme: keep the competitor with the order it has

def explore(ck):
    r = ck.rng; quick = ck.tier == 'quick'
    ck.rule = ('indexes = active chain + header-only records (status validity TREE, no data; at, below and beyond the tip; arbitrary header bytes incl. 0xff.. versions), failed blocks, '
               'stale siblings with and without data at occupied heights in both hash orders (nonce grinding), pruned-looking records; indexes of 50-110 records with 8-15 competitors; --start / --end ranges; data positions around 32768; exhaustive sweep of all 256 status bytes through the record '
               'decoder/filter hook. Expected: delivered = active chain, prev-links hold, no competitor transaction in any output. Cases where an admitted competitor sorts after the active block at '
               'its height are the known-finding class F-C04 (implementation must then behave like the model). Non-trivial: >= 1 record besides the active chain; distinct by competitor description.')
    cases = []
    n = 30 if quick else 200
    for i in range(n):
        coin = gen.ALL_COINS[i % 8]
        long = (i % 15 == 7)      # indexes of 50-110 records with 8-15 competitors: a loader that sorts or partitions the records behaves differently from 12 records on
        blocks = gen.random_chain(r, coin, r.randrange(3, 8) if not long else r.randrange(45, 100), max_tx=(2 if not long else 1), script_kinds=['p2pkh', 'p2sh', 'opret_small'])
        c = Case('k%d' % i, coin); T = len(blocks) - 1; comp = []; inclass = False
        twin = Case('k%dspec' % i, coin)          # the same active chain without any competitor: its output is the property's expectation
        lead = bytes(r.randrange(32740, 32790)) if i % 5 == 3 else b''      # some chains start deep in the file: data positions around 32768 (VarInt bytes 80 ff xx, 81 80 xx)
        for cc in (c, twin):
            for h, b in enumerate(blocks):
                off = cc.put_block(0, b.raw, pad=(lead if h == 0 else b'')); cc.add_record(b, h, 0, off)
        if i % 4 == 1: c.end = twin.end = r.choice([T - 1, T, T + 3]) if T >= 2 else None      # ranges: trimming / an early end of the index scan must not change which record wins a height
        if i % 4 == 2 and T >= 2: c.start = twin.start = 1
        for j in range(r.randrange(1, 5) if not long else r.randrange(8, 16)):
            kind = 'stale_data_after' if (i == 0 and j == 0) else r.choice(['stale_data_before', 'failed_data_before', 'stale_data_before', 'header_only']) if long else r.choice(['header_only', 'header_only', 'header_beyond', 'failed_nodata', 'stale_data_before', 'stale_nodata', 'stale_data_after', 'failed_data_before', 'ff_header'])
            h = r.randrange(0, T + 1)
            mk = lambda: Block(blocks[h].prev, [coinbase_tx(h, [(50 * 10**8, P2PKH(gen.rb(r, 20)))], extra=gen.rb(r, 4))], time=r.getrandbits(31), nonce=r.getrandbits(32))
            if kind == 'header_only':
                b = mk(); c.add_record(b, h, 0, 0, status=r.choice([1, 2, 0x22, 0x42, 0x01, 0x03 & ~4]), ntx=0)          # validity <= TRANSACTIONS(3)?  3 has bit.. keep <=3 without bit 2
            elif kind == 'header_beyond':
                b = mk(); c.add_record(b, T + r.randrange(1, 4), 0, 0, status=2, ntx=0)
            elif kind == 'ff_header':
                b = Block(b'\xff' * 32, [], version=0xffffffff, mroot=b'\xff' * 32, time=0xffffffff, bits=0xffffffff, nonce=0xffffffff); c.add_record(b, r.choice([h, T + 1]), 0, 0, status=2, ntx=0)
            elif kind == 'failed_nodata':
                b = mk(); c.add_record(b, h, 0, 0, status=r.choice([0x22, 0x42, 0x21]), ntx=1)
            elif kind == 'stale_nodata':
                b = mk(); c.add_record(b, h, 0, 0, status=3, ntx=1)
            else:
                later = kind == 'stale_data_after'
                b, later = grind(r, mk, (blocks[h].hash, later))
                off = c.put_block(1, b.raw)
                c.add_record(b, h, 1, off, status=(0x2b if kind.startswith('failed') else r.choice([0x0b, 0x1b, 0x0a])), ntx=1)
                if later: inclass = True
            comp.append((kind, h))
        c.meta.update(competitors=comp, cbs=['csv', 'unspent'] if i % 2 else ['csv'], kf=('F-C04' if inclass else None), twin=twin)
        # inside the known class the property itself is violated by the pinned design; the implementation must then at least behave like the model
        cases.append(c)
    kf = ck.open_finding('F-C04')
    allw = ['csv', 'unspent']
    models = run.run_model(ck.tools, cases, allw)
    spec_models = run.run_model(ck.tools, [c.meta['twin'] for c in cases], allw)
    from concurrent.futures import ThreadPoolExecutor
    def one(c): return c, run.compare_case(ck.tools, c, models[c.id], c.meta['cbs'])
    with ThreadPoolExecutor(12) as ex: results = list(ex.map(one, cases))
    for c, res in results:
        ck.evaluated(); ck.nontrivial((c.coin, tuple(c.meta['competitors'])))
        ck.sample(dict(case=c.id, coin=c.coin, competitors=c.meta['competitors'], known_class=bool(c.meta['kf']), model_status=models[c.id]['status']))
        # property-level oracle: the delivered hashes are the active chain's
        active = [b'%s' % b for b in []]
        for cb, diffs, rr in res:
            if diffs and c.meta['kf'] and not run.CMP[cb](rr, spec_models[c.id + 'spec'], c):
                ck.count('known class: implementation delivers the active chain (finding repaired?)'); continue      # inside the class the repaired behaviour (= the property) is accepted too
            if diffs:
                ck.disagreement('%s on case %s' % (cb, c.id), '\n'.join(diffs), c, in_domain=True)   # neither the recorded behaviour nor the property's
        ck.count('known class' if c.meta['kf'] else 'outside known class')
    # spec check on the model output: outside the class the delivered block hashes are exactly the active chain (sanity instance of C04_partial);
    # inside the class the stale block shows up (C04_refuted) -> KNOWN-FINDING
    for c in cases:
        m = models[c.id]
        rows = m['csv'][0]; hashes = [l.split(';')[0] for l in rows]
        act = [rec for rec in c.records[:len(rows)]]
        active_hashes = [k[1:][::-1].hex() for k, v in c.records[c.start:c.start + len(hashes)]]      # the first T+1 records are the active chain in height order
        if c.meta['kf']:
            if hashes != active_hashes:
                if kf: ck.known_finding('F-C04', kf['text'])
                else: ck.disagreement('stale block delivered on ' + c.id, 'delivered=%s active=%s' % (hashes, active_hashes), c, in_domain=True)
        elif hashes != active_hashes or m['csv'] != spec_models[c.id + 'spec']['csv']:
            ck.disagreement('model delivers a non-active block outside the known class on ' + c.id, 'delivered=%s active=%s' % (hashes, active_hashes), c, in_domain=True)
    # exhaustive: all 256 status bytes through BlockIndexRecord::from + filter
    if not run.hooks_ok(ck): return
    lines = []
    for st in range(256):
        hdr = gen.rb(r, 80); v = index_value(1, 7, st, 1, 3, 1234, 99, hdr); lines.append((st, '%s %s' % (gen.rb(r, 32).hex(), v.hex())))
        lines.append((st, '%s %s' % (gen.rb(r, 32).hex(), index_value(0xffffffff, 2**40, st, 0, 2**33, 2**34, 5, b'\xff' * 80).hex())))
    impl = run.hook_lines(ck.tools, 'index-record', [l for _, l in lines]); mod = run.model_lines(ck.tools, ['record ' + l for _, l in lines])
    for (st, l), a, b in zip(lines, impl, mod):
        ck.evaluated(); ck.count('status bytes')
        a2 = 'panic' if a.startswith('PANIC') else ('err' if a.startswith('err') else a)
        if a2 != b: ck.disagreement('status byte %d' % st, 'impl=%s model=%s' % (a, b), None, in_domain=True, extra_replay='record ' + l)
        adm = b.split('|')[-1] == '1' if b.startswith('ok') else None
        if adm is not None and adm != bool(st & 12): ck.disagreement('model admits status %d against the spec' % st, b, None, in_domain=False)
    ck.extra['status_bytes_exhaustive'] = True

def replay(ck, path):
    from . import c03
    return c03.replay(ck, path)
