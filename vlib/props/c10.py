"""C10 — exit status 0 means complete, final-named output; any failure leaves none."""
import os, copy, signal, resource, subprocess, shutil, re
from ..chain import *
from .. import gen, core, run
THEOREMS = core.pinned('C10')
FILECB = ['csv', 'unspent', 'balances']
STEMS = run.stems()

def limit_preexec(n):
    def f():
        signal.signal(signal.SIGXFSZ, signal.SIG_IGN)
        resource.setrlimit(resource.RLIMIT_FSIZE, (n, n))
    return f

def folder_state(r):
    return {name: len(data) for name, data in r.files.items()}

def expected_state(cb, m, L):
    """model answer `limit cb L exit <code> files a=b,...` -> (exit code, {file name: size})"""
    ans = m['limit'][(cb, L)]
    if ans[0] == 'aborted': return None
    code = int(ans[1]); first, last = m['status'][1], m['status'][2]
    files = {}
    for kv in (ans[3].split(',') if len(ans) > 3 and ans[3] else []):
        k, v = kv.split('='); k = int(k)
        files[m['fname'][(cb, k // 2)][k % 2]] = int(v)          # abstract file number 2i / 2i+1 -> tmp / final name of writer i as rendered by the model
    return code, files

def explore(ck):
    r = ck.rng; quick = ck.tier == 'quick'
    ck.rule = ('(a) write faults: the three file-producing callbacks under RLIMIT_FSIZE (SIGXFSZ ignored) for limits 0,1,|header|, every file size -1/+0/+1, total-1, total and sampled values '
               '(every byte in the thorough tier); exit status, names and sizes in the dump folder are compared with the output-protocol model (OutProto.run with the 4 MB BufWriter capacity) '
               'and with the property: exit 0 => finals identical to the undisturbed run and no *.tmp; failure => no final-named file. (b) input faults at every height: blk file removed, emptied, '
               'truncated inside the magic, the size prefix, the header, a transaction; offset past EOF (just past, and >= 2^27 / 2^32 / 2^63): non-zero exit, failing height reported, no final-named file. (d) empty ranges (--start above the tip): exit 0 only with all finals present and no *.tmp. (c) crash points: SIGKILL / ENOSPC '
               'injected with strace at the n-th write and at the n-th rename/link/copy_file_range/sendfile on the dump files, a failing (EACCES) n-th rename, the dump folder pre-seeded with longer stale *.tmp files of an aborted run: every final-named file that exists is complete. Non-trivial: the fault lands strictly inside the output '
               '(0 < limit < total) or on an input byte of a processed block; distinct by (callback, fault).')
    # ---------- (a) write budget ----------
    chains = []
    for k in range(2 if quick else 6):
        coin = gen.ALL_COINS[(k * 3) % 8]; blocks = gen.random_chain(r, coin, r.randrange(3, 7), max_tx=3, script_kinds=['p2pkh', 'p2sh', 'p2pk33', 'opret_small'])
        c = Case('w%d' % k, coin).simple_layout(blocks)
        if k % 2: c.start = 1
        chains.append(c)
    for c in chains:
        base = run.run_model(ck.tools, [c], ['csv', 'unspent', 'balances'])[c.id]
        sizes = {'csv': [sum(len(x) + 1 for x in base['csv'][i]) for i in range(4)],
                 'unspent': [len(base['header'].get('unspent', 'txid;indexOut;height;value;address') + '\n') + sum(len(x) + 1 for x in base['unspent'])],
                 'balances': [len(base['header'].get('balances', 'address;balance') + '\n') + sum(len(x) + 1 for x in base['balance'])]}
        # undisturbed runs
        dd = os.path.join(ck.tools.work, 'dd10_' + c.id); c.materialise(dd, ck.tools.ldbw)
        clean = {cb: run.run_impl(ck.tools, c, cb, datadir=dd) for cb in FILECB}
        # (e) the same run into a dump folder in which an earlier run of the same range under another --coin has left its final-named files: exit 0 must still mean
        #     "the final-named files hold THIS run's complete output and no *.tmp is left"
        c.prior_coin = core.PRIOR.get(c.coin, 'litecoin')
        again = {cb: run.run_impl(ck.tools, c, cb, datadir=dd) for cb in FILECB}
        del c.prior_coin
        for cb in FILECB:
            a, b = clean[cb], again[cb]; ck.evaluated(); ck.count('runs after an earlier run of the same range'); ck.nontrivial((c.id, cb, 'prior')); bad = []
            if (b.rc == 0) != (a.rc == 0): bad.append('exit status %s (fresh folder: %s)' % (b.rc, a.rc))
            if b.rc == 0 and [n for n in b.files if n.endswith('.tmp')]: bad.append('exit 0 but *.tmp left: %s' % [n for n in b.files if n.endswith('.tmp')])
            if b.rc == 0 and (sorted(b.files) != sorted(a.files) or any(sorted(a.files[n].split(b'\n')) != sorted(b.files[n].split(b'\n')) for n in a.files if n in b.files)):
                bad.append('exit 0 but the final-named files are not those of the run into a fresh folder: %s' % [n for n in a.files if a.files[n] != b.files.get(n)])
            if bad: ck.disagreement('%s after an earlier run of the same range with --coin %s in the same dump folder' % (cb, core.PRIOR.get(c.coin, 'litecoin')), '\n'.join(bad), c, in_domain=True)
        for cb in FILECB:
            if clean[cb].rc != 0: ck.disagreement('undisturbed run failed', 'rc=%s' % clean[cb].rc, c); continue
            tot = max(sizes[cb]); lims = {0, 1, 16, 35, tot - 1, tot, tot + 1, 4096}
            for s in sizes[cb]: lims |= {s - 1, s, s + 1}
            if quick: lims |= {r.randrange(1, tot) for _ in range(12)}
            else: lims |= set(range(0, tot + 2)) if tot < 2500 else {r.randrange(1, tot) for _ in range(400)}
            lims = sorted(l for l in lims if l >= 0)
            from concurrent.futures import ThreadPoolExecutor
            # the model answers one limit at a time (it re-runs the output protocol on the whole byte stream): shard the limits over 16 model processes
            shards = [lims[i::16] for i in range(16) if lims[i::16]]
            with ThreadPoolExecutor(16) as ex: parts = list(ex.map(lambda ls: run.run_model(ck.tools, [c], ['limit:%s:%d' % (cb, L) for L in ls])[c.id], shards))
            m = parts[0]
            for p_ in parts[1:]: m['limit'].update(p_['limit'])
            def one(L): return L, run.run_impl(ck.tools, c, cb, preexec=limit_preexec(L))      # own data directory per run (LevelDB lock)
            with ThreadPoolExecutor(12) as ex: res = list(ex.map(one, lims))
            for L, rr in res:
                ck.evaluated(); ck.count('write-limit runs:' + cb)
                if rr.wall > 8: ck.extra.setdefault('slow_runs', []).append((c.id, cb, L, round(rr.wall, 1), rr.rc))
                exp = expected_state(cb, m, L); got = folder_state(rr)
                if 0 < L < tot: ck.nontrivial((c.id, cb, 'limit', L))
                diffs = []
                code, files = exp
                if (rr.rc == 0) != (code == 0): diffs.append('exit impl=%s model=%s' % (rr.rc, code))
                fin = lambda d_: {n_: z for n_, z in d_.items() if not n_.endswith('.tmp')}
                if fin(got) != fin(files): diffs.append('final-named files impl=%s model=%s' % (fin(got), fin(files)))
                # how much of a tmp file is on disk when a run fails depends on the buffer size and flush strategy, which no property fixes: recorded, not compared
                ck.count('write-limit runs: tmp file sizes %s the model\'s' % ('equal' if got == files else 'differ from'))
                # property-level
                finals = {n: d for n, d in rr.files.items() if not n.endswith('.tmp')}
                if rr.rc == 0:
                    if any(n.endswith('.tmp') for n in rr.files): diffs.append('exit 0 but *.tmp left')
                    if cb == 'csv' and finals != clean[cb].files: diffs.append('exit 0 but final files differ from the undisturbed run')
                    if cb != 'csv' and {n: sorted(d.split(b'\n')) for n, d in finals.items()} != {n: sorted(d.split(b'\n')) for n, d in clean[cb].files.items()}: diffs.append('exit 0 but final files differ from the undisturbed run')
                elif finals: diffs.append('failure but final-named files exist: %s' % sorted(finals))
                if diffs: ck.disagreement('%s under RLIMIT_FSIZE=%d on %s' % (cb, L, c.id), '\n'.join(diffs), c, in_domain=True, extra_replay='# limit %s %d' % (cb, L))
            ck.sample(dict(kind='write limit', case=c.id, callback=cb, file_sizes=sizes[cb], limits=len(lims), example=(lims[len(lims) // 2], expected_state(cb, m, lims[len(lims) // 2]))))
        # ---------- (c) crash / ENOSPC injection on the dump files ----------
        for cb in FILECB:
            nw = len(STEMS[cb])
            for kind, call, n in [(k, c_, n) for k in ('kill', 'enospc') for c_ in ('write', 'rename') for n in range(1, nw + 1)]:
                # 'enospc' on the rename family = the n-th rename fails (EACCES): exit 0 would then claim finals that are not there
                if quick and cb == 'csv' and n in (2, 3) and kind == 'kill' and call == 'write': continue
                out = os.path.join(ck.tools.work, 'inj_%s_%s_%s_%d' % (c.id, cb, kind + call, n)); os.makedirs(out, exist_ok=True)
                # "rename" stands for every call that can give a file its final name or move bytes towards it (a copy instead of a rename would use copy_file_range / sendfile / link)
                calls = 'write,pwrite64,writev' if call == 'write' else 'rename,renameat,renameat2,link,linkat,copy_file_range,sendfile'
                inj = 'inject=%s:%s:when=%d' % (calls, 'signal=SIGKILL' if kind == 'kill' else ('error=ENOSPC' if call == 'write' else 'error=EACCES'), n)
                wrapper = ['strace', '-f', '-qq', '-o', '/dev/null', '-e', 'trace=' + calls, '-e', inj] + \
                          sum((['-P', os.path.join(out, s_ + '.csv.tmp')] for s_ in STEMS[cb]), [])
                rr = run.run_impl(ck.tools, c, cb, datadir=dd, outdir=out, wrapper=wrapper, prefill='stale')
                ck.evaluated(); ck.count('injection runs:' + kind + '-' + call); ck.nontrivial((c.id, cb, kind, call, n))
                finals = {nm: d for nm, d in rr.files.items() if not nm.endswith('.tmp')}
                diffs = []
                if rr.rc == 0: diffs.append('exit 0 although the %d-th %s on the dump files was %s' % (n, call, 'killed' if kind == 'kill' else 'failed (ENOSPC / EACCES)'))
                for nm, d in finals.items():
                    ref = clean[cb].files.get(nm)
                    if ref is None or (sorted(d.split(b'\n')) != sorted(ref.split(b'\n'))): diffs.append('final-named file %s holds partial content (%d bytes, complete %s)' % (nm, len(d), len(ref) if ref else None))
                if kind == 'enospc' and call == 'write' and finals: diffs.append('write failure but final-named files exist: %s' % sorted(finals))
                if diffs: ck.disagreement('%s with %s at %s #%d on %s' % (cb, kind, call, n, c.id), '\n'.join(diffs), c, in_domain=True, extra_replay='# inject %s %s %s %d' % (cb, kind, call, n))
                shutil.rmtree(out, ignore_errors=True)
        shutil.rmtree(dd, ignore_errors=True)
    # ---------- (a') thorough: outputs above the 4 MB BufWriter capacity, so that writes fail in the middle of the run (in on_block), not only in the final flush;
    #      property-level predicates only (the extracted model is too slow on multi-megabyte byte lists) ----------
    if not quick:
        coin = 'bitcoin'; blocks = []; prev = b'\x00' * 32
        for h in range(36):
            txs = [coinbase_tx(h, [(1, b'\x51')])] + [Tx([(gen.rb(r, 32), 0, b'', 0)], [(k, gen.rb(r, 70)) for k in range(330)]) for _ in range(2)]
            b = Block(prev, txs, time=1300000000 + h); blocks.append(b); prev = b.hash
        big = Case('big10', coin).simple_layout(blocks)
        clean_big = run.run_impl(ck.tools, big, 'csv')
        sizes_big = sorted(len(d) for d in clean_big.files.values()); tot = sizes_big[-1]
        ck.extra['big_output_sizes'] = sizes_big
        if clean_big.rc != 0 or tot <= 4000000: ck.disagreement('big-output chain did not produce > 4 MB', str(sizes_big), big, in_domain=False)
        for L in [1000000, 3999999, 4000000, 4000001, 4100000, tot - 1, tot, sizes_big[-2] + 1]:
            rr = run.run_impl(ck.tools, big, 'csv', preexec=limit_preexec(L))
            ck.evaluated(); ck.count('write-limit runs: > 4 MB output'); ck.nontrivial(('big', L))
            finals = {n: d for n, d in rr.files.items() if not n.endswith('.tmp')}
            bad = []
            if rr.rc == 0 and (finals != clean_big.files or any(n.endswith('.tmp') for n in rr.files)): bad.append('exit 0 but output incomplete or tmp left')
            if rr.rc != 0 and finals: bad.append('failure but final-named files exist: %s' % sorted(finals))
            if (rr.rc == 0) != (L >= tot): bad.append('exit status %s with limit %d and largest file %d' % (rr.rc, L, tot))
            if bad: ck.disagreement('csvdump with > 4 MB output under RLIMIT_FSIZE=%d' % L, '\n'.join(bad), big, in_domain=True, extra_replay='# limit csv %d' % L)
    # ---------- (b) input faults ----------
    cases = []
    for k in range(2 if quick else 8):
        coin = gen.ALL_COINS[(k * 5 + 1) % 8]; blocks = gen.random_chain(r, coin, 6, max_tx=2)
        base = Case('i%d' % k, coin); place = {}
        for h, b in enumerate(blocks):
            f = 0 if h < 4 else 1; off = base.put_block(f, b.raw); base.add_record(b, h, f, off); place[h] = (f, off)
        for h in range(6):
            f, off = place[h]; blen = len(blocks[h].raw)
            faults = [('removed', None), ('emptied', 0), ('past_eof', None), ('past_eof', [2**27 + 5, 300000000, 2**32 + 7, 2**63][(h + k) % 4])] + [('cut', p) for p in sorted({off - 8, off - 6, off - 4, off - 2, off, off + 1, off + 40, off + 80, off + 81, off + blen // 2, off + blen - 1})]
            for kind, p in (faults if not quick else faults[:4] + r.sample(faults[4:], 4)):
                c = copy.copy(base); c.id = '%s_h%d_%s%s' % (base.id, h, kind, '' if p is None else p); c.files = {n: list(e) for n, e in base.files.items()}; c.meta = dict(fault=(h, kind, p))
                if kind == 'removed':
                    del c.files[f]
                    if not c.files: continue
                elif kind == 'emptied': c.files[f] = [(0, b'')]
                elif kind == 'past_eof':
                    size = sum(len(d) for o, d in c.files[f]); c.records = list(base.records)
                    c.records[h] = (c.records[h][0], index_value(1, h, STATUS_ACTIVE, len(blocks[h].txs), f, (size + 100 + 8) if p is None else p, 0, blocks[h].header))
                else:
                    o, d = c.files[f][0]; c.files[f] = [(o, d[:p])]
                c.meta['cbs'] = [FILECB[(h + k) % 3], 'opreturn'] if quick else FILECB + ['opreturn', 'stats']
                # first height whose bytes are affected
                first_bad = h
                if kind in ('removed', 'emptied'): first_bad = min(hh for hh in range(6) if place[hh][0] == f)
                c.meta['first_bad'] = first_bad; cases.append(c)
    # ---------- (d) the exit-0 clause is unconditional: runs over an EMPTY range (--start above the tip) that exit 0 must leave their final-named files and no *.tmp ----------
    for k, (T, s_, e_) in enumerate([(5, 6, None), (5, 10, 20), (2, 3, 9), (0, 1, None)]):
        coin = gen.ALL_COINS[(k * 3 + 2) % 8]; blocks = gen.random_chain(r, coin, T + 1, max_tx=2)
        c = Case('empty%d' % k, coin).simple_layout(blocks); c.start = s_; c.end = e_
        m = run.run_model(ck.tools, [c], ['csv', 'unspent', 'balances'])[c.id]
        for cb in FILECB:
            rr = run.run_impl(ck.tools, c, cb); ck.evaluated(); ck.count('empty-range runs'); ck.nontrivial((c.id, cb))
            tmps = [n for n in rr.files if n.endswith('.tmp')]; want = sorted(m['fname'][(cb, i)][1] for i in range(len(STEMS[cb])))
            bad = []
            if rr.rc == 0 and tmps: bad.append('exit 0 but *.tmp left: %s' % tmps)
            if rr.rc == 0 and sorted(n for n in rr.files if not n.endswith('.tmp')) != want: bad.append('exit 0 but final-named files are %s, expected %s' % (sorted(rr.files), want))
            if rr.rc != 0 and [n for n in rr.files if not n.endswith('.tmp')]: bad.append('failure but final-named files exist')
            if (rr.rc == 0) != (m['status'][0] == 'done'): bad.append('exit status impl=%s model=%s' % (rr.rc, m['status']))
            if bad: ck.disagreement('%s over an empty range (-s %s -e %s, tip %d)' % (cb, s_, e_, T), '\n'.join(bad), c, in_domain=True)
    models = run.run_model(ck.tools, cases, ['csv'])
    from concurrent.futures import ThreadPoolExecutor
    def one(c): return c, [(cb, run.run_impl(ck.tools, c, cb)) for cb in c.meta['cbs']]
    with ThreadPoolExecutor(12) as ex: results = list(ex.map(one, cases))
    for c, res in results:
        m = models[c.id]; st = m['status']
        for cb, rr in res:
            ck.evaluated(); ck.count('input-fault runs:' + c.meta['fault'][1]); ck.nontrivial((c.id, cb))
            diffs = []
            finals = [n for n in rr.files if not n.endswith('.tmp')]
            if st[0] != 'error':
                diffs.append('model does not reject the faulted input: %s' % st)
            else:
                if rr.rc == 0: diffs.append('exit 0 on a faulted input (model: error at height %s)' % st[1])
                if rr.error_height != int(st[1]): diffs.append('failing height impl=%s model=%s' % (rr.error_height, st[1]))
                if int(st[1]) != c.meta['first_bad']: diffs.append('model failing height %s differs from the generator\'s %d' % (st[1], c.meta['first_bad']))
            if finals: diffs.append('final-named files after an input fault: %s' % finals)
            if diffs: ck.disagreement('%s on input fault %s' % (cb, c.id), '\n'.join(diffs), c, in_domain=True)
        ck.sample(dict(kind='input fault', case=c.id, fault=c.meta['fault'], model_status=st), limit=10)

def replay(ck, path):
    c = load_case(path); rc = 0
    lim = [l.split() for l in open(path) if l.startswith('# limit ')]
    if lim:
        cb, L = lim[0][2], int(lim[0][3]); m = run.run_model(ck.tools, [c], ['limit:%s:%d' % (cb, L)])[c.id]
        rr = run.run_impl(ck.tools, c, cb, preexec=limit_preexec(L)); exp = expected_state(cb, m, L)
        print('replay limit %s %d: impl exit=%s files=%s | model exit=%s files=%s' % (cb, L, rr.rc, folder_state(rr), exp[0], exp[1]))
        rc = int((rr.rc == 0) != (exp[0] == 0) or folder_state(rr) != exp[1])
    else:
        m = run.run_model(ck.tools, [c], ['csv'])[c.id]
        for cb in ['csv']:
            rr = run.run_impl(ck.tools, c, cb); print('replay %s: impl rc=%s height=%s files=%s | model %s' % (cb, rr.rc, rr.error_height, sorted(rr.files), m['status']))
            rc |= int((rr.rc == 0) != (m['status'][0] == 'done'))
    return rc
