"""C17 — open blk files stay bounded by the files overlapping the current height."""
import re, os, resource, subprocess
from ..chain import *
from .. import gen, core, run
THEOREMS = core.pinned('C17')

OPEN_RE = re.compile(r'^(\d+)\s+openat\(AT_FDCWD, "([^"]*)", [^)]*\) = (\d+)')
CLOSE_RE = re.compile(r'^(\d+)\s+close\((\d+)\)\s+= 0')
WRITE_RE = re.compile(r'^(\d+)\s+write\(1, ".*on_block\(height=(\d+)\) called')

def trace_open_sets(tools, case, name_to_num):
    """runs csvdump at -vv under strace; returns (rc, [(height, set of open blk file numbers after that height)], max simultaneously open)"""
    dd = os.path.join(tools.work, 'dd17_' + case.id); case.materialise(dd, tools.ldbw)
    out = os.path.join(tools.work, 'out17_' + case.id); os.makedirs(out, exist_ok=True)
    tr = os.path.join(tools.work, 'trace17_' + case.id)
    args = ['strace', '-f', '-qq', '-s', '120', '-e', 'trace=openat,close,write', '-o', tr, tools.bin, '-d', dd, '-vv'] + case.args() + ['opreturn']
    for attempt in range(3):      # see run.run_impl: a run can spin in rusty-leveldb's iterator before the first block; repeat on timeout
        try:
            p = subprocess.run(args, capture_output=True, env=dict(os.environ, RAYON_NUM_THREADS='2'), timeout=300); break
        except subprocess.TimeoutExpired:
            run.RETRIES.append((case.id, 'strace', attempt))
            if attempt == 2: raise
    fds = {}; sets = []; mx = 0
    for line in open(tr, errors='replace'):
        m = OPEN_RE.match(line)
        if m:
            base = os.path.basename(m.group(2))
            if os.path.dirname(m.group(2)) == dd and base in name_to_num: fds[int(m.group(3))] = name_to_num[base]; mx = max(mx, len(fds))
            continue
        m = CLOSE_RE.match(line)
        if m: fds.pop(int(m.group(2)), None); continue
        m = WRITE_RE.match(line)
        if m: sets.append((int(m.group(2)), set(fds.values())))
    import shutil
    shutil.rmtree(dd, ignore_errors=True); shutil.rmtree(out, ignore_errors=True); os.remove(tr)
    return p.returncode, sets, mx

def make_case(r, i, kind, nfiles, per):
    coin = gen.ALL_COINS[i % 8]
    n = nfiles * per
    blocks = []; prev = b'\x00' * 32
    for h in range(n):
        b = Block(prev, [coinbase_tx(h, [(1, b'\x6a\x01\x41')])], time=1300000000 + h); blocks.append(b); prev = b.hash
    c = Case('f%d_%s' % (i, kind), coin)
    if kind == 'disjoint': file_of = [h // per for h in range(n)]
    elif kind == 'interleaved': file_of = [h % nfiles for h in range(n)]
    elif kind == 'overlap': file_of = [min(nfiles - 1, max(0, h // per + r.choice([0, 0, 1, -1]))) for h in range(n)]
    elif kind == 'straggler':      # file N holds one block higher than everything in file N+1 (pairs finish in reverse numeric order)
        file_of = []
        for h in range(n):
            pair, k = divmod(h, 2 * per); file_of.append(2 * pair + (0 if (k < per - 1 or k == 2 * per - 1) else 1))
    elif kind == 'forkend': file_of = [h // per for h in range(n)]
    else: file_of = [r.randrange(nfiles) for h in range(n)]
    for h in range(n):
        off = c.put_block(file_of[h], blocks[h].raw); c.add_record(blocks[h], h, file_of[h], off)
        if kind == 'forkend' and h % per == per - 1 and h + 1 < n:
            # every file ends with a stale sibling (data present, hash sorting BEFORE the active block, so the active block wins) of the first block of the next file
            for _ in range(3000):
                sb = Block(blocks[h].hash, [coinbase_tx(h + 1, [(2, b'\x6a\x01\x42')], extra=gen.rb(r, 4))], time=r.getrandbits(31), nonce=r.getrandbits(32))
                if sb.hash < blocks[h + 1].hash: break
            if sb.hash < blocks[h + 1].hash: so = c.put_block(file_of[h], sb.raw); c.add_record(sb, h + 1, file_of[h], so, status=0x1d)
    if kind in ('straggler', 'disjoint') and i % 2 == 0:
        # a blk file that exists on disk but is named by no record of the chain
        c.files[max(file_of) + 1] = [(0, gen.rb(r, 64))]
    c.meta.update(kind=kind, file_of=file_of, nfiles=nfiles)
    return c

def explore(ck):
    r = ck.rng; quick = ck.tier == 'quick'
    ck.rule = ('chains spread over 2..%d blk files with disjoint, overlapping, interleaved and random height spans, files that end with a stale sibling of the first block of the next file, files finishing in reverse numeric order, files named by no record, ranges starting/stopping inside a file, with and without --verify and xor.dat; the open/close system calls on blk files '
               'are traced with strace and the set of open blk files after each delivered height (located by the on_block trace line) is checked against the property-level bound '
               '{f : a block of a later height is stored in f} (the model\'s open set is a subset of it by C17_open_span) and compared with the model\'s open set; the same layouts are run under '
               'RLIMIT_NOFILE = descriptors of a one-file layout + 3. Non-trivial: >= 3 files and >= 1 file whose span overlaps another; distinct by layout.' % (40 if quick else 300))
    specs = [('disjoint', 3, 2), ('disjoint', 40 if quick else 300, 2), ('forkend', 12 if quick else 60, 2), ('straggler', 10 if quick else 60, 2), ('interleaved', 2, 3), ('interleaved', 4, 3), ('overlap', 6, 3), ('random', 5, 4), ('random', 3, 5), ('overlap', 12, 2)]
    if not quick: specs += [('random', 20, 3), ('interleaved', 30, 2), ('overlap', 60, 2), ('disjoint', 100, 1)]
    cases = []
    for i, (kind, nf, per) in enumerate(specs):
        c = make_case(r, i, kind, nf, per)
        if i % 3 == 1: c.start = r.randrange(1, nf * per - 1); c.end = r.choice([None, r.randrange(c.start + 1, nf * per + 1)])
        if i % 4 == 0: c.start = max(c.start, 1); c.verify = True          # --verify (no genesis block needed from height 1): verification must not keep or re-open files
        if i % 4 == 1 or kind == 'disjoint': c.xor = gen.rb(r, 8)           # obfuscated directory: files must still be opened lazily and closed when finished
        cases.append(c)
    models = run.run_model(ck.tools, cases, ['opens', 'opreturn'])
    same_as_model = 0
    for c in cases:
        ck.evaluated(); m = models[c.id]
        name_to_num = {c.name_of.get(n, 'blk%05d.dat' % n): n for n in c.files}
        rc, sets, mx = trace_open_sets(ck.tools, c, name_to_num)
        fo = c.meta['file_of']; maxh = {}
        for h, f in enumerate(fo): maxh[f] = max(maxh.get(f, -1), h)
        spans = {}
        for h, f in enumerate(fo): spans.setdefault(f, [h, h]); spans[f][1] = h
        overlapping = any(a != b and spans[a][0] <= spans[b][1] and spans[b][0] <= spans[a][1] for a in spans for b in spans)
        if c.meta['nfiles'] >= 3 and overlapping: ck.nontrivial((c.meta['kind'], c.meta['nfiles'], c.start, c.end))
        elif c.meta['nfiles'] >= 3: ck.nontrivial((c.meta['kind'], c.meta['nfiles'], c.start, c.end, 'disjoint'))
        if rc != 0: ck.disagreement('run failed under strace on ' + c.id, 'rc=%s' % rc, c, in_domain=True); continue
        if not sets and m['delivered']:
            # the per-height marker (a trace-level log line of the parser loop) is not part of any property: without it only the height-independent part of the bound is checked
            bound = max(len({f for f in maxh if maxh[f] > h} | {fo[h]}) for h in m['delivered'])
            ck.count('height markers missing in the trace output: only the maximum number of simultaneously open blk files is checked')
            if mx > bound: ck.disagreement('more blk files open at once than any height allows on ' + c.id, 'observed %d, bound %d' % (mx, bound), c, in_domain=True)
            continue
        if [h for h, _ in sets] != m['delivered']:
            ck.disagreement('delivered heights under strace on ' + c.id, 'impl=%s model=%s' % ([h for h, _ in sets][:20], m['delivered'][:20]), c, in_domain=True); continue
        bad = []
        for (h, s), (hm, om) in zip(sets, m['open']):
            allowed = {f for f in maxh if maxh[f] > h}
            if not s <= allowed: bad.append('after height %d open=%s but only %s still hold a later block' % (h, sorted(s), sorted(allowed)))
            if not set(om) <= allowed: ck.disagreement('model open set violates the bound on ' + c.id, 'h=%d model=%s' % (h, om), c, in_domain=False)
            if s == set(om): same_as_model += 1
            else: ck.count('open set differs from model (within the bound)')
        if bad: ck.disagreement('open blk files exceed the bound on ' + c.id, '\n'.join(bad[:5]), c, in_domain=True)
        if c.meta['kind'] == 'disjoint' and mx > 1: ck.disagreement('disjoint spans but %d blk files open at once on %s' % (mx, c.id), '', c, in_domain=True)
        ck.sample(dict(case=c.id, kind=c.meta['kind'], files=c.meta['nfiles'], blocks=len(fo), start=c.start, end=c.end, max_open_observed=mx,
                       open_after_each_height=[(h, sorted(s)) for h, s in sets[:8]], model=[(h, o) for h, o in m['open'][:8]]))
        ck.count('layout:' + c.meta['kind'])
    ck.extra['open_sets_equal_to_model'] = same_as_model
    # descriptor budget: the many-file disjoint layout must run with the descriptors a one-file layout needs + 3
    big = [c for c in cases if (c.meta['kind'] == 'disjoint' and c.meta['nfiles'] >= 40) or c.meta['kind'] in ('forkend', 'straggler')]
    for c in big:
        one = make_case(r, 99, 'disjoint', 1, 4)
        def lim(n):
            def f(): resource.setrlimit(resource.RLIMIT_NOFILE, (n, n))
            return f
        base = None
        for n in range(6, 64):
            rr = run.run_impl(ck.tools, one, 'opreturn', preexec=lim(n), env={'RAYON_NUM_THREADS': '2'})
            if rr.rc == 0: base = n; break
        rr = run.run_impl(ck.tools, c, 'opreturn', preexec=lim(base + 3), env={'RAYON_NUM_THREADS': '2'})
        ck.evaluated(); ck.count('rlimit_nofile runs')
        lines = run.parse_opreturn(rr.stdout)
        if rr.rc != 0 or len(lines) != len(models[c.id]['opret']):
            ck.disagreement('%d disjoint files under RLIMIT_NOFILE=%d (one-file layout needs %d)' % (c.meta['nfiles'], base + 3, base), 'rc=%s lines=%d expected=%d %s' % (rr.rc, len(lines), len(models[c.id]['opret']), rr.stderr[-300:]), c, in_domain=True)
        ck.extra['nofile_calibrated'] = base
