"""C03 — a block is read from the file and offset its index record names, wherever it is."""
from ..chain import *
from .. import gen, core, run
THEOREMS = core.pinned('C03')

BIGFILES = [0, 1, 127, 128, 16383, 16384, 99999, 100000, 2**32, 2**32 + 1, 2**64 - 1]

def layouts(r, coin, blocks, k, thorough):
    """the same logical chain in several physical layouts; yields (name, Case)"""
    n = len(blocks)
    def base(name):
        c = Case('L%d_%s' % (k, name), coin); c.meta['layout'] = name; return c
    # 1 reference: back to back in file 0
    c = base('ref').simple_layout(blocks); yield c
    # 2 random permutation across several files with garbage padding, unindexed decoy blocks, odd file numbers and name paddings
    c = base('perm'); files = r.sample(BIGFILES, r.randrange(1, 5)); order = list(range(n)); r.shuffle(order); offs = {}
    forced = [2**64 - 1] if k % 3 == 0 else [2**64 - 128, 2**64 - 129] if k % 3 == 1 else []      # the largest file numbers a VarInt can carry
    files += [f for f in forced if f not in files]
    for j, h in enumerate(order):
        f = forced[j] if j < len(forced) else r.choice(files)
        if r.random() < 0.3: c.put_block(f, gen.random_chain(r, coin, 1)[0].raw, pad=gen.rb(r, r.randrange(0, 50)))      # unindexed decoy block
        offs[h] = (f, c.put_block(f, blocks[h].raw, pad=gen.rb(r, r.choice([0, 1, 7, 300]))))
    for h in range(n): c.add_record(blocks[h], h, *offs[h])
    for f in files: c.name_of[f] = r.choice(['blk%05d.dat', 'blk%d.dat', 'blk%020d.dat', 'blk%09d.dat']) % f
    c.add_raw(b'f' + struct.pack('<I', 0), b'\x01\x02\x03'); c.add_raw(b'f' + struct.pack('<I', 77777), b'\x05\x06'); c.add_raw(b'f' + struct.pack('<I', 2), b''); c.add_raw(b'l', b'\x00');      # file-info keys, also for files that do not exist c.add_raw(b'F\x07txindex', b'1'); c.add_raw(b'R', b'')
    c.add_raw(b'a' + b'\x33' * 32, b'zz'); c.add_raw(b'c' + b'\x44' * 32, gen.rb(r, 40))
    c.extra_files = {'blk99998.dat': gen.rb(r, 100), 'rev00000.dat': gen.rb(r, 64), 'blkindex.dat': b'x', 'blk.dat': b'y', 'blk12x.dat': b'z', 'xblk00003.dat': b'', 'sub/blk00000.dat': gen.rb(r, 10)}
    if k % 2 == 0:
        c.symlinks = {'blk00007.dat': '/nonexistent/moved/blk00007.dat', 'old-blocks': '/nonexistent/old-blocks', 'blk00012.dat': 'blk00012.dat'}     # dangling links and a link loop, named by no record
        c.linked_files = [sorted(c.files)[0]]                                                                                   # one indexed blk file is reached through a symlink
    if k % 2 == 1:
        old_chain = equal_size_chain(r, coin, 3); c.nested = Case('nested%d' % k, coin).simple_layout(old_chain)      # a leftover `blocks/` sub-directory with an older, shorter chain of its own
    c.meta['files'] = files; yield c
    # 3 sparse offsets beyond 4 GiB, with a decoy block at the offset modulo 2^32 (a 32-bit truncation would silently deliver the decoy)
    c = base('sparse'); f = r.choice([0, 5]); hbig = r.randrange(n); decoy = gen.random_chain(r, coin, 1)[0]
    for h in range(n):
        if h == hbig:
            small = c.put_block(f, decoy.raw)            # decoy at offset `small`
            off = c.put_block(f, blocks[h].raw, at=2**32 + small - 8) ; assert off == 2**32 + small
        else: off = c.put_block(f, blocks[h].raw, pad=gen.rb(r, r.randrange(0, 9))) if c.files.get(f) and c.files[f][-1][0] == 0 else c.put_block(f if h < hbig else f + 1, blocks[h].raw)
        c.add_record(blocks[h], h, f if (h <= hbig or not (c.files.get(f + 1))) else f + 1, off) if False else None
        c.meta.setdefault('offs', {})[h] = off
    # (records added below to keep file bookkeeping simple)
    c.records = []; c.files = {}; offs = {}
    small = c.put_block(f, decoy.raw, pad=gen.rb(r, 5))
    for h in range(n):
        if h == hbig: offs[h] = (f, c.put_block(f, blocks[h].raw, at=2**32 + small - 8))
        else: offs[h] = (f + 1, c.put_block(f + 1, blocks[h].raw, pad=gen.rb(r, r.randrange(0, 9))))
    for h in range(n): c.add_record(blocks[h], h, *offs[h])
    c.meta['big_offset'] = offs[hbig][1]; yield c
    # 4 file number >= 2^32 with a decoy in the file numbered modulo 2^32
    c = base('bigfile'); fbig = 2**32 + r.choice([1, 7]); hb = r.randrange(n); offs = {}
    c.put_block(fbig % 2**32, decoy.raw)
    for h in range(n):
        fno = fbig if h == hb else fbig % 2**32
        offs[h] = (fno, c.put_block(fno, blocks[h].raw))
    for h in range(n): c.add_record(blocks[h], h, *offs[h])
    yield c
    # 6 window: the index holds the same blocks at heights S..S+n-1 only (no record below S) and the run starts at S; blocks scattered over two files
    S = r.choice([1, 2, 5, 1000]); c = base('window'); c.start = S; offs = {}
    for h in sorted(range(n), key=lambda _: r.random()): offs[h] = (h % 2, c.put_block(h % 2, blocks[h].raw, pad=gen.rb(r, r.randrange(0, 9))))
    for h in range(n): c.add_record(blocks[h], S + h, *offs[h])
    c.meta['own_group'] = True; yield c
    # 5 interleaved: equal-sized blocks at matching slots of two files, heights alternating between the files (a remembered position
    #   not tied to a file would skip the seek)
    c = base('interleaved'); offs = {}
    a = [h for h in range(n) if h % 2 == 0]; b = [h for h in range(n) if h % 2 == 1]; r.shuffle(b)
    for h in a: offs[h] = (0, c.put_block(0, blocks[h].raw))
    for h in b: offs[h] = (1, c.put_block(1, blocks[h].raw))
    for h in range(n): c.add_record(blocks[h], h, *offs[h])
    yield c

def equal_size_chain(r, coin, n):
    # blocks of identical size: one coinbase with fixed-length scripts
    blocks = []; prev = b'\x00' * 32
    for h in range(n):
        t = Tx([(b'\x00' * 32, 0xffffffff, struct.pack('<I', h) + gen.rb(r, 4), 0xffffffff)], [(50 * 10**8 + h, P2PKH(gen.rb(r, 20)))])
        b = Block(prev, [t], time=1231006505 + h); blocks.append(b); prev = b.hash
    return blocks

def explore(ck):
    r = ck.rng; quick = ck.tier == 'quick'
    ck.rule = ('each logical chain is materialised in 6 physical layouts (the sixth: the index holds heights S..S+n-1 only, run with --start S) (reference; random permutation over 1-4 files numbered from {0,1,127,128,16383,16384,99999,100000,2^32,2^32+1,2^64-1; 2^64-1 / 2^64-128 / 2^64-129 forced in two of three chains} '
               'with garbage padding, unindexed decoy blocks, extra LevelDB keys f/l/F/R/a/c, extra files, dangling symbolic links and a link loop named by no record, an indexed blk file reached through a symbolic link, a leftover `blocks/` sub-directory holding a complete older data directory, and 4 name paddings; sparse offset beyond 4 GiB with a decoy at the offset mod 2^32; '
               'file number >= 2^32 with a decoy in the file numbered mod 2^32; equal-sized blocks interleaved over two files); all layouts must give the csvdump output of the model of the reference. '
               'Non-trivial: the layout is not the reference; distinct by (chain, layout).')
    cases = []; groups = {}
    nchains = 6 if quick else 40
    for k in range(nchains):
        coin = gen.ALL_COINS[k % 8]
        blocks = equal_size_chain(r, coin, r.randrange(4, 8)) if k % 2 == 0 else gen.random_chain(r, coin, r.randrange(3, 7), max_tx=3)
        for c in layouts(r, coin, blocks, k, not quick):
            c.meta['cbs'] = ['csv']; c.meta['group'] = k; cases.append(c)
            if not c.meta.get('own_group'): groups.setdefault(k, []).append(c.id)
    # a data directory whose index names blk files but which holds none ("No blk files found!"): outside the property's quantifier, correspondence only
    nb = Case('noblk', 'bitcoin').simple_layout(equal_size_chain(r, 'bitcoin', 3)); nb.files = {}; nb.in_domain = False; nb.meta.update(layout='noblk', cbs=['csv'], group=-1, own_group=True); cases.append(nb)
    models, results = core.compare_cases(ck, cases, lambda c: ['csv'], nontrivial=lambda c, m: (c.meta['group'], c.meta['layout']) if c.meta['layout'] != 'ref' else None,
                                         sample=lambda c, m: dict(case=c.id, coin=c.coin, layout=c.meta['layout'], files={str(n): [(o, len(d)) for o, d in e] for n, e in c.files.items()},
                                                                  names=c.name_of, records=len(c.records), model_status=m['status']))
    # layout independence inside the model as well (sanity instance of C03_layout_independent): all layouts of a chain give the same rows
    for k, ids in groups.items():
        ref = models[ids[0]]['csv']
        for i in ids[1:]:
            if models[i]['csv'] != ref: ck.disagreement('model rows differ between layouts of chain %d' % k, '%s vs %s' % (ids[0], i), None, in_domain=False)
    for c in cases: ck.count('layout:' + c.meta['layout'])
    # unit-level correspondences through the hooks: Core VarInt / index record decode, blk file names
    if not run.hooks_ok(ck): return
    recs = []
    vals = [0, 1, 127, 128, 255, 16383, 16384, 16511, 16512, 2**21, 2**28, 2**32 - 1, 2**32, 2**35, 2**63, 2**64 - 1]
    def core_varint(bs):      # reference decoder of Bitcoin Core's VarInt
        n = 0
        for ch in bs:
            n = (n << 7) | (ch & 0x7f)
            if ch & 0x80: n += 1
        return n
    # values whose encoding has 0xff / 0x80 continuation bytes after odd and even prefixes (carries between the 7-bit groups)
    vals += sorted({core_varint([a_, b_, c_]) for a_ in (0x80, 0x81, 0x82, 0xfe, 0xff) for b_ in (0xff, 0x80, 0xfe) for c_ in (0x00, 0x01, 0x7f)} | {core_varint([0xff, 0xff, 0xff, 0x7f]), core_varint([0x81, 0xff, 0xff, 0x00])})
    for i in range(300 if quick else 3000):
        st = r.choice([0x1d, 0x0d, 0x19, 0x08, 0x10, 0x18, 0x00, 0x02, 0x03, 0x05, 0x1f, 0x3d, 0x5d, r.randrange(256)])
        v = index_value(r.choice(vals), r.choice(vals), st, r.choice(vals), r.choice(vals), r.choice(vals), r.choice(vals), gen.rb(r, 80))
        if i % 7 == 0: v = v[:r.randrange(len(v))]                                        # truncated record
        if i % 11 == 0: v = bytes([0x80 | r.randrange(128) for _ in range(r.randrange(9, 12))]) + v   # over-long VarInt
        recs.append((gen.rb(r, 32).hex(), v.hex()))
    impl = run.hook_lines(ck.tools, 'index-record', ['%s %s' % kv for kv in recs])
    mod = run.model_lines(ck.tools, ['record %s %s' % kv for kv in recs])
    for (k, v), a, b in zip(recs, impl, mod):
        ck.evaluated(); ck.count('index records')
        a2 = 'panic' if a.startswith('PANIC') else ('err' if a.startswith('err') else a)
        if a2 != b: ck.disagreement('index record decode', 'value=%s impl=%s model=%s' % (v, a, b), None, in_domain=not (b in ('err', 'panic')), extra_replay='record %s %s' % (k, v))
    names = ['blk00000.dat', 'blk6.dat', 'blk.dat', 'blk+5.dat', 'blk-5.dat', 'blk 5.dat', 'blk5 .dat', 'blk0x10.dat', 'blk18446744073709551615.dat', 'blk18446744073709551616.dat',
             'blk00000000000000000000000000001.dat', 'blkindex.dat', 'invalid.dat', 'blk5.dat.bak', 'Blk5.dat', 'blk5.DAT', 'xblk5.dat', 'blk5dat', 'blk٥.dat', 'blk1_000.dat', 'blk++1.dat', 'blk+.dat', 'rev00001.dat']
    names += ['blk%s.dat' % ''.join(r.choice('0123456789+-x ') for _ in range(r.randrange(0, 8))) for _ in range(200)]
    names = [n for n in names if '\n' not in n and ' ' not in n]
    impl = run.hook_lines(ck.tools, 'blk-name', names); mod = run.model_lines(ck.tools, ['blkname ' + n for n in names])
    for n, a, b in zip(names, impl, mod):
        ck.evaluated(); ck.count('blk names')
        if a != b: ck.disagreement('blk file name parse', 'name=%r impl=%s model=%s' % (n, a, b), None, in_domain=n.isascii(), extra_replay='blkname ' + n)

def replay(ck, path):
    rc = 0
    for line in open(path):
        t = line.split()
        if t[:1] == ['record']:
            a = run.hook_lines(ck.tools, 'index-record', [' '.join(t[1:])])[0]; b = run.model_lines(ck.tools, [line.strip()])[0]
            print('replay record: impl=%s model=%s' % (a, b)); rc |= (('panic' if a.startswith('PANIC') else 'err' if a.startswith('err') else a) != b)
        if t[:1] == ['blkname']:
            a = run.hook_lines(ck.tools, 'blk-name', [t[1]])[0]; b = run.model_lines(ck.tools, [line.strip()])[0]
            print('replay blkname: impl=%s model=%s' % (a, b)); rc |= (a != b)
    if any(l.startswith('case ') for l in open(path)):
        c = load_case(path); m = run.run_model(ck.tools, [c], ['csv'])[c.id]
        for cb, diffs, r in run.compare_case(ck.tools, c, m, ['csv']):
            print('replay %s: %s' % (cb, 'agrees' if not diffs else 'DIFFERS: ' + ' | '.join(diffs)[:1500])); rc |= bool(diffs)
    return int(rc)
