"""C08 — balances lists each address once with the sum of its unspent outputs."""
from ..chain import *
from .. import gen, core, run
from . import c07
THEOREMS = core.pinned('C08')

def explore(ck):
    r = ck.rng; quick = ck.tier == 'quick'
    ck.rule = ('the C07 histories with few distinct addresses (many outputs per address, P2PK and P2PKH of one key, spend-and-refund, zero values) x ranges x coins; compared: balances rows vs model, '
               'and the per-address aggregation of the real unspentcsvdump run vs the real balances run. Non-trivial: >= 1 address with >= 2 unspent outputs; distinct by history.')
    cases = c07.make_cases(ck, 30 if quick else 250, few=True)
    def nontrivial(c, m):
        from collections import Counter
        cnt = Counter(l.split(';')[4] for l in m['unspent'])
        return c.id if cnt and max(cnt.values()) >= 2 else None
    models, results = core.compare_cases(ck, cases, lambda c: ['balances', 'unspent'], nontrivial=nontrivial,
                                         sample=lambda c, m: dict(case=c.id, coin=c.coin, tags=c.meta['tags'], start=c.start, end=c.end, addresses=len(m['balance']), unspent_rows=len(m['unspent'])))
    for c, res, err in results:
        if not res: continue
        m = models[c.id]
        if m['status'][0] != 'done': continue
        # model: balances = aggregation of the unspent rows (sanity instance of C08_balance_is_sum)
        agg = {}
        for l in m['unspent']: f = l.split(';'); agg[f[4]] = agg.get(f[4], 0) + int(f[3])
        if sorted('%s;%d' % kv for kv in agg.items()) != sorted(m['balance']):
            ck.disagreement('model balances differ from the aggregation of the model unspent rows on ' + c.id, '', c, in_domain=False)
        # implementation: the two real runs agree with each other
        files = {cb: r_.files for cb, d, r_ in res}
        try:
            un = next(iter(files['unspent'].values())).decode().split('\n')[1:]; ba = next(iter(files['balances'].values())).decode().split('\n')[1:]
            agg = {}
            for l in un:
                if l: f = l.split(';'); agg[f[4]] = agg.get(f[4], 0) + int(f[3])
            if sorted('%s;%d' % kv for kv in agg.items()) != sorted(x for x in ba if x):
                ck.disagreement('balances run differs from the aggregation of the unspentcsvdump run on ' + c.id, '', c, in_domain=True)
            if len(set(x.split(';')[0] for x in ba if x)) != len([x for x in ba if x]): ck.disagreement('an address is listed twice on ' + c.id, '', c, in_domain=True)
        except StopIteration:
            pass
