"""C08 — balances lists each address once with the sum of its unspent outputs."""
from ..chain import *
from .. import gen, core, run
from . import c07
THEOREMS = core.pinned('C08')

def explore(ck):
    r = ck.rng; quick = ck.tier == 'quick'
    ck.rule = ('the C07 histories with few distinct addresses (many outputs per address, P2PK and P2PKH of one key, spend-and-refund, zero values) x ranges x coins; compared: balances rows vs model, '
               'and the per-address aggregation of the real unspentcsvdump run vs the real balances run. plus one history with 3000 (thorough: 100 000, a balances file beyond the 4 MB buffer of the writer) funded addresses, a tenth emptied and a tenth funded twice, and one history with > 65 536 unspent outputs over 7 addresses (expectation computed by the harness from the generated history; model run on it in the thorough tier). Non-trivial: >= 1 address with >= 2 unspent outputs; distinct by history.')
    cases = c07.make_cases(ck, 30 if quick else 250, few=True)
    def nontrivial(c, m):
        from collections import Counter
        cnt = Counter(l.split(';')[4] for l in m['unspent'])
        return c.id if cnt and max(cnt.values()) >= 2 else None
    models, results = core.compare_cases(ck, cases, lambda c: ['balances', 'unspent'], nontrivial=nontrivial,
                                         sample=lambda c, m: dict(case=c.id, coin=c.coin, tags=c.meta['tags'], start=c.start, end=c.end, addresses=len(m['balance']), unspent_rows=len(m['unspent'])))
    for c, res, err in results:
        if not res: continue
        m = models[c.id]
        if m['status'][0] != 'done': continue
        # model: balances = aggregation of the unspent rows (sanity instance of C08_balance_is_sum)
        agg = {}
        for l in m['unspent']: f = l.split(';'); agg[f[4]] = agg.get(f[4], 0) + int(f[3])
        if sorted('%s;%d' % kv for kv in agg.items()) != sorted(m['balance']):
            ck.disagreement('model balances differ from the aggregation of the model unspent rows on ' + c.id, '', c, in_domain=False)
        # implementation: the two real runs agree with each other
        files = {cb: r_.files for cb, d, r_ in res}
        try:
            un = next(iter(files['unspent'].values())).decode().split('\n')[1:]; ba = next(iter(files['balances'].values())).decode().split('\n')[1:]
            agg = {}
            for l in un:
                if l: f = l.split(';'); agg[f[4]] = agg.get(f[4], 0) + int(f[3])
            if sorted('%s;%d' % kv for kv in agg.items()) != sorted(x for x in ba if x):
                ck.disagreement('balances run differs from the aggregation of the unspentcsvdump run on ' + c.id, '', c, in_domain=True)
            if len(set(x.split(';')[0] for x in ba if x)) != len([x for x in ba if x]): ck.disagreement('an address is listed twice on ' + c.id, '', c, in_domain=True)
        except StopIteration:
            pass

    big_history(ck)
    many_addresses(ck, 3000 if ck.tier == 'quick' else 100000)

def many_addresses(ck, n):
    """n funded addresses (quick 3000: a balances file of more than 128 KiB; thorough 100 000: more than the 4 MB the writer buffers), a tenth of them emptied again, a tenth funded twice.
    Expectation computed by the harness from the generated history (python address codec); the unspentcsvdump run is aggregated as a cross-check."""
    r = ck.rng; coin = gen.ALL_COINS[(ck.seed + 3) % 8]
    from .. import scripts
    keys = [gen.rb(r, 20) for _ in range(n)]; blocks = []; prev = b'\x00' * 32; expect = {}; created = []
    per = 1000
    for h in range((n + per - 1) // per + 1):
        txs = [coinbase_tx(h, [(50 * 10**8, b'\x6a\x01x')], extra=gen.rb(r, 2))]
        chunk = keys[h * per:(h + 1) * per]
        if chunk:
            outs = [(1000 + i, P2PKH(k)) for i, k in enumerate(chunk)]; t = Tx([(gen.rb(r, 32), 0, b'', 0)], outs); txs.append(t)
            for i, k in enumerate(chunk): expect[k] = expect.get(k, 0) + 1000 + i; created.append((t.txid, i, k, 1000 + i))
        if h >= 1:
            # a tenth of the outputs created one block earlier are spent again; the value goes to addresses that already own something (funded twice)
            prevs = [x for j, x in enumerate(created[(h - 1) * per:h * per]) if j % 10 == 3]
            if prevs:
                ins = [(tid, i, b'', 0) for tid, i, k, v in prevs]; back = [x for j, x in enumerate(created[(h - 1) * per:h * per]) if j % 10 == 7][:len(prevs)]
                outs = [(v, P2PKH(k2)) for (_, _, _, v), (_, _, k2, _) in zip(prevs, back)]
                if outs:
                    txs.append(Tx(ins, outs))
                    for tid, i, k, v in prevs: expect[k] -= v
                    for (_, _, _, v), (_, _, k2, _) in zip(prevs, back): expect[k2] += v
        b = Block(prev, txs, time=1300000000 + h); blocks.append(b); prev = b.hash
    c = Case('many08', coin).simple_layout(blocks); c.meta['fixed'] = True
    rel = ck.tier != 'quick' and bool(getattr(ck.tools, 'bin_release', None))      # (the debug build spends ~8 ms per address on Base58: the 100 000-address history runs on the release build)
    rb = run.run_impl(ck.tools, c, 'balances', timeout=900, release=rel); ru = run.run_impl(ck.tools, c, 'unspent', timeout=900, release=rel)
    ck.evaluated(); ck.count('history with %d funded addresses (harness-side expectation)' % n); ck.nontrivial(('many', n))
    bad = []
    if rb.rc != 0 or ru.rc != 0: bad.append('exit status balances=%s unspent=%s' % (rb.rc, ru.rc))
    else:
        ba = [x for x in next(iter(rb.files.values())).decode().split('\n')[1:] if x]; un = [x for x in next(iter(ru.files.values())).decode().split('\n')[1:] if x]
        want = sorted('%s;%d' % (scripts.ref(P2PKH(k), coin)[1], v) for k, v in expect.items() if v > 0)
        if sorted(ba) != want:
            sb, sw = set(ba), set(want)
            bad.append('balances rows differ from the sums of the generated history: %d rows, %d expected; missing %s; unexpected %s' % (len(ba), len(want), sorted(sw - sb)[:3], sorted(sb - sw)[:3]))
        agg = {}
        for l in un: f = l.split(';'); agg[f[4]] = agg.get(f[4], 0) + int(f[3])
        if sorted('%s;%d' % kv for kv in agg.items()) != sorted(ba): bad.append('balances run differs from the aggregation of the unspentcsvdump run')
        if len(set(x.split(';')[0] for x in ba)) != len(ba): bad.append('an address is listed twice')
    if bad: ck.disagreement('balances over %d funded addresses (%s)' % (n, coin), '\n'.join(bad), c, in_domain=True)

def big_history(ck):
    """More than 65 536 unspent outputs spread over 7 addresses (10 000 outputs per address and more, in many transactions). The extracted model needs minutes for a history of this size
    (hashing in Gallina), so the expectation is computed by the harness from the generated history itself (sum of the outputs it created and did not spend, per address string from the
    python address codec) and the two real runs are cross-checked against each other; the model runs on it in the thorough tier."""
    r = ck.rng; quick = ck.tier == 'quick'
    coin = 'bitcoin'; keys = [gen.rb(r, 20) for _ in range(7)]
    from .. import scripts
    addr = {k: scripts.ref(P2PKH(k), coin)[1] for k in keys}
    blocks = []; prev = b'\x00' * 32; expect = {}; unspent_n = 0; spendable = []
    for h in range(7):
        txs = [coinbase_tx(h, [(50 * 10**8, P2PKH(keys[h % 7]))], extra=gen.rb(r, 2))]; expect[addr[keys[h % 7]]] = expect.get(addr[keys[h % 7]], 0) + 50 * 10**8; unspent_n += 1
        for j in range(5):
            ins = [(gen.rb(r, 32), 0, b'', 0)]
            for _ in range(3):
                if spendable and r.random() < 0.5:
                    tid, idx, k, v = spendable.pop(r.randrange(len(spendable))); ins.append((tid, idx, b'', 0)); expect[addr[k]] -= v; unspent_n -= 1
            outs = []
            for i in range(2000):
                k = keys[(i * 3 + j + h) % 7]; v = r.randrange(1, 10**6); outs.append((v, P2PKH(k)))
            t = Tx(ins, outs); txs.append(t)
            for i, (v, sc) in enumerate(outs):
                k = keys[(i * 3 + j + h) % 7]; expect[addr[k]] = expect.get(addr[k], 0) + v; unspent_n += 1
                if i % 400 == 0: spendable.append((t.txid, i, k, v))
        b = Block(prev, txs, time=1300000000 + h); blocks.append(b); prev = b.hash
    c = Case('big08', coin).simple_layout(blocks)
    rb = run.run_impl(ck.tools, c, 'balances'); ru = run.run_impl(ck.tools, c, 'unspent')
    ck.evaluated(); ck.count('history with %d unspent outputs over 7 addresses (harness-side expectation)' % unspent_n); ck.nontrivial(('big', unspent_n))
    bad = []
    if rb.rc != 0 or ru.rc != 0: bad.append('exit status balances=%s unspent=%s' % (rb.rc, ru.rc))
    else:
        ba = [x for x in next(iter(rb.files.values())).decode().split('\n')[1:] if x]; un = [x for x in next(iter(ru.files.values())).decode().split('\n')[1:] if x]
        want = sorted('%s;%d' % kv for kv in expect.items() if True)
        if sorted(ba) != want: bad.append('balances rows differ from the sums of the generated history: impl=%s expected=%s' % (sorted(ba)[:3], want[:3]))
        agg = {}
        for l in un: f = l.split(';'); agg[f[4]] = agg.get(f[4], 0) + int(f[3])
        if sorted('%s;%d' % kv for kv in agg.items()) != sorted(ba): bad.append('balances run differs from the aggregation of the unspentcsvdump run')
        if len(un) != unspent_n: bad.append('unspent rows impl=%d expected=%d' % (len(un), unspent_n))
    if bad: ck.disagreement('history with > 65536 unspent outputs', '\n'.join(bad), c, in_domain=True)
    if not quick:
        m = run.run_model(ck.tools, [c], ['balances'])[c.id]
        for cb, diffs, rr in run.compare_case(ck.tools, c, m, ['balances']):
            ck.evaluated()
            if diffs: ck.disagreement('balances on the big history (model)', '\n'.join(diffs), c, in_domain=True)
