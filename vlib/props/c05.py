"""C05 — Bitcoin/testnet3: every output script gets the reference type and address.  (shared engine for C06)"""
from ..chain import *
from .. import gen, core, run, scripts
THEOREMS = core.pinned('C05')
NEEDS_RELEASE = False

def norm(line):
    p = line.split('|')
    if p[0].startswith('ScriptError'): p[0] = 'ScriptError'
    return '|'.join(p)

def run_stream(ck, coins, stream, release=False, check_ref=True, label=''):
    """hook vs model vs python reference on every (script, coin); returns number of PANIC answers"""
    if not run.hooks_ok(ck): return 0
    reqs = []
    for k, (tag, s) in enumerate(stream):
        # every script on one coin (rotating); templates, slot forms and no-op insertions on every coin (the verdict depends on the coin only through the version byte)
        every = len(coins) <= 2 or ':' not in tag or tag.startswith(('nop:', 'ms_', 'samehash', 'witness:fixed', 'nameop:')) or (tag.startswith('slot:') and len(s) < 700)
        for j, coin in enumerate(coins):
            if every or j == k % len(coins): reqs.append((tag, s, coin))
    impl = run.hook_lines(ck.tools, 'script-eval', ['%02x %s' % (COINS[c]['ver'], s.hex() if s else '-') for _, s, c in reqs], release=release)
    mod = run.model_lines(ck.tools, ['script %s %s' % (c, s.hex() if s else '-') for _, s, c in reqs])
    panics = 0
    for (tag, s, coin), a, b in zip(reqs, impl, mod):
        ck.evaluated(); base = tag.split(':')[0]; ck.count('stream:' + base)
        a = norm(a)
        rt, ra, rp = scripts.ref(s, coin)
        replay = 'script %s %s' % (coin, s.hex() if s else '-')
        if a.startswith(('PANIC', 'ABORT')):
            panics += 1
            ck.disagreement('script evaluation panicked%s (%s, %s)' % (label, coin, tag), 'script=%s impl=%s model=%s' % (s.hex()[:200], a, b), None, in_domain=True, extra_replay=replay); continue
        if a != b:
            ck.disagreement('script verdict%s (%s, %s)' % (label, coin, tag), 'script=%s impl=%s model=%s reference=%s' % (s.hex()[:200], a[:300], b[:300], (rt, ra)), None, in_domain=True, extra_replay=replay)
        it, ia, ip = a.split('|')
        if check_ref:
            bad = None
            if it != rt: bad = 'type %s, reference %s' % (it, rt)
            elif (ia if ia != '-' else None) != ra: bad = 'address %s, reference %s' % (ia, ra)
            elif rp not in (None, 'any') and (bytes.fromhex(ip) if ip != '-' else b'') != rp: bad = 'payload %s, reference %s' % (ip[:80], rp.hex()[:80])
            if bad is None and ia != '-': bad = scripts.check_address(s, coin, it, ia)
            if bad: ck.disagreement('reference rules%s (%s, %s)' % (label, coin, tag), 'script=%s: %s' % (s.hex()[:200], bad), None, in_domain=True, extra_replay=replay)
        if rt != 'NotRecognised' or ':mut' in tag or ':trunc' in tag or ':ext' in tag: ck.nontrivial((coin, s))
        ck.count('class:' + rt)
    return panics

def explore(ck, coins=('bitcoin', 'testnet3')):
    r = ck.rng; quick = ck.tier == 'quick'
    ck.rule = ('in-process script-eval hook on a structured stream: every standard template with random payloads (P2PK keys valid, off-curve, hybrid, zero, text), every one-byte mutation / '
               'truncation / extension of each, all 256 opcodes alone / leading / mid-script, witness version 0..17 x program length 1..42 (+ illegal lengths), m x n multisig grid 0..17 with wrong n, every non-push opcode in a multisig key slot, fixed witness programs (pay-to-anchor 51024e73 and neighbours, BIP173/350 vectors), the same hash under several templates back to back, '
               'non-pushnum n, up to 300 pushes, every push form in every template slot with lengths 0..65535 and every truncation incl. inside PUSHDATA length fields, no-op insertions at every '
               'position, OP_RETURN payload grid, scripts of 9999..12345 bytes, random token sequences and random bytes; compared per (script, coin): binary vs extracted model vs an independent python '
               'transcription of the reference rules, and every reported address is decoded (checksum, prefix, embedded hash); black-box subset through csvdump / unspentcsvdump / balances / simplestats incl. the longest addresses (v1..v16 programs of 33..40 bytes) and other spellings of the coin name. Non-trivial: reference class is not NotRecognised, or a one-step '
               'mutation of a template; distinct by (coin, script bytes).')
    st = scripts.stream(r, 300 if quick else 4000, thorough=not quick)
    run_stream(ck, coins, st)
    ck.sample(dict(examples=[(t, s.hex()[:80]) for t, s in st[:6]], scripts=len(st), coins=list(coins)))
    # black-box subset through csvdump (address column), one chain per network
    cases = []
    for coin in coins:      # every coin of the table goes through the command line at least once (the hook receives the version byte from the harness, the CLI takes it from types.rs)
        long_wit = [x for x in st if x[0] == 'witness' and len(x[1]) >= 35 and x[1][0] != 0]        # v1..v16 programs of 33..40 bytes: the longest addresses there are (up to 74 characters)
        BIGV = [2100000000000000, 2100000000000001, 5 * 10**16, 2**60, 2**61]      # the verdict is a function of the script bytes alone, whatever the value (incl. above 21M coins; 8 such outputs, the range total stays below 2^64)
        outs = [(i if (i % 7 or i >= 56) else BIGV[(i // 7) % 5], s) for i, (t, s) in enumerate(st[::max(1, len(st) // 150)] + [x for x in st if x[0] in ('samehash', 'witness:fixed') or x[0].startswith('nameop:')] + long_wit[::3]) if len(s) < 3000]
        txs = [coinbase_tx(1, [(1, P2PKH(b'\x01' * 20))])] + [Tx([(gen.rb(r, 32), 0, b'', 0)], [(v, s) for v, s in outs[k:k + 25]]) for k in range(0, len(outs), 25)]
        g = gen.GENESIS[coin] if coin in gen.GENESIS else Block(b'\x00' * 32, [coinbase_tx(0, [(1, b'\x51')])])
        b1 = Block(g.hash, txs)
        c = Case('bb_' + coin, coin).simple_layout([g, b1]); c.meta['cbs'] = ['csv', 'unspent', 'stats'] if coin in coins[:2] else ['csv']; cases.append(c)
        if coin in coins[:2]:
            # the same chain in directories called like the default directories of other clients: the coin is what --coin says, not what the path suggests
            import copy
            for j, comp in enumerate(['backup/testnet3/mainnet-copy/blocks', '.namecoin/btc/blocks', '.bitcoin/blocks', '.litecoin/blocks', '.dogecoin']):
                c3 = copy.copy(c); c3.id = 'bb_%s_dir%d' % (coin, j); c3.path_component = comp; c3.meta = dict(c.meta, cbs=['csv'], path=comp); cases.append(c3)      # (balances: totals of the huge values exceed u64, outside C08's domain)
        if coin in ('testnet3', 'bitcoin', 'litecoin'):
            # other spellings of the coin name: whatever the command line accepts must give that coin's result (a spelling it rejects gives no result at all)
            for sp in [coin.capitalize(), coin.upper(), 'TestNet3' if coin == 'testnet3' else coin.title()]:
                import copy
                c2 = copy.copy(c); c2.id = 'bb_%s_as_%s' % (coin, sp); c2.coin_spelling = sp; c2.meta = dict(c.meta, cbs=['csv'], spelling=sp); cases.append(c2)
    def spelled(c):
        return c.meta['cbs']
    models, results = core.compare_cases(ck, [c for c in cases if 'spelling' not in c.meta], lambda c: c.meta['cbs'])
    sp_cases = [c for c in cases if 'spelling' in c.meta]
    if sp_cases:
        ms = run.run_model(ck.tools, sp_cases, ['csv'])
        for c in sp_cases:
            rr = run.run_impl(ck.tools, c, 'csv'); ck.evaluated(); ck.count('coin name spellings')
            if rr.rc != 0 and not [n for n in rr.files if not n.endswith('.tmp')]: ck.count('spelling rejected by the command line'); continue
            diffs = run.cmp_csv(rr, ms[c.id], c)
            if diffs: ck.disagreement('--coin %s accepted but the result is not that of %s' % (c.meta['spelling'], c.coin), '\n'.join(diffs)[:1500], c, in_domain=True)

def replay(ck, path):
    rc = 0
    for line in open(path):
        t = line.split()
        if t[:1] == ['script'] and len(t) >= 2:
            coin = t[1]; hx = t[2] if len(t) > 2 else '-'
            a = norm(run.hook_lines(ck.tools, 'script-eval', ['%02x %s' % (COINS[coin]['ver'], hx)])[0]); b = run.model_lines(ck.tools, [line.strip()])[0]
            s = bytes.fromhex(hx) if hx != '-' else b''
            print('replay script %s: impl=%s model=%s reference=%s' % (coin, a[:200], b[:200], scripts.ref(s, coin)[:2])); rc |= (a != b)
    if any(l.startswith('case ') for l in open(path)):
        c = load_case(path); m = run.run_model(ck.tools, [c], ['csv', 'unspent', 'stats', 'opreturn'])[c.id]
        for cb, diffs, r in run.compare_case(ck.tools, c, m, ['csv']):
            print('replay %s: %s' % (cb, 'agrees' if not diffs else 'DIFFERS: ' + ' | '.join(diffs)[:1500])); rc |= bool(diffs)
    return int(rc)
