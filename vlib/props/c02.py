"""C02 — exactly the blocks of heights start..min(end,tip) are delivered, once, ascending."""
import itertools
import struct
from ..chain import *
from .. import gen, core, run

THEOREMS = core.pinned('C02')
CBS = ['csv', 'unspent', 'balances', 'opreturn', 'stats']

def chain_for(r, coin, n):
    # every block carries an OP_RETURN output and spendable outputs so that all five callbacks show which heights were seen
    return gen.random_chain(r, coin, n, max_tx=2, script_kinds=['p2pkh', 'opret_small', 'p2sh', 'p2pk33'], segwit_p=0.1)

def explore(ck):
    r = ck.rng; quick = ck.tier == 'quick'
    ck.rule = ('bounded-exhaustive: every chain length T+1 (T <= %d) x every accepted (--start s, --end e) incl. absent, e below/at/above the tip (also 2^31..2^64-1), s up to T, '
               'x 5 callbacks (callback rotates per (T,s,e) in the quick tier, all five in the thorough tier) x --verify on/off; plus high-height windows, windows whose index has no record below --start, directories whose blk file with the blocks below --start is missing or cut off, indexes with header-only records above the tip and header-only/stale siblings (sorting before the active block) at occupied heights, equal-sized blocks stored out of order over two files (a block of one file at the offset where the other file was left), chains of 140..520 blocks and blocks ping-ponging between two blk files '
               '(multi-byte VarInt heights). Non-trivial: s > 0 or e <= T (a bound cuts the chain); distinct by (T,s,e,callback).' % (4 if quick else 9))
    cases = []; expect = {}
    Tmax = 4 if quick else 9
    k = 0
    for T in range(0, Tmax + 1):
        coin = gen.ALL_COINS[T % len(gen.ALL_COINS)]
        blocks = chain_for(r, coin, T + 1)
        opts = [(0, None)] + [(s, None) for s in range(1, T + 1)] + [(s, e) for s in range(0, T + 1) for e in range(s + 1, T + 3)]
        for s, e in opts:
            c = Case('T%d_s%d_e%s' % (T, s, e), coin).simple_layout(blocks); c.start = s; c.end = e
            c.verify = (k % 3 == 0) and s > 0      # with --start > 0 no genesis block is needed
            c.meta['cbs'] = CBS if not quick else [CBS[k % 5], CBS[(k + 2) % 5]]
            c.meta['T'] = T; k += 1
            expect[c.id] = list(range(s, min(e, T) + 1 if e is not None else T + 1))
            cases.append(c)
    # start beyond the tip: outside the property's quantifier (s <= T); the model and the code must still agree (empty range, names carry s and s-1)
    for T, s_, e_ in [(2, 3, None), (2, 5, 9), (0, 1, None)]:
        coin = r.choice(gen.ALL_COINS); blocks = chain_for(r, coin, T + 1)
        c = Case('beyond_T%d_s%d_e%s' % (T, s_, e_), coin).simple_layout(blocks); c.start = s_; c.end = e_; c.in_domain = False
        c.meta['cbs'] = ['csv', 'unspent']; c.meta['T'] = T; expect[c.id] = []; cases.append(c)
    # --end far above the tip (2^31 .. 2^64-1): the range is s..T whatever the distance
    for k4, e_ in enumerate([2**31, 2**32, 2**48, 2**63, 2**64 - 1]):
        T = 3; coin = gen.ALL_COINS[k4 % 8]; blocks = chain_for(r, coin, T + 1); s_ = k4 % 3
        c = Case('hugeend%d' % k4, coin).simple_layout(blocks); c.start = s_; c.end = e_; c.meta['cbs'] = ['csv', 'unspent']; c.meta['T'] = T
        expect[c.id] = list(range(s_, T + 1)); cases.append(c)
    # outside the property's quantifier, for the correspondence only: rejected ranges (--start >= --end) and an index with a hole in the heights (the loop ends at the hole)
    for T, s_, e_ in [(3, 2, 2), (3, 3, 1), (0, 0, 0)]:
        coin = r.choice(gen.ALL_COINS); blocks = chain_for(r, coin, T + 1)
        c = Case('rejected_T%d_s%d_e%s' % (T, s_, e_), coin).simple_layout(blocks); c.start = s_; c.end = e_; c.in_domain = False
        c.meta['cbs'] = ['csv', 'stats']; c.meta['T'] = T; expect[c.id] = []; cases.append(c)
    for miss in (2, 4):
        coin = r.choice(gen.ALL_COINS); blocks = chain_for(r, coin, 7)
        c = Case('hole_at_%d' % miss, coin); c.in_domain = False
        for h, b in enumerate(blocks):
            off = c.put_block(0, b.raw)
            if h != miss: c.add_record(b, h, 0, off)
        c.meta['cbs'] = ['csv', 'unspent']; c.meta['T'] = 6; expect[c.id] = list(range(miss)); cases.append(c)
    # high-height windows: index holds H-1..H+k, run with -s H
    for H in ([300, 16511, 2113663, 2**32 - 1, 2**53 + 1, 2**63] if quick else [127, 128, 300, 16511, 16512, 2113663, 2113664, 13000000, 2**31, 2**32 - 1, 2**32, 2**53 + 1, 2**63, 2**64 - 200]):
        n = 4; coin = r.choice(gen.ALL_COINS)
        blocks = chain_for(r, coin, n + 1)
        for s, e in [(H, None), (H, H + 1), (H + 1, H + 2), (H, H + 100)]:
            c = Case('H%d_s%d_e%s' % (H, s, e), coin).simple_layout(blocks, start_height=H - 1); c.start = s; c.end = e
            c.verify = True; c.meta['cbs'] = ['csv', 'stats'] if quick else CBS; c.meta['T'] = H - 1 + n
            expect[c.id] = list(range(s, min(e, H - 1 + n) + 1 if e is not None else H + n))
            cases.append(c)
    # windows without a record for height s-1 (a pruned / partial index that starts exactly at s), --start s
    for H in [1, 2, 7, 300, 70000]:
        n = 3; coin = r.choice(gen.ALL_COINS); blocks = chain_for(r, coin, n + 1)
        for s, e in [(H, None), (H, H + 1), (H + 1, None)]:
            c = Case('noparent%d_s%d_e%s' % (H, s, e), coin).simple_layout(blocks, start_height=H); c.start = s; c.end = e
            c.verify = False; c.meta['cbs'] = ['csv', 'unspent']; c.meta['T'] = H + n
            expect[c.id] = list(range(s, min(e, H + n) + 1 if e is not None else H + n + 1)); cases.append(c)
    # the blk file that holds the blocks below --start is missing or cut off (a pruned or partially copied directory): the range itself is complete and must be delivered
    for k3, (S, variant) in enumerate([(3, 'removed'), (3, 'cut'), (4, 'removed'), (2, 'cut')]):
        coin = gen.ALL_COINS[(k3 * 3 + 1) % 8]; blocks = chain_for(r, coin, 8); c = Case('prunedpred%d_s%d_%s' % (k3, S, variant), coin)
        for h, b in enumerate(blocks):
            f = 0 if h < S else 1; off = c.put_block(f, b.raw); c.add_record(b, h, f, off)
        if variant == 'removed': del c.files[0]
        else: o_, d_ = c.files[0][0]; c.files[0] = [(o_, d_[:len(d_) // 3])]
        c.start = S; c.end = None if k3 % 2 else 6; c.verify = (k3 == 2); c.meta['cbs'] = ['csv', 'unspent']; c.meta['T'] = 7
        expect[c.id] = list(range(S, (6 if c.end else 7) + 1)); cases.append(c)
    # records that are not part of the chain but live in the same index (C04's subject; here they must not shift the range): header-only records above the tip,
    # a header-only record and a stale sibling with data (sorting before the active block) at an occupied height
    for k2 in range(4 if quick else 16):
        coin = gen.ALL_COINS[k2 % 8]; T = r.randrange(3, 7); blocks = chain_for(r, coin, T + 1)
        for s, e in [(0, None), (1, None), (2, T + 5), (0, T - 1), (T, None)]:
            c = Case('extra%d_s%d_e%s' % (k2, s, e), coin).simple_layout(blocks); c.start = s; c.end = e; c.verify = s > 0 and k2 % 2 == 0
            for up in range(1, r.randrange(2, 5)):
                hb = Block(blocks[T].hash, [coinbase_tx(T + up, [(1, b'\x51')], extra=gen.rb(r, 4))], time=r.getrandbits(31)); c.add_record(hb, T + up, 0, 0, status=2, ntx=0)
            hh = r.randrange(1, T + 1)
            hb = Block(blocks[hh].prev, [coinbase_tx(hh, [(1, b'\x51')], extra=gen.rb(r, 4))], time=r.getrandbits(31)); c.add_record(hb, hh, 0, 0, status=2, ntx=0)
            for _ in range(3000):
                sb = Block(blocks[hh].prev, [coinbase_tx(hh, [(7, P2PKH(gen.rb(r, 20)))], extra=gen.rb(r, 4))], time=r.getrandbits(31), nonce=r.getrandbits(32))
                if sb.hash < blocks[hh].hash: off = c.put_block(1, sb.raw); c.add_record(sb, hh, 1, off, status=0x0b, ntx=1); break
            c.meta['cbs'] = ['csv', 'stats'] if quick else CBS; c.meta['T'] = T
            expect[c.id] = list(range(s, min(e, T) + 1 if e is not None else T + 1)); cases.append(c)
    # long chains (a read-ahead / batching defect needs well over a hundred blocks) and blocks ping-ponging between blk files
    for T, fileplan in ([(140, 'single'), (150, 'pingpong')] if quick else [(140, 'single'), (300, 'pingpong'), (520, 'single'), (260, 'pingpong')]):
        coin = r.choice(gen.ALL_COINS); blocks = []; prev = b'\x00' * 32
        for h in range(T + 1):
            b = Block(prev, [coinbase_tx(h, [(h + 1, P2PKH(gen.rb(r, 20))), (0, b'\x6a\x02' + struct.pack('<H', h))])], time=1300000000 + h, nonce=h); blocks.append(b); prev = b.hash
        for s, e in [(0, None), (10, T - 10), (T - 135, T + 50), (3, 131), (T - 129, None)]:
            c = Case('long%d_%s_s%d_e%s' % (T, fileplan, s, e), coin)
            for h, b in enumerate(blocks):
                f = 0 if fileplan == 'single' else (1 if (h % 7 in (4, 6)) else 0)
                off = c.put_block(f, b.raw); c.add_record(b, h, f, off)
            c.start = s; c.end = e; c.verify = s > 0; c.meta['cbs'] = ['csv', 'opreturn'] if quick else CBS; c.meta['T'] = T
            expect[c.id] = list(range(s, min(e, T) + 1 if e is not None else T + 1)); cases.append(c)
    # equal-sized blocks arriving out of order over two files: blk0 = [0,1,2], blk1 = [6,7,8,3,4,5] - height 3 sits in file 1 at the very offset where file 0 ended
    from . import c03
    for s, e in [(0, None), (2, 5), (3, None), (1, 6)]:
        coin = 'bitcoin'; blocks = c03.equal_size_chain(r, coin, 9); c = Case('straggler_s%d_e%s' % (s, e), coin); offs = {}
        for h in [0, 1, 2]: offs[h] = (0, c.put_block(0, blocks[h].raw))
        for h in [6, 7, 8, 3, 4, 5]: offs[h] = (1, c.put_block(1, blocks[h].raw))
        for h in range(9): c.add_record(blocks[h], h, *offs[h])
        c.start = s; c.end = e; c.meta['cbs'] = ['csv', 'unspent']; c.meta['T'] = 8
        expect[c.id] = list(range(s, min(e, 8) + 1 if e is not None else 9)); cases.append(c)
    def nontrivial(c, m):
        T = c.meta['T']
        return (T, c.start, c.end, tuple(c.meta['cbs'])) if (c.start > 0 or (c.end is not None and c.end <= T)) else None
    models, results = core.compare_cases(ck, cases, lambda c: c.meta['cbs'], nontrivial=nontrivial,
                                         sample=lambda c, m: dict(case=c.id, coin=c.coin, callbacks=c.meta['cbs'], verify=c.verify, expected_heights=expect[c.id][:12], model_status=m['status']))
    # the model's delivered heights are the declarative range (sanity instance of the theorem) and the implementation's are the same
    for c, res, err in results:
        m = models[c.id]
        if m['delivered'] != expect[c.id]:
            ck.disagreement('model delivered heights differ from s..min(e,T) on ' + c.id, 'model=%s expected=%s' % (m['delivered'], expect[c.id]), c, in_domain=False)
        if res and m['status'][0] == 'done':
            for cb, diffs, rr in res:
                if cb == 'csv' and not diffs:
                    if not expect[c.id]: continue
                    name = 'blocks-%d-%d.csv' % (c.start, expect[c.id][-1])
                    hs = [int(l.split(';')[1]) for l in rr.files.get(name, b'').decode().split('\n') if l]
                    if hs != expect[c.id]: ck.disagreement('blocks.csv heights on ' + c.id, 'impl=%s expected=%s' % (hs, expect[c.id]), c)
                if cb == 'stats' and not diffs:
                    st = run.parse_stats((rr.stdout + rr.stderr).decode(errors='replace'))
                    if st['blocks'] != str(len(expect[c.id])): ck.disagreement('simplestats valid blocks on ' + c.id, 'impl=%s expected=%d' % (st['blocks'], len(expect[c.id])), c)
    ck.exhaustive = True
    ck.count('cases', len(cases))
