"""C09 — --verify accepts exactly the chains whose merkle roots and prev-hash links hold."""
import copy
from ..chain import *
from .. import gen, core, run
THEOREMS = core.pinned('C09')

COUNTS_Q = [1, 2, 3, 4, 5, 6, 7, 8, 9, 15, 16, 17, 31, 33, 40, 63, 65, 127, 128, 129, 131, 255, 257, 258]
COUNTS_T = COUNTS_Q + [10, 11, 12, 13, 14, 32, 64, 130, 256, 259, 300, 511, 513, 514, 1025]

def chain_with_counts(r, coin, counts, genesis):
    blocks = []; prev = b'\x00' * 32
    for h, n in enumerate(counts):
        if h == 0 and genesis: b = gen.GENESIS[coin]; blocks.append(b); prev = b.hash; continue
        txs = [coinbase_tx(h, [(50 * 10**8, P2PKH(gen.rb(r, 20)))], extra=gen.rb(r, 2))]
        for j in range(1, n):
            wit = [[gen.rb(r, 8)]] if (j % 5 == 0) else None
            # every 7th transaction uses over-long CompactSize encodings for its counts / script lengths: the txid commits to the bytes as they are on disk
            wd = {'in': r.choice([3, 5, 9]), 'out': r.choice([3, 5, 9]), ('isl', 0): r.choice([3, 5, 9]), ('osl', 0): r.choice([3, 5, 9])} if j % 7 == 3 else None
            txs.append(Tx([(gen.rb(r, 32), j & 3, b'\x51' if j % 3 else b'', 0xffffffff)], [(j, P2PKH(gen.rb(r, 20)))], witness=wit, widths=wd))
        if n == 1 and h % 2 == 1: txs[0] = Tx(txs[0].inputs, txs[0].outputs, widths={'in': 3, ('osl', 0): 5})
        if n >= 3 and h % 2 == 0:
            # the same transaction twice in one merkle pair (the CVE-2012-2459 shape): the three conditions of the property hold, so the chain is consistent
            if len(txs) % 2 == 1: txs.append(txs[-1])
        if h % 3 == 1:      # scripts and witness items beyond every script-execution limit (10 000 / 520 bytes) are legal block content
            big = r.choice([10001, 12000, 70000])
            txs.append(Tx([(gen.rb(r, 32), 0, gen.rb(r, r.choice([0, big])), 0)], [(1, b'\x6a' + gen.rb(r, big)), (2, P2PKH(gen.rb(r, 20)))], witness=([[gen.rb(r, big), b'\x01']] if h % 2 else None)))
        b = Block(prev, txs, time=1300000000 + h, nonce=r.getrandbits(32), count_width=(r.choice([3, 5, 9]) if h % 3 == 2 else None)); blocks.append(b); prev = b.hash
    return blocks

def corrupt(case, blocks, h, where, r):
    """returns a copy of the case with one bit flipped in block h; `where` in merkle|prev|txdata|witness"""
    c = copy.copy(case); c.files = {n: list(e) for n, e in case.files.items()}; c.meta = dict(case.meta)
    b = blocks[h]; raw = bytearray(b.raw)
    if where == 'length':
        # the top bit of a count / length byte of some transaction (covered by the txid): the parser then reads past the transaction - in the last block past the end of the file
        off = 80 + len(b.auxpow) + len(b.count_bytes); k = r.randrange(len(b.txs))
        for t in b.txs[:k]: off += len(t.disk)
        t = b.txs[k]; base = off + (2 if t.witness is not None else 0); w = t.widths.get
        if w('in') or w('out') or w(('isl', 0)): return None
        lin = len(cs(len(t.inputs))); which = r.choice(['incount', 'isl', 'outcount'])
        if which == 'incount': pos = base + 4
        elif which == 'isl': pos = base + 4 + lin + 36
        else:
            p = base + 4 + lin
            for (_, _, sc, _) in t.inputs: p += 36 + len(cs(len(sc))) + len(sc) + 4
            pos = p
        raw[pos] ^= 0x80
    elif where == 'merkle': pos = 36 + r.randrange(32)
    elif where == 'prev': pos = 4 + r.randrange(32)
    elif where == 'witness':
        # a witness byte of a segwit tx: not covered by the txid
        off = 80 + len(b.auxpow) + len(b.count_bytes); pos = None
        for t in b.txs:
            if t.witness is not None: pos = off + len(t.disk) - 4 - 1; break      # last witness byte (before locktime)
            off += len(t.disk)
        if pos is None: return None
    else:
        # a byte inside the witness-stripped part of some transaction: version, outpoint, script, value or locktime (not a count/length byte)
        off = 80 + len(b.auxpow) + len(b.count_bytes); k = r.randrange(len(b.txs))
        for t in b.txs[:k]: off += len(t.disk)
        t = b.txs[k]; base = off + (2 if t.witness is not None else 0); w = t.widths.get
        lin = len(cs(len(t.inputs), w('in')))
        choice = r.choice(['version', 'outpoint', 'value', 'locktime'])
        if choice == 'version': pos = off + r.randrange(4)
        elif choice == 'outpoint': pos = base + 4 + lin + r.randrange(36)
        elif choice == 'locktime': pos = off + len(t.disk) - 1 - r.randrange(4)
        else:
            p = base + 4 + lin
            for k2, (_, _, sc, _) in enumerate(t.inputs): p += 36 + len(cs(len(sc), w(('isl', k2)))) + len(sc) + 4
            pos = p + len(cs(len(t.outputs), w('out'))) + r.randrange(8)
    if where != 'length': raw[pos] ^= 1 << r.randrange(8)
    # rewrite the extent holding block h
    (n, off) = case.meta['place'][h]
    exts = c.files[n]
    for i, (o, d) in enumerate(exts):
        if o <= off - 8 and off + len(b.raw) <= o + len(d):
            d2 = bytearray(d); d2[off - o:off - o + len(raw)] = raw; exts[i] = (o, bytes(d2))
    c.meta.update(corrupt=(h, where))
    return c

def explore(ck):
    r = ck.rng; quick = ck.tier == 'quick'
    ck.rule = ('consistent chains with 1..%d transactions per block, blocks of more than 1 000 000 bytes (thorough: more than 4 000 000) on rotating coins (every merkle tree shape up to 3 levels wide of 128+: counts %s), block 0 the real genesis block of 7 coins or --start >= 1; plaintext and XOR-obfuscated directories; scripts and witness items of 10 001..70 000 bytes, over-long CompactSize encodings in every 7th transaction and in block transaction counts (the txid commits to the on-disk bytes); '
               'block 0 replaced by the genesis block of another network or coin (regtest, signet, the supported coins among each other); each chain is also run with one bit flipped in the merkle-root field, the prev-hash field, transaction bytes covered by a txid (version/outpoint/value/locktime; the top bit of an input count, script length or output count, which in the last block makes the parser run past the end of the file) or a witness byte '
               '(not covered: must still pass), at every --start offset incl. corruption exactly at the first processed block and outside the range; expected from the generator: fails at the corrupted '
               'height iff it is processed. Non-trivial: passing case with >= 2 txs in a block, or a corrupted case; distinct by (counts, start, corruption).' % ((258 if quick else 1025), COUNTS_Q if quick else COUNTS_T))
    cases = []; expect = {}
    counts_pool = COUNTS_Q if quick else COUNTS_T
    nchains = 8 if quick else 50
    for i in range(nchains):
        coin = [c for c in gen.ALL_COINS if c in gen.GENESIS][i % 7] if i % 2 == 0 else gen.ALL_COINS[i % 8]
        genesis = (i % 2 == 0)
        nb = r.randrange(3, 6)
        counts = [counts_pool[(i * 5 + k * 3) % len(counts_pool)] if k % 2 == 0 else r.choice([1, 2, 3]) for k in range(nb)]
        blocks = chain_with_counts(r, coin, counts, genesis)
        base = Case('v%d' % i, coin); place = {}
        for h, b in enumerate(blocks):
            off = base.put_block(0, b.raw); base.add_record(b, h, 0, off); place[h] = (0, off)
        base.verify = True; base.meta.update(counts=counts, place=place)
        if i % 4 == 1: base.xor = gen.rb(r, r.choice([8, 8, 3, 13]))      # --verify over an obfuscated directory (with --start: the block before the range lies at an arbitrary key phase)
        starts = [0] if genesis else []
        starts += [s for s in range(1, nb)]
        for s in (starts if not quick else starts[:2] + starts[-1:]):
            c = copy.copy(base); c.id = '%s_s%d' % (base.id, s); c.start = s; c.meta = dict(base.meta); cases.append(c); expect[c.id] = None
            for where in ['merkle', 'prev', 'txdata', 'witness', 'length']:
                for h in sorted({s, r.randrange(0, nb), max(0, s - 1), nb - 1}) if where != 'length' else sorted({nb - 1, r.randrange(s, nb)}):
                    cc = corrupt(c, blocks, h, where, r)
                    if cc is None: continue
                    cc.id = '%s_%s%d' % (c.id, where, h)
                    processed = h >= s
                    exp = None
                    if processed and where != 'witness':
                        exp = h
                        if where == 'prev' and h == 0: exp = 0     # genesis hash changes
                    # a flipped prev-hash changes the block hash: the NEXT block's link then fails unless its own check comes first
                    if where in ('prev', 'merkle', 'txdata') and not processed:
                        # block h is outside the range, but if h == s-1 its indexed hash is what block s links to: the index record still holds the ORIGINAL hash -> pass
                        exp = None
                    expect[cc.id] = exp; cases.append(cc)
    # block 0 is the genesis block of ANOTHER network or coin (regtest / signet under bitcoin and testnet3, and the supported coins swapped among each other): merkle root and
    # links are fine, the genesis condition is not - the run must be rejected at height 0
    swaps = [('testnet3', gen.FOREIGN_GENESIS['regtest']), ('testnet3', gen.FOREIGN_GENESIS['signet']), ('bitcoin', gen.FOREIGN_GENESIS['regtest']), ('bitcoin', gen.GENESIS['testnet3']),
             ('testnet3', gen.GENESIS['bitcoin']), ('litecoin', gen.GENESIS['dogecoin']), ('dogecoin', gen.GENESIS['litecoin']), ('namecoin', gen.GENESIS['bitcoin']), ('unobtanium', gen.GENESIS['myriadcoin'])]
    for k5, (coin, g0) in enumerate(swaps if not quick else swaps[:5] + [swaps[5 + ck.seed % 4]]):
        b1 = Block(g0.hash, [coinbase_tx(1, [(50 * 10**8, P2PKH(gen.rb(r, 20)))], extra=gen.rb(r, 2))], time=1300000001)
        c = Case('foreign_genesis%d_%s' % (k5, coin), coin); place = {}
        for h, b in enumerate([g0, b1]):
            off = c.put_block(0, b.raw); c.add_record(b, h, 0, off); place[h] = (0, off)
        c.verify = True; c.meta.update(counts=[1, 1], place=place, corrupt=(0, 'foreign-genesis')); cases.append(c); expect[c.id] = 0
    # consistent chains with a block of more than 1 000 000 bytes (and, thorough, more than 4 000 000): the three conditions hold, so --verify accepts them on every coin -
    # no size rule of any network is among the conditions
    bigs = [(gen.ALL_COINS[(ck.seed + 2) % 8], 1050000), (gen.ALL_COINS[(ck.seed + 4) % 8], 1000001)] if quick else [(cn, 1050000) for cn in gen.ALL_COINS] + [('bitcoin', 4100000), ('litecoin', 4000001), ('dogecoin', 4100000)]
    for k6, (coin, total) in enumerate(bigs):
        b0 = Block(b'\x00' * 32, [coinbase_tx(0, [(50 * 10**8, P2PKH(gen.rb(r, 20)))], extra=gen.rb(r, 2))], time=1300000000)
        b1 = Block(b0.hash, [coinbase_tx(1, [(50 * 10**8, P2PKH(gen.rb(r, 20)))], extra=gen.rb(r, 2))], time=1300000001)
        nbig = total // 95000 + 1
        t2 = [coinbase_tx(2, [(50 * 10**8, P2PKH(gen.rb(r, 20)))], extra=gen.rb(r, 2))] + [Tx([(gen.rb(r, 32), j, b'', 0)], [(0, b'\x6a' + bytes([j]) * 95000), (j, P2PKH(gen.rb(r, 20)))]) for j in range(nbig)]
        b2 = Block(b1.hash, t2, time=1300000002); assert len(b2.raw) > total
        b3 = Block(b2.hash, [coinbase_tx(3, [(50 * 10**8, P2PKH(gen.rb(r, 20)))], extra=gen.rb(r, 2))], time=1300000003)
        c = Case('bigblock%d_%s' % (k6, coin), coin); place = {}
        for h, b in enumerate([b0, b1, b2, b3]):
            off = c.put_block(0, b.raw); c.add_record(b, h, 0, off); place[h] = (0, off)
        c.verify = True; c.start = 1; c.meta.update(counts=[1, 1, nbig + 1, 1], place=place, fixed=True); cases.append(c); expect[c.id] = None
    cbs = lambda c: ['csv']
    # (the extracted model needs more than 20 minutes for a block of a megabyte - its hash functions run on lists of N - so these cases are judged against the generator's expectation only:
    #  the chain is consistent by construction, the run must exit 0 and leave exactly its four final-named files)
    bigcases = [c for c in cases if c.id.startswith('bigblock')]; cases = [c for c in cases if not c.id.startswith('bigblock')]
    def onebig(c): return c, run.run_impl(ck.tools, c, 'csv', timeout=300)
    with __import__('concurrent.futures').futures.ThreadPoolExecutor(4) as ex: bigres = list(ex.map(onebig, bigcases))
    for c, rr in bigres:
        ck.evaluated(); ck.count('consistent chains with a block > 1 000 000 bytes'); ck.nontrivial((c.id, 'bigblock')); c.meta['cbs'] = ['csv']
        want = sorted('%s-1-3.csv' % st_ for st_ in run.stems('csv'))
        if rr.rc != 0 or sorted(rr.files) != want:
            ck.disagreement('--verify rejects a consistent chain with a block of %d bytes (%s)' % (max(len(d) for e in c.files.values() for o, d in e), c.coin), 'exit %s, files %s, expected exit 0 and %s\n%s' % (rr.rc, sorted(rr.files), want, rr.stderr[-300:]), c, in_domain=True)
    models = run.run_model(ck.tools, cases, ['csv'])
    from concurrent.futures import ThreadPoolExecutor
    def one(c): return c, run.run_impl(ck.tools, c, 'csv')
    with ThreadPoolExecutor(12) as ex: results = list(ex.map(one, cases))
    for c, rr in results:
        ck.evaluated(); m = models[c.id]; c.meta['cbs'] = ['csv']
        st = m['status']; finals = [n for n in rr.files if not n.endswith('.tmp')]
        exp = expect[c.id]
        # (1) implementation vs model
        diffs = []
        if st[0] == 'done':
            diffs = run.cmp_csv(rr, m, c)
        else:
            if rr.rc == 0: diffs.append('exit 0 but the model rejects: %s' % st)
            if finals: diffs.append('final-named files after rejection: %s' % finals)
            if st[0] == 'error' and st[2] in ('merkle', 'prev', 'genesis'):
                # which condition is reported, and at which height, is not part of the property (the run must fail and leave no final-named file): recorded, not compared
                ck.count('rejected runs: reported height/kind %s the model\'s' % ('equals' if (rr.error_height == int(st[1]) and rr.error_kind == st[2]) else 'differs from'))
        if diffs: ck.disagreement('--verify on %s' % c.id, '\n'.join(diffs), c, in_domain=True)
        # (2) model vs the generator's expectation (the property's iff)
        mh = int(st[1]) if st[0] in ('error', 'panic') and len(st) > 1 else None
        if (exp is None) != (st[0] == 'done') or (exp is not None and mh is not None and mh != exp and not (c.meta.get('corrupt', (0, ''))[1] == 'prev' and mh == exp + 1)):
            ck.disagreement('model verdict differs from the expectation on ' + c.id, 'model=%s expected failing height=%s' % (st, exp), c, in_domain=False)
        if 'corrupt' in c.meta: ck.nontrivial((tuple(c.meta['counts']), c.start, c.meta['corrupt'])); ck.count('corrupt:' + c.meta['corrupt'][1]); ck.count('verdict:' + st[0])
        elif max(c.meta['counts']) >= 2: ck.nontrivial((tuple(c.meta['counts']), c.start)); ck.count('consistent chains')
        ck.sample(dict(case=c.id, coin=c.coin, tx_counts=c.meta['counts'], start=c.start, corrupt=c.meta.get('corrupt'), model_status=st, impl_exit=rr.rc, impl_error=(rr.error_height, rr.error_kind)), limit=8)
    # ---- in-process: utils::merkle_root through its hook vs the Coq mirror, list lengths 1..600 incl. every odd/even pattern of levels ----
    if not run.hooks_ok(ck): return
    lens = sorted(set(list(range(1, 70)) + [95, 96, 97, 127, 128, 129, 130, 131, 191, 255, 256, 257, 258, 259, 383, 511, 512, 513, 514, 600]))
    if quick: lens = [n for n in lens if n <= 70 or n in (127, 128, 129, 131, 255, 257, 258, 514)]
    reqs = [' '.join(gen.rb(r, 32).hex() for _ in range(n)) for n in lens]
    impl = run.hook_lines(ck.tools, 'merkle-root', reqs); mod = run.model_lines(ck.tools, ['merkle ' + q for q in reqs])
    for n, q, a, b in zip(lens, reqs, impl, mod):
        ck.evaluated(); ck.count('merkle hook lists'); ck.nontrivial(('merkle', n))
        want = merkle([bytes.fromhex(x) for x in q.split()]).hex()
        if a != b or b != want: ck.disagreement('merkle root of %d hashes' % n, 'impl=%s model=%s reference=%s' % (a, b, want), None, in_domain=True, extra_replay='merkle ' + q)

