"""C14 — no script or witness content can abort a run or disturb other rows."""
import copy, struct
from ..chain import *
from .. import gen, core, run, scripts
from . import c05
THEOREMS = core.pinned('C14')
NEEDS_RELEASE = True
replay = c05.replay

def hostile(r, thorough):
    S = [(t, s) for t, s in scripts.stream(r, 200 if not thorough else 2000, thorough=thorough)
         if t.startswith(('slot:trunc', 'slot:pd4_huge', 'op:', 'ms_many', 'ms_bad', 'ms_trunc', 'ms_badpush', 'witness', 'random', 'long', 'opret:pd4:bad', 'opret:shape', 'nop:')) or ':trunc' in t or ':mut' in t]
    for n in [255, 256, 257, 1000, 3000]:
        S += [('pushes', b'\x51' + b'\x00' * n), ('pushes', b'\x51' + b'\x01\x01' * n + b'\x60\xae'), ('pushes', b'\x00' * n), ('pushes', b'\x51' * n)]
    for ln in [0xffffffff, 0x80000000, 0x7fffffff, 0x10000, 0xffff]:
        S += [('pd4', b'\x4e' + struct.pack('<I', ln)), ('pd4', b'\x4e' + struct.pack('<I', ln) + gen.rb(r, 9)), ('pd4', b'\x6a\x4e' + struct.pack('<I', ln) + gen.rb(r, 3)), ('pd4', b'\x76\xa9\x4e' + struct.pack('<I', ln))]
        S += [('pd2', b'\x4d' + struct.pack('<H', ln & 0xffff) + gen.rb(r, 5)), ('pd1', b'\x4c' + bytes([ln & 0xff]) + gen.rb(r, 5))]
    S += [('p2pk_shape', b'\x21\x02' + b'\xff' * 32 + b'\xac'), ('p2pk_shape', b'\x41\x04' + b'\x00' * 64 + b'\xac'), ('p2pk_shape', b'\x21\x05' + gen.rb(r, 32) + b'\xac'), ('p2pk_shape', b'\x41\x06' + gen.rb(r, 64) + b'\xac'), ('p2pk_edge', bytes([33]) + gen.rb(r, 33)), ('p2pk_edge', bytes([65]) + gen.rb(r, 65) + b'\xac\x00'), ('utf8', b'\x6a\x04\xff\xfe\xfd\xfc'), ('utf8', b'\x6a\x03\xed\xa0\x80'), ('utf8', b'\x6a\x04\xf4\x90\x80\x80')]
    if thorough: S += [('big', gen.rb(r, 100000)), ('big', b'\x6a' + gen.rb(r, 100000))]
    return S

def explore(ck):
    r = ck.rng; quick = ck.tier == 'quick'
    ck.rule = ('(a) in-process script-eval hook with catch_unwind, debug AND release profile, on a hostile stream (truncated pushes of every width incl. cuts inside the length field, PUSHDATA4 lengths up to '
               '2^32-1, all leading opcodes, 255..3000 pushes, invalid UTF-8 after OP_RETURN, witness look-alikes with illegal lengths, scripts > 10000 bytes, random bytes) on all 8 coins: no PANIC answer, '
               'verdict = model; (b) black-box: 8 coins x 5 callbacks x verbosity (default, -v, -vv) on chains carrying these byte strings as scriptPubKey, scriptSig, witness items and as the coinbase input script of blocks of version 1, 2, 3, 4, 0x20000000, 0xffffffff of an otherwise valid chain: exit 0, output = model, and '
               'all rows not derived from the field equal the clean run (frame). Non-trivial: the byte string is not classified NotRecognised by the reference or is a one-step mutation of a template; '
               'distinct by (coin, script bytes).')
    S = hostile(r, not quick)
    for coin_set, rel in [(tuple(gen.ALL_COINS), False), (tuple(gen.ALL_COINS), True)]:
        c05.run_stream(ck, coin_set if not quick else coin_set, S if not quick else S[::2] if rel else S, release=rel, check_ref=not rel, label=' [release]' if rel else ' [debug]')
    ck.sample(dict(hostile_examples=[(t, s.hex()[:60]) for t, s in S[:8]], n=len(S)))
    # (b) black-box with frame comparison
    cases = []
    pick = [s for t, s in S if len(s) < 5000]
    for i, coin in enumerate(gen.ALL_COINS):
        base_blocks = gen.random_chain(r, coin, 3, max_tx=2, script_kinds=['p2pkh', 'p2sh'], segwit_p=0)
        for field in ['scriptPubKey', 'scriptSig', 'witness', 'coinbase']:
            hs = r.sample(pick, 6)
            if field == 'coinbase':
                # the input script of the coinbase of blocks of version 2 and above (where BIP34 puts the height): complete and truncated direct pushes of 1..75 bytes, PUSHDATA forms, small-integer opcodes, nothing
                hs += [bytes([n]) + gen.rb(r, n) for n in (1, 3, 8, 9, 20, 33, 75)] + [bytes([75]) + gen.rb(r, 10), bytes([9]) + gen.rb(r, 8), b'\x4c\x14' + gen.rb(r, 20), b'\x4d\x14\x00' + gen.rb(r, 20), b'', b'\x00', b'\x51', b'\x60', b'\x4f', b'\x08' + b'\xff' * 8, b'\x09' + b'\xff' * 9]
            if field in ('scriptPubKey', 'scriptSig'):
                hs.append(gen.rb(r, [65535, 65534, 65536, 253][i % 4]))       # a length on a CompactSize width boundary (the txid commits to the length bytes as stored)
            if field == 'scriptPubKey':
                # witness-program look-alikes the bitcoin evaluator may log a warning about (v0 with an illegal length), and other shapes that only produce log output
                hs += [b'', b'\x51', b'\x6a', b'\x6a\x02hi', b'\x00\x0a' + b'\x42' * 10, b'\x00\x02\x01\x02', b'\x00\x28' + gen.rb(r, 40), b'\x60\x02\xab\xcd']
                # long OP_RETURN texts: multi-byte characters straddling every byte offset 70..100 and beyond, invalid bytes at those offsets (lossy path)
                for off in r.sample(range(70, 101), 4) + [160, 255, 256]:
                    hs.append(b'\x6a' + push(b'A' * off + 'é€😀'.encode() * 10 + b'B' * r.randrange(0, 60)))
                    hs.append(b'\x6a' + push(b'A' * off + bytes([r.choice([0x80, 0xff, 0xc3, 0xe2])]) + b'B' * r.randrange(0, 60)))
            # block 1 gets one extra transaction whose field carries the hostile bytes; the clean twin carries harmless bytes of the same role
            def build(payloads):
                blocks = []; prev = b'\x00' * 32
                if field == 'coinbase':
                    for h, x in enumerate(payloads):
                        ver = [2, 4, 0x20000000, 1, 0xffffffff][h % 5] if COINS[coin]['aux'] is None else [2, 3, 4, 1][h % 4]
                        nb = Block(prev, [Tx([(b'\x00' * 32, 0xffffffff, x, 0xffffffff)], [(50 * 10**8, P2PKH(bytes([h % 256]) * 20))])], time=1400000000 + h, version=ver); blocks.append(nb); prev = nb.hash
                    return blocks
                for h, b in enumerate(base_blocks):
                    txs = list(b.txs)
                    if h == 1:
                        for x in payloads:
                            if field == 'scriptPubKey': txs.append(Tx([(b'\x31' * 32, 1, b'', 0)], [(7, x), (8, P2PKH(b'\x05' * 20))]))
                            elif field == 'scriptSig': txs.append(Tx([(b'\x32' * 32, 1, x, 0)], [(8, P2PKH(b'\x06' * 20))]))
                            else:
                                # stacks of growing, shrinking and equal item sizes, over one and two inputs (an item larger than all earlier ones but within twice their size included)
                                k_ = len(txs) % 4
                                st = [[x, b'\x01']] if k_ == 0 else [[b'\x01', b'\x02\x03', x]] if k_ == 1 else [[x[:len(x) // 2 + 1], x, x + b'\x00' * (len(x) // 3 + 1)]] if k_ == 2 else [[b'\x01' * 72, b'\x02', x], [b'\x03' * 72, b'\x04', x + b'\x05']]
                                ins_ = [(b'\x33' * 32, 1, b'', 0)] + ([(b'\x34' * 32, 2, b'', 0)] if k_ == 3 else [])
                                txs.append(Tx(ins_, [(8, P2PKH(b'\x07' * 20))], witness=st))
                    nb = Block(prev, txs, time=b.time, version=b.version if COINS[coin]['aux'] is None else 1); blocks.append(nb); prev = nb.hash
                return blocks
            c = Case('h%d_%s' % (i, field), coin).simple_layout(build(hs)); c.verbosity = (i + len(cases)) % 3      # default, -v, -vv: log statements must not make content-dependent failures either
            c.meta.update(field=field, cbs=['csv', 'unspent', 'balances', 'opreturn', 'stats'] if not quick or field == 'scriptPubKey' else ['csv', 'stats'])
            cases.append(c)
            if field == 'witness':
                t = Case('h%d_%s_clean' % (i, field), coin).simple_layout(build([b'\x01'] * 6)); t.meta.update(field=field, cbs=['csv'], twin=c.id); cases.append(t)
    models, results = core.compare_cases(ck, cases, lambda c: c.meta['cbs'], nontrivial=lambda c, m: c.id,
                                         sample=lambda c, m: dict(case=c.id, coin=c.coin, field=c.meta['field'], model_status=m['status']))
    for c, res, err in results:
        if res:
            for cb, diffs, rr in res:
                if rr.rc != 0: ck.disagreement('run aborted by hostile %s bytes (%s on %s)' % (c.meta['field'], cb, c.id), 'rc=%s %s' % (rr.rc, rr.stderr[-300:]), c, in_domain=True)
    # frame for witness items: nothing but blocksize changes
    for c in cases:
        if 'twin' in c.meta:
            a = models[c.meta['twin']]['csv']; b = models[c.id]['csv']
            strip = lambda rows: [';'.join(x for k, x in enumerate(l.split(';')) if k != 3) for l in rows]
            if strip(a[0]) != strip(b[0]) or [a[1], a[2], a[3]] != [b[1], b[2], b[3]]:
                ck.disagreement('model: witness bytes change rows other than blocksize', c.id, c, in_domain=False)
