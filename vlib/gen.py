"""Shared generators: real genesis blocks (reconstructed, each checked against the constant of types.rs at import),
script zoo, random spend histories, chains."""
import struct, random
from .chain import *

# ---------------- genesis blocks (DESIGN.md appendix A) ----------------
_BTC_PK = bytes.fromhex('04678afdb0fe5548271967f1a67130b7105cd6a828e03909a67962e0ea1f61deb649f6bc3f4cef38c4f35504e51ec112de5c384df7ba0b8d578a4c702b6bf11d5f')
_LTC_PK = bytes.fromhex('040184710fa689ad5023690c80f3a49c8f13f8d45b8c857fbcbc8bc4a8e4d3eb4b10f4d4604fa08dce601aaf0f470216fe1b51850b4acf21b179c45070ac7b03a9')
_NMC_PK = bytes.fromhex('04b620369050cd899ffbbc4e8ee51e8c4534a855bb463439d63d235d4779685d8b6f4870a238cf365ac94fa13ef9a2a22cd99d0d5ee86dcabcafce36c7acf43ce5')
_MYR_PK = bytes.fromhex('04e941763c7750969e751bee1ffbe96a651a0feb131db046546c219ea40bff40b95077dc9ba1c05af991588772d8daabbda57386c068fb9bc7477c5e28702d5eb9')
_BTC_PSZ = b'The Times 03/Jan/2009 Chancellor on brink of second bailout for banks'
def _gen(psz, time, nonce, bits, version, reward, pubkey, prefix='04ffff001d0104'):
    ss = bytes.fromhex(prefix) + bytes([len(psz)]) + psz
    t = Tx([(b'\x00' * 32, 0xffffffff, ss, 0xffffffff)], [(reward, bytes([len(pubkey)]) + pubkey + b'\xac')])
    return Block(b'\x00' * 32, [t], version=version, time=time, bits=bits, nonce=nonce)
GENESIS = {
    'bitcoin': _gen(_BTC_PSZ, 1231006505, 2083236893, 0x1d00ffff, 1, 50 * 10**8, _BTC_PK),
    'testnet3': _gen(_BTC_PSZ, 1296688602, 414098458, 0x1d00ffff, 1, 50 * 10**8, _BTC_PK),
    'litecoin': _gen("NY Times 05/Oct/2011 Steve Jobs, Apple’s Visionary, Dies at 56".encode(), 1317972665, 2084524493, 0x1e0ffff0, 1, 50 * 10**8, _LTC_PK),
    'dogecoin': _gen(b'Nintondo', 1386325540, 99943, 0x1e0ffff0, 1, 88 * 10**8, _LTC_PK),
    'namecoin': _gen(b'... choose what comes next.  Lives of your own, or a return to chains. -- V', 1303000001, 0xa21ea192, 0x1c007fff, 1, 50 * 10**8, _NMC_PK, prefix='04ff7f001c020a02'),
    'myriadcoin': _gen(b'2014-02-23 FT - G20 aims to add $2tn to global economy', 1393164995, 2092903596, 0x1e0fffff, 2, 1000 * 10**8, _MYR_PK),
    'unobtanium': _gen(b'San Francisco plaza evacuated after suspicious package is found', 1375548986, 1211565, 0x1e0fffff, 1, 10**8, _BTC_PK),
}
for _c, _b in GENESIS.items():
    assert _b.hash[::-1].hex() == COINS[_c]['genesis'], 'genesis reconstruction broken for ' + _c
# genesis blocks of sibling networks (same coinbase transaction as Bitcoin): they are NOT the genesis block of any supported coin
FOREIGN_GENESIS = {'regtest': _gen(_BTC_PSZ, 1296688602, 2, 0x207fffff, 1, 50 * 10**8, _BTC_PK), 'signet': _gen(_BTC_PSZ, 1598918400, 52613770, 0x1e0377ae, 1, 50 * 10**8, _BTC_PK)}
assert FOREIGN_GENESIS['regtest'].hash[::-1].hex() == '0f9188f13cb7b2c71f2a335e3a4fc328bf5beb436012afca590b1a11466e2206'
assert FOREIGN_GENESIS['signet'].hash[::-1].hex() == '00000008819873e925422c1ff0f99f7cc9bbb232af63a077a480a3633bee1ef6'

ALL_COINS = list(COINS)
FORK_COINS = [c for c in COINS if c not in ('bitcoin', 'testnet3')]

# ---------------- scripts ----------------
def rb(r, n): return bytes(r.getrandbits(8) for _ in range(n)) if n < 64 else r.getrandbits(8 * n).to_bytes(n, 'little')

def script_zoo(r, kind=None):
    """a script of a named kind; returns (kind, bytes)"""
    kinds = ['p2pkh', 'p2sh', 'p2pk33', 'p2pk65', 'p2wpkh', 'p2wsh', 'p2tr', 'witness_other', 'opret_small', 'opret_pd1', 'opret_pd2', 'opret_bad_utf8',
             'opret_empty', 'opret_multi', 'multisig', 'multisig_2of3', 'random', 'unspendable', 'empty', 'truncated_push', 'nop_p2pkh']
    k = kind or r.choice(kinds)
    if k == 'p2pkh': s = P2PKH(rb(r, 20))
    elif k == 'p2sh': s = P2SH(rb(r, 20))
    elif k == 'p2pk33': s = b'\x21' + bytes([r.choice([2, 3])]) + rb(r, 32) + b'\xac'
    elif k == 'p2pk65': s = b'\x41\x04' + rb(r, 64) + b'\xac'
    elif k == 'p2wpkh': s = b'\x00\x14' + rb(r, 20)
    elif k == 'p2wsh': s = b'\x00\x20' + rb(r, 32)
    elif k == 'p2tr': s = b'\x51\x20' + rb(r, 32)
    elif k == 'witness_other':
        v = r.randrange(0, 17); n = r.randrange(2, 41); s = bytes([0 if v == 0 else 0x50 + v, n]) + rb(r, n)
    elif k == 'opret_small': s = b'\x6a' + push(utf8_text(r, r.choice([1, 5, 40, 75])))
    elif k == 'opret_pd1': s = b'\x6a' + push(utf8_text(r, r.choice([76, 80, 200, 255])))
    elif k == 'opret_pd2': s = b'\x6a' + push(utf8_text(r, r.choice([256, 300, 1000])))
    elif k == 'opret_bad_utf8': s = b'\x6a' + push(bytes([r.choice([0x80, 0xc0, 0xff, 0xed])]) + rb(r, r.randrange(0, 20)))
    elif k == 'opret_empty': s = r.choice([b'\x6a', b'\x6a\x00', b'\x6a\x4c\x00'])
    elif k == 'opret_multi': s = b'\x6a' + push(utf8_text(r, 4)) + push(utf8_text(r, 4))
    elif k == 'multisig':
        n = r.randrange(1, 5); m = r.randrange(1, n + 1)
        s = bytes([0x50 + m]) + b''.join(push(b'\x02' + rb(r, 32)) for _ in range(n)) + bytes([0x50 + n, 0xae])
    elif k == 'multisig_2of3': s = b'\x52' + b''.join(push(b'\x02' + rb(r, 32)) for _ in range(3)) + b'\x53\xae'
    elif k == 'random': s = rb(r, r.randrange(1, 40))
    elif k == 'unspendable': s = bytes([r.choice([0x50, 0x62, 0x65, 0x7e, 0xba, 0xff])]) + rb(r, 3)
    elif k == 'empty': s = b''
    elif k == 'truncated_push': s = bytes([r.choice([0x20, 0x4c, 0x4d, 0x4e])]) + rb(r, r.randrange(0, 3))
    elif k == 'nop_p2pkh': s = b'\x61\x76\xa9\x14' + rb(r, 20) + b'\x88\xb1\xac'
    else: raise KeyError(k)
    return k, s

def utf8_text(r, nbytes):
    """valid UTF-8 of exactly nbytes bytes mixing 1..4-byte characters, no newline restrictions"""
    out = b''
    while len(out) < nbytes:
        left = nbytes - len(out)
        w = r.choice([1, 1, 1, 2, 3, 4])
        if w > left: w = 1
        if w == 1: out += bytes([r.choice([r.randrange(32, 127), 10, 9])])
        elif w == 2: out += chr(r.randrange(0x80, 0x800)).encode()
        elif w == 3:
            cp = r.randrange(0x800, 0x10000)
            if 0xd800 <= cp <= 0xdfff: cp = 0x20ac
            out += chr(cp).encode()
        else: out += chr(r.randrange(0x10000, 0x110000)).encode()
    return out

# ---------------- chains ----------------
def random_chain(r, coin, nblocks, genesis=False, max_tx=4, script_kinds=None, segwit_p=0.25, mono_time=True, aux_p=0.5, spend_p=0.8, values=None):
    """Consistent chain (merkle roots, prev links). Returns list of Block. With genesis=True block 0 is the coin's real genesis block."""
    thr = COINS[coin]['aux']
    blocks = []; created = []; t = r.randrange(1, 2**31)
    prev = b'\x00' * 32
    for h in range(nblocks):
        if h == 0 and genesis and coin in GENESIS:
            b = GENESIS[coin]; blocks.append(b); prev = b.hash; created += [(b.txs[0].txid, 0)]; continue
        ntx = r.randrange(1, max_tx + 1); txs = []
        for j in range(ntx):
            if j == 0:
                # coinbase input script: the harness' own counter form, a BIP34 style minimal height push plus a tag, a pool tag pushed first (9..75 bytes), PUSHDATA1 first, or nothing but a number opcode
                hb = h.to_bytes(max(1, (h.bit_length() + 8) // 8), 'little')
                sc = r.choice([struct.pack('<I', h) + rb(r, 3)] * 3 + [bytes([len(hb)]) + hb + rb(r, r.randrange(0, 12)), bytes([20]) + rb(r, 20) + struct.pack('<I', h), bytes([r.randrange(9, 76)]) + rb(r, 75) + struct.pack('<I', h),
                               b'\x4c\x0a' + rb(r, 10) + struct.pack('<I', h), bytes([0x51 + h % 16]) + struct.pack('<I', h)])
                ins = [(b'\x00' * 32, 0xffffffff, sc, 0xffffffff)]
            else:
                ins = []
                for _ in range(r.randrange(1, 4)):
                    if created and r.random() < spend_p: op = created.pop(r.randrange(len(created))) if r.random() < 0.7 else r.choice(created)
                    else: op = (rb(r, 32), r.randrange(3))
                    ins.append((op[0], op[1], rb(r, r.choice([0, 1, 20, 107])), r.choice([0xffffffff, 0xfffffffe, 0, r.getrandbits(32)])))
            outs = []
            for _ in range(r.randrange(1, 5)):
                v = r.choice(values) if values else r.choice([0, 1, 546, r.randrange(10**10), 50 * 10**8 + r.randrange(1000), 21 * 10**14])
                outs.append((v, script_zoo(r, r.choice(script_kinds) if script_kinds else None)[1]))
            wit = [[rb(r, r.choice([0, 1, 33, 72])) for _ in range(r.randrange(0, 3))] for _ in ins] if r.random() < segwit_p else None
            tx = Tx(ins, outs, version=r.choice([1, 2, 0xffffffff]), locktime=r.choice([0, 0, r.getrandbits(32)]), witness=wit)
            txs.append(tx); created += [(tx.txid, i) for i in range(len(outs))]
        t = (t + r.randrange(1, 5000)) % 2**32 if mono_time else r.choice([0, 1, r.getrandbits(32), t])
        ver = 1; aux = b''
        if thr is not None:
            ver = r.choice([1, 2, thr - 1, thr, thr + 1, 0xffffffff]) if r.random() < aux_p else r.choice([1, 2])
            if ver >= thr:
                pc = Tx([(b'\x00' * 32, 0xffffffff, rb(r, 5), 1)], [(1, b'\x51')], witness=([[rb(r, 4)]] if r.random() < 0.3 else None))
                aux = auxpow_section(pc, [rb(r, 32) for _ in range(r.choice([0, 1, 3]))], [rb(r, 32) for _ in range(r.choice([0, 2]))], rb(r, 80), rb(r, 32), (r.getrandbits(32), 0))
        else:
            ver = r.choice([1, 2, 3, 4, 0x20000000, 0x3fffe000, 0x10101, 0x620102, 0xffffffff])
        b = Block(prev, txs, version=ver, time=t, bits=r.choice([0x1d00ffff, 0x207fffff]), nonce=r.getrandbits(32), auxpow=aux)
        blocks.append(b); prev = b.hash
    return blocks
