"""Running the real binary and the extracted model on the same case, canonicalising, comparing."""
import zlib
import os, re, subprocess, shutil, resource, signal, json, time, itertools
from . import build
from .chain import COINS

def _bigstack():
    resource.setrlimit(resource.RLIMIT_STACK, (resource.RLIM_INFINITY, resource.RLIM_INFINITY))

class Tools:
    def __init__(self, release=False):
        self.bin = build.repo_binary(False)
        self.bin_release = build.repo_binary(True) if release else None
        self.driver = build.driver()
        self.ldbw = build.ldbw()
        self.work = os.path.join(build.CACHE, 'run', str(os.getpid()))
        os.makedirs(self.work, exist_ok=True)
    def cleanup(self):
        shutil.rmtree(self.work, ignore_errors=True)

# ---------------- model ----------------
def run_model_text(tools, text, timeout=1200):
    p = subprocess.run([tools.driver], input=text.encode(), capture_output=True, preexec_fn=_bigstack, timeout=timeout)
    if p.returncode != 0:
        raise RuntimeError('model driver failed rc=%s: %s' % (p.returncode, p.stderr.decode(errors='replace')[:500]))
    return p.stdout.decode(errors='replace')

def parse_model_cases(out):
    """-> dict id -> dict of parsed sections"""
    res = {}; cur = None
    for line in out.split('\n'):
        if line.startswith('== '):
            if line == '== end': cur = None
            else:
                cur = dict(status=None, delivered=[], csv={0: [], 1: [], 2: [], 3: []}, csvtotals=None, unspent=[], unspenttotals=None, balance=[],
                           opret=[], stat={}, stattype=[], open=[], limit={}, fname={}, header={})
                res[line[3:]] = cur
            continue
        if cur is None or not line: continue
        k, _, rest = line.partition(' ')
        if k == 'status': cur['status'] = rest.split()
        elif k == 'delivered': cur['delivered'] = [int(x) for x in rest.split(',') if x]
        elif k.startswith('csv') and k[3:].isdigit(): cur['csv'][int(k[3:])].append(rest)
        elif k == 'csvtotals': cur['csvtotals'] = rest.split()
        elif k == 'unspent': cur['unspent'].append(rest)
        elif k == 'unspenttotals': cur['unspenttotals'] = rest.split()
        elif k == 'balance': cur['balance'].append(rest)
        elif k == 'opret': cur['opret'].append(tuple(rest.split(' ')))
        elif k == 'stat': t = rest.split(); cur['stat'][t[0]] = t[1:]
        elif k == 'stattype': cur['stattype'].append(tuple(rest.split()))
        elif k == 'open': t = rest.split(' '); cur['open'].append((int(t[0]), [int(x) for x in t[1].split(',') if x] if len(t) > 1 else []))
        elif k == 'limit': t = rest.split(); cur['limit'][(t[0], int(t[1]))] = t[2:]
        elif k == 'fname': t = rest.split(); cur['fname'][(t[0], int(t[1]))] = (t[2], t[3])
        elif k == 'header': t = rest.split(' ', 1); cur['header'][t[0]] = t[1] if len(t) > 1 else ''
    return res

def run_model(tools, cases, want, shards=16):
    """cases: list of Case; returns dict id -> parsed output. Sharded over processes for speed."""
    if not cases: return {}
    from concurrent.futures import ThreadPoolExecutor
    n = max(1, min(shards, len(cases)))
    chunks = [cases[i::n] for i in range(n)]
    def work(chunk):
        return run_model_text(tools, ''.join(c.model_text(want(c) if callable(want) else want) for c in chunk))
    res = {}
    with ThreadPoolExecutor(n) as ex:
        for out in ex.map(work, chunks): res.update(parse_model_cases(out))
    return res

def model_lines(tools, lines, shards=16):
    """single-line requests (script, mean, record, ...); returns list of answers in order"""
    if not lines: return []
    from concurrent.futures import ThreadPoolExecutor
    n = max(1, min(shards, (len(lines) + 49) // 50))
    chunks = [lines[i::n] for i in range(n)]          # strided: expensive requests cluster
    def work(chunk):
        out = run_model_text(tools, '\n'.join(chunk) + '\n').split('\n')
        if out and out[-1] == '': out.pop()
        if len(out) != len(chunk): raise RuntimeError('model answered %d lines for %d requests' % (len(out), len(chunk)))
        return out
    res = [None] * len(lines)
    with ThreadPoolExecutor(n) as ex:
        for i, out in enumerate(ex.map(work, chunks)): res[i::n] = out
    return res

_STEMS = None
def stems(cb=None):
    """file stems per file-producing callback, as the translator reads them from the source (fallback: the pinned ones): the harness pre-seeds / watches the files the code will use"""
    global _STEMS
    if _STEMS is None:
        d = {'csv': ['blocks', 'transactions', 'tx_in', 'tx_out'], 'unspent': ['unspent'], 'balances': ['balances']}
        try:
            from . import srcgen
            t = srcgen.extract(); bad = {g for g, _ in t['fails']}
            if 'csv_stems' not in bad and len(t.get('csv_stems', [])) == 4: d['csv'] = list(t['csv_stems'])
            if 'unspent_writer' not in bad and t.get('unspent_stem'): d['unspent'] = [t['unspent_stem']]
            if 'balances_writer' not in bad and t.get('balances_stem'): d['balances'] = [t['balances_stem']]
        except Exception:
            pass
        _STEMS = d
    return _STEMS if cb is None else _STEMS[cb]

class HooksUnavailable(Exception):
    pass

def hooks_ok(ck=None):
    """False when the guarded hook code did not compile against the current tree (the plain binary is used then): in-process correspondences are skipped and reported"""
    if build.HOOKS_OK: return True
    if ck is not None:
        ck.extra['hooks'] = 'guarded hook code does not compile against this tree; in-process correspondences skipped, black-box correspondences only: ' + build.HOOKS_ERROR[-400:]
        ck.count('in-process correspondences skipped (hook build failed)')
    return False

def hook_lines(tools, hook, lines, release=False, shards=16):
    if not lines: return []
    if not build.HOOKS_OK: raise HooksUnavailable(hook)
    from concurrent.futures import ThreadPoolExecutor
    binp = tools.bin_release if release else tools.bin
    n = max(1, min(shards, (len(lines) + 199) // 200))
    size = (len(lines) + n - 1) // n
    chunks = [lines[i:i + size] for i in range(0, len(lines), size)]
    def one_process(reqs):
        p = subprocess.run([binp], input=('\n'.join(reqs) + '\n').encode(), capture_output=True, env=dict(os.environ, RBP_VERIF_HOOK=hook, RAYON_NUM_THREADS='2'), timeout=1200)
        out = p.stdout.decode(errors='replace').split('\n')
        if out and out[-1] == '': out.pop()
        return p, out
    def work(chunk):
        p, out = one_process(chunk)
        if len(out) == len(chunk): return out
        if p.returncode == 0: raise RuntimeError('hook %s answered %d lines for %d requests although it exited 0' % (hook, len(out), len(chunk)))
        # the process died on some request (an abort that catch_unwind cannot intercept, e.g. allocation failure); its buffered answers are lost:
        # answer this chunk one request per process
        res = []
        for q in chunk:
            p1, o1 = one_process([q])
            res.append(o1[0] if len(o1) == 1 else 'ABORT|rc=%s %s' % (p1.returncode, p1.stderr.decode(errors='replace')[:160].replace('\n', ' ')))
        return res
    res = []
    with ThreadPoolExecutor(n) as ex:
        for out in ex.map(work, chunks): res += out
    return res

# ---------------- implementation ----------------
SUBCMD = {'csv': 'csvdump', 'unspent': 'unspentcsvdump', 'balances': 'balances', 'opreturn': 'opreturn', 'stats': 'simplestats'}
NEEDS_DIR = {'csv', 'unspent', 'balances'}

RETRIES = []      # (case, callback, attempt) of runs repeated after a timeout

class ImplResult:
    pass

_DROP = {}
_DROP_LOCK = __import__('threading').Lock()
PATH_COMPONENTS = ['', '.bitcoin/blocks', 'backup/testnet3/mainnet-copy/blocks', '.namecoin/btc/blocks', '.litecoin', 'dogecoin/.dogecoin/blocks', '', '.myriadcoin/x', '.unobtanium', '.notecoin/blocks',
                   'testnet3', 'regtest/blocks', '', 'Bitcoin', 'namecoin', '.bitcoin/testnet3/blocks']
ROT = {'as_user': 0, 'prior': 0, 'path_name': 0}      # how often the generic rotations actually applied (recorded in the evidence)
def can_drop(tools, uid):
    """True when the harness can start the parser as the unprivileged user `uid` and that user can reach the binary and the work directory (probed once;
    a checkout below a 0700 home directory, a harness that is not root, or a sandbox without CAP_SETUID switch the `as_user` rotation off)"""
    with _DROP_LOCK:      # (cases run in a thread pool: probe once, under a lock)
        if uid not in _DROP:
            ok = False
            if os.geteuid() == 0:
                d = os.path.join(tools.work, 'dropprobe_%d_%d' % (uid, time.time_ns() % 10**9))
                try:
                    os.makedirs(d, exist_ok=True); f = os.path.join(d, 'readable')
                    with open(f, 'w') as fh: fh.write('x')
                    os.chown(d, uid, uid)
                    def pre(): os.setgroups([]); os.setgid(uid); os.setuid(uid)
                    ok = all(subprocess.run(['/bin/sh', '-c', 'test -x "$0" && test -r "$1" && test -w "$2" && "$0" --version >/dev/null', b_, f, d], preexec_fn=pre, capture_output=True, timeout=30).returncode == 0
                             for b_ in [tools.bin] + ([tools.bin_release] if getattr(tools, 'bin_release', None) else []))
                except Exception: ok = False
                shutil.rmtree(d, ignore_errors=True)
            _DROP[uid] = ok
    return _DROP[uid]

def path_component(case, tag):
    comp = PATH_COMPONENTS[zlib.crc32(('%s/%s' % (case.id, tag)).encode()) % len(PATH_COMPONENTS)]
    if getattr(case, 'path_component', None) is not None: comp = case.path_component
    if os.environ.get('VERIF_NO_PATH_ROT'): comp = ''      # (used once, to measure a seeded change against the checks as they stood before this rotation existed)
    return comp

def run_impl(tools, case, cb, datadir=None, outdir=None, release=False, env=None, preexec=None, verbosity=0, keep=False, timeout=90, wrapper=None, prefill=None, _attempt=0):
    """Materialises the case (unless datadir is given), runs one callback, returns an ImplResult.
    A run that exceeds the timeout is repeated (up to 3 attempts): rusty-leveldb 3.0.2 loads the index through an iterator whose read sampling is a symmetric random walk
    (`while byte_count < 0 { byte_count += random::<isize>() % (2 * PERIOD) }`), so any run can, with small probability, spin for seconds to minutes before the first block
    is read - independent of the input and of rusty-blockparser's own code. A run that times out three times in a row is reported as it is."""
    base = os.path.join(tools.work, 'c%s_%s_%d' % (re.sub(r'\W', '_', case.id), cb, time.time_ns() % 10**9))
    own_dd = datadir is None
    dd_root = None
    if own_dd:
        # generic rotation `path_name`: the data directory sits below path components named like the default directories of other clients (and of the own one) -
        # the result is a function of the directory's content and the options, never of how the directory is called
        comp = path_component(case, cb)
        dd_root = base + '_dd'
        datadir = os.path.join(dd_root, comp) if comp else dd_root
        if comp: ROT['path_name'] += 1
        case.materialise(datadir, tools.ldbw)
    own_out = outdir is None and cb in NEEDS_DIR
    if own_out:
        outdir = base + '_out'; os.makedirs(outdir)
    stale = {}
    if prefill == 'stale' or (own_out and prefill is None):
        # every run starts from a dump folder that holds leftovers of an aborted earlier run (tmp files LONGER than anything this run writes)
        # and another run's result: the property (C10 / C13) says they must not change the outcome
        stems_ = stems(cb)
        stale = {'%s.csv.tmp' % st: b'stale;row;of;an;aborted;run\n' * 6000 for st in stems_}
        stale['%s-31337-31338.csv' % stems_[0]] = b'result of another run\n'
        prefill = stale
    if prefill and outdir:
        for name, data in prefill.items():
            with open(os.path.join(outdir, name), 'wb') as f: f.write(data)
    binp = tools.bin_release if release else tools.bin
    prior = getattr(case, 'prior_coin', None)
    if prior and outdir and cb in NEEDS_DIR and _attempt == 0:
        # an earlier run of the same range into the same dump folder, under another --coin (same file names, for most cases the same file lengths, other content):
        # whatever it leaves behind must not change this run's result (C10 / C13)
        e0 = dict(os.environ); e0.pop('RBP_VERIF_HOOK', None); e0.setdefault('RAYON_NUM_THREADS', '4'); ROT['prior'] += 1
        sp, case.coin_spelling = getattr(case, 'coin_spelling', None), prior
        try:
            subprocess.run([binp, '-d', datadir] + case.args() + [SUBCMD[cb], outdir], capture_output=True, env=e0, timeout=timeout)
        except subprocess.TimeoutExpired: pass
        finally: case.coin_spelling = sp
    preexec0 = preexec
    uid = getattr(case, 'as_user', None)
    if uid and can_drop(tools, uid):
        ROT['as_user'] += 1
        # the parser runs as an unprivileged user who may read the blk files and xor.dat (0644, owned by root) but does not own them; only the index (LevelDB takes a LOCK
        # and writes a LOG) and the dump folder belong to that user
        for top in [os.path.join(datadir, 'index')] + ([outdir] if outdir else []):
            for dp, dn, fn in os.walk(top):
                os.chown(dp, uid, uid)
                for f_ in fn: os.chown(os.path.join(dp, f_), uid, uid, follow_symlinks=False)
        inner = preexec
        def preexec():
            if inner: inner()
            os.setgroups([]); os.setgid(uid); os.setuid(uid)
    args = [binp, '-d', datadir] + ['-v'] * max(verbosity, getattr(case, 'verbosity', 0)) + case.args() + [SUBCMD[cb]] + ([outdir] if cb in NEEDS_DIR else [])
    if wrapper: args = wrapper + args
    e = dict(os.environ); e.pop('RBP_VERIF_HOOK', None); e.setdefault('RAYON_NUM_THREADS', '4'); e.update(env or {})      # many runs in parallel: keep the thread count per process small (C13 varies it explicitly)
    t0 = time.time()
    try:
        p = subprocess.run(args, capture_output=True, env=e, preexec_fn=preexec, timeout=timeout)
        rc, so, se = p.returncode, p.stdout, p.stderr
    except subprocess.TimeoutExpired as ex:
        rc, so, se = -999, ex.stdout or b'', ex.stderr or b''
        if _attempt < 2:
            if own_dd: shutil.rmtree(dd_root, ignore_errors=True)
            if own_out: shutil.rmtree(outdir, ignore_errors=True)
            RETRIES.append((case.id, cb, _attempt))
            return run_impl(tools, case, cb, datadir=None if own_dd else datadir, outdir=None if own_out else outdir, release=release, env=env, preexec=preexec0, verbosity=verbosity,
                            keep=keep, timeout=timeout, wrapper=wrapper, prefill=('stale' if stale and not own_out else (None if stale else prefill)), _attempt=_attempt + 1)
    r = ImplResult(); r.rc = rc; r.stdout = so; r.stderr = se; r.wall = time.time() - t0; r.args = args
    r.files = {}
    if outdir and os.path.isdir(outdir):
        for name in sorted(os.listdir(outdir)):
            pth = os.path.join(outdir, name)
            if os.path.isfile(pth):
                with open(pth, 'rb') as f: r.files[name] = f.read()
    if stale:
        other = '%s-31337-31338.csv' % stems(cb)[0]
        r.foreign_touched = r.files.get(other) != stale[other]
        r.files.pop(other, None)
        for nm in [n for n in r.files if n.endswith('.tmp') and r.files[n] == stale.get(n)]: r.files[nm] = b''      # an untouched stale tmp counts as "tmp present, nothing of this run in it"
    r.datadir = datadir; r.outdir = outdir
    if not keep:
        if own_dd: shutil.rmtree(dd_root, ignore_errors=True)
        if own_out: shutil.rmtree(outdir, ignore_errors=True)
    text = (so + b'\n' + se).decode(errors='replace')
    m = re.search(r'Error at height (\d+): (.*)', text)
    r.error_height = int(m.group(1)) if m else None
    r.error_kind = None
    if m:
        msg = m.group(2)
        r.error_kind = ('nofile' if 'Block file for block not found' in msg else 'merkle' if 'Invalid merkle_root' in msg else
                        'genesis' if 'Genesis block hash' in msg else 'prev' if 'prev_hash for block' in msg else 'read')
    m = re.search(r'Processed blocks up to height (\d+)', text)
    r.last = int(m.group(1)) if m else None
    r.panicked = rc == 101 or b'panicked at' in se
    return r

def exit_class(r):
    if r.rc == 0: return 'ok'
    if r.rc == 101: return 'panic'
    if r.rc < 0: return 'signal'
    return 'fail'

# ---------------- comparisons (property-level observables only) ----------------
def expect_status(m):
    """model status -> (exit class, error height, kind)"""
    st = m['status']
    if st[0] == 'done': return ('ok', None, None)
    if st[0] == 'error': return ('fail', int(st[1]), st[2])
    if st[0] == 'panic': return ('panic', None, None)
    if st[0] == 'startup-panic': return ('panic', None, None)
    return ('fail', None, None)

def cmp_status(r, m):
    ec, eh, ek = expect_status(m)
    diffs = []
    # property-level observables only: success vs failure (a panic, an abort and exit(1) are all "non-zero"); the failing height where a property asks for it
    # (input faults, C10: "reports the failing height"); which of the --verify conditions is reported first, and with which words, is not specified by any property
    if (exit_class(r) == 'ok') != (ec == 'ok'): diffs.append('exit status impl=%s (rc %s) model=%s' % (exit_class(r), r.rc, ec))
    if eh is not None and ek in ('nofile', 'read') and r.error_height != eh:
        diffs.append('failing height impl=%s model=%s (%s)' % (r.error_height, eh, ek))
    return diffs

CSV_STEMS = ['blocks', 'transactions', 'tx_in', 'tx_out']
def cmp_csv(r, m, case):
    d = cmp_status(r, m)
    if m['status'][0] != 'done':
        finals = [n for n in r.files if not n.endswith('.tmp')]
        if finals: d.append('final-named files after a failed run: %s' % finals)
        return d
    first, last = m['status'][1], m['status'][2]
    want_names = {m['fname'][('csv', i)][1]: i for i in range(4)}          # names rendered by the model (Model.final_name)
    if getattr(r, 'foreign_touched', False): d.append("another run's result file in the dump folder was modified or removed")
    if set(r.files) != set(want_names): d.append('file names impl=%s model=%s' % (sorted(r.files), sorted(want_names)))
    for name, i in want_names.items():
        if name in r.files:
            rows = r.files[name].decode(errors='replace').split('\n')
            if rows and rows[-1] == '': rows.pop()
            if rows != m['csv'][i]:
                k = next((j for j, (a, b) in enumerate(itertools.zip_longest(rows, m['csv'][i])) if a != b), None)
                d.append('%s differs at row %s: impl=%r model=%r (rows %d vs %d)' % (name, k, rows[k][:300] if k is not None and k < len(rows) else None,
                                                                                 m['csv'][i][k][:300] if k is not None and k < len(m['csv'][i]) else None, len(rows), len(m['csv'][i])))
    mm = re.search(rb'transactions:\s+(\d+)\s+-> inputs:\s+(\d+)\s+-> outputs:\s+(\d+)', r.stdout)
    tot = [x.decode() for x in mm.groups()] if mm else None
    if tot != m['csvtotals']: d.append('totals impl=%s model=%s' % (tot, m['csvtotals']))
    if r.last is not None and str(r.last) != last: d.append('last height impl=%s model=%s' % (r.last, last))
    return d

def cmp_rows_file(r, m, stem, header, mrows, totals_key=None):
    d = cmp_status(r, m)
    if m['status'][0] != 'done':
        finals = [n for n in r.files if not n.endswith('.tmp')]
        if finals: d.append('final-named files after a failed run: %s' % finals)
        return d
    first, last = m['status'][1], m['status'][2]
    name = m['fname'][(stem, 0)][1]                                      # name rendered by the model (Model.final_name)
    if getattr(r, 'foreign_touched', False): d.append("another run's result file in the dump folder was modified or removed")
    if list(r.files) != [name]: d.append('file names impl=%s model=%s' % (sorted(r.files), [name])); return d
    rows = r.files[name].decode(errors='replace').split('\n')
    if rows and rows[-1] == '': rows.pop()
    if not rows or rows[0] != header: d.append('header impl=%r' % (rows[:1],))
    a, b = sorted(rows[1:]), sorted(mrows)
    if a != b:
        sa, sb = set(a), set(b)
        d.append('%s rows differ: only impl=%s only model=%s (rows %d vs %d)' % (stem, sorted(sa - sb)[:3], sorted(sb - sa)[:3], len(a), len(b)))
    if totals_key:
        mm = re.search(rb'transactions:\s+(\d+)\s+-> inputs:\s+(\d+)\s+-> outputs:\s+(\d+)', r.stdout)
        tot = [x.decode() for x in mm.groups()] if mm else None
        if tot != m[totals_key]: d.append('totals impl=%s model=%s' % (tot, m[totals_key]))
    return d

def cmp_unspent(r, m, case): return cmp_rows_file(r, m, 'unspent', m['header'].get('unspent', 'txid;indexOut;height;value;address'), m['unspent'], 'unspenttotals')
def cmp_balances(r, m, case): return cmp_rows_file(r, m, 'balances', m['header'].get('balances', 'address;balance'), m['balance'])

OPRET_DEFAULT = rb'(?m)^height: (\d+) +txid: ([0-9a-f]{64})    data: '
def _opret_regex():
    """the line format is not fixed by the property (a line carrying height, txid and payload): the regular expression is derived from the format string the translator
    reads in callbacks/opreturn.rs (arguments: height, txid, data - data last); the pinned format is the fallback"""
    try:
        from . import srcgen
        fmt = srcgen.extract().get('opreturn_format')
        parts = re.split(r'\{[^}]*\}', fmt) if fmt else []
        if len(parts) == 4 and parts[3] == '' and '\n' not in fmt:
            rx = '(?m)^' + re.escape(parts[0]) + r'(\d+) *' + re.escape(parts[1]).replace(r'\ ', ' ') + r'([0-9a-f]{64})' + re.escape(parts[2]).replace(r'\ ', ' ')
            return re.compile(rx.encode())
    except Exception:
        pass
    return re.compile(OPRET_DEFAULT)
OPRET_RE = None
LOG_RE = re.compile(rb'\n\[\d\d:\d\d:\d\d\] ')
def parse_opreturn(stdout):
    global OPRET_RE
    if OPRET_RE is None: OPRET_RE = _opret_regex()
    parts = OPRET_RE.split(stdout); lines = []
    for k in range(1, len(parts), 3):
        pieces = LOG_RE.split(parts[k + 2]); payload = pieces[0]
        if len(pieces) == 1 and payload.endswith(b'\n'): payload = payload[:-1]    # println's newline (already cut when a log line follows)
        lines.append((parts[k].decode(), parts[k + 1].decode(), payload.hex()))
    return lines
def cmp_opreturn(r, m, case):
    d = cmp_status(r, m)
    lines = parse_opreturn(r.stdout)
    if m['status'][0] == 'done':
        if lines != m['opret']:
            k = next((j for j, (a, b) in enumerate(itertools.zip_longest(lines, m['opret'])) if a != b), None)
            d.append('opreturn lines differ at %s: impl=%s model=%s (%d vs %d lines)' % (k, str(lines[k])[:400] if k is not None and k < len(lines) else None,
                                                                                    str(m['opret'][k])[:400] if k is not None and k < len(m['opret']) else None, len(lines), len(m['opret'])))
        if r.last is not None and str(r.last) != m['status'][2]: d.append('last height impl=%s model=%s' % (r.last, m['status'][2]))
    elif m['status'][0] == 'error' and lines != m['opret']:
        # the lines of the blocks processed before the failing height are output of the run as well (they are printed as the blocks are processed)
        d.append('opreturn lines before the failing height: impl has %d, model %d (first difference: %s)' % (len(lines), len(m['opret']),
                 next(((a, b) for a, b in itertools.zip_longest(lines, m['opret']) if a != b), None)))
    return d

def parse_stats(o):
    g = lambda pat: re.search(pat, o)
    res = {}
    for k, pat in (('blocks', r'valid blocks:\s+(\d+)'), ('tx', r'total transactions:\s+(\d+)'), ('in', r'total tx inputs:\s+(\d+)'), ('out', r'total tx outputs:\s+(\d+)'),
                   ('fee', r'total tx fees:\s+\S+ \((\d+) units\)'), ('vol', r'total volume:\s+\S+ \((\d+) units\)')):
        mm = g(pat); res[k] = mm.group(1) if mm else None
    mm = g(r'biggest value tx:\s+\S+ \((\d+) units\)\n\s+seen in block #(\d+), txid: ([0-9a-f]{64})'); res['bigv'] = list(mm.groups()) if mm else None
    mm = g(r'biggest size tx:\s+(\d+) bytes\n\s+seen in block #(\d+), txid: ([0-9a-f]{64})'); res['bigs'] = list(mm.groups()) if mm else None
    for k, pat in (('msize', r'avg block size:\s+(\S+) KiB'), ('mgap', r'avg time between blocks:\s+(\S+) \(minutes\)'), ('txpb', r'avg txs per block:\s+(\S+)'),
                   ('inpt', r'avg inputs per tx:\s+(\S+)'), ('outpt', r'avg outputs per tx:\s+(\S+)'), ('valpo', r'avg value per output:\s+(\S+)')):
        mm = g(pat); res[k] = mm.group(1) if mm else None
    res['types'] = sorted((n.replace('("")', ''), c, pct, h, t) for n, c, pct, h, t in re.findall(r'-> (\S+?(?:\(""\))?): (\d+) \(([\d.]+|NaN|inf)%\)\n\s+first seen in block #(\d+), txid: ([0-9a-f]{64})', o))
    return res

def close_to(printed, num, den, scale, decimals=2):
    """printed decimal string vs exact rational num/den*scale, within half a unit of the last printed digit plus float slack"""
    if den == 0: return printed in ('NaN', 'inf', '0.00')
    try: p = float(printed)
    except ValueError: return False
    exact = num / den * scale
    return abs(p - exact) <= 0.5 * 10 ** (-decimals) * 1.0000001 + 1e-9 * abs(exact)

def cmp_stats(r, m, case):
    d = cmp_status(r, m)
    if m['status'][0] != 'done': return d
    st = parse_stats((r.stdout + r.stderr).decode(errors='replace')); ms = m['stat']
    for k in ('blocks', 'tx', 'in', 'out', 'fee', 'vol'):
        if st[k] != ms[k][0]: d.append('stats %s impl=%s model=%s' % (k, st[k], ms[k][0]))
    for k in ('bigv', 'bigs'):
        if ms[k] != ['none'] and st[k] != ms[k]: d.append('stats %s impl=%s model=%s' % (k, st[k], ms[k]))
    nb, ntx, nin, nout, vol = (int(ms[k][0]) for k in ('blocks', 'tx', 'in', 'out', 'vol'))
    checks = [('msize', int(ms['meansize'][0]), int(ms['meansize'][1]), 1 / 1024.0), ('mgap', int(ms['meangap'][0]), int(ms['meangap'][1]), 1 / 60.0),
              ('txpb', ntx, nb, 1.0), ('inpt', nin, ntx, 1.0), ('outpt', nout, ntx, 1.0), ('valpo', vol, nout, 1e-8)]
    for k, num, den, scale in checks:
        if k in ('msize', 'mgap') and den == 0:
            if st[k] != '0.00': d.append('stats %s impl=%s model=empty' % (k, st[k]))
        elif st[k] is None or not close_to(st[k], num, den, scale): d.append('stats %s impl=%s model=%s/%s*%s' % (k, st[k], num, den, scale))
    mt = sorted((n, c, h, t) for n, c, h, t in m['stattype'])
    it = sorted((n, c, h, t) for n, c, pct, h, t in st['types'])
    if it != mt: d.append('stats types impl=%s model=%s' % (it, mt))
    for n, c, pct, h, t in st['types']:
        if not close_to(pct, int(c), nout, 100.0): d.append('stats share of %s impl=%s model=%s/%s' % (n, pct, c, nout))
    return d

CMP = {'csv': cmp_csv, 'unspent': cmp_unspent, 'balances': cmp_balances, 'opreturn': cmp_opreturn, 'stats': cmp_stats}

def compare_case(tools, case, model, cbs, release=False, env=None, keep_dir=None):
    """Runs the callbacks of `cbs` on the materialised case and compares each with the model. Returns list of (cb, [diffs])."""
    dd_root = os.path.join(tools.work, 'dd_%s_%d' % (re.sub(r'\W', '_', case.id), time.time_ns() % 10**9))
    comp = path_component(case, 'all')      # generic rotation `path_name` (see run_impl)
    dd = os.path.join(dd_root, comp) if comp else dd_root
    if comp: ROT['path_name'] += 1; case.path_component = comp
    case.materialise(dd, tools.ldbw)
    out = []
    try:
        for cb in cbs:
            r = run_impl(tools, case, cb, datadir=dd, release=release, env=env)
            diffs = CMP[cb](r, model, case)
            out.append((cb, diffs, r))
    finally:
        shutil.rmtree(dd_root, ignore_errors=True)
    return out
