#!/bin/bash
# re-runs every kept seeded change against the quick check of its property (scratch worktree /tmp/drillrepo, see drill_wt.sh) and prints caught / MISSED
cd /verif
for d in seeded/C*-*/; do
  id=$(basename $d); P=${id%-*}
  out=$(tools/drill_wt.sh /verif/$d/patch.diff $P quick 1 2>&1)
  v=$(echo "$out" | grep -o 'violations=[0-9]*' | head -1 | cut -d= -f2)
  nf=$(echo "$out" | grep -c 'no-failing-input-found')
  if [ "${v:-0}" -gt 0 ]; then echo "$id caught ($v violation lines)"; else echo "$id MISSED: $(echo "$out" | tail -1 | cut -c1-150)"; fi
done
