#!/usr/bin/env python3
"""Writes /verif/MANIFEST.json from the table below (kept in one place so that it stays valid)."""
import json, os
V = os.path.dirname(os.path.dirname(os.path.abspath(__file__)))
CORR = ' The tie to the code is a correspondence check on every run: the model is extracted to OCaml and run on the same generated data directories / requests as the binary rebuilt from /repo (hooks on); constant tables are regenerated from /repo/src and proved equal to the published ones.'
NOTE = 'Theorems are about the hand-written Gallina mirror (Print Assumptions: closed under the global context); assurance is the weaker of theorem and correspondence. Not modelled: rusty-leveldb internals, kernel, rayon, clap, logging.'
TECH = 'Coq proof (induction / invariants / round-trip laws) on an executable Gallina mirror + differential correspondence (extracted OCaml model vs binary built from /repo)'
CLAIMED = {
 'C01': dict(cat='proof', ref='6/C01', text='Round-trip theorems for every well-formed tx/block (legacy, segwit, all four CompactSize widths per count/length, AuxPoW), txid = H(witness-stripped bytes), block hash = H(first 80 bytes), one CSV row per block/tx/input/output in chain order, totals = row counts, rows split back into their fields, hex/decimal renderers invertible.' + CORR),
 'C02': dict(cat='proof', ref='6/C02', text='Delivered heights are exactly s..min(e,T), ascending, once, for every index and range (run_delivers_range, drive_inclusive), nothing outside the range is read (drive_ext), a range run sees the whole-chain run\'s blocks (trimming invisible), per-block outputs of a range are slices; bounded-exhaustive correspondence over all T<=4/9, all accepted (s,e), 5 callbacks.' + CORR),
 'C03': dict(cat='proof', ref='6/C03', text='Core VarInt decode(encode n) = n on all of u64 with both panic branches modelled, index record decode for every field width and status, blk file name parsing for every padding, non-block keys ignored, fetch_block returns the block whose bytes lie at (file, offset) in the plaintext view whatever surrounds it, hence layout independence of the whole run.' + CORR),
 'C04': dict(cat='proof', ref='6/C04', text='The height map holds per height the last admitted record in key order (load_index_last); header-only records are never admitted and never displace anything (all 256 status bytes swept); C04_partial: whenever the last admitted record at every height is the active one the delivered chain is the active chain; C04_refuted: witness that a stale sibling with data sorting later is delivered (known finding F-C04, recorded not repaired).' + CORR),
 'C11': dict(cat='proof', ref='6/C11', text='XorReader over seek_bufread::BufReader refines a plain cursor over the plaintext for every key, buffer size, seek/read sequence and short-read pattern (xor_reader_refines); at the level of the whole run an obfuscated directory yields exactly the run of the plaintext directory (run_case_obfuscated).' + CORR + ' The reader mirror itself is also tied in-process (xor-reader hook, arbitrary buffer sizes and short reads).'),
 'C12': dict(cat='proof', ref='6/C12', text='A block with an AuxPoW section (legacy or segwit parent coinbase, two branches of any length) parses to the same header, transaction list and hash as without (read_block_ser, auxpow_irrelevant); a section is decoded iff the coin has a threshold and version >= threshold (equality included); published thresholds 0x10101/0x620102 and no threshold for the six other coins.' + CORR),
 'C17': dict(cat='proof', ref='6/C17', text='After delivering s..h every open file still stores a block of a later height (open_invariant/open_span, any layout, any start), no file is listed twice, files with disjoint spans are open one at a time; the model\'s open-set trace is the iterated visit of those theorems. Correspondence: strace of open/close on blk files per delivered height against the bound and the model, plus runs under RLIMIT_NOFILE.' + CORR,
             note='Assumes dropping the reader closes its descriptor (observed through strace, not proved).'),
}
for k, v in CLAIMED.items(): v.setdefault('note', NOTE); v.setdefault('tech', TECH)
NOT_YET = {}
props = [json.loads(l) for l in open(os.path.join(V, 'properties.jsonl'))]
checks = []; na = []
for p in props:
    i = p['id']
    if i in CLAIMED:
        c = CLAIMED[i]
        checks.append(dict(property_id=i, quick_cmd='./check %s --tier quick' % i, thorough_cmd='./check %s --tier thorough' % i,
                           evidence_file='evidence/%s.json' % i, replay_cmd_template='./check %s --replay {path}' % i, engine='coq-model',
                           level_claimed=dict(category=c['cat'], text=c['text'], design_ref='DESIGN.md section ' + c['ref']), level_note=c['note'], technique=c['tech']))
    else:
        na.append(dict(property_id=i, reason=NOT_YET.get(i, 'check under construction in this session (model and theorems exist in coq/, harness not registered yet); not claimed until it runs green')))
m = dict(version=1, setup_cmd='./setup.sh',
         hooks=dict(guard='rusty_blockparser_verif', enable='RUSTFLAGS="--cfg rusty_blockparser_verif" cargo build --offline (own target dir /verif/.cache/target-hook)',
                    baseline_off_cmd='cd /repo && cargo test --workspace --no-fail-fast --offline', source_commits=['23daf64'], add_only=True),
         engines=[dict(name='coq-model', path='coq/ ocaml/ vlib/ check', serves_properties=[c['property_id'] for c in checks],
                       kind_free_text='Coq 8.16 development (executable Gallina mirror + theorems), extracted to OCaml and run against the binary built from /repo')],
         checks=checks, not_applicable=na,
         notes='All checks: ./check <id> [--tier quick|thorough]; evidence in evidence/<id>.json; known findings in known_findings.json; replays in replays/.')
json.dump(m, open(os.path.join(V, 'MANIFEST.json'), 'w'), indent=1)
print('claimed', [c['property_id'] for c in checks])
