#!/usr/bin/env python3
"""Writes /verif/MANIFEST.json from the table below (kept in one place so that it stays valid)."""
import json, os
V = os.path.dirname(os.path.dirname(os.path.abspath(__file__)))
CLAIMED = {
 'C02': dict(cat='proof', ref='6/C02',
    text='Coq theorems (run_delivers_range, drive_inclusive, drive_ext, get_block_range_same, slice lemmas) on the executable model of index clamp/trim + driver loop: delivered heights are exactly s..min(e,T), ascending, once, for every index and range; the model is tied to the code by a bounded-exhaustive correspondence (all T<=4/9, all accepted (s,e), 5 callbacks) on the binary rebuilt from /repo.',
    note='Theorems are about the hand-written Gallina mirror; the correspondence check (extracted model vs real binary) is the tie. s > tip is outside the property quantifier.',
    tech='Coq proof by induction over the driver loop + differential correspondence (extracted OCaml model vs binary)'),
}
NOT_YET = {}
props = [json.loads(l) for l in open(os.path.join(V, 'properties.jsonl'))]
checks = []; na = []
for p in props:
    i = p['id']
    if i in CLAIMED:
        c = CLAIMED[i]
        checks.append(dict(property_id=i, quick_cmd='./check %s --tier quick' % i, thorough_cmd='./check %s --tier thorough' % i,
                           evidence_file='evidence/%s.json' % i, replay_cmd_template='./check %s --replay {path}' % i, engine='coq-model',
                           level_claimed=dict(category=c['cat'], text=c['text'], design_ref='DESIGN.md section ' + c['ref']), level_note=c['note'], technique=c['tech']))
    else:
        na.append(dict(property_id=i, reason=NOT_YET.get(i, 'check under construction in this session (model and theorems exist in coq/, harness not registered yet); not claimed until it runs green')))
m = dict(version=1, setup_cmd='./setup.sh',
         hooks=dict(guard='rusty_blockparser_verif', enable='RUSTFLAGS="--cfg rusty_blockparser_verif" cargo build --offline (own target dir /verif/.cache/target-hook)',
                    baseline_off_cmd='cd /repo && cargo test --workspace --no-fail-fast --offline', source_commits=['23daf64'], add_only=True),
         engines=[dict(name='coq-model', path='coq/ ocaml/ vlib/ check', serves_properties=[c['property_id'] for c in checks],
                       kind_free_text='Coq 8.16 development (executable Gallina mirror + theorems), extracted to OCaml and run against the binary built from /repo')],
         checks=checks, not_applicable=na,
         notes='All checks: ./check <id> [--tier quick|thorough]; evidence in evidence/<id>.json; known findings in known_findings.json; replays in replays/.')
json.dump(m, open(os.path.join(V, 'MANIFEST.json'), 'w'), indent=1)
print('claimed', [c['property_id'] for c in checks])
