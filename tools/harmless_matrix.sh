#!/bin/bash
# every quick check against every harmless patch, in the scratch worktree /tmp/drillrepo
cd /tmp/drillrepo && git checkout -q -- .
for f in /verif/seeded/harmless/*.diff; do
  cd /tmp/drillrepo && git checkout -q -- . && git apply $f || { echo "APPLY FAILED $f"; continue; }
  cd /verif
  for p in C01 C02 C03 C04 C05 C06 C07 C08 C09 C10 C11 C12 C13 C14 C15 C16 C17; do
    out=$(VERIF_REPO=/tmp/drillrepo ./check $p --tier quick 2>&1); rc=$?
    echo "$(basename $f) $p exit=$rc violations=$(echo "$out" | grep -c '^VIOLATION') $(echo "$out" | grep '^NOTE' | head -1 | cut -c1-120)"
    echo "$out" | grep '^VIOLATION' | head -2
  done
done
cd /tmp/drillrepo && git checkout -q -- .
