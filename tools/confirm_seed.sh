#!/bin/bash
# usage: confirm_seed.sh <worktree> <seedN>    e.g. /tmp/seed/C03 seed1
# Confirms in the scratch worktree: patch applies, compiles, 41 tests pass with it, demo fails with it and passes without it.
WT=$1; S=$2; OUT=$WT/$S/confirm.txt
export CARGO_NET_OFFLINE=true CARGO_TARGET_DIR=$WT/target
cd $WT || exit 2
git checkout -q -- . 
DEMO=$(ls $S/demo/run*.sh 2>/dev/null | head -1); [ -n "$DEMO" ] || { echo "no demo/run*.sh in $S"; exit 2; }
{
echo "== confirm $WT $S  $(date -u +%FT%TZ)"
git apply --check $S/patch.diff && echo "patch applies: yes" || { echo "patch applies: NO"; exit 1; }
git apply $S/patch.diff
T=$(cargo test --offline 2>&1 | grep "test result" | head -1); echo "tests with patch: $T"
bash $DEMO > $S/confirm_with.out 2>&1; echo "demo with patch: exit $?"; tail -3 $S/confirm_with.out
git checkout -q -- .
bash $DEMO > $S/confirm_without.out 2>&1; echo "demo without patch: exit $?"; tail -3 $S/confirm_without.out
} > $OUT 2>&1
git checkout -q -- .
rm -rf $WT/target $WT/target-demo
cat $OUT
