#!/usr/bin/env python3
"""Records the names of the property theorems of coq/props/*.v in coq/props/PINNED.json (run by hand after adding theorems)."""
import re, json, os, glob
V = os.path.dirname(os.path.dirname(os.path.abspath(__file__)))
out = {}
for f in sorted(glob.glob(os.path.join(V, 'coq', 'props', 'C*.v'))):
    out[os.path.basename(f)[:-2]] = re.findall(r'Print Assumptions (\w+)\.', open(f).read())
json.dump(out, open(os.path.join(V, 'coq', 'props', 'PINNED.json'), 'w'), indent=1)
print({k: len(v) for k, v in out.items()})
