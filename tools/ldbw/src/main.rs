use rusty_leveldb::{DB, Options};
use std::io::{self, BufRead};
fn unhex(s:&str)->Vec<u8>{(0..s.len()).step_by(2).map(|i|u8::from_str_radix(&s[i..i+2],16).unwrap()).collect()}
fn main(){
    let path=std::env::args().nth(1).unwrap();
    let mut o=Options::default(); o.create_if_missing=true;
    let mut db=DB::open(&path,o).unwrap();
    for l in io::stdin().lock().lines(){ let l=l.unwrap(); let mut it=l.split_whitespace();
        let k=unhex(it.next().unwrap()); let v=unhex(it.next().unwrap_or("")); db.put(&k,&v).unwrap(); }
    db.flush().unwrap();
}
