// LevelDB helper for the verification harness.
//   ldbw <dir>            writes the `keyhex valuehex` lines read from stdin into a new database
//   ldbw dump <dir>       prints every key/value pair as `keyhex valuehex` (sorted by key, as the iterator yields them)
use rusty_leveldb::{LdbIterator, Options, DB};
use std::io::{self, BufRead};
fn unhex(s: &str) -> Vec<u8> { (0..s.len()).step_by(2).map(|i| u8::from_str_radix(&s[i..i + 2], 16).unwrap()).collect() }
fn hex(b: &[u8]) -> String { b.iter().map(|x| format!("{:02x}", x)).collect() }
fn main() {
    let args: Vec<String> = std::env::args().collect();
    if args[1] == "dump" {
        let mut db = DB::open(&args[2], Options::default()).unwrap();
        let mut it = db.new_iter().unwrap();
        let (mut k, mut v) = (vec![], vec![]);
        while it.advance() { it.current(&mut k, &mut v); println!("{} {}", hex(&k), hex(&v)); }
        return;
    }
    let mut o = Options::default(); o.create_if_missing = true;
    let mut db = DB::open(&args[1], o).unwrap();
    for l in io::stdin().lock().lines() {
        let l = l.unwrap(); let mut it = l.split_whitespace();
        let k = match it.next() { Some(k) => unhex(k), None => continue };
        let v = unhex(it.next().unwrap_or("")); db.put(&k, &v).unwrap();
    }
    db.flush().unwrap();
}
