#!/bin/bash
# usage: confirm_seed2.sh <worktree> <seedN> '<demo command using $BIN for the built binary>'
WT=$1; S=$2; CMD=$3; OUT=$WT/$S/confirm.txt
export CARGO_NET_OFFLINE=true CARGO_TARGET_DIR=$WT/target
cd $WT || exit 2
git checkout -q -- .
BIN=$WT/target/debug/rusty-blockparser
{
echo "== confirm $WT $S  $(date -u +%FT%TZ)  demo: $CMD"
git apply --check $S/patch.diff && echo "patch applies: yes" || { echo "patch applies: NO"; exit 1; }
git apply $S/patch.diff
T=$(cargo test --offline 2>&1 | grep "test result" | head -1); echo "tests with patch: $T"
cargo build --offline -q 2>&1 | tail -2
BIN=$BIN bash -c "$CMD" > $S/confirm_with.out 2>&1; echo "demo with patch: exit $?"; tail -3 $S/confirm_with.out
git checkout -q -- .
cargo build --offline -q 2>&1 | tail -2
BIN=$BIN bash -c "$CMD" > $S/confirm_without.out 2>&1; echo "demo without patch: exit $?"; tail -3 $S/confirm_without.out
} > $OUT 2>&1
git checkout -q -- .
rm -rf $WT/target $WT/target-demo $WT/target-verif
cat $OUT
