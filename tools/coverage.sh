#!/bin/bash
# Source-based coverage of /repo/src under the quick tier of every check: which regions of the implementation the generators never reach.
# Not a check and not part of any verdict - a tool for finding blind spots of the generators. Needs the nightly toolchain (llvm-cov, llvm-profdata).
# usage: tools/coverage.sh [out-dir]      (default /root/cov; evidence files are restored afterwards)
set -u
cd "$(dirname "$0")/.."
OUT=${1:-/root/cov}; rm -rf "$OUT"; mkdir -p "$OUT"
B=$(ls -d ~/.rustup/toolchains/nightly-x86_64-unknown-linux-gnu/lib/rustlib/*/bin | head -1)
cp -r evidence "$OUT/evidence.bak"
export VERIF_COVERAGE=1 LLVM_PROFILE_FILE="$OUT/p-%8m.profraw"
for p in C01 C02 C03 C04 C05 C06 C07 C08 C09 C10 C11 C12 C13 C14 C15 C16 C17; do ./check $p 2>&1 | tail -1; done
unset VERIF_COVERAGE
rm -rf evidence; mv "$OUT/evidence.bak" evidence; rm -f /repo/default_*.profraw
$B/llvm-profdata merge -sparse "$OUT"/*.profraw -o "$OUT/all.profdata"
BIN=.cache/target-cov/debug/rusty-blockparser
$B/llvm-cov report $BIN -instr-profile="$OUT/all.profdata" --ignore-filename-regex='(registry|rustc|verif_hooks)' | tee "$OUT/report.txt" | cut -c1-160
for f in $(cd /repo/src && find . -name '*.rs' | sed 's#^\./##'); do
  $B/llvm-cov show $BIN -instr-profile="$OUT/all.profdata" /repo/src/$f 2>/dev/null | grep -E "^ +[0-9]+\| +0\|" | grep -v "^\s*[0-9]*|\s*0|\s*}\s*$" | sed "s#^#$f:#"
done > "$OUT/uncovered_lines.txt"
echo "uncovered lines: $OUT/uncovered_lines.txt ($(wc -l < "$OUT/uncovered_lines.txt") lines)"
