#!/usr/bin/env python3
"""Helper (not used by the checks): appends pinned statements to an existing coq/props/<P>.v.
usage: addprops.py C05 ExtraImport1,ExtraImport2 name=lemma name=lemma ...   (build the theories first; run tools/pin.py afterwards)"""
import sys, subprocess, re, os
prop, extra = sys.argv[1], [x for x in sys.argv[2].split(',') if x and x != '-']
pairs = [a.split('=') for a in sys.argv[3:]]
COQ = os.path.join(os.path.dirname(os.path.dirname(os.path.abspath(__file__))), 'coq')
path = os.path.join(COQ, 'props', prop + '.v'); s = open(path).read()
lines = s.split('\n')
imp = next(i for i, l in enumerate(lines) if l.startswith('From RBP Require Import'))
have = lines[imp][len('From RBP Require Import '):].rstrip('.').split()
for e in extra:
    if e not in have: have.append(e)
lines[imp] = 'From RBP Require Import %s.' % ' '.join(have)
req = lines[imp] + '\n' + lines[imp + 1] + '\n'
src = req + 'Set Printing Width 10000.\n' + ''.join('Check %s.\n' % l for _, l in pairs)
p = subprocess.run(['coqtop', '-Q', 'theories', 'RBP', '-Q', 'gen', 'RBPGen'], cwd=COQ, input=src.encode(), capture_output=True)
out = p.stdout.decode()
tmap = {n: ' '.join(t.split()) for n, t in re.findall(r'(?ms)^([\w.]+)\n\s+: (.*?)(?=^\S|\Z)', out)}
new = ''
for name, lemma in pairs:
    t = tmap.get(lemma) or tmap.get(lemma.split('.')[-1])
    if t is None: print('NO TYPE for', lemma, file=sys.stderr); print(out[-2000:], p.stderr.decode()[-2000:], file=sys.stderr); sys.exit(1)
    if ('Theorem %s :' % name) in s: print('already pinned:', name); continue
    new += 'Theorem %s :\n  %s.\nProof. exact %s. Qed.\n\n' % (name, t, lemma)
first_pa = next(i for i, l in enumerate(lines) if l.startswith('Print Assumptions'))
body = '\n'.join(lines[:first_pa]) + '\n' + new + '\n'.join(lines[first_pa:]).rstrip('\n') + '\n' + ''.join('Print Assumptions %s.\n' % n for n, _ in pairs if ('Theorem %s :' % n) not in s)
open(path, 'w').write(body)
print('appended %d theorems to props/%s.v' % (new.count('Theorem '), prop))
