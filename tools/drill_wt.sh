#!/bin/sh
# usage: tools/drill_wt.sh <patch.diff> <prop> [tier] [lines]   like drill.sh, but in a scratch worktree of /repo (/tmp/drillrepo, created with
# `git -C /repo worktree add --detach /tmp/drillrepo HEAD`) through VERIF_REPO, so that /repo itself stays untouched while something else is using it
set -u
WT=/tmp/drillrepo
cd $WT || exit 2
git checkout -q -- . ; git diff --quiet || { echo "worktree dirty"; exit 2; }
git apply "$1" || { echo "patch does not apply"; exit 2; }
cd /verif && VERIF_REPO=$WT ./check "$2" --tier "${3:-quick}" > /tmp/drillwt.$$ 2>&1
echo "exit=$? violations=$(grep -c '^VIOLATION' /tmp/drillwt.$$) notes=$(grep -c '^NOTE' /tmp/drillwt.$$)"; grep '^VIOLATION\|^NOTE' /tmp/drillwt.$$ | head -${4:-3} | cut -c1-300; grep "tier=" /tmp/drillwt.$$ | tail -1
rm -f /tmp/drillwt.$$
cd $WT && git checkout -q -- .
exit 0
