#!/bin/bash
# runs every registered check (quick by default) on the current tree and validates manifest + evidence against the schemas
cd "$(dirname "$0")/.."
tier=${1:-quick}; fail=0
git -C /repo diff --quiet || { echo "WARNING: /repo has uncommitted changes"; }
for p in $(python3 -c "import json; print(' '.join(c['property_id'] for c in json.load(open('MANIFEST.json'))['checks']))"); do
  out=$(./check $p --tier $tier 2>&1); rc=$?
  echo "$out" | grep -E "^(VIOLATION|KNOWN-FINDING|$p tier)" | cut -c1-220
  [ $rc -ne 0 ] && { fail=1; echo "  -> $p exit $rc"; }
done
python3-vt - <<'PY'
import json, jsonschema, glob
jsonschema.validate(json.load(open('MANIFEST.json')), json.load(open('/root/.vp/MANIFEST.schema.json')))
for f in sorted(glob.glob('evidence/*.json')):
    d = json.load(open(f)); jsonschema.validate(d, json.load(open('/root/.vp/EVIDENCE.schema.json')))
    c = d['coverage']
    if d['level'] == 'proof' and c['discharged'] != c['obligations']: print('EVIDENCE PROBLEM', f, c['discharged'], c['obligations'])
print('schemas ok')
PY
exit $fail
