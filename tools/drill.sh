#!/bin/sh
# usage: tools/drill.sh <patch.diff> <prop> [tier]   applies a seeded change to /repo, runs the check, undoes the change
set -u
cd /repo || exit 2
git diff --quiet || { echo "repo dirty"; exit 2; }
git apply "$1" || { echo "patch does not apply"; exit 2; }
cd /verif && ./check "$2" --tier "${3:-quick}" > /tmp/drill.$$ 2>&1
echo "exit=$? violations=$(grep -c '^VIOLATION' /tmp/drill.$$)"; grep '^VIOLATION' /tmp/drill.$$ | head -${4:-3}; grep "tier=" /tmp/drill.$$ | tail -1
rm -f /tmp/drill.$$
cd /repo && git checkout -- . && git status --short | grep -v '^??' | head -3
exit 0
