#!/bin/sh
# usage: tools/drill.sh <patch.diff> <prop> [tier]   applies a seeded change to /repo, runs the check, undoes the change
set -u
cd /repo || exit 2
git diff --quiet || { echo "repo dirty"; exit 2; }
git apply "$1" || { echo "patch does not apply"; exit 2; }
cd /verif && ./check "$2" --tier "${3:-quick}" 2>&1 | grep -v "^  " | tail -${4:-6}
rc=$?
cd /repo && git checkout -- . && git status --short | grep -v '^??' | head -3
exit 0
