#!/usr/bin/env python3
"""One-time helper (not used by the checks): writes coq/props/<P>.v pinning the current statements of the listed lemmas.
usage: genprops.py C01 'header comment' Import1,Import2 name=lemma name=lemma ..."""
import sys, subprocess, re, os
prop, comment, imports = sys.argv[1], sys.argv[2], sys.argv[3].split(',')
pairs = [a.split('=') for a in sys.argv[4:]]
COQ = os.path.join(os.path.dirname(os.path.dirname(os.path.abspath(__file__))), 'coq')
req = 'From RBP Require Import %s.\nFrom RBP Require Drive Merkle Utxo Stats OutProto Reader Published Misc.\n' % ' '.join(imports)
src = req + 'Set Printing Width 10000.\n' + ''.join('Check %s.\n' % l for _, l in pairs)
p = subprocess.run(['coqtop', '-Q', 'theories', 'RBP', '-Q', 'gen', 'RBPGen'], cwd=COQ, input=src.encode(), capture_output=True)
out = p.stdout.decode()
types = re.findall(r'(?ms)^([\w.]+)\n\s+: (.*?)(?=^\S|\Z)', out)
tmap = {}
for n, t in types: tmap[n] = ' '.join(t.split())
body = '(* %s — %s. Pinned statements only: each theorem is closed by `exact` of a lemma proved in theories/. *)\n' % (prop, comment) + req + '\n'
for name, lemma in pairs:
    key = lemma if lemma in tmap else lemma.split('.')[-1]
    t = tmap.get(key)
    if t is None: print('NO TYPE for', lemma, file=sys.stderr); print(out[-3000:], file=sys.stderr); sys.exit(1)
    body += 'Theorem %s :\n  %s.\nProof. exact %s. Qed.\n\n' % (name, t, '@' + lemma if False else lemma)
body += ''.join('Print Assumptions %s.\n' % n for n, _ in pairs)
open(os.path.join(COQ, 'props', prop + '.v'), 'w').write(body)
print('wrote props/%s.v with %d theorems' % (prop, len(pairs)))
