#!/usr/bin/env python3
"""Collects the seeded changes produced by the sub-agents (scratch worktrees under /tmp/seed) into /verif/seeded/<prop>-<n>/:
patch.diff, the demonstration, meta.json (what it breaks, what it needs to manifest, what was run to confirm it, which check catches it)."""
import os, sys, json, shutil, subprocess, re
V = os.path.dirname(os.path.dirname(os.path.abspath(__file__)))
OFFSET = int(os.environ.get('SEED_OFFSET', '0'))      # round 2 of the seeding is stored as <prop>-3, <prop>-4
props = [a for a in sys.argv[1:] if not a.startswith('--')] or sorted(d for d in os.listdir('/tmp/seed') if re.fullmatch(r'C\d\d', d))
jobs = []
for P in props:
    for n in (1, 2, 3):
        src = '/tmp/seed/%s/seed%d' % (P, n)
        if not os.path.exists(os.path.join(src, 'patch.diff')): continue
        if re.fullmatch(r'[T-Z]\d+', P):      # themed round: the sub-agent chose the property; stored under the next free index of that property
            prop = json.load(open(os.path.join(src, 'meta.json'))).get('property')
            k = 1
            while os.path.exists(os.path.join(V, 'seeded', '%s-%d' % (prop, k))): k += 1
            os.makedirs(os.path.join(V, 'seeded', '%s-%d' % (prop, k))); jobs.append((src, prop, k, P))
        else: jobs.append((src, P, n + OFFSET, None))
for src, P, idx, theme in jobs:
    if True:
        n = idx - OFFSET
        dst = os.path.join(V, 'seeded', '%s-%d' % (P, idx)); shutil.rmtree(dst, ignore_errors=True); os.makedirs(dst)
        shutil.copy(os.path.join(src, 'patch.diff'), dst)
        # demonstration: sources only, no build output, nothing above 300 kB
        def ignore(d, names): return [x for x in names if x in ('target', 'target-demo', '__pycache__') or (os.path.isfile(os.path.join(d, x)) and os.path.getsize(os.path.join(d, x)) > 300000)]
        if os.path.isdir(os.path.join(src, 'demo')): shutil.copytree(os.path.join(src, 'demo'), os.path.join(dst, 'demo'), ignore=ignore)
        meta = {}
        try: meta = json.load(open(os.path.join(src, 'meta.json')))
        except Exception as e: meta = {'note': 'meta.json of the sub-agent unreadable: %r' % e}
        confirm = open(os.path.join(src, 'confirm.txt')).read() if os.path.exists(os.path.join(src, 'confirm.txt')) else ''
        out = {'property': P, 'theme_round': theme, 'summary': meta.get('summary'), 'needs_to_manifest': meta.get('needs_to_manifest'), 'files_touched': meta.get('files_touched'),
               'demo_cmd': meta.get('demo_cmd'), 'produced_by': 'independent sub-agent given only the property text and a scratch worktree of /repo (HEAD 798d2be)',
               'confirmed_by_me': {'procedure': 'tools/confirm_seed.sh in the scratch worktree: git apply --check; cargo test --offline with the patch; demo with the patch; demo on HEAD',
                                   'patch_applies': 'patch applies: yes' in confirm, 'tests_with_patch': (re.search(r'tests with patch: (.*)', confirm) or [None, None])[1],
                                   'demo_with_patch_exit': (re.search(r'demo with patch: exit (\d+)', confirm) or [None, None])[1],
                                   'demo_without_patch_exit': (re.search(r'demo without patch: exit (\d+)', confirm) or [None, None])[1]}}
        # detection: apply to /repo, run the quick check of the property, undo
        if '--no-drill' not in sys.argv:
            p = subprocess.run([os.path.join(V, 'tools', os.environ.get('DRILL', 'drill.sh')), os.path.join(dst, 'patch.diff'), P, 'quick', '400'], capture_output=True)
            txt = p.stdout.decode(errors='replace')
            vio = [l for l in txt.split('\n') if l.startswith('VIOLATION')]
            summ = [l for l in txt.split('\n') if l.startswith(P + ' tier=')]
            out['detection'] = {'check': './check %s --tier quick' % P, 'violation_lines': vio[:3], 'summary': summ[-1] if summ else None,
                                'caught': bool(vio), 'with_failing_input': bool(vio) and not all('no-failing-input-found' in v for v in vio)}
            print(P, idx, theme or '', 'caught' if vio else 'MISSED', summ[-1] if summ else txt[-300:])
        json.dump(out, open(os.path.join(dst, 'meta.json'), 'w'), indent=1)

# index of all seeds
rows = ['# Seeded changes (written by independent sub-agents; none is ever committed to /repo)', '',
        'Each directory: `patch.diff`, `demo/` (fails with the patch, passes without), `meta.json` (what it breaks, what it needs to manifest, how it was confirmed, what the quick check of its property reported with the patch applied).', '',
        '| seed | change | needs to manifest | confirmed (tests green, demo fails/passes) | `./check <prop>` quick tier |', '|---|---|---|---|---|']
for d in sorted(os.listdir(os.path.join(V, 'seeded'))):
    mp = os.path.join(V, 'seeded', d, 'meta.json')
    if not os.path.exists(mp): continue
    m = json.load(open(mp)); c = m.get('confirmed_by_me', {}); det = m.get('detection', {})
    ok = c.get('patch_applies') and 'ok.' in (c.get('tests_with_patch') or '') and c.get('demo_with_patch_exit') not in (None, '0') and c.get('demo_without_patch_exit') == '0'
    cell = lambda x: (str(x or '')[:160]).replace('|', '/').replace('\n', ' ')
    rows.append('| %s | %s | %s | %s | %s |' % (d, cell(m.get('summary')), cell(m.get('needs_to_manifest')), 'yes' if ok else 'see meta.json',
                                               ('caught, failing input' if det.get('with_failing_input') else 'caught, no-failing-input-found') if det.get('caught') else 'MISSED'))
open(os.path.join(V, 'seeded', 'INDEX.md'), 'w').write('\n'.join(rows) + '\n')
