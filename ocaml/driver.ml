(* Driver for the extracted model: reads requests from stdin, prints canonical results.
   Trusted for the correspondence check only (hex/decimal conversion, printing); no theorem depends on it. *)
open Model

(* ---- conversions ---- *)
let rec pos_of_int i = if i = 1 then XH else if i land 1 = 1 then XI (pos_of_int (i lsr 1)) else XO (pos_of_int (i lsr 1))
let n_of_int i = if i = 0 then N0 else Npos (pos_of_int i)
let rec int_of_pos = function XH -> 1 | XO p -> 2 * int_of_pos p | XI p -> 2 * int_of_pos p + 1
let int_of_n = function N0 -> 0 | Npos p -> int_of_pos p
let ten = n_of_int 10
let n_of_dec s =
  let rec go acc i = if i = String.length s then acc else go (N.add (N.mul acc ten) (n_of_int (Char.code s.[i] - 48))) (i + 1) in
  go N0 0
let dec_of_n n = match n with N0 -> "0" | _ ->
  let rec go n acc = if n = N0 then acc else go (N.div n ten) (string_of_int (int_of_n (N.modulo n ten)) ^ acc) in go n ""
let rec nat_of_int i = let rec go i acc = if i = 0 then acc else go (i - 1) (S acc) in go i O
let rec int_of_nat n = let rec go n acc = match n with O -> acc | S m -> go m (acc + 1) in go n 0
let byte_tab = Array.init 256 n_of_int
let bytes_of_hex s =
  if s = "-" then [] else
  let n = String.length s / 2 in
  let rec go i acc = if i < 0 then acc else go (i - 1) (byte_tab.(int_of_string ("0x" ^ String.sub s (2 * i) 2)) :: acc) in
  go (n - 1) []
let hex_of l =
  let b = Buffer.create 256 in List.iter (fun x -> Buffer.add_string b (Printf.sprintf "%02x" (int_of_n x))) l; Buffer.contents b
let hex_or_dash l = match l with [] -> "-" | _ -> hex_of l
let rhex l = hex_of (List.rev l)
let str_of l = let b = Buffer.create 256 in List.iter (fun x -> Buffer.add_char b (Char.chr (int_of_n x))) l; Buffer.contents b
let chars_of s = List.init (String.length s) (fun i -> n_of_int (Char.code s.[i]))
let strip_nl s = if String.length s > 0 && s.[String.length s - 1] = '\n' then String.sub s 0 (String.length s - 1) else s

let tag_name t = match int_of_n t with
  | 0 -> "OpReturn" | 1 -> "Pay2MultiSig" | 2 -> "Pay2PublicKey" | 3 -> "Pay2PublicKeyHash" | 4 -> "Pay2ScriptHash"
  | 5 -> "Pay2WitnessPublicKeyHash" | 6 -> "Pay2WitnessScriptHash" | 7 -> "WitnessProgram" | 8 -> "Pay2Taproot"
  | 9 -> "Unspendable" | 10 -> "NotRecognised" | _ -> "ScriptError"

let mk_coin name = match x_coin_of_name (chars_of name) with Some c -> c | None -> failwith ("unknown coin " ^ name)

let kind_name = function ENoFile -> "nofile" | ERead -> "read" | EMerkle -> "merkle" | EGenesis -> "genesis" | EPrev -> "prev"

(* ---- one case ---- *)
type case = { mutable id : string; mutable coin : coin; mutable range : range; mutable verify : bool; mutable xor : bytes option;
              files : (string, extent list) Hashtbl.t; mutable recs : (bytes * bytes) list; mutable want : string list }
let new_case id = { id; coin = mk_coin "bitcoin"; range = { o_start = N0; o_end = None }; verify = false; xor = None;
                    files = Hashtbl.create 7; recs = []; want = [] }

let run_case_and_print (c : case) =
  Printf.printf "== %s\n" c.id;
  let d = { d_files = Hashtbl.fold (fun n exts acc -> { f_num = n_of_dec n; f_extents = exts } :: acc) c.files [];
            d_index = List.rev c.recs; d_xor = c.xor } in
  (match x_run_case c.coin d { o_range = c.range; o_verify = c.verify } with
   | StartupPanic -> print_endline "status startup-panic"
   | StartupError -> print_endline "status startup-error"
   | Run r ->
     let del = r.r_delivered in
     (match r.r_fail with
      | Some (h, FErr k) -> Printf.printf "status error %s %s\n" (dec_of_n h) (kind_name k)
      | Some (h, FPanic) -> Printf.printf "status panic %s\n" (dec_of_n h)
      | None -> Printf.printf "status done %s %s\n" (dec_of_n c.range.o_start) (dec_of_n (x_last_height r)));
     Printf.printf "delivered %s\n" (String.concat "," (List.map (fun (h, _) -> dec_of_n h) del));
     (* file names of the run, rendered by the model: "fname <callback> <k> <tmp name> <final name>" *)
     let names cb stems = List.iteri (fun k st -> Printf.printf "fname %s %d %s %s\n" cb k (str_of (x_tmp_name st)) (str_of (x_final_name st c.range.o_start (x_last_height r)))) stems in
     names "csv" x_csv_stems; names "unspent" [x_unspent_stem]; names "balances" [x_balances_stem];
     Printf.printf "header unspent %s\nheader balances %s\n" (strip_nl (str_of x_unspent_header)) (strip_nl (str_of x_balances_header));
     let want w = List.mem w c.want in
     if want "csv" then begin
       List.iter (fun (i, row) -> Printf.printf "csv%d %s\n" (int_of_nat i) (strip_nl (str_of row))) (x_csv_writes del);
       let ((t, i), o) = x_csv_totals del in Printf.printf "csvtotals %s %s %s\n" (dec_of_n t) (dec_of_n i) (dec_of_n o)
     end;
     if want "unspent" then begin
       List.iter (fun e -> Printf.printf "unspent %s\n" (strip_nl (str_of (x_unspent_row e)))) (x_utxo_final del);
       let ((t, i), o) = x_unspent_totals del in Printf.printf "unspenttotals %s %s %s\n" (dec_of_n t) (dec_of_n i) (dec_of_n o)
     end;
     if want "balances" then
       List.iter (fun e -> Printf.printf "balance %s\n" (strip_nl (str_of (x_balance_row e)))) (x_balances_final (x_utxo_final del));
     if want "opreturn" then
       List.iter (fun ((h, t), p) -> Printf.printf "opret %s %s %s\n" (dec_of_n h) (rhex t) (hex_of p)) (x_opreturn_lines del);
     if want "stats" then begin
       let s = x_stats_run del in
       Printf.printf "stat blocks %s\nstat tx %s\nstat in %s\nstat out %s\nstat fee %s\nstat vol %s\n"
         (dec_of_n s.a_blocks) (dec_of_n s.a_tx) (dec_of_n s.a_in) (dec_of_n s.a_out) (dec_of_n s.a_fee) (dec_of_n s.a_vol);
       (match s.a_bigv with Some ((v, h), t) -> Printf.printf "stat bigv %s %s %s\n" (dec_of_n v) (dec_of_n h) (rhex t) | None -> print_endline "stat bigv none");
       (match s.a_bigs with Some ((v, h), t) -> Printf.printf "stat bigs %s %s %s\n" (dec_of_n v) (dec_of_n h) (rhex t) | None -> print_endline "stat bigs none");
       let (s1, c1) = x_mean s.a_sizes and (s2, c2) = x_mean s.a_gaps in
       Printf.printf "stat meansize %s %s\nstat meangap %s %s\n" (dec_of_n s1) (dec_of_n c1) (dec_of_n s2) (dec_of_n c2);
       List.iter (fun (p, cnt) ->
         let ((h, t), _) = List.assoc p s.a_first in
         Printf.printf "stattype %s %s %s %s\n" (tag_name p) (dec_of_n cnt) (dec_of_n h) (rhex t)) s.a_types
     end;
     if want "opens" then
       List.iter (fun (h, o) -> Printf.printf "open %s %s\n" (dec_of_n h) (String.concat "," (List.sort compare (List.map dec_of_n o))))
         (x_open_trace r.r_ci [] (List.map fst del));
     (* output protocol under a size limit: want entries "limit:<cb>:<L>" *)
     List.iter (fun w ->
       match String.split_on_char ':' w with
       | ["limit"; cb; l] ->
         let (k, writes) = (match cb with
           | "csv" -> (4, x_csv_writes del)
           | "unspent" -> (1, x_unspent_writes r)
           | _ -> (1, x_balances_writes r)) in
         (match r.r_fail with
          | Some _ -> Printf.printf "limit %s %s aborted\n" cb l
          | None ->
            let (fs, code) = x_out_run (nat_of_int k) (n_of_dec l) writes in
            Printf.printf "limit %s %s exit %s files %s\n" cb l (dec_of_n code)
              (String.concat "," (List.sort compare (List.map (fun (name, content) -> Printf.sprintf "%s=%d" (dec_of_n name) (List.length content)) fs))))
       | _ -> ()) c.want);
  print_endline "== end"

(* ---- single-line requests ---- *)
let script_req name hex =
  let coin = mk_coin name in
  let e = x_eval_script coin (bytes_of_hex hex) in
  Printf.printf "%s|%s|%s\n" (tag_name e.e_tag) (match e.e_addr with Some a -> str_of a | None -> "-") (hex_or_dash e.e_text)

let record_req k v =
  match x_decode_record (bytes_of_hex k) (bytes_of_hex v) with
  | Ok r -> Printf.printf "ok|%s|%s|%s|%s|%d\n" (dec_of_n r.r_height) (dec_of_n r.r_status) (dec_of_n r.r_file) (dec_of_n r.r_off) (if x_admitted r then 1 else 0)
  | Eof -> print_endline "err"
  | Panic | Overflow -> print_endline "panic"

let block_req name size hex =
  let coin = mk_coin name in
  let data = bytes_of_hex hex in
  match x_read_block coin (n_of_dec size) data with
  | Ok (b, rest) ->
    let h = b.b_header in
    Printf.printf "ok|%d|%s|%s,%s,%s,%s,%s,%s|%d|%s|%s|%s\n" (List.length data - List.length rest) (rhex (x_block_hash b))
      (dec_of_n h.h_version) (rhex h.h_prev) (rhex h.h_merkle) (dec_of_n h.h_time) (dec_of_n h.h_bits) (dec_of_n h.h_nonce)
      (if b.b_aux then 1 else 0) (dec_of_n b.b_txcount.vval) (dec_of_n b.b_size)
      (String.concat ";" (List.map (fun t -> Printf.sprintf "%s:%s:%s:%s:%s:%s" (rhex (x_txid t)) (dec_of_n t.tx_version) (dec_of_n t.tx_locktime)
                                       (dec_of_n t.tx_incount.vval) (dec_of_n t.tx_outcount.vval) (hex_of (x_raw_tx t))) b.b_txs))
  | Eof -> print_endline "err"
  | Panic | Overflow -> print_endline "panic"

let xor_req filehex key bufsize chunks ops =
  let data = Array.of_list (bytes_of_hex filehex) in
  let f = { fsize = n_of_int (Array.length data); fat = (fun p -> let i = int_of_n p in if i < Array.length data then data.(i) else N0) } in
  let key = if key = "-" then None else Some (bytes_of_hex key) in
  let shorts = if chunks = "-" then [] else List.map (fun c -> nat_of_int (max 0 (int_of_string c - 1))) (String.split_on_char ',' chunks) in
  let ops = List.filter (fun o -> o <> "") (String.split_on_char ',' ops) in
  (* shorts pattern repeated for each read *)
  let rec rep l k = if k = 0 then [] else l @ rep l (k - 1) in
  let mops = List.map (fun o -> let n = int_of_string (String.sub o 1 (String.length o - 1)) in
                        if o.[0] = 's' then Seek (n_of_int n) else ReadExact (nat_of_int n, rep shorts 8)) ops in
  (* the model stops after the first failed read (the caller does); print E for it and for nothing after *)
  let res = x_reader_run f (nat_of_int (int_of_string bufsize)) key x_reader_fresh mops in
  let rec out ops res = match ops, res with
    | [], _ -> []
    | o :: r, _ when o.[0] = 's' -> ("S" ^ String.sub o 1 (String.length o - 1)) :: out r res
    | _ :: r, ROk l :: rr -> ("R" ^ hex_of l) :: out r rr
    | _ :: r, REof :: rr -> "E" :: out r rr
    | _ :: _, [] -> [] in
  print_endline (String.concat "," (out ops res))

let () =
  let cur = ref None in
  (try while true do
    let line = input_line stdin in
    let toks = String.split_on_char ' ' line in
    (match !cur, toks with
     | None, ["case"; id] -> cur := Some (new_case id)
     | Some c, ["coin"; name] -> c.coin <- mk_coin name
     | Some c, ["opts"; s; e; vf] -> c.range <- { o_start = n_of_dec s; o_end = (if e = "-" then None else Some (n_of_dec e)) }; c.verify <- (vf = "1")
     | Some c, "want" :: ws -> c.want <- ws
     | Some c, ["xor"; k] -> c.xor <- (if k = "-" then None else if k = "empty" then Some [] else Some (bytes_of_hex k))
     | Some c, ["file"; n; off; h] -> let l = try Hashtbl.find c.files n with Not_found -> [] in Hashtbl.replace c.files n (l @ [(n_of_dec off, bytes_of_hex h)])
     | Some c, ["rec"; k; v] -> c.recs <- (bytes_of_hex k, bytes_of_hex v) :: c.recs
     | Some c, ["rec"; k] -> c.recs <- (bytes_of_hex k, []) :: c.recs
     | Some c, ["end"] -> run_case_and_print c; cur := None
     | None, ["script"; v; h] -> script_req v h
     | None, ["script"; v] -> script_req v "-"
     | None, "mean" :: xs -> let (s, c) = x_mean (List.map n_of_dec (List.filter (fun x -> x <> "") xs)) in Printf.printf "%s %s\n" (dec_of_n s) (dec_of_n c)
     | None, ["reward"; h] -> print_endline (dec_of_n (x_base_reward (n_of_dec h)))
     | None, "merkle" :: hs -> (match x_merkle_root (List.map bytes_of_hex (List.filter (fun x -> x <> "") hs)) with Ok r -> print_endline (hex_of r) | _ -> print_endline "panic")
     | None, ["record"; k; v] -> record_req k v
     | None, ["record"; k] -> record_req k "-"
     | None, ["blkname"; name] -> (match x_parse_blk_index (chars_of name) with Some n -> print_endline (dec_of_n n) | None -> print_endline "none")
     | None, ["block"; name; size; h] -> block_req name size h
     | None, ["names"] -> Printf.printf "%s|%s|%s\n" (String.concat "," (List.map str_of x_csv_stems)) (str_of x_unspent_stem) (str_of x_balances_stem)
     | None, ["xor"; f; k; b; ch; ops] -> xor_req f k b ch ops
     | _, _ -> ());
  done with End_of_file -> ());
  flush stdout
